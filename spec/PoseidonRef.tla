----------------------------- MODULE PoseidonRef -----------------------------
(***************************************************************************)
(* Property-level definition of the Poseidon permutation over Goldilocks   *)
(* (https://eprint.iacr.org/2019/458, Hades strategy): width 12, x^7,      *)
(* 4 full + 22 partial + 4 full rounds, every round =                      *)
(*      AddRoundConstants ; S-box (all lanes | lane 1 only) ; MDS          *)
(* with the published constants (module PoseidonConstants, a snapshot) and *)
(* MDS = Circ(MdsCirc) + Diag(MdsDiag):                                    *)
(*      out[r] = SUM_i MdsCirc[i] * in[(i + r) mod 12] + MdsDiag[r]*in[r]  *)
(* Numbers are 8 little-endian byte limbs (module Limbs); every predicate  *)
(* takes *recorded* states and compares modulo p, so inputs and outputs    *)
(* may be non-canonical 64-bit representations.  Nothing here is           *)
(* transcribed from the optimised routines (no fast partial rounds, no     *)
(* frequency-domain MDS, no delayed reduction).                            *)
(*                                                                         *)
(* A whole permutation is checked LAYER BY LAYER on a recorded chain       *)
(* (TLC re-evaluates lazily passed arguments, so a nested definition of    *)
(* 30 rounds would be exponential): ChainOk(in, c, b, m) says that         *)
(* c[k], b[k], m[k] are the states after the constant, S-box and MDS layer *)
(* of round k-1; then Permutation(in) = m[30].                             *)
(***************************************************************************)
EXTENDS GF, PoseidonConstants

PW == PoseidonWidth
NFull == 2 * PoseidonHalfFullRounds
NRounds == NFull + PoseidonPartialRounds
Lanes == 1..PW

IsFullRound(r) == r < PoseidonHalfFullRounds \/ r >= PoseidonHalfFullRounds + PoseidonPartialRounds
RC(r, i) == RoundConstants[PW * r + i]                 \* round r in 0..29, lane i in 1..12

IsState(s) == Len(s) = PW /\ \A i \in Lanes : Is64(s[i])
EqState(a, b) == Len(a) = PW /\ Len(b) = PW /\ \A i \in Lanes : EqP(a[i], b[i])

\* ---- the three layers ---------------------------------------------------
ConstLayerOk(r, in, out) == \A i \in Lanes : EqP(out[i], AddP(in[i], RC(r, i)))

\* y = x^7; the bound variables force TLC to evaluate each product once
Pow7Ok(x, y) == \E x2 \in {MulP(x, x)} : \E x3 \in {MulP(x2, x)} : \E x4 \in {MulP(x2, x2)} :
                   EqP(y, MulP(x3, x4))
SboxLayerOk(full, in, out) ==
  \A i \in Lanes : IF full \/ i = 1 THEN Pow7Ok(in[i], out[i]) ELSE EqP(out[i], in[i])

\* byte-column k of row r of the matrix-vector product (small constants: no carries needed)
MdsCol(in, r, k) ==
  LET S[i \in 0..(PW - 1)] == MdsCirc[i + 1] * in[((i + r - 1) % PW) + 1][k]
                              + (IF i = PW - 1 THEN 0 ELSE S[i + 1])
  IN S[0] + MdsDiag[r] * in[r][k]
MdsRow(in, r) == ModP(Nat256(<<MdsCol(in, r, 1), MdsCol(in, r, 2), MdsCol(in, r, 3), MdsCol(in, r, 4),
                               MdsCol(in, r, 5), MdsCol(in, r, 6), MdsCol(in, r, 7), MdsCol(in, r, 8)>>))
MdsLayerOk(in, out) == \A r \in Lanes : ModP(out[r]) = MdsRow(in, r)

\* ---- the sparse layer of the restructured partial rounds ---------------------------
\* (Poseidon paper, appendix B: s * [[M00 | v], [w_hat | Id]]).  `wt` = <<M00, w_hat_1 .. w_hat_11>>,
\* `v` = <<v_1 .. v_11>>, recorded with the event (they are derived constants: that they are the
\* RIGHT ones is decided by partial_rounds = the textbook rounds; this predicate decides that the
\* routine computes exactly this matrix product - every product exact, every carry of the wide
\* accumulator kept):
\*      out[1] = SUM_i in[i] * wt[i]          out[i] = in[i] + in[1] * v[i-1]   (i = 2..12)
DiagPairs == [i \in Lanes |-> <<i, i>>]
SparseMdsOk(in, out, wt, v) ==
  /\ Len(wt) = PW /\ Len(v) = PW - 1 /\ \A i \in Lanes : Is64(wt[i])
  /\ ModP(out[1]) = ModP(Nat256(ColSum(in, wt, DiagPairs)))
  /\ \A i \in 2..PW : MacOk(in[i], in[1], v[i - 1], out[i])

\* ---- one round and the chain -------------------------------------------
RoundOk(r, prev, c, b, m) ==
  /\ IsState(c) /\ IsState(b) /\ IsState(m)
  /\ ConstLayerOk(r, prev, c)
  /\ SboxLayerOk(IsFullRound(r), c, b)
  /\ MdsLayerOk(b, m)

ChainOk(in, c, b, m) ==
  /\ IsState(in) /\ Len(c) = NRounds /\ Len(b) = NRounds /\ Len(m) = NRounds
  /\ \A r \in 0..(NRounds - 1) :
        RoundOk(r, IF r = 0 THEN in ELSE m[r], c[r + 1], b[r + 1], m[r + 1])

\* sanity of the snapshot itself
ConstantsOk ==
  /\ Len(RoundConstants) = PW * NRounds
  /\ \A j \in 1..Len(RoundConstants) : Is64(RoundConstants[j]) /\ ~Geq(RoundConstants[j], P8)
  /\ Len(MdsCirc) = PW /\ Len(MdsDiag) = PW
  /\ NRounds = 30 /\ PoseidonAlpha = 7
=============================================================================
