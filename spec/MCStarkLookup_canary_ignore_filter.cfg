CONSTANT P = 17
CONSTANT N = 2
CONSTANT MUT = "ignore_filter"
CONSTANT DIDS = {2}
INIT Init
NEXT Next
INVARIANT Theorem
CHECK_DEADLOCK FALSE
