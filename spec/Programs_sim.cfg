CONSTANT MaxLen = 12
CONSTANT Ops = {"const", "add", "sub", "mul", "neg", "square", "cube", "inverse", "div", "mul_const", "add_const", "arith", "mul_add", "mul_sub", "add_many", "mul_many", "exp_u64", "exp_pow2", "exp", "split", "split_base4", "range", "low_bits", "is_equal", "select", "not", "and", "or", "assert_bool", "random_access", "reduce", "emul", "eadd", "esub", "ediv", "lookup", "assert_comm", "assert_eq", "assert_zero", "hash", "hash_or_noop", "merkle"}
CONSTANT Mutant = "none"
INIT Init
NEXT Next
INVARIANT TypeOK
INVARIANT Emit
CHECK_DEADLOCK FALSE
