CONSTANT P = 97
CONSTANT G = 5
CONSTANT LOGN = 4
CONSTANT RB = 1
CONSTANT AR <- AR_21
CONSTANT Alphas <- AllFp
CONSTANT Betas <- F97_Betas
CONSTANT Disabled = {}
CONSTANT Polys2 <- F97_Polys2
CONSTANT Bats2 <- F97_Bats2
CONSTANT Enter = 1
CONSTANT PolySets <- F97_Polys
CONSTANT BatSets <- F97_Bats
CONSTANT Orc <- Orc_112
CONSTANT Deltas <- F97_Deltas
CONSTANT Mode = "small"
INIT Init
NEXT Next
INVARIANT TypeOK
INVARIANT Completeness
INVARIANT Soundness
INVARIANT OnlyFinalNotices
INVARIANT Emit
CHECK_DEADLOCK FALSE
