------------------------------ MODULE MCMerkle ------------------------------
(***************************************************************************)
(* TLC wrapper of Merkle (C12): theorem check + scenario generator.        *)
(* One state per scenario (h, capH, width class, position, tamper):        *)
(* (plus one group state per (h, capH, width class))                       *)
(*   - theorem: the honest opening verifies, every single change of the    *)
(*     leaf, the position, one sibling or the cap entry the path leads to  *)
(*     does not (Correct);                                                 *)
(*   - every scenario is printed as a REPLAY line with the verdict the     *)
(*     specification derives (`expect`); the harness replays it on         *)
(*     MerkleTree::new / prove / verify_merkle_proof_to_cap.               *)
(* "cap_unrelated" (a cap entry the path does not lead to was altered) is  *)
(* accepted by this walk; a verifier that rejected it would still satisfy  *)
(* the property, so the driver treats a mismatch there as DRIFT only.      *)
(***************************************************************************)
EXTENDS Merkle, Json

CONSTANTS MaxH,      \* tree heights 0..MaxH
          Widths,    \* leaf width classes, e.g. {1, 4, 5, 9}
          Mutant     \* "none" | "noswap" | "capany"

VARIABLE s

Leaves(h) == [j \in 0..(Pow2(h) - 1) |-> <<"v", j>>]
Fresh == <<"v", 1000>>

Tampers(h, capH, i) ==
  {[kind |-> "none", pos |-> 0], [kind |-> "leaf_fresh", pos |-> 0]}
  \cup {[kind |-> "leaf_other", pos |-> j] : j \in (0..(Pow2(h) - 1)) \ {i}}
  \cup {[kind |-> "index", pos |-> j] : j \in (0..(Pow2(h) - 1)) \ {i}}
  \cup {[kind |-> "sibling", pos |-> k] : k \in 1..(h - capH)}
  \cup {[kind |-> IF c = Shr(i, h - capH) THEN "cap" ELSE "cap_unrelated", pos |-> c] :
          c \in 0..(Pow2(capH) - 1)}

\* two-level fan-out so that TLC's workers share the scenarios: a group state (kind "group")
\* per (h, capH, w), whose successors are the scenarios of that group
Groups ==
  UNION {UNION {
     {[h |-> h, capH |-> capH, w |-> w, i |-> 0, kind |-> "group", pos |-> 0] : w \in Widths}
     : capH \in 0..h} : h \in 0..MaxH}
ScenariosOf(g) ==
  UNION {{[h |-> g.h, capH |-> g.capH, w |-> g.w, i |-> i, kind |-> t.kind, pos |-> t.pos] :
          t \in Tampers(g.h, g.capH, i)} : i \in 0..(Pow2(g.h) - 1)}

Expect(sc) == sc.kind \in {"none", "cap_unrelated"}

Verdict(sc) ==
  LET lv    == Leaves(sc.h)
      path0 == Path(lv, sc.w, sc.h, sc.capH, sc.i)
      cap0  == CapOf(lv, sc.w, sc.h, sc.capH)
      leaf  == CASE sc.kind = "leaf_fresh" -> Fresh
                 [] sc.kind = "leaf_other" -> lv[sc.pos]
                 [] OTHER -> lv[sc.i]
      idx   == IF sc.kind = "index" THEN sc.pos ELSE sc.i
      path  == IF sc.kind = "sibling" THEN [path0 EXCEPT ![sc.pos] = <<"x", sc.pos>>] ELSE path0
      cap   == IF sc.kind \in {"cap", "cap_unrelated"} THEN [cap0 EXCEPT ![sc.pos] = <<"x", 99>>]
               ELSE cap0
  IN  VerifyM(sc.w, leaf, idx, path, cap, Mutant)

Init == s \in Groups
Next == s.kind = "group" /\ s' \in ScenariosOf(s)

Correct == s.kind # "group" => Verdict(s) = Expect(s)
Emit == s.kind # "group" => PrintT("REPLAY " \o ToJson([h |-> s.h, capH |-> s.capH, w |-> s.w, i |-> s.i,
                                    kind |-> s.kind, pos |-> s.pos, expect |-> Expect(s)]))
=============================================================================
