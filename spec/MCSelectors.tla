----------------------------- MODULE MCSelectors -----------------------------
(* all sorted degree sequences of 1..MaxGates gates with degrees 0..MaxGateDeg, all MaxDeg in a range *)
EXTENDS Selectors
CONSTANTS MaxGates, MaxGateDeg, Mutant
VARIABLES degs, maxdeg
Sorted(s) == \A i \in 1..(Len(s) - 1) : s[i] <= s[i + 1]
Seqs == UNION {[1..n -> 0..MaxGateDeg] : n \in 1..MaxGates}
Init == degs \in {s \in Seqs : Sorted(s)} /\ maxdeg \in 4..9
Next == UNCHANGED <<degs, maxdeg>>
\* canary: a grouping rule that forgets the group size
RECURSIVE SizeFromM(_, _, _, _)
SizeFromM(d, start, size, md) == IF start + size < Len(d) /\ d[start + size + 1] < md THEN SizeFromM(d, start, size + 1, md) ELSE size
RECURSIVE GreedyM(_, _, _)
GreedyM(d, start, md) == IF start >= Len(d) THEN <<>> ELSE LET sz == SizeFromM(d, start, 0, md) IN << <<start, sz>> >> \o GreedyM(d, start + sz, md)
G == IF Mutant = "ignore_size" /\ ~SingleGroup(degs, maxdeg) THEN GreedyM(degs, 0, maxdeg) ELSE Groups(degs, maxdeg)
Inv == Admissible(degs, maxdeg) => GroupsOk(degs, maxdeg, G) /\ FiltersOk(degs, G)
=============================================================================
