CONSTANTS
  RATE = 8
  WIDTH = 12
  Disabled = {"circuit_digest"}
  UseEnvConfigs = FALSE
INIT Init
NEXT Next
CHECK_DEADLOCK FALSE
INVARIANT FS1
