--------------------------------- MODULE GF ---------------------------------
(***************************************************************************)
(* Property-level definitions for the Goldilocks field and its binomial    *)
(* extensions F_p[X]/(X^D - Wc), D in {2,4,5}, on byte-limb numbers        *)
(* (module Limbs).  "XxxOk" predicates are what a recorded operation of    *)
(* the implementation must satisfy; operands may be non-canonical 64-bit   *)
(* representations, results are compared modulo p.                         *)
(***************************************************************************)
EXTENDS Limbs, TLC

Is64(x) == Len(x) = 8 /\ IsNat256(x)

AddOk(a, b, r) == Is64(r) /\ EqP(r, AddP(a, b))
SubOk(a, b, r) == Is64(r) /\ EqP(r, SubP(a, b))
NegOk(a, r)    == Is64(r) /\ EqP(r, NegP(a))
MulOk(a, b, r) == Is64(r) /\ EqP(r, MulP(a, b))
\* r = s + x * y
MacOk(s, x, y, r) == Is64(r) /\ EqP(r, ModP(AddN(s, MulN(x, y))))
\* r = a^-1 (a # 0 mod p)
InvOk(a, r) == Is64(r) /\ ModP(a) # Zero8 /\ MulP(a, r) = One8
\* try_inverse: None exactly for the representations of zero (0 and p), otherwise the inverse
TryInvOk(a, none, r) == IF ModP(a) = Zero8 THEN none ELSE ~none /\ InvOk(a, r)
IsZeroOk(a, z) == z <=> (ModP(a) = Zero8)
EqOk(a, b, z) == z <=> EqP(a, b)
\* r = a^e, e an arbitrary natural
ExpOk(a, e, r) == Is64(r) /\ EqP(r, PowP(a, e))
\* r is the canonical representative of a
CanonOk(a, r) == Is64(r) /\ ~Geq(r, P8) /\ EqP(r, a)
\* reduction of an arbitrary natural n (u96 / u128 inputs)
RedOk(n, r) == Is64(r) /\ EqP(r, n)
\* signed input: mag = |n|
FromSignedOk(neg, mag, r) == Is64(r) /\ ~Geq(r, P8)
                             /\ EqP(r, IF neg THEN NegP(ModP(mag)) ELSE mag)

\* ---- extensions ---------------------------------------------------------
ExtW(D) == IF D = 5 THEN 3 ELSE 7
IsExt(D, a) == Len(a) = D /\ \A i \in 1..D : Is64(a[i])
CanonExt(a) == Tup([i \in 1..Len(a) |-> ModP(a[i])], Len(a))
EqExt(a, b) == CanonExt(a) = CanonExt(b)
ExtZero(D) == [i \in 1..D |-> Zero8]
ExtOne(D) == [i \in 1..D |-> IF i = 1 THEN One8 ELSE Zero8]

ColAdd(c1, c2) == [i \in 1..Max(Len(c1), Len(c2)) |-> At(c1, i) + At(c2, i)]
ColScale(c, k) == [i \in 1..Len(c) |-> c[i] * k]
\* sum of the product columns a[i]*b[j] over the index pairs in S (a sequence of <<i,j>>)
RECURSIVE ColSum(_, _, _)
ColSum(a, b, S) == IF Len(S) = 0 THEN <<>>
                   ELSE ColAdd(MulCols(a[S[1][1]], b[S[1][2]]), ColSum(a, b, Tail(S)))
PairsSum(D, t) ==     \* index pairs (i,j), 1-based coefficients, with (i-1)+(j-1) = t
  LET Rg == {i \in 1..D : t - (i - 1) >= 0 /\ t - (i - 1) <= D - 1}
      RECURSIVE Mk(_)
      Mk(i) == IF i > D THEN <<>>
               ELSE (IF i \in Rg THEN << <<i, t - (i - 1) + 1>> >> ELSE <<>>) \o Mk(i + 1)
  IN Mk(1)
\* schoolbook product modulo X^D - Wc on canonical operands
ExtMul(D, a0, b0) ==
  LET a == TLCEval(CanonExt(a0))  b == TLCEval(CanonExt(b0)) IN
  Tup([k \in 1..D |-> ModP(Nat256(ColAdd(ColSum(a, b, PairsSum(D, k - 1)),
                                      ColScale(ColSum(a, b, PairsSum(D, k - 1 + D)), ExtW(D)))))], D)
ExtAdd(a, b) == [i \in 1..Len(a) |-> AddP(a[i], b[i])]
ExtSub(a, b) == [i \in 1..Len(a) |-> SubP(a[i], b[i])]

ExtEqOk(D, a, b) == IsExt(D, a) /\ IsExt(D, b) /\ EqExt(a, b)
ExtMulOk(D, a, b, r) == IsExt(D, r) /\ EqExt(r, ExtMul(D, a, b))
ExtAddOk(D, a, b, r) == IsExt(D, r) /\ EqExt(r, ExtAdd(a, b))
ExtSubOk(D, a, b, r) == IsExt(D, r) /\ EqExt(r, ExtSub(a, b))
ExtInvOk(D, a, r) == IsExt(D, r) /\ CanonExt(a) # ExtZero(D) /\ ExtMul(D, a, r) = ExtOne(D)

RECURSIVE ExtPowBits(_, _, _, _)
ExtPowBits(D, base, bits, acc) ==
  IF Len(bits) = 0 THEN acc
  ELSE LET sq == ExtMul(D, acc, acc)
       IN ExtPowBits(D, base, Tail(bits), IF Head(bits) = 1 THEN ExtMul(D, sq, base) ELSE sq)
ExtPow(D, a, e) == ExtPowBits(D, CanonExt(a), BitsMsb(e), ExtOne(D))
ExtExpOk(D, a, e, r) == IsExt(D, r) /\ EqExt(r, ExtPow(D, a, e))
\* Frobenius: r = a^p (by square and multiply with exponent p)
ExtFrobOk(D, a, r) == ExtExpOk(D, a, P8, r)

\* a^e witnessed by its square-and-multiply chain: bits = binary digits of e (msb first, 64 of
\* them), steps[1] = 1, steps[i+1] = steps[i]^2 * (a if bits[i] = 1); r = last step.  Linear
\* in the exponent length (the nested definition ExtPow is exponential for TLC's lazy values).
ExtChainOk(D, a, e, bits, steps, sqs, r) ==
  /\ IsExt(D, r) /\ Len(steps) = Len(bits) + 1 /\ Len(sqs) = Len(bits)
  /\ bits = BitsMsb(e)
  /\ steps[1] = ExtOne(D)
  \* every ExtMul below is applied to recorded values only: TLC passes operator arguments
  \* lazily and re-evaluates them at every use, so nested products are exponential
  /\ \A i \in 1..Len(bits) :
        /\ sqs[i] = ExtMul(D, steps[i], steps[i])
        /\ steps[i + 1] = IF bits[i] = 1 THEN ExtMul(D, sqs[i], a) ELSE sqs[i]
  /\ EqExt(r, steps[Len(steps)])

\* batch inversion: every r[i] inverts x[i]
BatchInvOk(xs, rs) == Len(xs) = Len(rs) /\ \A i \in 1..Len(xs) : InvOk(xs[i], rs[i])
=============================================================================
