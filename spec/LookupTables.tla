----------------------------- MODULE LookupTables -----------------------------
(***************************************************************************)
(* Table identity in multi-table circuits (plonk/circuit_builder.rs        *)
(* update_luts_from_pairs / is_stored; companion of LookupLayout.tla).     *)
(*                                                                         *)
(* add_lookup_table_from_pairs stores a table once: it returns the index   *)
(* of an already stored table EQUAL to the new one (the whole entry        *)
(* sequence), otherwise appends it.  add_lookup_from_index(x, i) then      *)
(* attaches the lookup to stored table i, and add_all_lookups places one   *)
(* block of LookupGate / LookupTableGate / Noop rows per STORED table, the *)
(* lookups of all declared tables that share it concatenated.              *)
(*                                                                         *)
(* Property level (C08: "provable exactly for the pairs of ITS table"):    *)
(*   LookupExact: the stored table a declared table is mapped to has       *)
(*   exactly the declared table's pairs - whatever the other tables of the *)
(*   circuit contain.                                                      *)
(* DedupRule = "equal" is the code.  DedupRule = "common_prefix" (two      *)
(* tables count as the same when they agree on the length of the shorter   *)
(* one) is the mutant: a lookup into table A of a pair that only table B   *)
(* has is then accepted (B declared first), or an honest lookup into the   *)
(* tail of B is unprovable (A declared first); TLC refutes LookupExact.    *)
(*                                                                         *)
(* Scenario family (REPLAY lines, two / three tables related to a base     *)
(* table A): identical; a proper prefix, both declaration orders; same     *)
(* inputs with different outputs from some entry on; the same entries in   *)
(* another order; a one-entry difference at the first / at the last entry; *)
(* three-table mixtures.  Sizes: small (7 / 4) and one where the tail      *)
(* beyond the prefix lies in a second LookupTableGate row (S + 3 / S).     *)
(* Every declared table is looked up at its first and its LAST entry.      *)
(* The layout is predicted per stored table exactly as in LookupLayout.    *)
(***************************************************************************)
EXTENDS Integers, Sequences, FiniteSets, TLC, Json

CONSTANTS Widths,       \* subset of {"std", "wide", "narrow"}
          DedupRule     \* "equal" | "common_prefix"

Routed(w) == IF w = "std" THEN 80 ELSE IF w = "wide" THEN 120 ELSE 30
LU(w) == Routed(w) \div 2
LUT(w) == Routed(w) \div 3
CeilDiv(a, b) == (a + b - 1) \div b
NumLookupPolys(w) == CeilDiv(LU(w), 7) + 1
Min(a, b) == IF a < b THEN a ELSE b

(* ---------------- related tables ---------------- *)
Base(n) == [e \in 1..n |-> <<e - 1, ((e - 1) % 3) * 7 + 2>>]          \* distinct inputs, duplicate outputs
Prefix(t, k) == SubSeq(t, 1, k)
Bump(t, S) == [e \in 1..Len(t) |-> IF e \in S THEN <<t[e][1], t[e][2] + 1>> ELSE t[e]]
Rev(t) == [e \in 1..Len(t) |-> t[Len(t) + 1 - e]]
Sizes(w) == {<<7, 4>>, <<LUT(w) + 3, LUT(w)>>}                         \* <<length of A, length of the prefix>>
Related(n, k) ==
  LET A == Base(n) IN
  { [rel |-> "identical", tables |-> <<A, A>>],
    [rel |-> "prefix_long_first", tables |-> <<A, Prefix(A, k)>>],
    [rel |-> "prefix_short_first", tables |-> <<Prefix(A, k), A>>],
    [rel |-> "diff_outputs_from", tables |-> <<A, Bump(A, (k + 1)..n)>>],
    [rel |-> "permuted", tables |-> <<A, Rev(A)>>],
    [rel |-> "diff_first", tables |-> <<A, Bump(A, {1})>>],
    [rel |-> "diff_last", tables |-> <<A, Bump(A, {n})>>],
    [rel |-> "long_prefix_identical", tables |-> <<A, Prefix(A, k), A>>],
    [rel |-> "short_long_shorter", tables |-> <<Prefix(A, k), A, Prefix(A, 2)>>],
    [rel |-> "permuted_difflast", tables |-> <<A, Rev(A), Bump(A, {n})>>] }
\* honest lookups of a table of n entries (0-based entries): first, LAST, second, LAST
LookupsOf(n) == <<0, n - 1, 1 % n, n - 1>>

(* ---------------- the builder's table store ---------------- *)
Same(a, b) == IF DedupRule = "equal" THEN a = b
              ELSE LET m == Min(Len(a), Len(b)) IN SubSeq(a, 1, m) = SubSeq(b, 1, m)
FirstSame(S, t) == IF \E i \in 1..Len(S) : Same(S[i], t) THEN CHOOSE i \in 1..Len(S) : Same(S[i], t) /\ \A h \in 1..(i - 1) : ~Same(S[h], t) ELSE 0
RECURSIVE StoredAfter(_, _)
StoredAfter(ts, j) == IF j = 0 THEN << >>
                      ELSE LET S == StoredAfter(ts, j - 1) IN IF FirstSame(S, ts[j]) = 0 THEN Append(S, ts[j]) ELSE S
\* 1-based index returned for declared table j
IndexOf(ts, j) == LET S == StoredAfter(ts, j - 1) IN IF FirstSame(S, ts[j]) = 0 THEN Len(S) + 1 ELSE FirstSame(S, ts[j])
RECURSIVE Concat(_, _, _, _)
Concat(ts, i, j, acc) == IF j > Len(ts) THEN acc
                         ELSE Concat(ts, i, j + 1, IF IndexOf(ts, j) = i THEN acc \o LookupsOf(Len(ts[j])) ELSE acc)
\* stored tables with the lookups of all declared tables mapped to them
Blocks(ts) == LET S == StoredAfter(ts, Len(ts)) IN [i \in 1..Len(S) |-> [tab |-> S[i], lk |-> Concat(ts, i, 1, << >>)]]

VARIABLES width, scen, layout
vars == <<width, scen, layout>>

(* ---------------- layout per stored table (as LookupLayout) ---------------- *)
LuRows(w, b) == CeilDiv(Len(b.lk), LU(w))
LutRows(w, b) == ((Len(b.tab) - 1) \div LUT(w)) + 1
RECURSIVE Offset(_, _, _)
Offset(w, bs, i) == IF i = 1 THEN 0 ELSE Offset(w, bs, i - 1) + LuRows(w, bs[i - 1]) + LutRows(w, bs[i - 1]) + 1
RowsOf(w, bs, i) == LET off == Offset(w, bs, i)
                        lut0 == off + LuRows(w, bs[i])
                    IN [last_lu |-> off, last_lut |-> lut0, first_lut |-> lut0 + LutRows(w, bs[i]) - 1, noop |-> lut0 + LutRows(w, bs[i])]
LuPad(w, b) == (LU(w) - (Len(b.lk) % LU(w))) % LU(w)
LutPad(w, b) == (LUT(w) - (Len(b.tab) % LUT(w))) % LUT(w)
Mult(w, b) == [e \in 1..Len(b.tab) |-> Cardinality({k \in 1..Len(b.lk) : b.lk[k] = e - 1}) + (IF e = 1 THEN LuPad(w, b) ELSE 0)]
Layout(w, ts) ==
  LET bs == Blocks(ts) IN
  [rows |-> [i \in 1..Len(bs) |-> RowsOf(w, bs, i)],
   lu_pad |-> [i \in 1..Len(bs) |-> LuPad(w, bs[i])],
   lut_pad |-> [i \in 1..Len(bs) |-> LutPad(w, bs[i])],
   mult |-> [i \in 1..Len(bs) |-> Mult(w, bs[i])],
   indices |-> [j \in 1..Len(ts) |-> IndexOf(ts, j) - 1],
   num_lookup_polys |-> NumLookupPolys(w),
   num_lookup_selectors |-> 4 + Len(bs)]

Scenario(w, sc, lay) ==
  [width |-> w, rel |-> sc.rel, lu_slots |-> LU(w), lut_slots |-> LUT(w),
   classes |-> [j \in 1..Len(sc.tables) |-> [n |-> Len(sc.tables[j]), m |-> Len(LookupsOf(Len(sc.tables[j]))), pat |-> "rel", fl |-> sc.rel]],
   tables |-> [j \in 1..Len(sc.tables) |-> [pairs |-> sc.tables[j], lookups |-> LookupsOf(Len(sc.tables[j]))]],
   expect |-> lay]

Init == /\ width \in Widths
        /\ scen \in UNION {Related(sz[1], sz[2]) : sz \in Sizes(width)}
        /\ layout = << >>
Next == /\ layout = << >>
        /\ layout' = Layout(width, scen.tables)
        /\ UNCHANGED <<width, scen>>
Spec == Init /\ [][Next]_vars
Done == layout # << >>

(* ---------------- obligations ---------------- *)
PairsOf(t) == {t[e] : e \in 1..Len(t)}
\* property level: a declared table is looked up in a stored table with exactly its pairs
LookupExact == Done =>
  LET S == StoredAfter(scen.tables, Len(scen.tables)) IN
  \A j \in 1..Len(scen.tables) : PairsOf(S[layout.indices[j] + 1]) = PairsOf(scen.tables[j])
\* every honest lookup names an entry of the stored table that carries the declared table's pair
HonestProvable == Done =>
  LET S == StoredAfter(scen.tables, Len(scen.tables)) IN
  \A j \in 1..Len(scen.tables) : \A k \in 1..4 :
    LET e == LookupsOf(Len(scen.tables[j]))[k] IN scen.tables[j][e + 1] \in PairsOf(S[layout.indices[j] + 1])
\* implementation shape: equal tables share an index, different tables never do
IndicesByEquality == Done =>
  \A j, k \in 1..Len(scen.tables) : (layout.indices[j] = layout.indices[k]) <=> (scen.tables[j] = scen.tables[k])
RECURSIVE SumSeq(_, _)
SumSeq(s, i) == IF i > Len(s) THEN 0 ELSE s[i] + SumSeq(s, i + 1)
MultTotal == Done =>
  \A i \in 1..Len(layout.rows) : SumSeq(layout.mult[i], 1) = (layout.rows[i].last_lut - layout.rows[i].last_lu) * LU(width)
RowsOrdered == Done =>
  \A i \in 1..Len(layout.rows) :
    LET r == layout.rows[i] IN
    /\ r.last_lu < r.last_lut /\ r.last_lut <= r.first_lut /\ r.noop = r.first_lut + 1
    /\ (i < Len(layout.rows) => layout.rows[i + 1].last_lu = r.noop + 1)
TablesAdmissible == Done =>
  \A j \in 1..Len(scen.tables) : LET t == scen.tables[j]
                                 IN Cardinality({t[e][1] : e \in 1..Len(t)}) = Len(t) /\ \A e \in 1..Len(t) : t[e][1] \in 0..65535 /\ t[e][2] \in 0..65535
Emit == Done => PrintT("REPLAY " \o ToJson(Scenario(width, scen, layout)))
=============================================================================
