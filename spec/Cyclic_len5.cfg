CONSTANT MaxLen = 5
CONSTANT Mutant = "none"
INIT Init
NEXT Next
INVARIANT ChainSound
INVARIANT StepProofsGood
INVARIANT CheckVDExact
INVARIANT NoAlteredAccepted
INVARIANT Emit
CHECK_DEADLOCK FALSE
