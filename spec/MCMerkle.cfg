CONSTANT MaxH = 4
CONSTANT Widths = {1, 4, 5, 9}
CONSTANT Mutant = "none"
INIT Init
NEXT Next
INVARIANT Correct
INVARIANT Emit
CHECK_DEADLOCK FALSE
