CONSTANT Widths = {"std"}
CONSTANT DedupRule = "common_prefix"
INIT Init
NEXT Next
INVARIANT LookupExact
CHECK_DEADLOCK FALSE
