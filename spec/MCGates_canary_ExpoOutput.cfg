CONSTANT P = 17
CONSTANT ALPHA = 3
CONSTANT GEN = 3
CONSTANT DropKind = "expo"
CONSTANT DropIdx = 4
CONSTANT Cases <- CasesExpo
CONSTANT Sel = {}
CONSTANT DegShift = 0
INIT InitRows
NEXT NextRows
INVARIANT Satisfied
INVARIANT PinnedInv
CHECK_DEADLOCK FALSE
