CONSTANT Widths = {"std", "wide", "narrow"}
CONSTANT Heavy = {65535, 65536, 65541}
INIT Init
NEXT Next
INVARIANT RowsOrdered
INVARIANT CellsDistinct
INVARIANT MultTotal
INVARIANT TablesAdmissible
INVARIANT Emit
CHECK_DEADLOCK FALSE
