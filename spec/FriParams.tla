----------------------------- MODULE FriParams -----------------------------
(***************************************************************************)
(* FRI reduction schedules and derived parameters (property C05).          *)
(*                                                                         *)
(* Implementation-shaped tier: a transcription of                          *)
(*   plonky2/src/fri/reduction_strategies.rs                               *)
(*     FriReductionStrategy::reduction_arity_bits  (Fixed,                 *)
(*     ConstantArityBits(arity_bits, final_poly_bits), MinSize(opt_max)),  *)
(*     min_size_arity_bits, min_size_arity_bits_helper (recursive search), *)
(*     relative_proof_size                                                 *)
(*   plonky2/src/fri/mod.rs  FriParams::{total_arities, lde_bits,          *)
(*     final_poly_bits, final_poly_len}.                                   *)
(* All arithmetic of the code is on usize; the only subtraction that can   *)
(* underflow (degree_bits + rate_bits - arity_bits in ConstantArityBits)   *)
(* is modelled explicitly: it wraps in release builds, the loop guard then *)
(* holds and the following assert!(degree_bits >= arity_bits) fails, i.e.  *)
(* the call panics (debug builds panic one line earlier).                  *)
(*                                                                         *)
(* Property-level tier: ScheduleOk / CapRespected / MinSizeOptimal below.  *)
(***************************************************************************)
EXTENDS Integers, Sequences, FiniteSets, TLC

Sum(s) == LET RECURSIVE S(_) S(i) == IF i = 0 THEN 0 ELSE s[i] + S(i - 1) IN S(Len(s))
Min2(a, b) == IF a < b THEN a ELSE b
Pow2(k) == 2 ^ k

(* ---- strategies: records -------------------------------------------------
   [kind |-> "Fixed", bits |-> <<...>>]
   [kind |-> "Const", a |-> arity_bits, f |-> final_poly_bits]
   [kind |-> "MinSize", max |-> opt_max_arity_bits or -1 for None]            *)

(* relative_proof_size(degree_bits, rate_bits, num_queries, arity_bits), D = 4 *)
RECURSIVE RelLoop(_, _, _, _, _, _)
RelLoop(bits, i, cur, rb, q, total) ==
  IF i > Len(bits)
  THEN total + 4 * Pow2(cur - rb)          \* final polynomial; assert!(cur >= rb) holds on the search space
  ELSE RelLoop(bits, i + 1, cur - bits[i], rb, q,
               total + (Pow2(bits[i]) - 1) * 4 * q + cur * 4 * q)
RelSize(db, rb, q, bits) == RelLoop(bits, 1, db + rb, rb, q, 0)

(* min_size_arity_bits_helper: returns <<arity_bits, size>>.  The loop over
   next_arity_bits is the inner recursion; `best` is replaced only by a strictly
   smaller size (first minimum in search order wins). *)
RECURSIVE MinHelper(_, _, _, _, _), MinLoop(_, _, _, _, _, _, _)
MinLoop(db, rb, q, maxA, prefix, next, best) ==
  IF next > maxA THEN best
  ELSE LET r == MinHelper(db, rb, q, maxA, Append(prefix, next))
           nb == IF r[2] < best[2] THEN r ELSE best
       IN MinLoop(db, rb, q, maxA, prefix, next + 1, nb)
MinHelper(db, rb, q, gmax, prefix) ==
  LET cur  == db + rb - Sum(prefix)
      maxA == Min2(IF Len(prefix) = 0 THEN gmax ELSE prefix[Len(prefix)], cur - rb)
  IN MinLoop(db, rb, q, maxA, prefix, 1, <<prefix, RelSize(db, rb, q, prefix)>>)
MinSizeBits(db, rb, q, max) == MinHelper(db, rb, q, IF max < 0 THEN 4 ELSE max, <<>>)[1]

(* ConstantArityBits loop; result [ok |-> FALSE] = panic *)
RECURSIVE ConstLoop(_, _, _, _, _, _)
ConstLoop(db, rb, cap, a, f, acc) ==
  IF db > f /\ (db + rb < a \/ db + rb - a >= cap)      \* usize wrap when db + rb < a
  THEN IF db < a THEN [ok |-> FALSE, bits |-> acc]      \* assert!(degree_bits >= arity_bits)
       ELSE ConstLoop(db - a, rb, cap, a, f, Append(acc, a))
  ELSE [ok |-> TRUE, bits |-> acc]

ReductionArityBits(st, db, rb, cap, q) ==
  CASE st.kind = "Fixed"   -> [ok |-> TRUE, bits |-> st.bits]
    [] st.kind = "Const"   -> ConstLoop(db, rb, cap, st.a, st.f, <<>>)
    [] st.kind = "MinSize" -> [ok |-> TRUE, bits |-> MinSizeBits(db, rb, q, st.max)]

(* ---- derived FriParams -------------------------------------------------- *)
TotalArities(bits) == Sum(bits)
LdeBits(db, rb)    == db + rb
FinalPolyBits(db, bits) == db - Sum(bits)
FinalPolyLen(db, bits)  == Pow2(db - Sum(bits))
Prefix(bits, k) == SubSeq(bits, 1, k)
(* number of leaves (log2) of the commit-phase tree of layer i (1-based): the layer's
   codeword has 2^(lde_bits - sum of earlier arities) points, grouped in cosets of arity *)
LayerTreeBits(db, rb, bits, i) == db + rb - Sum(Prefix(bits, i))

(* fri_verify_proof_of_work: leading zeros of the canonical 64-bit response >= proof_of_work_bits
   + (64 - bits of the field order); the Goldilocks order has 64 bits *)
PowOk(zeros, bits) == zeros >= bits

(* ---- property-level predicates ----------------------------------------- *)
(* the schedule is usable at all: it never folds past the degree *)
ScheduleOk(db, bits) == /\ \A i \in 1..Len(bits) : bits[i] >= 1
                        /\ Sum(bits) <= db
(* no commit-phase tree is lower than the cap *)
CapRespected(db, rb, cap, bits) == \A i \in 1..Len(bits) : LayerTreeBits(db, rb, bits, i) >= cap
(* what an honest prover / the verifier need (Appendix B of DESIGN.md): *)
Admissible(db, rb, cap, bits) == /\ ScheduleOk(db, bits) /\ CapRespected(db, rb, cap, bits)
                                 /\ db + rb >= cap        \* the initial oracles' trees
(* ConstantArityBits stops only for one of its two documented reasons, and not a step too late *)
ConstStopsRight(db, rb, cap, a, f, bits) ==
  LET d == db - Sum(bits)
  IN /\ \A i \in 1..Len(bits) : bits[i] = a
     /\ (d <= f \/ d + rb < a \/ d + rb - a < cap)
     /\ Len(bits) > 0 => d + a > f

(* candidate set of the MinSize search: non-increasing, parts in 1..gmax, total <= db *)
RECURSIVE Cands(_, _, _)
Cands(budget, top, prefix) ==
  {prefix} \cup UNION {Cands(budget - k, k, Append(prefix, k)) : k \in 1..Min2(top, budget)}
LexLess(s, t) ==      \* s strictly before t in the search (pre-)order
  \E k \in 0..Min2(Len(s), Len(t)) :
     /\ \A i \in 1..k : s[i] = t[i]
     /\ \/ k = Len(s) /\ k < Len(t)
        \/ k < Len(s) /\ k < Len(t) /\ s[k + 1] < t[k + 1]
MinSizeOptimal(db, rb, q, max, bits) ==
  LET gmax == IF max < 0 THEN 4 ELSE max
      C == Cands(db, gmax, <<>>)
      sz == RelSize(db, rb, q, bits)
  IN /\ bits \in C
     /\ \A c \in C : LET s == RelSize(db, rb, q, c) IN s > sz \/ (s = sz /\ (c = bits \/ LexLess(bits, c)))
=============================================================================
