CONSTANT P = 17
CONSTANT ALPHA = 3
CONSTANT GEN = 3
CONSTANT DropKind = "none"
CONSTANT DropIdx = 0
CONSTANT Cases <- CasesDeg
CONSTANT Sel = {}
CONSTANT DegShift = 0
INIT InitDeg
NEXT NextDeg
INVARIANT DegreeInv
INVARIANT DegreeExactInv
CHECK_DEADLOCK FALSE
