---------------------------- MODULE MCChallenger ----------------------------
(***************************************************************************)
(* TLC wrapper for C13 (sponge part): runs the ideal duplex object (Sponge)*)
(* and the implementation-shaped challenger (Challenger) in lock step on   *)
(* every sequence of at most MaxOps operations                             *)
(*      observe(a), a \in Atoms | observe_elements(b), b \in Bursts |      *)
(*      get_challenge | compact                                            *)
(* hist is the FLAT history (atoms, 0 = get_challenge, -1 = compact): the  *)
(* ideal object only ever sees the flat history, so whatever the           *)
(* implementation returns equal to it is independent of the chunking of    *)
(* the observe calls.                                                      *)
(*                                                                         *)
(* Property level (a violation in the real code is a VIOLATION):           *)
(*   DepInv   every challenge depends on exactly the atoms observed before *)
(*   PLAgree  every challenge is a not-yet-delivered rate lane of the      *)
(*            permutation state of the ideal object                        *)
(*   CompInv  compact returns the ideal object's state                     *)
(*   HashInv  hash_n_to_m_no_pad(xs) = the challenger that observed xs,    *)
(*            read lane-wise (xs # <<>>), incl. the extra squeeze permute  *)
(*   ASSUMEs  two_to_one = hash of the concatenation = ONE permutation;    *)
(*            hash_or_noop; pad10*1 is injective and block-aligned         *)
(* Implementation shaped (DRIFT): ISAgree (exact delivery order), BufInv.  *)
(***************************************************************************)
EXTENDS Challenger, Json

CONSTANTS Atoms, Bursts, MaxOps, EmitReplay, GetWeight

VARIABLES T, I, C, TC, UC, hist, outs, comps, deliv, flags
vars == <<T, I, C, TC, UC, hist, outs, comps, deliv, flags>>

\* the dependency abstraction used by Transcript / StarkTranscript (C04), run in lock step as TC
TCore == INSTANCE TranscriptCore
RECURSIVE TObserveAll(_, _)
TObserveAll(tc, xs) == IF xs = <<>> THEN tc ELSE TObserveAll(TCore!TObserve(tc, {Head(xs)}), Tail(xs))
RECURSIVE UObserveAll(_, _)
UObserveAll(uc, xs) == IF xs = <<>> THEN uc ELSE UObserveAll(TCore!UObserve(uc, {Head(xs)}), Tail(xs))

HistAtoms(h) == {h[k] : k \in {j \in 1..Len(h) : h[j] > 0}}
OnlyObserves(h) == \A k \in 1..Len(h) : h[k] > 0

RECURSIVE IdealAbsorbAll(_, _)
IdealAbsorbAll(I0, xs) == IF xs = <<>> THEN I0 ELSE IdealAbsorbAll(IdealAbsorb(I0, Head(xs)), Tail(xs))

Init == /\ T = EmptyT /\ I = IdealInit /\ C = ChInit /\ TC = TCore!TInit /\ UC = TCore!UInit
        /\ hist = <<>> /\ outs = <<>> /\ comps = <<>> /\ deliv = {}
        /\ flags = [dep |-> TRUE, pl |-> TRUE, is |-> TRUE, comp |-> TRUE, taint |-> TRUE]

DoObserve(xs) ==
  LET r == CHOOSE x \in {ObserveElements(T, C, xs)} : TRUE
  IN /\ T' = r[1] /\ C' = r[2]
     /\ I' = IdealAbsorbAll(I, xs)
     /\ TC' = TObserveAll(TC, xs)
     /\ UC' = UObserveAll(UC, xs)
     /\ hist' = hist \o xs
     /\ UNCHANGED <<outs, comps, deliv, flags>>

DoGet ==
  LET flushed == I.pend # <<>> \/ I.avail = <<>>
      a == CHOOSE x \in {IdealSqueeze(T, I)} : TRUE
      b == CHOOSE x \in {GetChallenge(a[1], C)} : TRUE
      prev == IF flushed THEN {} ELSE deliv
  IN /\ T' = b[1] /\ I' = a[2] /\ C' = b[2]
     /\ TC' = TCore!TGet(TC)[1]
     /\ UC' = TCore!UGet(UC)[1]
     /\ hist' = Append(hist, 0)
     /\ outs' = Append(outs, a[3])
     /\ comps' = comps
     /\ deliv' = prev \cup {b[3]}
     /\ flags' = [flags EXCEPT
            !.dep = @ /\ Deps(b[1], b[3]) = HistAtoms(hist),
            !.pl  = @ /\ b[3] \in {a[2].st[i] : i \in 1..RATE} /\ b[3] \notin prev,
            !.is  = @ /\ b[3] = a[3],
            !.taint = @ /\ TCore!TGet(TC)[2] = Deps(b[1], b[3]) /\ TCore!UGet(UC)[2] = Deps(b[1], b[3])]

DoCompact ==
  LET a == CHOOSE x \in {IdealCompact(T, I)} : TRUE
      b == CHOOSE x \in {Compact(a[1], C)} : TRUE
  IN /\ T' = b[1] /\ I' = a[2] /\ C' = b[2]
     /\ TC' = TCore!TCompact(TC)
     /\ UC' = TCore!UCompact(UC)
     /\ hist' = Append(hist, -1)
     /\ comps' = Append(comps, a[3])
     /\ deliv' = {}
     /\ flags' = [flags EXCEPT !.comp = @ /\ b[3] = a[3]
                                          /\ StateDeps(b[1], b[3]) = HistAtoms(hist)]
     /\ UNCHANGED outs

Next == /\ Len(hist) < MaxOps
        /\ \/ \E a \in Atoms : DoObserve(<<a>>)
           \/ \E b \in Bursts : Len(hist) + Len(b) <= MaxOps /\ DoObserve(b)
           \/ \E w \in 1..GetWeight : DoGet      \* weight of squeezes for -simulate (same successor)
           \/ DoCompact

\* ---- obligations --------------------------------------------------------
DepInv == flags.dep
PLAgree == flags.pl
ISAgree == flags.is
CompInv == flags.comp
BufInv == BufferInv(C)
\* the compressed form of the abstraction is the lane-wise one
UniformInv == /\ \A i \in 1..WIDTH : TC.st[i] = UC.u
              /\ TC.inb = UC.inb
              /\ Len(TC.outb) = UC.nout /\ \A i \in 1..Len(TC.outb) : TC.outb[i] = UC.u
\* the set-valued challenger of TranscriptCore is exactly the Deps-image of the term-level challenger
TaintInv == /\ flags.taint
            /\ \A i \in 1..WIDTH : Deps(T, C.st[i]) = TC.st[i]
            /\ Len(C.inb) = Len(TC.inb) /\ \A i \in 1..Len(C.inb) : Deps(T, C.inb[i]) = TC.inb[i]
            /\ Len(C.outb) = Len(TC.outb) /\ \A i \in 1..Len(C.outb) : Deps(T, C.outb[i]) = TC.outb[i]
\* the ideal object and the implementation buffer the same number of elements modulo RATE
PendInv == Len(I.pend) % RATE = Len(C.inb) /\ (I.avail # <<>> => Len(I.avail) = Len(C.outb))

HashInv ==
  (hist # <<>> /\ OnlyObserves(hist)) =>
     LET h == CHOOSE x \in {HashNToM(T, hist, RATE + 1)} : TRUE
         c == CHOOSE x \in {Compact(h[1], C)} : TRUE
         g == CHOOSE x \in {GetChallenge(c[1], c[2])} : TRUE
     IN /\ SubSeq(h[2], 1, RATE) = SubSeq(c[3], 1, RATE)
        /\ IsOut(g[3]) /\ IsOut(h[2][RATE + 1])
        /\ CallOf(g[3]) = CallOf(h[2][RATE + 1])
        /\ LaneOf(h[2][RATE + 1]) = 1
        /\ g[1] = c[1]                      \* no further permutation call: same table

\* ---- static obligations on the hash definitions (evaluated once) --------
\* exhaustive only at the small instances (3^(2*RATE+1) messages); the RATE = 8 instance is
\* simulated.  The guard sits INSIDE the definitions: TLC evaluates constant definitions eagerly.
Small == RATE <= 3
SeqsUpTo(S, n) == UNION {[1..k -> S] : k \in 0..n}
Digests == [1..OUT -> Atoms]
TwoToOneOk ==
  (Small /\ 2 * OUT <= RATE) =>
    \A l \in Digests, r \in Digests :
       LET h == HashNoPad(EmptyT, l \o r)
           t == TwoToOne(h[1], l, r)
       IN t[2] = h[2] /\ t[1] = h[1] /\ Len(h[1].st) = 1
HashOrNoopOk ==
  Small => \A xs \in SeqsUpTo(Atoms, OUT + 1) :
     LET r == HashOrNoop(EmptyT, xs)
     IN IF Len(xs) <= OUT
        THEN r[1] = EmptyT /\ Len(r[2]) = OUT /\ SubSeq(r[2], 1, Len(xs)) = xs
             /\ \A k \in (Len(xs) + 1)..OUT : r[2][k] = ZERO
        ELSE r = HashNoPad(EmptyT, xs)
PadOk ==
  Small =>
  LET M == SeqsUpTo({ZERO, ONE, 1}, RATE + 2)
  IN /\ \A xs \in M : /\ Len(Pad(xs)) % RATE = 0
                      /\ Len(Pad(xs)) >= Len(xs) + 2 /\ Len(Pad(xs)) < Len(xs) + 2 + RATE
                      /\ SubSeq(Pad(xs), 1, Len(xs)) = xs
     /\ \A xs \in M, ys \in M : Pad(xs) = Pad(ys) => xs = ys
\* every atom of a hashed message reaches every output; absorbing is not commutative
HashDepOk ==
  Small => \A xs \in SeqsUpTo(Atoms, 2 * RATE + 1) :
     LET h == HashNToM(EmptyT, xs, RATE + 1)
     IN xs # <<>> => \A k \in 1..(RATE + 1) : Deps(h[1], h[2][k]) = {xs[j] : j \in 1..Len(xs)}
ASSUME TwoToOneOk
ASSUME HashOrNoopOk
ASSUME PadOk
ASSUME HashDepOk

BurstsSmall == {<<1, 2>>}
BurstsReal == {<<1, 2, 3, 1, 2, 3, 1>>, <<3, 2, 1, 3, 2, 1, 3, 2>>, <<2, 2>>, <<1, 3, 2, 1>>}

\* ---- scenario emission (B) ---------------------------------------------
Scenario == [kind |-> "challenger", rate |-> RATE, width |-> WIDTH, ops |-> hist,
             outs |-> outs, comps |-> comps, tbl |-> T.st]
Emit == (EmitReplay /\ Len(hist) = MaxOps) => PrintT("REPLAY " \o ToJson(Scenario))
=============================================================================
