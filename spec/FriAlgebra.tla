----------------------------- MODULE FriAlgebra -----------------------------
(***************************************************************************)
(* Algebra of FRI over a small prime field F_P (property C05).             *)
(* The structure of the two-adic domains, the index walk and the folding   *)
(* are the ones of plonky2 (fri/verifier.rs, fri/prover.rs, FriIndex of    *)
(* DESIGN 5.3); only the field is small so that TLC can enumerate every    *)
(* challenge and every query position.                                     *)
(*                                                                         *)
(*  P      prime, 2^LOGN | P-1                                             *)
(*  G      generator of F_P^* = MULTIPLICATIVE_GROUP_GENERATOR = coset     *)
(*         shift of the LDE domain                                         *)
(*  LOGN   lde_bits, RB rate_bits, AR reduction_arity_bits (a sequence)    *)
(*                                                                         *)
(* Vectors are 1-based sequences; "index i" in comments is the 0-based     *)
(* index of the code, stored at position i+1.  Layer l (0..NL) has         *)
(* 2^LBits(l) points; its table is kept in *tree order* (bit-reversed), as *)
(* the code keeps it after reverse_index_bits_in_place: entry i is the     *)
(* value at  X(l,i) = g^(2^S(l)) * w_l^rev(i).                            *)
(***************************************************************************)
EXTENDS Integers, Sequences, FiniteSets, FiniteSetsExt, TLC

CONSTANTS P, G, LOGN, RB, AR

Fp == 0..(P - 1)
Add(a, b) == (a + b) % P
Sub(a, b) == (a + P - b) % P
Mul(a, b) == (a * b) % P
Neg(a) == (P - a) % P
(* strict let: TLC re-evaluates LET bodies and operator arguments at every use when a state is
   in scope; a variable bound over a singleton set holds the evaluated value *)
Let(e, F(_)) == CHOOSE r \in {F(v) : v \in {e}} : TRUE
RECURSIVE PowF(_, _)
PowF(a, e) == IF e = 0 THEN 1                      \* square and multiply: shallow recursion
              ELSE IF e % 2 = 1 THEN Mul(a, PowF(a, e - 1))
              ELSE Let(PowF(a, e \div 2), LAMBDA h : Mul(h, h))
InvTab == TLCEval([a \in 1..(P - 1) |-> CHOOSE b \in 1..(P - 1) : (a * b) % P = 1])
Inv(a) == InvTab[a]                       \* a # 0
Div(a, b) == Mul(a, InvTab[b])

RECURSIVE RevBits(_, _)
RevBits(i, k) == IF k = 0 THEN 0 ELSE (i % 2) * 2 ^ (k - 1) + RevBits(i \div 2, k - 1)

NL == Len(AR)
RECURSIVE SumAr(_)
SumAr(l) == IF l = 0 THEN 0 ELSE AR[l] + SumAr(l - 1)      \* arities of the first l reductions
N == 2 ^ LOGN
DB == LOGN - RB                                            \* degree_bits
LBits(l) == LOGN - SumAr(l)                                \* log2 size of layer l, l in 0..NL
LSize(l) == 2 ^ LBits(l)
FL == 2 ^ (DB - SumAr(NL))                                 \* final_poly_len
RootOfUnity(k) == PowF(G, (P - 1) \div (2 ^ k))            \* primitive_root_of_unity(k)
ShiftOf(l) == PowF(G, 2 ^ SumAr(l))
XTab == TLCEval([l \in 0..NL |-> TLCEval([i \in 0..(LSize(l) - 1) |->
            Mul(ShiftOf(l), PowF(RootOfUnity(LBits(l)), RevBits(i, LBits(l))))])])
X(l, i) == XTab[l][i]
DomainPoints(l) == {XTab[l][i] : i \in 0..(LSize(l) - 1)}

(* ---- polynomials as coefficient sequences (low to high) ---- *)
RECURSIVE EvalFrom(_, _, _)
EvalFrom(c, x, k) == IF k > Len(c) THEN 0 ELSE Add(c[k], Mul(x, EvalFrom(c, x, k + 1)))
EvalPoly(c, x) == EvalFrom(c, x, 1)
SumOver(S, f(_)) == FoldSet(LAMBDA i, acc : Add(acc, f(i)), 0, S)
Pad(c, len) == TLCEval([k \in 1..len |-> IF k <= Len(c) THEN c[k] ELSE 0])
Scale(c, s) == TLCEval([k \in 1..Len(c) |-> Mul(c[k], s)])
AddPoly(c, d) ==      \* lengths may differ
  TLCEval([k \in 1..(IF Len(c) > Len(d) THEN Len(c) ELSE Len(d)) |->
             Add(IF k <= Len(c) THEN c[k] ELSE 0, IF k <= Len(d) THEN d[k] ELSE 0)])
(* PolynomialCoeffs::divide_by_linear: synthetic division, the remainder is dropped *)
RECURSIVE SynDiv(_, _, _, _)
SynDiv(c, z, k, acc) ==      \* walks k = Len(c) down to 2; bs[k] = bs[k+1]*z + c[k]
  IF k < 2 THEN <<>>
  ELSE Let(Add(Mul(acc, z), c[k]), LAMBDA b : Append(SynDiv(c, z, k - 1, b), b))
DivLinear(c, z) == SynDiv(c, z, Len(c), 0)           \* length Len(c)-1, low to high

(* coset_fft + reverse_index_bits: values of c on layer l in tree order *)
EvalOnLayer(c, l) == TLCEval([i \in 1..LSize(l) |-> EvalPoly(c, XTab[l][i - 1])])
(* inverse: coefficients (length LSize(l)) of the interpolant of a tree-order table *)
XInvPow == TLCEval([l \in 0..NL |-> TLCEval([i \in 0..(LSize(l) - 1) |-> TLCEval([k \in 0..(LSize(l) - 1) |->
              PowF(Inv(XTab[l][i]), k)])])])
InvSize == TLCEval([l \in 0..NL |-> Inv(LSize(l) % P)])
Interp(v, l) == TLCEval([k \in 1..LSize(l) |->
                   Mul(InvSize[l], SumOver(0..(LSize(l) - 1), LAMBDA i : Mul(v[i + 1], XInvPow[l][i][k - 1])))])

(* prover fold: chunks of 2^a coefficients, reduce_with_powers(chunk, beta) *)
RECURSIVE ReducePow(_, _, _, _)
ReducePow(c, from, cnt, beta) ==     \* sum_{m<cnt} beta^m c[from+m]   (Horner from the top)
  IF cnt = 0 THEN 0 ELSE Add(c[from], Mul(beta, ReducePow(c, from + 1, cnt - 1, beta)))
FoldCoeffs(c, a, beta) == TLCEval([k \in 1..(Len(c) \div 2 ^ a) |-> ReducePow(c, (k - 1) * 2 ^ a + 1, 2 ^ a, beta)])

(* verifier fold: compute_evaluation(x, x_index_within_coset, arity_bits, evals, beta):
   evals (tree order within the coset) are bit-reversed to natural order, the coset starts at
   x * g^(arity - rev(w)); the value is the interpolant through (start*g^j, evals'[j]) at beta *)
RootTab == TLCEval([a \in 1..LOGN |-> RootOfUnity(a)])
ComputeEvaluation(x, w, a, evals, beta) ==
  Let(TLCEval([j \in 0..(2 ^ a - 1) |-> Mul(Mul(x, PowF(RootTab[a], 2 ^ a - RevBits(w, a))), PowF(RootTab[a], j))]),
      LAMBDA pt :
        SumOver(0..(2 ^ a - 1), LAMBDA j :
          Mul(evals[RevBits(j, a) + 1],
              FoldSet(LAMBDA m, acc : IF m = j THEN acc
                                       ELSE Mul(acc, Div(Sub(beta, pt[m]), Sub(pt[j], pt[m]))),
                      1, 0..(2 ^ a - 1)))))

(* FriIndex facts used by the walk (checked by TLC in MCFriVerifier: IndexFacts) *)
IndexFacts ==
  /\ \A l \in 0..NL : \A i \in 0..(LSize(l) - 1) : \A j \in 0..(LSize(l) - 1) : i # j => XTab[l][i] # XTab[l][j]
  /\ \A l \in 1..NL : \A i \in 0..(LSize(l - 1) - 1) :
        XTab[l][i \div 2 ^ AR[l]] = PowF(XTab[l - 1][i], 2 ^ AR[l])      \* next point = x^arity
  /\ \A l \in 1..NL : \A c \in 0..(LSize(l) - 1) : \A w \in 0..(2 ^ AR[l] - 1) :
        \* the coset the verifier reconstructs from any of its members is the committed chunk
        LET ar == 2 ^ AR[l]  g == RootOfUnity(AR[l])
            start == Mul(XTab[l - 1][c * ar + w], PowF(g, ar - RevBits(w, AR[l])))
        IN \A j \in 0..(ar - 1) : Mul(start, PowF(g, j)) = XTab[l - 1][c * ar + RevBits(j, AR[l])]
=============================================================================
