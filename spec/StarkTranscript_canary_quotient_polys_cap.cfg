CONSTANTS
  RATE = 8
  WIDTH = 12
  Disabled = {"quotient_polys_cap"}
  UseEnvConfigs = FALSE
INIT Init
NEXT Next
CHECK_DEADLOCK FALSE
INVARIANT FS1
