---------------------------- MODULE MCLeafDigest ----------------------------
(***************************************************************************)
(* Byte-level check of the leaf digest (Merkle!LeafDigestB), C12: for both *)
(* digest sizes (Poseidon 32 bytes, Keccak-25 25 bytes) and every leaf     *)
(* width 0..MaxW, a leaf and the leaf that differs from it in ONE byte of  *)
(* ONE element - every element, every byte, in particular the top bytes of *)
(* the last element - have different digests (CollisionFree), hence the    *)
(* altered leaf does not open the commitment of the original               *)
(* (OpensOnlyCommitted, two-leaf tree), and the digest is the identity     *)
(* embedding exactly when the leaf's bytes fit the digest (NoopIffFits).   *)
(* One state per (digest size, width, element, byte); each is printed as a *)
(* REPLAY line and replayed on the real trees with the matching hasher.    *)
(***************************************************************************)
EXTENDS Merkle, Json

CONSTANTS HashSizes,   \* {25, 32}
          MaxW,        \* leaf widths 0..MaxW
          Mutant       \* "none" | "noop_by_element_count"

VARIABLE s

ZeroLeaf(w) == [e \in 1..w |-> [b \in 1..ELT_BYTES |-> 0]]
Alter(leaf, e, b) == [leaf EXCEPT ![e][b] = 1]
Other(w) == [e \in 1..w |-> [b \in 1..ELT_BYTES |-> 2]]     \* the sibling leaf of the two-leaf tree

Groups == {[hs |-> hs, w |-> w, e |-> 0, b |-> 0, kind |-> "group"] : hs \in HashSizes, w \in 0..MaxW}
ScenariosOf(g) ==
  {[hs |-> g.hs, w |-> g.w, e |-> 0, b |-> 0, kind |-> "honest"]}
  \cup {[hs |-> g.hs, w |-> g.w, e |-> e, b |-> b, kind |-> "alter"] : e \in 1..g.w, b \in 1..ELT_BYTES}

Init == s \in Groups
Next == s.kind = "group" /\ s' \in ScenariosOf(s)

D(leaf) == LeafDigestB(s.hs, leaf, Mutant)
CollisionFree == s.kind = "alter" => D(ZeroLeaf(s.w)) # D(Alter(ZeroLeaf(s.w), s.e, s.b))

\* two-leaf tree, cap height 0: opening position 0 with a leaf digest d
Opens(d) == H2(d, D(Other(s.w))) = H2(D(ZeroLeaf(s.w)), D(Other(s.w)))
OpensOnlyCommitted ==
  /\ s.kind = "honest" => Opens(D(ZeroLeaf(s.w)))
  /\ s.kind = "alter" => ~Opens(D(Alter(ZeroLeaf(s.w), s.e, s.b)))

NoopIffFits == s.kind # "group" => ((D(ZeroLeaf(s.w))[1] = "id") = (ELT_BYTES * s.w <= s.hs))
\* the symbolic rule used by the other modules is this rule
SymbolicAgrees == s.kind # "group" =>
  ((HashOrNoopB(s.hs, s.w, <<"v", 0>>)[1] = "id") = (D(ZeroLeaf(s.w))[1] = "id") \/ Mutant # "none")

Emit == s.kind # "group" =>
  PrintT("REPLAY " \o ToJson([hs |-> s.hs, w |-> s.w, e |-> s.e, b |-> s.b, kind |-> s.kind,
                              noop |-> (ELT_BYTES * s.w <= s.hs), expect |-> (s.kind = "honest")]))
=============================================================================
