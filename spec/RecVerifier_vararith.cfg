CONSTANT Instance = "vararith"
CONSTANT Disabled = {}
CONSTANT Mutant = "none"
INIT Init
NEXT Next
INVARIANT VarOK
CHECK_DEADLOCK FALSE
