CONSTANT Instance = "vararith"
CONSTANT NL = 2
CONSTANT Disabled = {}
CONSTANT Mutant = "none"
INIT Init
NEXT Next
INVARIANT VarOK
CHECK_DEADLOCK FALSE
