---------------------------- MODULE Corruptions ----------------------------
(***************************************************************************)
(* The adversary catalogue of C02 and the verdict rule of its replay.      *)
(*                                                                         *)
(* An assignment gives one value to every target of a built circuit.       *)
(* Sat(a) is decided by the satisfaction oracle (harness/src/oracle.rs):   *)
(* gate constraints on every row, equality inside every copy class of      *)
(* routed wires, lookup pairs in their table, with the public-input hash   *)
(* of the assignment's own public inputs.  The adversary corrupts an       *)
(* honest assignment by one Kind and then runs the proving API under one   *)
(* Strategy; whatever comes back is verified.                              *)
(*                                                                         *)
(* Rule (C02): ~Sat(a) => the outcome is not "accepted", for EVERY         *)
(* strategy.  Sat(a) and the plain strategy => "accepted" (a corruption    *)
(* of an unconstrained cell must not be rejected; completeness, checked    *)
(* for circuits without lookups because the oracle does not model the      *)
(* multiplicities).  Sat(a) with a degenerate strategy is unconstrained    *)
(* by C02.  Why each strategy must fail on a violating assignment is       *)
(* shown in spec/PermArg.tla: the all-zero and the all-one accumulator     *)
(* satisfy transition terms of some violating assignments, so the L_0      *)
(* term / the telescoping product are what reject them; a perturbed        *)
(* quotient breaks vanishing(zeta) = Z_H(zeta) t(zeta) for one challenge   *)
(* index, which only a verifier that checks every index notices.          *)
(***************************************************************************)
EXTENDS Integers, Sequences, TLC, Json

Kinds == {"none", "gate_cell", "random_cell", "copy_member", "copy_class", "public_input"}
Strategies == {"plain", "zero_z", "one_z", "perturb_q0", "perturb_qlast", "zero_lookup"}

Expected(sat, strategy) == IF ~sat THEN "reject" ELSE IF strategy = "plain" THEN "accept" ELSE "any"

Rule == { [sat |-> s, strategy |-> st, expect |-> Expected(s, st)] : s \in BOOLEAN, st \in Strategies }
ASSUME \A r \in Rule : (~r.sat) => r.expect = "reject"
ASSUME PrintT("KINDS " \o ToJson(Kinds))
ASSUME PrintT("STRATEGIES " \o ToJson(Strategies))
ASSUME PrintT("RULE " \o ToJson(Rule))
=============================================================================
