CONSTANT Mutant = "collect_in_completion_order"
CONSTANT Threads = {1, 3}
CONSTANT Flavours = {"release"}
CONSTANT FlavourThreads = {3}
INIT Init
NEXT Next
INVARIANT TypeOK
INVARIANT KeyIndependent
INVARIANT IntermediatesIndependent
INVARIANT OnlyGrindingDiffers
INVARIANT VerdictIndependent
CHECK_DEADLOCK FALSE
