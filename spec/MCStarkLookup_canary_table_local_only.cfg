CONSTANT P = 17
CONSTANT N = 2
CONSTANT MUT = "table_local_only"
CONSTANT DIDS = {6}
INIT Init
NEXT Next
INVARIANT Theorem
CHECK_DEADLOCK FALSE
