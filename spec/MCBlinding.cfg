CONSTANTS
  MaxN = 160
  MaxBits = 22
  Qs = {1, 2, 7, 28}
  Rbs = {1, 3}
  Caps = {0, 4}
  Mutant = "none"
INIT Init
NEXT Next
INVARIANT FitsInv
INVARIANT HidesInv
INVARIANT DegreeInv
INVARIANT TerminatesInv
CHECK_DEADLOCK FALSE
