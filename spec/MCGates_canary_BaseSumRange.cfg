CONSTANT P = 17
CONSTANT ALPHA = 3
CONSTANT GEN = 3
CONSTANT DropKind = "basesum"
CONSTANT DropIdx = 3
CONSTANT Cases <- CasesBaseSum
CONSTANT Sel = {}
CONSTANT DegShift = 0
INIT InitRows
NEXT NextRows
INVARIANT Satisfied
INVARIANT PinnedInv
INVARIANT UniqueInv
CHECK_DEADLOCK FALSE
