---------------------------- MODULE GateLogTrace ----------------------------
(***************************************************************************)
(* C07 (C): trace validation of gate-constraint logs.  Every event is one  *)
(* call of the REAL `eval_unfiltered` of a cheap gate on 64-bit inputs:    *)
(*   kind, g (parameters), c (constants), h (public-input hash), w (wires),*)
(*   out (the constraint vector the code returned), all as byte limbs.     *)
(* The event is accepted iff `out` equals the gate DEFINITION evaluated by *)
(* TLC over the Goldilocks field on limbs (module GF): e.g. arithmetic     *)
(*   out_i = w[4i+3] - (c0 w[4i] w[4i+1] + c1 w[4i+2]).                    *)
(* The definitions below are the same constraint lists as in Gates.tla,    *)
(* over GF instead of the small field.  Walked as a two-level fan-out (as  *)
(* OpLogTrace); a violation names the event index l.                       *)
(***************************************************************************)
EXTENDS GF, Json, IOUtils, SequencesExt, TLC

Rec == ndJsonDeserialize(IOEnv.TRACE)
N == Len(Rec)
Chunk == 16
NChunks == (N + Chunk - 1) \div Chunk

VARIABLES c, l
vars == <<c, l>>

\* ---- helpers (values that pass through FoldLeft / tuple construction are concrete) ----
Iota(n) == [i \in 1..n |-> i]
MapN(Op(_), n) == FoldLeft(LAMBDA acc, i : Append(acc, Op(i)), <<>>, Iota(n))
FlatMapN(Op(_), n) == FoldLeft(LAMBDA acc, i : acc \o Op(i), <<>>, Iota(n))
\* TLC passes operator arguments lazily and re-evaluates them at every use (ModP uses its
\* argument many times): every nested argument is forced through a tuple + FoldLeft first
Force2(Op(_, _), a, b) == FoldLeft(LAMBDA acc, p : Op(p[1], p[2]), 0, << <<a, b>> >>)
Force1(Op(_), a) == FoldLeft(LAMBDA acc, x : Op(x), 0, <<a>>)
A(a, b) == Force2(AddP, a, b)
S(a, b) == Force2(SubP, a, b)
M(a, b) == Force2(MulP, a, b)
Prod(xs) == FoldLeft(LAMBDA acc, x : MulP(acc, x), One8, xs)
Sum(xs) == FoldLeft(LAMBDA acc, x : AddP(acc, x), Zero8, xs)
RECURSIVE IPow(_, _)
IPow(a, e) == IF e = 0 THEN 1 ELSE a * IPow(a, e - 1)
Wr(e, i) == e.w[i + 1]                               \* wire i
XW(e, s) == <<e.w[s + 1], e.w[s + 2]>>               \* extension element on wires s, s+1 (D = 2)
ESub2(a, b) == Force2(LAMBDA x, y : <<SubP(x[1], y[1]), SubP(x[2], y[2])>>, a, b)
EAdd2(a, b) == Force2(LAMBDA x, y : <<AddP(x[1], y[1]), AddP(x[2], y[2])>>, a, b)
EScal2(k, a) == Force2(LAMBDA x, y : <<MulP(x, y[1]), MulP(x, y[2])>>, k, a)
EMul2(a, b) == Force2(LAMBDA x, y : ExtMul(2, x, y), a, b)

\* ---- the gate definitions ---------------------------------------------------------------
ArithDef(e) ==
  MapN(LAMBDA i : S(Wr(e, 4*(i-1) + 3),
                       Sum(<<Prod(<<Wr(e, 4*(i-1)), Wr(e, 4*(i-1) + 1), e.c[1]>>), Prod(<<Wr(e, 4*(i-1) + 2), e.c[2]>>)>>)),
       e.g.n)

BaseSumDef(e) ==
  <<S(FoldLeft(LAMBDA s, i : A(M(s, F8(e.g.b)), Wr(e, e.g.l - i + 1)), Zero8, Iota(e.g.l)), Wr(e, 0))>>
  \o MapN(LAMBDA i : Prod(MapN(LAMBDA v : S(Wr(e, i), F8(v - 1)), e.g.b)), e.g.l)

ConstantDef(e) == MapN(LAMBDA i : S(e.c[i], Wr(e, i - 1)), e.g.n)
PiDef(e) == MapN(LAMBDA i : S(Wr(e, i - 1), e.h[i]), 4)

ExpoPrev(e, i) == IF i = 0 THEN One8 ELSE M(Wr(e, 2 + e.g.n + i - 1), Wr(e, 2 + e.g.n + i - 1))
ExpoDef(e) ==
  MapN(LAMBDA k : S(Prod(<<ExpoPrev(e, k - 1),
                              A(M(Wr(e, 1 + (e.g.n - k)), Wr(e, 0)), S(One8, Wr(e, 1 + (e.g.n - k))))>>),
                       Wr(e, 2 + e.g.n + k - 1)), e.g.n)
  \o <<S(Wr(e, 1 + e.g.n), Wr(e, 2 + e.g.n + e.g.n - 1))>>

RaVs(e) == IPow(2, e.g.bits)
RaStride(e) == 2 + RaVs(e)
RaBit(e, i, cp) == RaStride(e) * e.g.copies + e.g.extra + cp * e.g.bits + i
RaDef(e) ==
  FlatMapN(LAMBDA cp :
      MapN(LAMBDA i : M(Wr(e, RaBit(e, i - 1, cp - 1)), S(Wr(e, RaBit(e, i - 1, cp - 1)), One8)), e.g.bits)
      \o <<S(FoldLeft(LAMBDA s, i : A(A(s, s), Wr(e, RaBit(e, e.g.bits - i, cp - 1))), Zero8, Iota(e.g.bits)),
                Wr(e, RaStride(e) * (cp - 1)))>>
      \o <<S(FoldLeft(LAMBDA items, i :
                           MapN(LAMBDA j : A(items[2*j - 1],
                                                M(Wr(e, RaBit(e, i - 1, cp - 1)), S(items[2*j], items[2*j - 1]))),
                                Len(items) \div 2),
                         SubSeq(e.w, RaStride(e)*(cp-1) + 3, RaStride(e)*(cp-1) + 2 + RaVs(e)), Iota(e.g.bits))[1],
                Wr(e, RaStride(e) * (cp - 1) + 1))>>, e.g.copies)
  \o MapN(LAMBDA i : S(e.c[i], Wr(e, RaStride(e) * e.g.copies + i - 1)), e.g.extra)

RedAcc(e, i) == IF i = e.g.n - 1 THEN 0 ELSE 3 * 2 + e.g.n + 2 * i
ReducingDef(e) ==
  FlatMapN(LAMBDA i : ESub2(EAdd2(EMul2(IF i = 1 THEN XW(e, 4) ELSE XW(e, RedAcc(e, i - 2)), XW(e, 2)),
                                  <<Wr(e, 6 + i - 1), Zero8>>),
                            XW(e, RedAcc(e, i - 1))), e.g.n)

MulExtDef(e) ==
  FlatMapN(LAMBDA i : ESub2(XW(e, 6*(i-1) + 4), EScal2(e.c[1], EMul2(XW(e, 6*(i-1)), XW(e, 6*(i-1) + 2)))), e.g.n)

Def(e) ==
  CASE e.kind = "arith" -> ArithDef(e)
    [] e.kind = "basesum" -> BaseSumDef(e)
    [] e.kind = "constant" -> ConstantDef(e)
    [] e.kind = "pi" -> PiDef(e)
    [] e.kind = "expo" -> ExpoDef(e)
    [] e.kind = "ra" -> RaDef(e)
    [] e.kind = "reducing" -> ReducingDef(e)
    [] e.kind = "mulext" -> MulExtDef(e)

Known == {"arith", "basesum", "constant", "pi", "expo", "ra", "reducing", "mulext"}
GateOk(e) ==
  /\ e.kind \in Known
  /\ \A i \in 1..Len(e.out) : Is64(e.out[i])
  /\ \A d \in {Def(e)} :            \* (binds the evaluated definition once)
       /\ Len(d) = Len(e.out)
       /\ \A i \in 1..Len(d) : EqP(d[i], e.out[i])

Init == c = 0 /\ l = 0
Next == \/ c = 0 /\ l = 0 /\ c' \in 1..NChunks /\ l' = 0
        \/ c > 0 /\ l = 0 /\ c' = c
           /\ l' \in ((c - 1) * Chunk + 1)..(IF c * Chunk > N THEN N ELSE c * Chunk)
EventOk == l > 0 => GateOk(Rec[l])
Accepted == TLCGet("distinct") = 1 + NChunks + N
=============================================================================
