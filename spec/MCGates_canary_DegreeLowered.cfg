CONSTANT P = 17
CONSTANT ALPHA = 3
CONSTANT GEN = 3
CONSTANT DropKind = "none"
CONSTANT DropIdx = 0
CONSTANT Cases <- CasesDegCanary
CONSTANT Sel = {}
CONSTANT DegShift = 1
INIT InitDeg
NEXT NextDeg
INVARIANT DegreeInv
CHECK_DEADLOCK FALSE
