--------------------------- MODULE TranscriptCore ---------------------------
(***************************************************************************)
(* Engine shared by Transcript (PLONK) and StarkTranscript: a Fiat-Shamir  *)
(* transcript is a PROGRAM of observe / squeeze steps executed on the      *)
(* challenger of module Challenger, seen through its dependency            *)
(* abstraction: a lane holds the SET of transcript atoms its term depends  *)
(* on (Sponge!Deps); a permutation makes every lane depend on every input  *)
(* lane.  MCChallenger checks (invariant TaintInv) that this abstraction   *)
(* commutes with the term-level challenger on every op sequence.           *)
(*                                                                         *)
(* An atom is <<class, index>>: one field element of a transcript          *)
(* component (a cap entry element, one coefficient of an opening, ...).    *)
(* Steps:                                                                  *)
(*   [k |-> "O", class, n, own, extra, full]  observe n elements; element i*)
(*        carries its own atom <<class,i>> (own), the atoms `extra` (a     *)
(*        value derived from other data, e.g. the public-input hash) and,  *)
(*        if `full`, everything the transcript depends on so far (a value  *)
(*        the verifier computes from earlier challenges);                  *)
(*   [k |-> "S", class, n]                    squeeze n elements of        *)
(*        challenge `class`.                                               *)
(***************************************************************************)
EXTENDS Integers, Sequences, FiniteSets, TLC

CONSTANTS RATE, WIDTH

\* ---- the dependency abstraction of the challenger ------------------------
TInit == [st |-> [i \in 1..WIDTH |-> {}], inb |-> <<>>, outb |-> <<>>]
TDuplex(c) ==
  LET u == UNION ({c.st[i] : i \in (Len(c.inb) + 1)..WIDTH} \cup {c.inb[i] : i \in 1..Len(c.inb)})
  IN [st |-> [i \in 1..WIDTH |-> u], inb |-> <<>>, outb |-> [i \in 1..RATE |-> u]]
TObserve(c, taint) ==
  LET c1 == [c EXCEPT !.outb = <<>>, !.inb = Append(c.inb, taint)]
  IN IF Len(c1.inb) = RATE THEN TDuplex(c1) ELSE c1
\* <<challenger', taint of the challenge>>
TGet(c) ==
  LET d == IF c.inb # <<>> \/ c.outb = <<>> THEN TDuplex(c) ELSE c
  IN <<[d EXCEPT !.outb = SubSeq(d.outb, 1, Len(d.outb) - 1)], d.outb[Len(d.outb)]>>
TCompact(c) == LET d == IF c.inb # <<>> THEN TDuplex(c) ELSE c IN [d EXCEPT !.outb = <<>>]
\* everything the challenger state depends on (absorbed or buffered)
TAll(c) == UNION ({c.st[i] : i \in 1..WIDTH} \cup {c.inb[i] : i \in 1..Len(c.inb)})

\* ---- the same abstraction in compressed form -----------------------------------
\* After every permutation all lanes carry the same set, and the capacity lanes are never
\* overwritten (RATE < WIDTH), so the lane-wise state is always uniform: [u, inb, nout] with
\* st[i] = u for all i, outb = nout copies of u.  MCChallenger!UniformInv checks this equivalence
\* on every op sequence; Transcript / StarkTranscript run on the compressed form (12 x smaller states).
UInit == [u |-> {}, inb |-> <<>>, nout |-> 0]
UDuplex(c) == [u |-> c.u \cup UNION {c.inb[i] : i \in 1..Len(c.inb)}, inb |-> <<>>, nout |-> RATE]
UObserve(c, taint) ==
  LET c1 == [c EXCEPT !.nout = 0, !.inb = Append(c.inb, taint)]
  IN IF Len(c1.inb) = RATE THEN UDuplex(c1) ELSE c1
UGet(c) == LET d == IF c.inb # <<>> \/ c.nout = 0 THEN UDuplex(c) ELSE c
           IN <<[d EXCEPT !.nout = d.nout - 1], d.u>>
UCompact(c) == LET d == IF c.inb # <<>> THEN UDuplex(c) ELSE c IN [d EXCEPT !.nout = 0]
UAll(c) == c.u \cup UNION {c.inb[i] : i \in 1..Len(c.inb)}

\* ---- the FRI reduction strategy as a statement parameter -----------------------
\* A strategy VALUE is  [v |-> "fixed",   a |-> <<arity bits ...>>]
\*                    | [v |-> "cab",     a |-> <<arity_bits, final_poly_bits>>]
\*                    | [v |-> "minsize", a |-> <<k>>]          k = -1 stands for None.
\* Property level: the component fri.reduction_strategy has one atom for the variant and one per
\* parameter (StratParamCount): altering ANY parameter alters the statement.  What the code absorbs
\* is Encode(s) (reduction_strategies.rs::serialize); the encoding must give every parameter its own
\* element (EncodeComplete) and be injective on strategy values (EncodeInjective).
\* `mutant` = "drops_final_bits" is the encoding <<1, arity_bits>> for ConstantArityBits (canary).
\* Named deviation found while writing this: the code encodes MinSize(None) as <<2, 0>>, which is
\* also the encoding of MinSize(Some(0)) (KnownCollision); None really means "max arity 2^4".
\* Some(0) is therefore excluded from SmallStrategies and reported by the check.
StratParamCount(v, narity) == 1 + (IF v = "fixed" THEN narity ELSE IF v = "cab" THEN 2 ELSE 1)
Encode(s, mutant) ==
  IF s.v = "fixed" THEN <<0>> \o s.a
  ELSE IF s.v = "cab" THEN (IF mutant = "drops_final_bits" THEN <<1, s.a[1]>> ELSE <<1, s.a[1], s.a[2]>>)
  ELSE <<2, IF s.a[1] = -1 THEN 0 ELSE s.a[1]>>
EncodeLen(v, narity, mutant) ==
  IF v = "fixed" THEN 1 + narity ELSE IF v = "cab" THEN (IF mutant = "drops_final_bits" THEN 2 ELSE 3) ELSE 2
SmallSeqs(S, n) == UNION {[1..k -> S] : k \in 0..n}
SmallStrategies ==
  {[v |-> "fixed", a |-> x] : x \in SmallSeqs(0..2, 3)}
  \cup {[v |-> "cab", a |-> <<x, y>>] : x \in 0..3, y \in 0..3}
  \cup {[v |-> "minsize", a |-> <<k>>] : k \in {-1, 1, 2, 3}}
EncodeInjective(mutant) == \A s1 \in SmallStrategies, s2 \in SmallStrategies :
                              Encode(s1, mutant) = Encode(s2, mutant) => s1 = s2
EncodeComplete(mutant) == \A s \in SmallStrategies :
                             /\ Len(Encode(s, mutant)) = StratParamCount(s.v, Len(s.a))
                             /\ Len(Encode(s, mutant)) = EncodeLen(s.v, Len(s.a), mutant)
KnownCollision == Encode([v |-> "minsize", a |-> <<-1>>], "none") = Encode([v |-> "minsize", a |-> <<0>>], "none")

\* ---- programs ------------------------------------------------------------
Obs(class, n) == [k |-> "O", class |-> class, n |-> n, own |-> TRUE, extra |-> {}, full |-> FALSE]
ObsDerived(class, n, own, extra, full) ==
  [k |-> "O", class |-> class, n |-> n, own |-> own, extra |-> extra, full |-> full]
Sq(class, n) == [k |-> "S", class |-> class, n |-> n, own |-> FALSE, extra |-> {}, full |-> FALSE]
AtomsOf(class, n) == {<<class, i>> : i \in 1..n}
Classes(atoms) == {a[1] : a \in atoms}
\* drop zero-length steps (they would stall the element counter)
RECURSIVE Compress(_)
Compress(prog) == IF prog = <<>> THEN <<>>
                  ELSE (IF Head(prog).n > 0 THEN <<Head(prog)>> ELSE <<>>) \o Compress(Tail(prog))

\* one element of step s, element index i, on challenger c: <<c', taint of a squeezed element or {}>>
ElemTaint(s, i, c) == (IF s.own THEN {<<s.class, i>>} ELSE {}) \cup s.extra
                      \cup (IF s.full THEN UAll(c) ELSE {})
StepElem(s, i, c) == IF s.k = "O" THEN <<UObserve(c, ElemTaint(s, i, c)), {}>> ELSE UGet(c)
=============================================================================
