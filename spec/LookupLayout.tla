----------------------------- MODULE LookupLayout -----------------------------
(***************************************************************************)
(* Placement arithmetic of gadgets/lookup.rs add_all_lookups and of        *)
(* plonk/prover.rs set_lookup_wires, as a function of the row width        *)
(* (routed wires R: L = R / 2 looking slots per LookupGate row, S = R / 3  *)
(* looked slots per LookupTableGate row) and, per table, its length and    *)
(* its list of lookups:                                                    *)
(*   for each table in declaration order, starting at the next free row    *)
(*     last_lu_gate   = first LookupGate row; lookup k sits in row         *)
(*                      last_lu_gate + k \div L, slot k % L (full chunks    *)
(*                      by add_gate, the remainder by find_slot into one    *)
(*                      more row)                                           *)
(*     last_lut_gate  = last_lu_gate + ceil(lookups / L)                    *)
(*     first_lut_gate = last_lut_gate + ceil(len / S) - 1; entry e sits in  *)
(*                      row first_lut_gate - e \div S, slot e % S           *)
(*                      (upside down)                                       *)
(*     one Noop row, then the next table                                    *)
(*   unused slots of the last LookupGate row (row last_lut_gate - 1, the    *)
(*   highest slots) are filled with entry 0 and counted into               *)
(*   multiplicities[0]; unused slots of the last LookupTableGate row (row   *)
(*   last_lut_gate) hold entry 0 with multiplicity 0;                       *)
(*   lookup polynomials: 1 (RE) + ceil(L / (max_quotient_degree_factor-1)); *)
(*   lookup selectors: 4 + number of tables.                                *)
(* Obligations checked on every scenario (TLC): rows of different tables    *)
(* are disjoint and separated by the Noop row, no two lookups / entries     *)
(* share a cell, and the multiplicities add up to the number of looking     *)
(* slots of the table (what makes Sum = LDC for the honest prover).         *)
(*                                                                         *)
(* The scenario lattice (REPLAY lines; the harness builds every scenario    *)
(* with add_lookup_table_from_pairs / add_lookup_from_index and compares):  *)
(* 1-3 tables x table sizes {1, S-1, S, S+1, 2S+1} x lookups per table      *)
(* {1, L-1, L, L+1, 2L+1} x repetition pattern {one entry repeated, round   *)
(* robin, first and last only} x contents {identity inputs with duplicate   *)
(* outputs, arbitrary 16-bit pairs with the extremes 0 / 65535}, plus one   *)
(* entry looked up 2^16 - 1, 2^16, 2^16 + 5 (thorough: 2^17) times.          *)
(* Tables of one scenario are pairwise different here; table identity       *)
(* (identical tables are stored once, related tables never merge) and its   *)
(* scenario family are in LookupTables.tla.                                  *)
(* Also printed: the adversary catalogue of the C08 replay and its verdict  *)
(* rule (KINDS, STRATEGIES, RULE).                                          *)
(***************************************************************************)
EXTENDS Integers, Sequences, FiniteSets, TLC, Json

CONSTANTS Widths,      \* subset of {"std", "wide", "narrow"}
          Heavy        \* numbers of lookups of ONE entry of one table (multiplicities across the 16-bit boundary)

Routed(w) == IF w = "std" THEN 80 ELSE IF w = "wide" THEN 120 ELSE 30
LU(w) == Routed(w) \div 2
LUT(w) == Routed(w) \div 3
MaxQuotientDegreeFactor == 8
CeilDiv(a, b) == (a + b - 1) \div b
NumLookupPolys(w) == CeilDiv(LU(w), MaxQuotientDegreeFactor - 1) + 1

SizeClass(w) == <<1, LUT(w) - 1, LUT(w), LUT(w) + 1, 2 * LUT(w) + 1>>
LookupClass(w) == <<1, LU(w) - 1, LU(w), LU(w) + 1, 2 * LU(w) + 1>>
Patterns == <<"one", "rr", "ends">>
Flavours == <<"dup", "ext">>

\* contents of table j (0-based), entry e (0-based)
Inp(fl, e) == IF fl = "dup" THEN e ELSE IF e = 1 THEN 0 ELSE (65535 * (e + 1) - 1237 * e) % 65536    \* 65535, 0, 62059, ...: distinct (TablesAdmissible)
Out(fl, j, e) == IF fl = "dup" THEN (e % 3) * 7 + j
                 ELSE IF e % 4 = 0 THEN 65535 - j ELSE IF e % 4 = 1 THEN j ELSE (e * 40503 + j * 77) % 65536
TablePairs(fl, j, n) == [e \in 1..n |-> <<Inp(fl, e - 1), Out(fl, j, e - 1)>>]
\* the k-th lookup (0-based) of a table of n entries looks up entry (0-based)
Looked(pat, n, k) == IF pat = "one" THEN n - 1 ELSE IF pat = "rr" THEN k % n ELSE IF k % 2 = 0 THEN 0 ELSE n - 1
Lookups(pat, n, m) == [k \in 1..m |-> Looked(pat, n, k - 1)]

\* one table's parameters: [n |-> length, m |-> lookups, pat, fl]
\* scenario lattice: one table: everything; two / three tables: a covering family indexed by i
Param(w, si, li, pi, fi) == [n |-> SizeClass(w)[si], m |-> LookupClass(w)[li], pat |-> Patterns[pi], fl |-> Flavours[fi]]
Single(w) == {<<Param(w, si, li, pi, fi)>> : si \in 1..5, li \in 1..5, pi \in 1..3, fi \in 1..2}
Multi(w, nt, i) == [j \in 1..nt |-> Param(w, ((i + 2 * (j - 1)) % 5) + 1, (((i \div 5) + (j - 1)) % 5) + 1,
                                         ((i + j - 1) % 3) + 1, (((i \div 3) + j - 1) % 2) + 1)]
\* heavy repetition: a single entry (the last of three) looked up h times, h around and beyond 2^16 (standard rows only)
HeavyFamily(w) == IF w = "std" THEN {<<[n |-> 3, m |-> h, pat |-> "one", fl |-> "dup"]>> : h \in Heavy} ELSE {}
Family(w) == Single(w) \cup {Multi(w, 2, i) : i \in 0..49} \cup {Multi(w, 3, i) : i \in 0..24} \cup HeavyFamily(w)

VARIABLES width, params, layout
vars == <<width, params, layout>>

(* ---------------- the layout ---------------- *)
LuRows(w, p) == CeilDiv(p.m, LU(w))
LutRows(w, p) == ((p.n - 1) \div LUT(w)) + 1
\* rows relative to the first lookup row of the circuit
RECURSIVE Offset(_, _, _)
Offset(w, ps, j) == IF j = 1 THEN 0 ELSE Offset(w, ps, j - 1) + LuRows(w, ps[j - 1]) + LutRows(w, ps[j - 1]) + 1
RowsOf(w, ps, j) ==
  LET off == Offset(w, ps, j)
      lut0 == off + LuRows(w, ps[j])
  IN [last_lu |-> off, last_lut |-> lut0, first_lut |-> lut0 + LutRows(w, ps[j]) - 1, noop |-> lut0 + LutRows(w, ps[j])]
LuPad(w, p) == (LU(w) - (p.m % LU(w))) % LU(w)
LutPad(w, p) == (LUT(w) - (p.n % LUT(w))) % LUT(w)
Mult(w, p) == [e \in 1..p.n |-> Cardinality({k \in 1..p.m : Looked(p.pat, p.n, k - 1) = e - 1}) + (IF e = 1 THEN LuPad(w, p) ELSE 0)]
LookupCell(w, rows, k) == <<rows.last_lu + (k \div LU(w)), k % LU(w)>>            \* k 0-based
EntryCell(w, rows, e) == <<rows.first_lut - (e \div LUT(w)), e % LUT(w)>>           \* e 0-based

Layout(w, ps) ==
  [rows |-> [j \in 1..Len(ps) |-> RowsOf(w, ps, j)],
   lu_pad |-> [j \in 1..Len(ps) |-> LuPad(w, ps[j])],
   lut_pad |-> [j \in 1..Len(ps) |-> LutPad(w, ps[j])],
   mult |-> [j \in 1..Len(ps) |-> Mult(w, ps[j])],
   num_lookup_polys |-> NumLookupPolys(w),
   num_lookup_selectors |-> 4 + Len(ps)]

Scenario(w, ps, lay) ==
  [width |-> w, lu_slots |-> LU(w), lut_slots |-> LUT(w),
   classes |-> [j \in 1..Len(ps) |-> [n |-> ps[j].n, m |-> ps[j].m, pat |-> ps[j].pat, fl |-> ps[j].fl]],
   tables |-> [j \in 1..Len(ps) |-> [pairs |-> TablePairs(ps[j].fl, j - 1, ps[j].n), lookups |-> Lookups(ps[j].pat, ps[j].n, ps[j].m)]],
   expect |-> lay]

Init == /\ width \in Widths
        /\ params \in Family(width)
        /\ layout = << >>
Next == /\ layout = << >>
        /\ layout' = Layout(width, params)
        /\ UNCHANGED <<width, params>>
Spec == Init /\ [][Next]_vars
Done == layout # << >>

(* ---------------- obligations ---------------- *)
\* consecutive tables are separated by exactly the Noop row, rows increase: LU rows, LUT rows, Noop
RowsOrdered == Done =>
  \A j \in 1..Len(params) :
    LET r == layout.rows[j] IN
    /\ r.last_lu < r.last_lut /\ r.last_lut <= r.first_lut /\ r.noop = r.first_lut + 1
    /\ (j < Len(params) => layout.rows[j + 1].last_lu = r.noop + 1)
    /\ (j = 1 => r.last_lu = 0)
\* every lookup has its own slot inside the LU rows, every entry its own slot inside the LUT rows
CellsDistinct == Done =>
  \A j \in 1..Len(params) :
    LET r == layout.rows[j]
        p == params[j] IN
    /\ \A k \in 0..(p.m - 1) : LET c == LookupCell(width, r, k) IN c[1] >= r.last_lu /\ c[1] < r.last_lut /\ c[2] < LU(width)
    /\ Cardinality({LookupCell(width, r, k) : k \in 0..(p.m - 1)}) = p.m
    /\ \A e \in 0..(p.n - 1) : LET c == EntryCell(width, r, e) IN c[1] >= r.last_lut /\ c[1] <= r.first_lut /\ c[2] < LUT(width)
    /\ Cardinality({EntryCell(width, r, e) : e \in 0..(p.n - 1)}) = p.n
    \* the remainder row is the last LU row and the padding fills exactly its unused slots
    /\ p.m + layout.lu_pad[j] = (r.last_lut - r.last_lu) * LU(width)
    /\ p.n + layout.lut_pad[j] = (r.first_lut - r.last_lut + 1) * LUT(width)
    /\ layout.lu_pad[j] < LU(width) /\ layout.lut_pad[j] < LUT(width)
\* Sum = LDC for the honest prover: the multiplicities count every looking slot of the table once
RECURSIVE SumSeq(_, _)
SumSeq(s, i) == IF i > Len(s) THEN 0 ELSE s[i] + SumSeq(s, i + 1)
MultTotal == Done =>
  \A j \in 1..Len(params) : SumSeq(layout.mult[j], 1) = (layout.rows[j].last_lut - layout.rows[j].last_lu) * LU(width)
\* the tables of one scenario differ (identical tables are shared by the builder) and have distinct inputs
TablesAdmissible == Done =>
  /\ \A j \in 1..Len(params) : LET t == TablePairs(params[j].fl, j - 1, params[j].n)
                               IN Cardinality({t[e][1] : e \in 1..Len(t)}) = Len(t) /\ \A e \in 1..Len(t) : t[e][1] \in 0..65535 /\ t[e][2] \in 0..65535
  /\ \A j, k \in 1..Len(params) : j # k => TablePairs(params[j].fl, j - 1, params[j].n) # TablePairs(params[k].fl, k - 1, params[k].n)
Emit == Done => PrintT("REPLAY " \o ToJson(Scenario(width, params, layout)))

(* ---------------- adversary catalogue and verdict rule of the replay ---------------- *)
\* table_cell_unused: the output cell of an entry no lookup uses; table_and_lookup: a used entry's output cell AND the output
\* of every lookup of that entry carry the same wrong value (Sum = LDC still holds: only the RE term rejects)
\* api_other_input: not a corrupted assignment but the ORDINARY API (strategy "api": PartialWitness, prove, verify) with the input of a
\* lookup into table t set to the input of a pair that only another table of the circuit has (table identity, see LookupTables.tla)
Kinds == {"none", "api_other_input", "out_notin", "out_other_entry", "inp_notin", "pair_other_table", "lu_slot_only", "table_cell", "table_cell_unused",
          "table_and_lookup", "table_pad", "lu_pad", "mult", "noop_cell"}
Strategies == {"plain", "zero_lookup", "zero_z", "one_z", "perturb_q0", "perturb_qlast", "ext_plain", "ext_shift", "api"}
\* sat: verdict of the satisfaction oracle (gates, copy classes, every looking slot holds a pair of ITS table, the
\* table rows hold the table).  The oracle does not model multiplicities nor the padding slots of the table rows, so
\* the completeness direction is asserted only for the kinds that do not touch lookup rows.
Expected(sat, kind, strategy) ==
  IF ~sat THEN "reject"
  ELSE IF kind \in {"none", "noop_cell"} /\ strategy \in {"plain", "ext_plain"} THEN "accept"
  ELSE "any"
Rule == {[sat |-> s, kind |-> k, strategy |-> st, expect |-> Expected(s, k, st)] : s \in BOOLEAN, k \in Kinds, st \in Strategies}
ASSUME \A r \in Rule : (~r.sat) => r.expect = "reject"
ASSUME PrintT("KINDS " \o ToJson(Kinds))
ASSUME PrintT("STRATEGIES " \o ToJson(Strategies))
ASSUME PrintT("RULE " \o ToJson(Rule))
=============================================================================
