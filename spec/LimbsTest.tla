---- MODULE LimbsTest ----
EXTENDS Limbs, TLC
PM1 == <<0,0,0,0,255,255,255,255>>
ASSUME PrintT(<<"mul pm1*pm1", MulP(PM1, PM1)>>)
ASSUME MulP(PM1, PM1) = One8
ASSUME AddP(PM1, One8) = Zero8
ASSUME SubP(Zero8, One8) = PM1
ASSUME ModP(<<255,255,255,255,255,255,255,255>>) = F8(0) \/ PrintT(ModP(<<255,255,255,255,255,255,255,255>>))
ASSUME PrintT(ModP(<<255,255,255,255,255,255,255,255,255,255,255,255,255,255,255,255>>))
ASSUME PowP(F8(7), SubN(P8, <<1>>)) = One8
ASSUME MulP(F8(7), PowP(F8(7), SubN(P8, <<2>>))) = One8
ASSUME MulP(F8(65536), F8(65536)) = <<0,0,0,0,1,0,0,0>>
VARIABLE x
Init == x = 0
Next == x' = x
====
