----------------------------- MODULE FriVerifier -----------------------------
(***************************************************************************)
(* The FRI batch-opening protocol of plonky2 as an interactive state       *)
(* machine over the small field of FriAlgebra (property C05).              *)
(*                                                                         *)
(*   start --alpha--> layer 1 --beta_1--> ... layer NL --(all beta_NL,     *)
(*                                         all query positions)--> done    *)
(*                                                                         *)
(* Prover (implementation-shaped): PolynomialBatch::prove_openings         *)
(*   (alpha-combination, divide_by_linear, padding, LDE) and               *)
(*   fri_committed_trees (commit layer, fold the coefficients with         *)
(*   reduce_with_powers, truncate the final polynomial).                   *)
(* Verifier (implementation-shaped): verify_fri_proof /                    *)
(*   fri_verifier_query_round as the named checks                          *)
(*     Shape (only its part that no other check subsumes: the length of the *)
(*     final polynomial), Pow, NumRounds, InitMerkle<o>, Consistency<k>,    *)
(*     LayerMerkle<k>, Final                                                *)
(*   (k = 0-based commit-phase layer as in the code), each of which can be *)
(*   switched off through the constant Disabled.                           *)
(* Merkle binding is abstract: a committed table is a fixed function; the  *)
(* Merkle check of an opened leaf is "opened = committed and the path is   *)
(* intact".                                                                *)
(*                                                                         *)
(* A scenario fixes the instance (polynomials, oracles, opening batches)   *)
(* and ONE prover deviation sc.dev = [k, l, t, j, d]:                      *)
(*  Fiat-Shamir consistent (the deviation happens before the message is    *)
(*  absorbed; knobs of plonky2::verif_knobs or a prover built from public  *)
(*  parts):                                                                *)
(*   honest                                                                *)
(*   layer_delta  l d    every value of layer l shifted before commitment  *)
(*   final_delta  t d    final coefficient t shifted before absorption     *)
(*   pow_bad             pow response without the leading zeros            *)
(*   claim_adaptive l=batch j d   wrong claimed opening; layer 0 is the    *)
(*                       verifier's own combination (not low degree),      *)
(*                       folded honestly, final polynomial truncated       *)
(*   high_degree j t=degree d     polynomial j has degree t > n, claims    *)
(*                       are its true values, folded honestly, truncated   *)
(*   degree_n     j d    polynomial j has degree exactly n (see Slack)     *)
(*  fixed-challenge edits of an honest proof:                              *)
(*   claim_edit l=batch j d       claimed opening changed                  *)
(*   leaf_edit j t d     opened leaf value of polynomial j at position t   *)
(*   leaf_recommit j t d same, the oracle is re-committed (cap replaced)   *)
(*   leaf_kernel t d     opened values of polynomials 2,3 at position t    *)
(*                       changed inside the kernel of the alpha-combination*)
(*   leaf_kernel_recommit  same, oracles re-committed: invisible (accept)  *)
(*   init_path l=oracle t         a sibling of the path of oracle l at t   *)
(*   layer_path l t=coset         a sibling of the path in layer l         *)
(*   coset_edit l t d    opened coset value (flat index t of layer l)      *)
(*   coset_recommit l t d same, layer re-committed (cap replaced)          *)
(*   layer_replace l d   layer l and everything after it derived from a    *)
(*                       shifted function (all caps replaced)              *)
(*   final_edit t d      final coefficient changed                         *)
(*   drop_round          the query round is missing                        *)
(*   layer_cap l t j     entry t of the cap of layer l changed; j = length *)
(*                       of the Merkle paths of that tree, so the entry is *)
(*                       read by the cosets c with c >> j = t.  j = 0 is   *)
(*                       the sub-case "tree height = cap height": the path *)
(*                       is EMPTY and  hash(leaf) = cap[coset index]  is   *)
(*                       the whole LayerMerkle check (in an admissible     *)
(*                       schedule only the LAST layer can be that low)     *)
(*   init_cap l=oracle t j   same for the cap of an initial oracle (j = 0  *)
(*                       needs lde_bits = cap height, i.e. no reduction)   *)
(*   coset_forge t d     last layer: opened coset value t changed, layer   *)
(*                       NOT re-committed, and the final polynomial forged *)
(*                       (constant term) so that the fold of the edited    *)
(*                       coset passes Final: only LayerMerkle reads the    *)
(*                       difference at the sibling positions ("off" =      *)
(*                       positions of other cosets, which now fail Final)  *)
(*   final_extend        a zero coefficient appended to the final polynomial*)
(*   final_truncate      its last coefficient dropped                      *)
(*   degree_scaled j=e   Fiat-Shamir consistent: every polynomial has 2^e  *)
(*                       times the allowed number of coefficients (a prover*)
(*                       run with degree_bits+e, rate_bits-e: same domain, *)
(*                       same trees, same schedule), true values claimed,  *)
(*                       folded honestly; the final polynomial has 2^e*FL  *)
(*                       coefficients and IS the true fold, so every       *)
(*                       algebraic check passes: only Shape (the final     *)
(*                       polynomial has exactly final_poly_len coefficients*)
(*                       ) stands between this prover and acceptance       *)
(* Merkle binding being abstract, an empty path is not a different case of *)
(* the MODEL (the check is "opened = committed, path and cap intact"); it  *)
(* is a case of the IMPLEMENTATION, so the catalogue carries j as a        *)
(* scenario attribute and the driver refuses to run (tool error) unless    *)
(* the replay contained j = 0 instances of every Merkle-only deviation.    *)
(*                                                                         *)
(* Batched variant (batch_fri/{prover,verifier,oracle}.rs): sc.e > 0 adds  *)
(* a second instance of 2^AR-times smaller degree (polys2, bat2) whose     *)
(* alpha-combination enters after reduction sc.e:  values := folded*beta   *)
(* + combination2 (prover, then coset_ifft), old_eval := old_eval*beta +   *)
(* combination2(x') (verifier); its LDE lives on the coset g*<w'> while    *)
(* the FRI layer lives on g^(2^S)*<w'>, exactly as in the code.  Its       *)
(* deviations: claim_edit2, leaf_edit2, leaf_recommit2 (t = index in the   *)
(* small domain), high_degree2, degree_n2.                                 *)
(***************************************************************************)
EXTENDS FriAlgebra

CONSTANTS Alphas, Betas,     \* challenge sets enumerated (all of Fp in the exhaustive runs)
          Disabled           \* set of verifier checks switched off (canaries)

VARIABLES sc, ph, lay, chal, gen, pc, op, fails, cls, res,
          q2, v2       \* batched variant: prover's / verifier's table of the second instance
vars == <<sc, ph, lay, chal, gen, pc, op, fails, cls, res, q2, v2>>

D == sc.dev
NP == Len(sc.polys)
NB == Len(sc.bat)
Oracles == {sc.orc[p] : p \in 1..NP}

(* ---- names of the checks, in the order the verifier performs them ---- *)
IName == [o \in 1..4 |-> "InitMerkle" \o ToString(o)]
CName == [l \in 1..NL |-> "Consistency" \o ToString(l - 1)]
MName == [l \in 1..NL |-> "LayerMerkle" \o ToString(l - 1)]
RECURSIVE LayerNames(_)
LayerNames(l) == IF l > NL THEN <<>> ELSE <<CName[l], MName[l]>> \o LayerNames(l + 1)
Order == <<"Shape", "Pow", "NumRounds", IName[1], IName[2], IName[3], IName[4]>> \o LayerNames(1) \o <<"Final">>
First(F) == IF F = {} THEN "none" ELSE Order[CHOOSE i \in 1..Len(Order) : Order[i] \in F /\ \A j \in 1..(i - 1) : Order[j] \notin F]

Horner(s, a) == ReducePow(s, 1, Len(s), a)

(* ---- claimed openings ---- *)
Claims ==
  [b \in 1..NB |-> [j \in 1..Len(sc.bat[b].idx) |->
     LET y == EvalPoly(sc.polys[sc.bat[b].idx[j]], sc.bat[b].z)
     IN IF D.k \in {"claim_edit", "claim_adaptive"} /\ D.l = b /\ D.j = j THEN Add(y, D.d) ELSE y]]

(* ---- initial oracles: committed and opened tables per polynomial (tree order) ---- *)
Committed(alpha) ==
  [p \in 1..NP |-> LET v == EvalOnLayer(sc.polys[p], 0)
                   IN CASE D.k = "leaf_recommit" /\ D.j = p -> [v EXCEPT ![D.t + 1] = Add(@, D.d)]
                        [] D.k = "leaf_kernel_recommit" /\ p = 3 -> [v EXCEPT ![D.t + 1] = Add(@, D.d)]
                        [] D.k = "leaf_kernel_recommit" /\ p = 2 -> [v EXCEPT ![D.t + 1] = Sub(@, Mul(alpha, D.d))]
                        [] OTHER -> v]
Opened(cm, alpha) ==
  [p \in 1..NP |->
     CASE D.k = "leaf_edit" /\ D.j = p -> [cm[p] EXCEPT ![D.t + 1] = Add(@, D.d)]
       [] D.k = "leaf_kernel" /\ p = 3 -> [cm[p] EXCEPT ![D.t + 1] = Add(@, D.d)]
       [] D.k = "leaf_kernel" /\ p = 2 -> [cm[p] EXCEPT ![D.t + 1] = Sub(@, Mul(alpha, D.d))]
       [] OTHER -> cm[p]]
InitFail(cm, opn, i) ==       \* i = 1-based position; names of the failing InitMerkle checks
  {IName[o] : o \in {o \in Oracles :
      \/ \E p \in 1..NP : sc.orc[p] = o /\ opn[p][i] # cm[p][i]
      \/ D.k = "init_path" /\ D.l = o /\ D.t = i - 1
      \/ D.k = "init_cap" /\ D.l = o /\ (i - 1) \div 2 ^ D.j = D.t}}

(* ---- fri_combine_initial ---- *)
RECURSIVE CombB(_, _, _, _, _, _)
CombB(vals, cl, a, x, b, sum) ==
  IF b > NB THEN sum
  ELSE CombB(vals, cl, a, x, b + 1,
             Add(Mul(sum, PowF(a, Len(sc.bat[b].idx))),
                 Div(Sub(Horner([j \in 1..Len(sc.bat[b].idx) |-> vals[sc.bat[b].idx[j]]], a), Horner(cl[b], a)),
                     Sub(x, sc.bat[b].z))))
CombineTable(opn, cl, a) ==
  TLCEval([i \in 1..N |-> CombB([p \in 1..NP |-> opn[p][i]], cl, a, XTab[0][i - 1], 1, 0)])

(* ---- PolynomialBatch::prove_openings: the polynomial that goes into FRI ---- *)
MaxLen(S) == CHOOSE m \in S : \A k \in S : k <= m
CompPoly(b, a) ==
  LET idx == sc.bat[b].idx
      len == MaxLen({Len(sc.polys[idx[j]]) : j \in 1..Len(idx)})
  IN TLCEval([k \in 1..len |-> Horner([j \in 1..Len(idx) |->
                 IF k <= Len(sc.polys[idx[j]]) THEN sc.polys[idx[j]][k] ELSE 0], a)])
RECURSIVE QuotB(_, _, _)
QuotB(a, b, acc) ==
  IF b > NB THEN acc
  ELSE Let(CompPoly(b, a), LAMBDA comp :
       Let(Append(DivLinear(comp, sc.bat[b].z), 0), LAMBDA quot :          \* pad back to a power of two
       Let(AddPoly(Scale(acc, PowF(a, Len(sc.bat[b].idx))), quot), LAMBDA nacc :
           QuotB(a, b + 1, nacc))))
HonestLdeCoeffs(a) == Pad(QuotB(a, 1, <<>>), N)

(* ---- second (smaller) instance of the batched variant ---- *)
E == sc.e
NP2 == Len(sc.polys2)
NB2 == Len(sc.bat2)
XI2 == TLCEval([i \in 0..(LSize(E) - 1) |-> Mul(G, PowF(RootOfUnity(LBits(E)), RevBits(i, LBits(E))))])
Claims2 ==
  [b \in 1..NB2 |-> [j \in 1..Len(sc.bat2[b].idx) |->
     LET y == EvalPoly(sc.polys2[sc.bat2[b].idx[j]], sc.bat2[b].z)
     IN IF D.k = "claim_edit2" /\ D.l = b /\ D.j = j THEN Add(y, D.d) ELSE y]]
Committed2 ==
  [p \in 1..NP2 |-> LET v == TLCEval([i \in 1..LSize(E) |-> EvalPoly(sc.polys2[p], XI2[i - 1])])
                    IN IF D.k = "leaf_recommit2" /\ D.j = p THEN [v EXCEPT ![D.t + 1] = Add(@, D.d)] ELSE v]
Opened2(cm) == [p \in 1..NP2 |-> IF D.k = "leaf_edit2" /\ D.j = p THEN [cm[p] EXCEPT ![D.t + 1] = Add(@, D.d)] ELSE cm[p]]
RECURSIVE CombB2(_, _, _, _, _, _)
CombB2(vals, cl, a, x, b, sum) ==
  IF b > NB2 THEN sum
  ELSE CombB2(vals, cl, a, x, b + 1,
              Add(Mul(sum, PowF(a, Len(sc.bat2[b].idx))),
                  Div(Sub(Horner([j \in 1..Len(sc.bat2[b].idx) |-> vals[sc.bat2[b].idx[j]]], a), Horner(cl[b], a)),
                      Sub(x, sc.bat2[b].z))))
CombineTable2(opn, cl, a) ==
  TLCEval([i \in 1..LSize(E) |-> CombB2([p \in 1..NP2 |-> opn[p][i]], cl, a, XI2[i - 1], 1, 0)])
CompPoly2(b, a) ==
  LET idx == sc.bat2[b].idx
      len == MaxLen({Len(sc.polys2[idx[j]]) : j \in 1..Len(idx)})
  IN TLCEval([k \in 1..len |-> Horner([j \in 1..Len(idx) |->
                 IF k <= Len(sc.polys2[idx[j]]) THEN sc.polys2[idx[j]][k] ELSE 0], a)])
RECURSIVE QuotB2(_, _, _)
QuotB2(a, b, acc) ==
  IF b > NB2 THEN acc
  ELSE Let(CompPoly2(b, a), LAMBDA comp :
       Let(Append(DivLinear(comp, sc.bat2[b].z), 0), LAMBDA quot :
       Let(AddPoly(Scale(acc, PowF(a, Len(sc.bat2[b].idx))), quot), LAMBDA nacc :
           QuotB2(a, b + 1, nacc))))
(* LDE values of the second instance's quotient on g*<w'> in tree order (coset_fft with coset_shift) *)
ProverValues2(a) == Let(QuotB2(a, 1, <<>>), LAMBDA q : TLCEval([i \in 1..LSize(E) |-> EvalPoly(q, XI2[i - 1])]))
InitFail2(cm, opn, i) ==      \* the batch Merkle proof of the oracle covers the small leaf too
  IF \E p \in 1..NP2 : opn[p][((i - 1) \div 2 ^ SumAr(E)) + 1] # cm[p][((i - 1) \div 2 ^ SumAr(E)) + 1]
  THEN {IName[1]} ELSE {}

(* ---- one commit-phase layer: what is committed, what is opened, what the verifier notices ---- *)
Bump(v, t, d) == [v EXCEPT ![t + 1] = Add(@, d)]
Prepare(l, pcIn, voldIn, failsIn) ==
  Let(IF D.k = "layer_replace" /\ D.l = l - 1 THEN Bump(pcIn, 0, D.d) ELSE pcIn, LAMBDA pcd :
  Let(IF D.k = "layer_delta" /\ D.l = l - 1
      THEN Let(EvalOnLayer(pcd, l - 1), LAMBDA e : TLCEval([i \in 1..Len(e) |-> Add(e[i], D.d)]))
      ELSE EvalOnLayer(pcd, l - 1), LAMBDA V :
  Let(IF D.k = "coset_recommit" /\ D.l = l - 1 THEN Bump(V, D.t, D.d) ELSE V, LAMBDA Cm :
  Let(IF D.k \in {"coset_edit", "coset_forge"} /\ D.l = l - 1 THEN Bump(Cm, D.t, D.d) ELSE Cm, LAMBDA Op :
    [pc |-> pcd, op |-> Op,
     fails |-> TLCEval([i \in 1..N |->
        LET cur == (i - 1) \div 2 ^ SumAr(l - 1)          \* index in this layer
            c == cur \div 2 ^ AR[l]                        \* coset index
        IN failsIn[i]
           \cup (IF Op[cur + 1] # voldIn[cur + 1] THEN {CName[l]} ELSE {})
           \cup (IF \/ \E m \in 1..(2 ^ AR[l]) : Op[c * 2 ^ AR[l] + m] # Cm[c * 2 ^ AR[l] + m]
                    \/ D.k = "layer_path" /\ D.l = l - 1 /\ D.t = c
                    \/ D.k = "layer_cap" /\ D.l = l - 1 /\ c \div 2 ^ D.j = D.t
                 THEN {MName[l]} ELSE {})])]))))
VFold(opn, l, beta) ==
  TLCEval([c \in 1..LSize(l) |->
     ComputeEvaluation(XTab[l - 1][(c - 1) * 2 ^ AR[l]], 0, AR[l],
                       SubSeq(opn, (c - 1) * 2 ^ AR[l] + 1, c * 2 ^ AR[l]), beta)])

(* ---- which query positions read the edited element ---- *)
PosClass(i) ==      \* i 0-based
  CASE D.k \in {"leaf_edit", "leaf_recommit", "leaf_kernel", "leaf_kernel_recommit", "init_path"} -> IF i = D.t THEN "hit" ELSE "miss"
    [] D.k \in {"coset_edit", "coset_recommit"} ->
         LET cur == i \div 2 ^ SumAr(D.l)  ar == 2 ^ AR[D.l + 1]
         IN IF cur = D.t THEN "hitq" ELSE IF cur \div ar = D.t \div ar THEN "hits" ELSE "miss"
    [] D.k = "layer_path" -> IF i \div 2 ^ SumAr(D.l + 1) = D.t THEN "hit" ELSE "miss"
    [] D.k = "layer_cap" -> IF (i \div 2 ^ SumAr(D.l + 1)) \div 2 ^ D.j = D.t THEN "hit" ELSE "miss"
    [] D.k = "init_cap" -> IF i \div 2 ^ D.j = D.t THEN "hit" ELSE "miss"
    [] D.k = "coset_forge" ->
         LET cur == i \div 2 ^ SumAr(D.l)  ar == 2 ^ AR[D.l + 1]
         IN IF cur = D.t THEN "hitq" ELSE IF cur \div ar = D.t \div ar THEN "hits" ELSE "off"
    [] D.k \in {"leaf_edit2", "leaf_recommit2"} -> IF i \div 2 ^ SumAr(E) = D.t THEN "hit" ELSE "miss"
    [] OTHER -> "hit"
Classes == {"miss", "hit", "hitq", "hits", "off"}

(* ---- accounting ---- *)
ZeroC == [t |-> 0, a |-> 0, gt |-> 0, ga |-> 0]
ZeroStats == [n |-> [c \in Classes |-> ZeroC], sets |-> [c \in Classes |-> {}]]
MergeStats(x, y) ==
  [n |-> [c \in Classes |-> [t |-> x.n[c].t + y.n[c].t, a |-> x.n[c].a + y.n[c].a,
                             gt |-> x.n[c].gt + y.n[c].gt, ga |-> x.n[c].ga + y.n[c].ga]],
   sets |-> [c \in Classes |-> x.sets[c] \cup y.sets[c]]]
GlobalFail == (IF D.k = "pow_bad" THEN {"Pow"} ELSE {}) \cup (IF D.k = "drop_round" THEN {"NumRounds"} ELSE {})
B2N(b) == IF b THEN 1 ELSE 0
AddPos(acc, c, F, g) ==
  LET ok == F \subseteq Disabled
  IN [n |-> [acc.n EXCEPT ![c] = [t |-> @.t + 1, a |-> @.a + B2N(ok), gt |-> @.gt + B2N(g), ga |-> @.ga + B2N(g /\ ok)]],
      sets |-> IF g THEN [acc.sets EXCEPT ![c] = @ \cup {F}] ELSE acc.sets]

FinalCoeffs(pcF) ==
  \* coeffs.truncate(len >> rate_bits); the degree_scaled prover runs with rate_bits - e
  Let(SubSeq(pcF, 1, IF D.k = "degree_scaled" THEN FL * 2 ^ D.j ELSE FL), LAMBDA fc :
      CASE D.k \in {"final_delta", "final_edit"} -> Bump(fc, D.t, D.d)
        [] D.k = "final_extend" -> Append(fc, 0)
        [] D.k = "final_truncate" -> SubSeq(fc, 1, Len(fc) - 1)
        [] OTHER -> fc)

(* everything that depends on the last folding challenge, for all query positions *)
Leaf(beta) ==
  Let(gen /\ beta \notin DomainPoints(NL - 1), LAMBDA g :
  Let(FoldCoeffs(pc, AR[NL], beta), LAMBDA pcF :
  Let(VFold(op, NL, beta), LAMBDA vF :
  Let(Let(FinalCoeffs(pcF), LAMBDA fc0 :
          IF D.k = "coset_forge"      \* forged so that the fold of the edited coset passes Final
          THEN Bump(fc0, 0, Sub(vF[(D.t \div 2 ^ AR[NL]) + 1], EvalPoly(fc0, XTab[NL][D.t \div 2 ^ AR[NL]])))
          ELSE fc0), LAMBDA fc :
  Let(TLCEval([c \in 1..LSize(NL) |-> EvalPoly(fc, XTab[NL][c - 1]) # vF[c]]), LAMBDA ff :
    FoldSet(LAMBDA i, acc :
              AddPos(acc, cls[i],
                     IF D.k = "drop_round" THEN GlobalFail \cup (IF Len(fc) # FL THEN {"Shape"} ELSE {})  \* zip(): no round
                     ELSE GlobalFail \cup fails[i] \cup (IF Len(fc) # FL THEN {"Shape"} ELSE {})
                          \cup (IF ff[((i - 1) \div 2 ^ SumAr(NL)) + 1] THEN {"Final"} ELSE {}),
                     g),
            ZeroStats, 1..N))))))

(* ---- the state machine ---- *)
InitWith(S) ==
  /\ sc \in S /\ ph = "start" /\ lay = 0 /\ chal = <<>> /\ gen = TRUE
  /\ pc = <<>> /\ op = <<>> /\ fails = <<>> /\ cls = <<>> /\ res = ZeroStats /\ q2 = <<>> /\ v2 = <<>>

CommitStep ==
  /\ ph = "start"
  /\ \E a \in Alphas :
     \E cl \in {Claims} :
     \E cm \in {Committed(a)} :
     \E opn \in {Opened(cm, a)} :
     \E vc \in {CombineTable(opn, cl, a)} :
     \E pc0 \in {IF D.k = "claim_adaptive" THEN Interp(vc, 0) ELSE HonestLdeCoeffs(a)} :
     \E cm2 \in {IF E > 0 THEN Committed2 ELSE <<>>} :
     \E opn2 \in {IF E > 0 THEN Opened2(cm2) ELSE <<>>} :
     \E f0 \in {TLCEval([i \in 1..N |-> InitFail(cm, opn, i) \cup (IF E > 0 THEN InitFail2(cm2, opn2, i) ELSE {})])} :
     \E pr \in {Prepare(1, pc0, vc, f0)} :
       /\ q2' = (IF E > 0 THEN ProverValues2(a) ELSE <<>>)
       /\ v2' = (IF E > 0 THEN CombineTable2(opn2, Claims2, a) ELSE <<>>)
       /\ chal' = <<a>> /\ gen' = (a # 0)
       /\ pc' = pr.pc /\ op' = pr.op /\ fails' = pr.fails
       /\ cls' = [i \in 1..N |-> PosClass(i - 1)]
       /\ lay' = 1 /\ ph' = "layer"
  /\ UNCHANGED <<sc, res>>

(* batch_fri: the smaller instance joins after reduction E with the same beta *)
JoinProver(pc1, l, b) ==
  IF E = l THEN Let(EvalOnLayer(pc1, l), LAMBDA V1 : Interp([i \in 1..LSize(l) |-> Add(Mul(V1[i], b), q2[i])], l))
  ELSE pc1
JoinVerifier(v1, l, b) == IF E = l THEN TLCEval([c \in 1..LSize(l) |-> Add(Mul(v1[c], b), v2[c])]) ELSE v1

MidStep ==
  /\ ph = "layer" /\ lay < NL
  /\ \E b \in Betas :
     \E pc1 \in {JoinProver(FoldCoeffs(pc, AR[lay], b), lay, b)} :
     \E v1 \in {JoinVerifier(VFold(op, lay, b), lay, b)} :
     \E pr \in {Prepare(lay + 1, pc1, v1, fails)} :
       \* generic: beta is not a point of the folded layer (it never is: it lives in the extension field)
       \* and, where a smaller instance joins, beta # 0 (beta is the combiner of the two instances)
       /\ chal' = Append(chal, b) /\ gen' = (gen /\ b \notin DomainPoints(lay - 1) /\ (E = lay => b # 0))
       /\ pc' = pr.pc /\ op' = pr.op /\ fails' = pr.fails
       /\ lay' = lay + 1
  /\ UNCHANGED <<sc, ph, cls, res, q2, v2>>

LastStep ==
  /\ ph = "layer" /\ lay = NL
  /\ res' = FoldSet(LAMBDA b, acc : MergeStats(acc, Leaf(b)), ZeroStats, Betas)
  /\ ph' = "done"
  /\ UNCHANGED <<sc, lay, chal, gen, pc, op, fails, cls, q2, v2>>

Next == CommitStep \/ MidStep \/ LastStep

(* ---- obligations ---- *)
Class == CASE D.k \in {"honest", "degree_n", "degree_n2", "leaf_kernel_recommit"} -> "accept"
           [] D.k \in {"claim_adaptive", "high_degree", "high_degree2"} -> "partial"
           [] OTHER -> "reject"
Done == ph = "done"
HitClasses == Classes \ {"miss", "off"}
(* completeness: the honest proof passes every check at every position for every challenge *)
Completeness == (Done /\ Class = "accept") =>
                  \A c \in Classes : res.n[c].a = res.n[c].t /\ res.sets[c] \subseteq {{}}
(* soundness of the individual checks under fixed (generic) challenges: a position that reads the
   deviating element never accepts; a position that does not read it is unaffected *)
Soundness == (Done /\ Class = "reject") =>
                  /\ \A c \in HitClasses : res.n[c].ga = 0
                  /\ res.n["miss"].a = res.n["miss"].t
(* a non-low-degree function folded honestly passes every consistency check; only Final can notice *)
OnlyFinalNotices == (Done /\ Class = "partial") => \A c \in Classes : \A F \in res.sets[c] : F \subseteq {"Final"}
TypeOK == ph \in {"start", "layer", "done"} /\ lay \in 0..NL
=============================================================================
