----------------------------- MODULE OpLogTrace -----------------------------
(***************************************************************************)
(* Trace validation of stateless operation logs recorded from the real     *)
(* code (and from the harness's reference interpreter): every event must   *)
(* satisfy the mathematical definition of its operation (modules GF,       *)
(* Poly).  The log is walked as a two-level fan-out so that TLC's workers  *)
(* share it; a violation names the event index l.                          *)
(***************************************************************************)
EXTENDS GF, Json, IOUtils, TLC

Rec == ndJsonDeserialize(IOEnv.TRACE)
N == Len(Rec)
Chunk == 64
NChunks == (N + Chunk - 1) \div Chunk

VARIABLES c, l
vars == <<c, l>>

OpOk(e) ==
  CASE e.op = "add"   -> AddOk(e.a, e.b, e.r)
    [] e.op = "sub"   -> SubOk(e.a, e.b, e.r)
    [] e.op = "neg"   -> NegOk(e.a, e.r)
    [] e.op = "mul"   -> MulOk(e.a, e.b, e.r)
    [] e.op = "sq"    -> MulOk(e.a, e.a, e.r)
    [] e.op = "mac"   -> MacOk(e.s, e.a, e.b, e.r)
    [] e.op = "inv"   -> InvOk(e.a, e.r)
    [] e.op = "exp"   -> ExpOk(e.a, e.e, e.r)
    [] e.op = "canon" -> CanonOk(e.a, e.r)
    [] e.op = "tryinv" -> TryInvOk(e.a, e.none, e.r)
    [] e.op = "iszero" -> IsZeroOk(e.a, e.z)
    [] e.op = "eq"    -> EqOk(e.a, e.b, e.z)
    [] e.op = "eeq"   -> ExtEqOk(e.d, e.a, e.b)
    [] e.op = "red"   -> RedOk(e.n, e.r)
    [] e.op = "i64"   -> FromSignedOk(e.neg, e.mag, e.r)
    [] e.op = "eadd"  -> ExtAddOk(e.d, e.a, e.b, e.r)
    [] e.op = "esub"  -> ExtSubOk(e.d, e.a, e.b, e.r)
    [] e.op = "emul"  -> ExtMulOk(e.d, e.a, e.b, e.r)
    [] e.op = "einv"  -> ExtInvOk(e.d, e.a, e.r)
    [] e.op = "echain" -> ExtChainOk(e.d, e.a, e.e, e.bits, e.steps, e.sqs, e.r)
    [] e.op = "binv"  -> BatchInvOk(e.x, e.r)
    [] OTHER          -> FALSE

Init == c = 0 /\ l = 0
Next == \/ c = 0 /\ l = 0 /\ c' \in 1..NChunks /\ l' = 0
        \/ c > 0 /\ l = 0 /\ c' = c
           /\ l' \in ((c - 1) * Chunk + 1)..(IF c * Chunk > N THEN N ELSE c * Chunk)
EventOk == l > 0 => OpOk(Rec[l])
\* acceptance: every event was visited (distinct states = 1 + chunks + events)
Accepted == TLCGet("distinct") = 1 + NChunks + N
=============================================================================
