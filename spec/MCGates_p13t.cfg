CONSTANT P = 13
CONSTANT ALPHA = 5
CONSTANT GEN = 2
CONSTANT DropKind = "none"
CONSTANT DropIdx = 0
CONSTANT Cases <- Cases13T
CONSTANT Sel = {}
CONSTANT DegShift = 0
INIT InitRows
NEXT NextRows
INVARIANT Satisfied
INVARIANT PinnedInv
INVARIANT CountInv
INVARIANT LayoutInv
CHECK_DEADLOCK FALSE
