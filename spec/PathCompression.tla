-------------------------- MODULE PathCompression --------------------------
(***************************************************************************)
(* Implementation-shaped transcription of hash/path_compression.rs         *)
(* (compress_merkle_proofs / decompress_merkle_proofs), C12 and C16.       *)
(*                                                                         *)
(* Nodes are numbered as in the code: root = 1, children of i = 2i, 2i+1,  *)
(* leaf i of a tree of height h = i + 2^h.                                 *)
(*   compress:   `known` = every node on some opened path below the cap;   *)
(*               proof by proof, bottom-up: a sibling that is not yet      *)
(*               known is kept and becomes known.                          *)
(*   decompress: `seen` = node -> digest, initialised with the leaves;     *)
(*               LAYER BY LAYER (not proof by proof), each proof takes the *)
(*               next element of its own sibling iterator exactly when the *)
(*               sibling has not been seen; parents are recomputed; then   *)
(*               every proof is read back out of `seen`.                   *)
(* The two loops are nested in opposite orders - that they agree on which  *)
(* sibling comes from which compressed proof is what TLC checks here, for  *)
(* ALL index sequences (with repetitions) - state machine, one action per  *)
(* proof (compress) / per layer (decompress).                              *)
(* `reexp`: FriProof::compress de-duplicates per index and decompress      *)
(* hands every repeated index a COPY of the first occurrence's compressed  *)
(* proof; the round trip must survive that as well.                        *)
(*                                                                         *)
(* Property level: RoundTrip (decompress o compress = identity), NoMiss    *)
(* (decompression never reads a missing sibling / digest).                 *)
(***************************************************************************)
EXTENDS Merkle, Json, SequencesExt

CONSTANTS MaxH,      \* tree heights 0..MaxH
          MaxLen,    \* index sequences of length 1..MaxLen
          Mutant     \* "none" | "noinitknown" | "noxor"

VARIABLES sc,      \* [h, capH, idx, reexp] (or a group record while fanning out)
          pc, k, orig, known, comp, kept, cps, seen, its, dec, miss
vars == <<sc, pc, k, orig, known, comp, kept, cps, seen, its, dec, miss>>

W == 5
MISSING == <<"missing">>
Leaves(h) == [j \in 0..(Pow2(h) - 1) |-> <<"v", j>>]
N == Pow2(sc.h)
L == sc.h - sc.capH
Layers == [j \in 1..L |-> j - 1]             \* <<0, 1, .., L-1>>
Proofs == [j \in 1..Len(sc.idx) |-> j]       \* <<1, .., n>>
First(j) == CHOOSE a \in 1..j : sc.idx[a] = sc.idx[j] /\ \A b \in 1..(a - 1) : sc.idx[b] # sc.idx[j]

(***************************************************************************)
(* compress_merkle_proofs                                                  *)
(***************************************************************************)
InitialKnown ==
  IF Mutant = "noinitknown" THEN {}
  ELSE {Shr(sc.idx[a] + N, j) : a \in 1..Len(sc.idx), j \in 0..(L - 1)}

\* one proof: fold over its siblings
CompressOne(p) ==
  FoldLeft(LAMBDA acc, j :
             LET sib == IF Mutant = "noxor" THEN acc.index ELSE Xor1(acc.index)
                 new == sib \notin acc.known
             IN  [index |-> acc.index \div 2,
                  known |-> acc.known \cup {sib, acc.index \div 2},
                  out   |-> IF new THEN Append(acc.out, orig[p][j + 1]) ELSE acc.out,
                  ids   |-> IF new THEN Append(acc.ids, <<j, sib - Shr(N, j)>>) ELSE acc.ids],
           [index |-> sc.idx[p] + N, known |-> known, out |-> <<>>, ids |-> <<>>],
           Layers)

(***************************************************************************)
(* decompress_merkle_proofs                                                *)
(***************************************************************************)
DecompressLayer(layer) ==
  FoldLeft(LAMBDA acc, p :
             LET index == Shr(sc.idx[p] + N, layer)
                 have  == index \in DOMAIN acc.seen
                 cur   == IF have THEN acc.seen[index] ELSE MISSING
                 sib   == Xor1(index)
                 hit   == sib \in DOMAIN acc.seen
                 more  == acc.its[p] <= Len(cps[p])
                 sh    == IF hit THEN acc.seen[sib] ELSE IF more THEN cps[p][acc.its[p]] ELSE MISSING
                 par   == IF index % 2 = 0 THEN H2(cur, sh) ELSE H2(sh, cur)
             IN  [seen |-> ((index \div 2) :> par) @@ (sib :> sh) @@ acc.seen,
                  its  |-> IF hit THEN acc.its ELSE [acc.its EXCEPT ![p] = @ + 1],
                  miss |-> acc.miss \/ ~have \/ (~hit /\ ~more)],
           [seen |-> seen, its |-> its, miss |-> miss],
           Proofs)

ReadOut(p) ==
  [j \in 1..L |-> LET sib == Xor1(Shr(sc.idx[p] + N, j - 1))
                  IN  IF sib \in DOMAIN seen THEN seen[sib] ELSE MISSING]

(***************************************************************************)
(* the machine                                                             *)
(***************************************************************************)
Groups == UNION {UNION {{[h |-> h, capH |-> c, len |-> n] : n \in 1..MaxLen} : c \in 0..h} : h \in 0..MaxH}
HasDup(q) == \E a, b \in DOMAIN q : a < b /\ q[a] = q[b]
ScenariosOf(g) ==
  UNION {{[h |-> g.h, capH |-> g.capH, idx |-> q, reexp |-> r] : r \in (IF HasDup(q) THEN BOOLEAN ELSE {FALSE})}
         : q \in [1..g.len -> 0..(Pow2(g.h) - 1)]}

Init ==
  /\ sc \in Groups
  /\ pc = "group" /\ k = 0 /\ orig = <<>> /\ known = {} /\ comp = <<>> /\ kept = <<>> /\ cps = <<>>
  /\ seen = <<>> /\ its = <<>> /\ dec = <<>> /\ miss = FALSE

Pick ==
  /\ pc = "group"
  /\ sc' \in ScenariosOf(sc)
  /\ pc' = "start"
  /\ UNCHANGED <<k, orig, known, comp, kept, cps, seen, its, dec, miss>>

Start ==
  /\ pc = "start"
  /\ orig' = [p \in 1..Len(sc.idx) |-> Path(Leaves(sc.h), W, sc.h, sc.capH, sc.idx[p])]
  /\ known' = InitialKnown
  /\ k' = 1 /\ pc' = "compress"
  /\ UNCHANGED <<sc, comp, kept, cps, seen, its, dec, miss>>

CompressStep ==
  /\ pc = "compress"
  /\ LET r == CompressOne(k)
     IN  /\ comp' = Append(comp, r.out)
         /\ kept' = Append(kept, r.ids)
         /\ known' = r.known
  /\ IF k = Len(sc.idx) THEN pc' = "dinit" /\ k' = 0 ELSE pc' = "compress" /\ k' = k + 1
  /\ UNCHANGED <<sc, orig, cps, seen, its, dec, miss>>

DInit ==
  /\ pc = "dinit"
  /\ cps' = IF sc.reexp THEN [p \in 1..Len(sc.idx) |-> comp[First(p)]] ELSE comp
  \* "Observe the leaves": seen.insert(i + num_leaves, hash_or_noop(leaf))
  /\ seen' = [x \in {sc.idx[p] + N : p \in 1..Len(sc.idx)} |-> HashOrNoop(W, Leaves(sc.h)[x - N])]
  /\ its' = [p \in 1..Len(sc.idx) |-> 1]
  /\ k' = 0
  /\ pc' = IF L = 0 THEN "read" ELSE "dlayer"
  /\ UNCHANGED <<sc, orig, known, comp, kept, dec, miss>>

DLayer ==
  /\ pc = "dlayer"
  /\ LET r == DecompressLayer(k)
     IN  seen' = r.seen /\ its' = r.its /\ miss' = r.miss
  /\ IF k = L - 1 THEN pc' = "read" /\ k' = 0 ELSE pc' = "dlayer" /\ k' = k + 1
  /\ UNCHANGED <<sc, orig, known, comp, kept, cps, dec>>

Read ==
  /\ pc = "read"
  /\ dec' = [p \in 1..Len(sc.idx) |-> ReadOut(p)]
  /\ miss' = (miss \/ \E p \in 1..Len(sc.idx), j \in 1..L : ReadOut(p)[j] = MISSING)
  /\ pc' = "done"
  /\ UNCHANGED <<sc, k, orig, known, comp, kept, cps, seen, its>>

Next == Pick \/ Start \/ CompressStep \/ DInit \/ DLayer \/ Read

(***************************************************************************)
(* obligations                                                             *)
(***************************************************************************)
RoundTrip == pc = "done" => dec = orig
NoMiss    == ~miss
\* every kept sibling is consumed (by the first occurrence of its index)
Tight     == pc = "done" => \A p \in 1..Len(sc.idx) : First(p) = p => its[p] = Len(cps[p]) + 1
\* the compressed proofs never contain a node on an opened path or a node twice
NoWaste   == pc = "done" =>
   LET all == [p \in 1..Len(sc.idx) |-> {<<kept[p][a][1], kept[p][a][2]>> : a \in 1..Len(kept[p])}]
   IN  /\ \A p, q \in 1..Len(sc.idx) : p # q => all[p] \cap all[q] = {}
       /\ \A p, q \in 1..Len(sc.idx) : \A e \in all[p] : e[2] # Shr(sc.idx[q], e[1])

EmitThis == Len(sc.idx) <= 3 \/ (sc.idx[1] + 3 * sc.idx[2] + 5 * sc.idx[3] + 7 * sc.idx[4]) % 16 = 0
Emit == (pc = "done" /\ ~sc.reexp /\ EmitThis) =>
  PrintT("REPLAY " \o ToJson([h |-> sc.h, capH |-> sc.capH, idx |-> sc.idx, kept |-> kept]))
=============================================================================
