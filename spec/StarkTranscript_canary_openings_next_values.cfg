CONSTANTS
  RATE = 8
  WIDTH = 12
  Disabled = {"openings.next_values"}
  UseEnvConfigs = FALSE
INIT Init
NEXT Next
CHECK_DEADLOCK FALSE
INVARIANT FS1
