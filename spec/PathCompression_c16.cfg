CONSTANT MaxH = 3
CONSTANT MaxLen = 2
CONSTANT Mutant = "none"
INIT Init
NEXT Next
INVARIANT RoundTrip
INVARIANT NoMiss
INVARIANT Tight
INVARIANT NoWaste
CHECK_DEADLOCK FALSE
