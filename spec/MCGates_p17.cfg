CONSTANT P = 17
CONSTANT ALPHA = 3
CONSTANT GEN = 3
CONSTANT DropKind = "none"
CONSTANT DropIdx = 0
CONSTANT Cases <- Cases17
CONSTANT Sel = {}
CONSTANT DegShift = 0
INIT InitRows
NEXT NextRows
INVARIANT Satisfied
INVARIANT PinnedInv
INVARIANT CountInv
INVARIANT LayoutInv
CHECK_DEADLOCK FALSE
