CONSTANT TB = 2
CONSTANT WB = 16
CONSTANT SMALL = 64
CONSTANT BIGT = 16
CONSTANT LBBLOCK = 2
CONSTANT MaxLb = 12
CONSTANT ESizes = {8}
CONSTANT Mutant = "none"
INIT Init
NEXT Next
INVARIANT Correct
INVARIANT InBounds
CHECK_DEADLOCK FALSE
