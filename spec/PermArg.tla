------------------------------ MODULE PermArg ------------------------------
(***************************************************************************)
(* The permutation argument of plonk/vanishing_poly.rs (the L_0 term and   *)
(* the chunked partial-product transitions of util/partial_products.rs)    *)
(* over the prime field F_17, on a grid of N rows (N = 2, subgroup {1,16}) *)
(* and three routed columns with coset shifts K = <<1, 3, 5>> (cosets of    *)
(* {1,16}: {1,16}, {3,14}, {5,12}).                                         *)
(*                                                                         *)
(* For EVERY set partition of the six cells (copy classes), EVERY          *)
(* assignment over Vals and EVERY challenge pair (beta, gamma):            *)
(*  - completeness: if the assignment respects the partition, the honest   *)
(*    accumulator satisfies every verifier term on every row whenever no   *)
(*    denominator vanishes;                                                *)
(*  - soundness: if it violates the partition, accumulators satisfying all *)
(*    terms exist for at most Bound challenge pairs (Schwartz-Zippel);     *)
(*  - the all-zero accumulator satisfies every transition term for every   *)
(*    assignment, so the L_0 term alone stands against it: with            *)
(*    Disabled = "l0" a violating assignment is accepted for all           *)
(*    challenges (canary), with Disabled = "wrap" (no transition on the    *)
(*    last row) and Disabled = "chunk2" (second chunk unchecked) likewise. *)
(* The verdicts printed by Catalogue are the oracle of the C02 replay.     *)
(***************************************************************************)
EXTENDS Integers, Sequences, FiniteSets, TLC

CONSTANTS Vals,          \* witness values explored
          Disabled,      \* "none" | "l0" | "wrap" | "chunk2"
          ChunkSize      \* max_degree of the partial products: 2 or 3

P == 17
N == 2
NC == 3
Omega == <<1, 16>>                  \* the subgroup, row r -> Omega[r+1]
K == <<1, 3, 5>>                    \* coset shifts
Cells == 1..(N * NC)                \* cell (r, j) has index r * NC + j + 1, r in 0..N-1, j in 0..NC-1
Row(c) == (c - 1) \div NC
Col(c) == (c - 1) % NC
Id(c) == (K[Col(c) + 1] * Omega[Row(c) + 1]) % P

Mul(a, b) == (a * b) % P
Sub(a, b) == (a - b + P) % P

\* set partitions as restricted growth strings: cls[1] = 1, cls[i] <= 1 + max(cls[1..i-1])
IsRGS(f) == f[1] = 1 /\ \A i \in 2..(N * NC) : f[i] = 1 \/ \E k \in 1..(i - 1) : f[k] >= f[i] - 1
Partitions == {f \in [Cells -> 1..(N * NC)] : IsRGS(f)}

\* sigma: the next cell of the same class in cyclic index order (one cycle per class)
Sigma(cls, c) ==
  LET same == {d \in Cells : cls[d] = cls[c]}
      later == {d \in same : d > c}
  IN IF later # {} THEN CHOOSE d \in later : \A e \in later : d <= e
     ELSE CHOOSE d \in same : \A e \in same : d <= e

Respects(cls, w) == \A c, d \in Cells : cls[c] = cls[d] => w[c] = w[d]

VARIABLES cls, w, sig, acc, maxbad      \* sig = Sigma(cls, .), stored evaluated (TLC re-evaluates operators lazily)
vars == <<cls, w, sig, acc, maxbad>>

\* numerator / denominator factors of one row, in column order, chunked
Num(wv, c, b, g) == (wv[c] + b * Id(c) + g) % P
Den(clsv, wv, c, b, g) == (wv[c] + b * Id(clsv[c]) + g) % P        \* clsv is the sigma map here
NumChunks == IF ChunkSize >= NC THEN 1 ELSE 2          \* NC = 3: chunk sizes 2 -> {2,1}; 3 -> {3}
ChunkCols(k) == IF NumChunks = 1 THEN {0, 1, 2} ELSE IF k = 1 THEN {0, 1} ELSE {2}
ChunkProdNum(wv, r, k, b, g) ==
  LET cs == ChunkCols(k) IN
  IF cs = {0, 1, 2} THEN Mul(Mul(Num(wv, r * NC + 1, b, g), Num(wv, r * NC + 2, b, g)), Num(wv, r * NC + 3, b, g))
  ELSE IF cs = {0, 1} THEN Mul(Num(wv, r * NC + 1, b, g), Num(wv, r * NC + 2, b, g))
  ELSE Num(wv, r * NC + 3, b, g)
ChunkProdDen(clsv, wv, r, k, b, g) ==
  LET cs == ChunkCols(k) IN
  IF cs = {0, 1, 2} THEN Mul(Mul(Den(clsv, wv, r * NC + 1, b, g), Den(clsv, wv, r * NC + 2, b, g)), Den(clsv, wv, r * NC + 3, b, g))
  ELSE IF cs = {0, 1} THEN Mul(Den(clsv, wv, r * NC + 1, b, g), Den(clsv, wv, r * NC + 2, b, g))
  ELSE Den(clsv, wv, r * NC + 3, b, g)

\* One verifier transition term: prev * num - next * den = 0 (check_partial_products).
TermOk(prev, next, num, den) == Sub(Mul(prev, num), Mul(next, den)) = 0
\* values the next accumulator may take after one checked step from a set of possible values
InvT == [a \in 1..(P - 1) |-> CHOOSE x \in 1..(P - 1) : (a * x) % P = 1]
\* = {y : \E x \in S : TermOk(x, y, num, den)}, solved for y (den # 0: unique; den = 0: free iff x * num = 0)
Post(S, num, den) == IF den # 0 THEN {Mul(Mul(x, num), InvT[den]) : x \in S}
                     ELSE IF \E x \in S : Mul(x, num) = 0 THEN 0..(P - 1) ELSE {}
All == 0..(P - 1)

\* Is there ANY choice of Z and partial products passing every enabled term?  The accumulator
\* sequence is Z(1), [partial], Z(w), [partial], Z(w^2) = Z(1).  L_0: Z(1) = 1.
Accepting(clsv, wv, b, g) ==
  LET S0 == IF Disabled = "l0" THEN All ELSE {1}
      Step(S, r, k) == IF (Disabled = "chunk2" /\ k = 2) \/ (Disabled = "wrap" /\ r = N - 1) THEN All
                       ELSE Post(S, TLCEval(ChunkProdNum(wv, r, k, b, g)), TLCEval(ChunkProdDen(clsv, wv, r, k, b, g)))
      \* the wrap-around closes on the SAME Z(1): follow each start value separately
      Closes(z1) == LET A == TLCEval(IF NumChunks = 1 THEN Step({z1}, 0, 1) ELSE Step(TLCEval(Step({z1}, 0, 1)), 0, 2))
                        Bk == IF NumChunks = 1 THEN Step(A, 1, 1) ELSE Step(TLCEval(Step(A, 1, 1)), 1, 2)
                    IN z1 \in Bk
  IN \E z1 \in S0 : Closes(z1)

\* the honest prover's accumulator (wires_permutation_partial_products_and_zs): defined when no
\* denominator vanishes
HonestOk(clsv, wv, b, g) ==
  LET dens == {ChunkProdDen(clsv, wv, r, k, b, g) : r \in 0..(N - 1), k \in 1..NumChunks}
  IN 0 \notin dens =>
       LET Inv(a) == CHOOSE x \in 1..(P - 1) : Mul(a, x) = 1
           z0 == 1
           p0 == Mul(Mul(z0, ChunkProdNum(wv, 0, 1, b, g)), Inv(ChunkProdDen(clsv, wv, 0, 1, b, g)))
           z1 == IF NumChunks = 1 THEN p0
                 ELSE Mul(Mul(p0, ChunkProdNum(wv, 0, 2, b, g)), Inv(ChunkProdDen(clsv, wv, 0, 2, b, g)))
           p1 == Mul(Mul(z1, ChunkProdNum(wv, 1, 1, b, g)), Inv(ChunkProdDen(clsv, wv, 1, 1, b, g)))
           z2 == IF NumChunks = 1 THEN p1
                 ELSE Mul(Mul(p1, ChunkProdNum(wv, 1, 2, b, g)), Inv(ChunkProdDen(clsv, wv, 1, 2, b, g)))
       IN z2 = 1                       \* the product telescopes: the wrap-around term holds

Challenges == (0..(P - 1)) \X (0..(P - 1))
AcceptCount(clsv, wv) == Cardinality({bg \in Challenges : Accepting(clsv, wv, bg[1], bg[2])})

\* Schwartz-Zippel: two distinct polynomials of total degree N*NC in (beta, gamma) agree on at
\* most N*NC*P points; a vanishing denominator (degree N*NC as well) adds as many.
Bound == 2 * N * NC * P

Init == /\ cls \in Partitions
        /\ w \in [Cells -> Vals]
        /\ sig = [c \in Cells |-> Sigma(cls, c)]
        /\ acc = -1
        /\ maxbad = 0
Next == /\ acc = -1
        /\ acc' = AcceptCount(sig, w)
        /\ maxbad' = IF Respects(cls, w) THEN 0 ELSE acc'
        /\ UNCHANGED <<cls, w, sig>>
Spec == Init /\ [][Next]_vars

NoZeroDen(clsv, wv, b, g) == \A r \in 0..(N - 1), k \in 1..NumChunks : ChunkProdDen(clsv, wv, r, k, b, g) # 0
\* (a vanishing denominator makes the real prover fail with a division by zero; over the real
\* field that has probability about N*NC / 2^64 and is outside the completeness statement)
Complete == acc # -1 /\ Respects(cls, w) =>
              \A bg \in Challenges : /\ HonestOk(sig, w, bg[1], bg[2])
                                      /\ NoZeroDen(sig, w, bg[1], bg[2]) => Accepting(sig, w, bg[1], bg[2])
Sound == acc # -1 /\ ~Respects(cls, w) => acc <= Bound
\* the all-zero accumulator passes every transition term whatever the assignment is
ZeroZPassesTransitions ==
  \A r \in 0..(N - 1), k \in 1..NumChunks : TermOk(0, 0, ChunkProdNum(w, r, k, 3, 5), ChunkProdDen(sig, w, r, k, 3, 5))
=============================================================================
