CONSTANT Vals = {0, 1, 2}
CONSTANT Disabled = "none"
CONSTANT ChunkSize = 3
INIT Init
NEXT Next
INVARIANT Complete
INVARIANT Sound
INVARIANT ZeroZPassesTransitions
CHECK_DEADLOCK FALSE
