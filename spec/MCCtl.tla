------------------------------- MODULE MCCtl -------------------------------
(***************************************************************************)
(* TLC wrapper of Ctl (C10): one state per (declaration, traces of all     *)
(* tables); all traces over per-table, per-column value sets.  Theorem:    *)
(*   CtlOk     => Accepts for every non-degenerate challenge (beta,gamma), *)
(*   not CtlOk => for every beta separating the occurring tuples, Accepts  *)
(*                for at most NumEntries-1 non-degenerate gammas.          *)
(* Every case is printed (CTL17) with the verdict of CtlOk.                *)
(***************************************************************************)
EXTENDS Ctl, Json

CONSTANTS DIDS, BETAS

VARIABLE s

C(i) == [lin |-> <<<<i, 1>>>>, next |-> <<>>, k |-> 0]
F2 == C(2)                                        \* filter column
AB == <<C(0), C(1)>>
BA == <<C(1), C(0)>>
A1 == <<C(0)>>
S(t, cols) == [table |-> t, cols |-> cols, filter |-> F2]
(* vals[t][c]: value set of column c of table t *)
DECLS == TLCEval(<<
  \* 1: T0 -> T1, pairs
  [looking |-> <<S(0, AB)>>, looked |-> S(1, AB), extra |-> <<>>, deg |-> 3,
   vals |-> <<<<{1, 2}, {1, 2}, {1}>>, <<{1, 2}, {1, 2}, {0, 1}>>>>],
  \* 2: the same table twice (consecutive): (a,b) and (b,a) -> T1; one helper column (batch of two)
  [looking |-> <<S(0, AB), S(0, BA)>>, looked |-> S(1, AB), extra |-> <<>>, deg |-> 3,
   vals |-> <<<<{1, 2}, {1}, {1}>>, <<{1, 2}, {1, 2}, {0, 1, 2}>>>>],
  \* 3: extra looking tuple (1,1)
  [looking |-> <<S(0, AB)>>, looked |-> S(1, AB), extra |-> <<<<1, 1>>>>, deg |-> 3,
   vals |-> <<<<{1, 2}, {1}, {0, 1}>>, <<{1, 2}, {1}, {0, 1}>>>>],
  \* 4: three tables, single values
  [looking |-> <<S(0, A1), S(1, A1)>>, looked |-> S(2, A1), extra |-> <<>>, deg |-> 3,
   vals |-> <<<<{1, 2}, {0}, {0, 1}>>, <<{1, 2}, {0}, {1}>>, <<{1, 2}, {0}, {0, 1}>>>>],
  \* 5: as 2 with constraint degree 2 (two helper columns of one side each)
  [looking |-> <<S(0, AB), S(0, BA)>>, looked |-> S(1, AB), extra |-> <<>>, deg |-> 2,
   vals |-> <<<<{1, 2}, {1}, {1}>>, <<{1, 2}, {1, 2}, {0, 1, 2}>>>>]
>>)

RowsOf(v) == LET U == v[1] \cup v[2] \cup v[3] IN {row \in [1..3 -> U] : \A c \in 1..3 : row[c] \in v[c]}
\* fan-out over the first table's trace so that TLC's workers share the cases
Groups0 == UNION {{[did |-> did, kind |-> "group", trs |-> <<t0>>] : t0 \in [1..N -> RowsOf(DECLS[did].vals[1])]} : did \in DIDS}
RECURSIVE AllTraces(_, _)
AllTraces(vals, i) == IF i > Len(vals) THEN {<<>>}
                      ELSE {<<t>> \o rest : t \in [1..N -> RowsOf(vals[i])], rest \in AllTraces(vals, i + 1)}
CasesOf(g) == {[g EXCEPT !.kind = "case", !.trs = g.trs \o rest] : rest \in AllTraces(DECLS[g.did].vals, 2)}
Init == s \in Groups0
Next == s.kind = "group" /\ s' \in CasesOf(s)

Theorem ==
  s.kind = "case" =>
    LET d == DECLS[s.did] IN
    \A ok \in {CtlOk(d, s.trs)} :
    \A beta \in BETAS :
      \A nd \in {{g \in Fp : ~Degenerate(d, s.trs, beta, g)}} :
      \A acc \in {{g \in nd : \E tb \in {Tab(d, s.trs, beta, g)} : Accepts(d, tb, beta, g)}} :
        IF ok THEN acc = nd
        ELSE Separating(d, s.trs, beta) => Cardinality(acc) <= NumEntries(d) - 1

JsonCe(ce) == [lin |-> ce.lin, next |-> ce.next, k |-> ce.k]
JsonSide(sd) == [table |-> sd.table, cols |-> [i \in 1..Len(sd.cols) |-> JsonCe(sd.cols[i])], filter |-> JsonCe(sd.filter)]
JsonDecl(d) == [looking |-> [i \in 1..Len(d.looking) |-> JsonSide(d.looking[i])], looked |-> JsonSide(d.looked), extra |-> d.extra]
Emit ==
  s.kind = "case" =>
    LET d == DECLS[s.did] IN
    PrintT("CTL17 " \o ToJson([what |-> "ctl", p |-> P, did |-> s.did, decl |-> JsonDecl(d), traces |-> s.trs, ok |-> CtlOk(d, s.trs)]))
=============================================================================
