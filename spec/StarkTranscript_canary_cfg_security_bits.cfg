CONSTANTS
  RATE = 8
  WIDTH = 12
  Disabled = {"cfg.security_bits"}
  UseEnvConfigs = FALSE
INIT Init
NEXT Next
CHECK_DEADLOCK FALSE
INVARIANT FS1
