----------------------------- MODULE FriCompress -----------------------------
(***************************************************************************)
(* Implementation-shaped, index-level model of proof compression (C16):    *)
(*   FriProof::compress                      fri/proof.rs                  *)
(*   CompressedProofWithPublicInputs::get_inferred_elements                *)
(*                                           plonk/get_challenges.rs       *)
(*   CompressedFriProof::decompress          fri/proof.rs                  *)
(* Values are tagged atoms:                                                *)
(*   <<"L", t, x>>     leaf of initial tree t at index x                   *)
(*   E(j, y)           value of the layer-j oracle at index y (layer 1 =   *)
(*                     the combination of the initial leaves)              *)
(*   <<"mp", tr, x>>   the Merkle path of index x in tree tr               *)
(* The Merkle-path compression is abstracted by its specification (proved  *)
(* for all index sequences in PathCompression, including the re-expansion  *)
(* of de-duplicated proofs):                                               *)
(*   CMP(tr, is, ps)[k]            opaque k-th compressed proof            *)
(*   DEC(tr, ls, is, cps, h)[k]  = ps[k]  iff cps is the (re-expanded)     *)
(*       compression of ps for the same index list, the leaves are the     *)
(*       committed ones and h is the tree's height; garbage otherwise.     *)
(* What is modelled exactly: the per-tree transposition, removal of the    *)
(* inferable coset element, the per-layer de-duplication keyed by index    *)
(* (first entry wins), the producer's early `break` against the consumer's *)
(* per-layer look-up, and the order in which inferred elements are         *)
(* produced and consumed.                                                  *)
(* Obligations: RoundTrip (decompress o compress = identity on the honest  *)
(* proof), NoMiss (no map look-up / iterator miss), Agree (the consumer    *)
(* takes exactly the producer's elements, each at its own position).       *)
(***************************************************************************)
EXTENDS Merkle, Json, SequencesExt

CONSTANTS Mutant   \* "none" | "dedup_last" | "producer_noseen" | "noremove"

VARIABLES sc,        \* [n, ar, capH, q]
          pc, k,
          \* compress: transposed lists, de-duplicated maps
          tI, tS, mI, mS,
          \* producer / consumer
          inferred, pSeen, ptr, byDepth, dI, dS,
          res, miss
vars == <<sc, pc, k, tI, tS, mI, mS, inferred, pSeen, ptr, byDepth, dI, dS, res, miss>>

T == 2                              \* initial trees
BAD == <<"bad">>
R == Len(sc.ar)                     \* number of reductions
NQ == Len(sc.q)
Trees == [t \in 1..T |-> t]
Rounds == [j \in 1..R |-> j]

RECURSIVE SumTo(_, _)
SumTo(ar, j) == IF j = 0 THEN 0 ELSE ar[j] + SumTo(ar, j - 1)
X(x, j) == Shr(x, SumTo(sc.ar, j - 1))          \* index at layer j (X(x,1) = x)
Coset(x, j) == Shr(x, SumTo(sc.ar, j))
Within(x, j) == LowBits(X(x, j), sc.ar[j])
StepHeight(j) == sc.n - SumTo(sc.ar, j)         \* height of the layer-j commit tree (leaves = cosets)

E(j, y) == <<"e", j, y>>
FullEvals(j, c) == [p \in 1..Pow2(sc.ar[j]) |-> E(j, c * Pow2(sc.ar[j]) + p - 1)]
Leaf(t, x) == <<"L", t, x>>
MP(tr, x) == <<"mp", tr, x>>
ITree(t) == <<0, t>>
STree(j) == <<j, 0>>

\* the honest proof
OrigRound(x) ==
  [init  |-> [t \in 1..T |-> [leaf |-> Leaf(t, x), mp |-> MP(ITree(t), x)]],
   steps |-> [j \in 1..R |-> [evals |-> FullEvals(j, Coset(x, j)), mp |-> MP(STree(j), Coset(x, j))]]]
Orig == [a \in 1..NQ |-> OrigRound(sc.q[a])]

\* abstraction of compress_merkle_proofs / decompress_merkle_proofs
FirstIn(is, a) == CHOOSE b \in 1..a : is[b] = is[a] /\ \A c \in 1..(b - 1) : is[c] # is[a]
CMP(tr, is, ps) == [a \in 1..Len(is) |-> <<"cmp", tr, is, ps, a>>]
HonestLeaf(tr, x) == IF tr[1] = 0 THEN Leaf(tr[2], x) ELSE FullEvals(tr[1], x)
TreeHeight(tr) == IF tr[1] = 0 THEN sc.n ELSE StepHeight(tr[1])
DEC(tr, ls, is, cps, h) ==
  LET ps   == [a \in 1..Len(is) |-> MP(tr, is[a])]
      good == /\ h = TreeHeight(tr)
              /\ Len(ls) = Len(is) /\ Len(cps) = Len(is)
              /\ \A a \in 1..Len(is) : /\ ls[a] = HonestLeaf(tr, is[a])
                                       /\ cps[a] = CMP(tr, is, ps)[FirstIn(is, a)]
  IN  [a \in 1..Len(is) |-> IF good THEN ps[a] ELSE BAD]

\* abstraction of the verifier arithmetic run by get_inferred_elements
Combine(x, leaves) == IF leaves = [t \in 1..T |-> Leaf(t, x)] THEN E(1, x) ELSE BAD
Fold(j, c, evals) == IF evals = FullEvals(j, c) THEN E(j + 1, c) ELSE BAD

Put(f, key, v) == (key :> v) @@ f
OrInsert(f, key, v) == IF key \in DOMAIN f /\ Mutant # "dedup_last" THEN f ELSE Put(f, key, v)

(***************************************************************************)
(* FriProof::compress                                                      *)
(***************************************************************************)
\* "Transpose": one query round (k) appended to every per-tree list
Transpose ==
  /\ pc = "transpose"
  /\ LET x == sc.q[k]
         rd == Orig[k]
     IN  /\ tI' = [t \in 1..T |-> [idx |-> Append(tI[t].idx, x),
                                   leaves |-> Append(tI[t].leaves, rd.init[t].leaf),
                                   proofs |-> Append(tI[t].proofs, rd.init[t].mp)]]
         /\ tS' = [j \in 1..R |->
                     [idx |-> Append(tS[j].idx, Coset(x, j)),
                      \* evals.remove(index_within_coset)
                      evals |-> Append(tS[j].evals,
                                       IF Mutant = "noremove" THEN rd.steps[j].evals
                                       ELSE RemoveAt(rd.steps[j].evals, Within(x, j) + 1)),
                      proofs |-> Append(tS[j].proofs, rd.steps[j].mp)]]
  /\ IF k = NQ THEN pc' = "dedup" /\ k' = 1 ELSE pc' = "transpose" /\ k' = k + 1
  /\ UNCHANGED <<sc, mI, mS, inferred, pSeen, ptr, byDepth, dI, dS, res, miss>>

\* compress all Merkle proofs, then "replace the query round proofs with the compressed versions":
\* entry(index).or_insert(..) per query, in query order
Dedup ==
  /\ pc = "dedup"
  /\ LET x == sc.q[k]
         cI == [t \in 1..T |-> CMP(ITree(t), tI[t].idx, tI[t].proofs)]
         cS == [j \in 1..R |-> CMP(STree(j), tS[j].idx, tS[j].proofs)]
     IN  /\ mI' = OrInsert(mI, x, [leaves |-> [t \in 1..T |-> tI[t].leaves[k]],
                                   cmps   |-> [t \in 1..T |-> cI[t][k]], src |-> k])
         /\ mS' = [j \in 1..R |-> OrInsert(mS[j], Coset(x, j),
                                           [evals |-> tS[j].evals[k], cmp |-> cS[j][k], src |-> k])]
  /\ IF k = NQ THEN pc' = "produce" /\ k' = 1 ELSE pc' = "dedup" /\ k' = k + 1
  /\ UNCHANGED <<sc, tI, tS, inferred, pSeen, ptr, byDepth, dI, dS, res, miss>>

(***************************************************************************)
(* get_inferred_elements (producer): one query per step, layers folded     *)
(***************************************************************************)
Produce ==
  /\ pc = "produce"
  /\ LET x == sc.q[k]
         have == x \in DOMAIN mI
         old0 == IF have THEN Combine(x, mI[x].leaves) ELSE BAD
         r == FoldLeft(LAMBDA acc, j :
                 IF acc.stop THEN acc
                 ELSE LET c == Shr(acc.x, sc.ar[j])
                      IN  IF c \in acc.seen[j] /\ Mutant # "producer_noseen"
                          THEN [acc EXCEPT !.stop = TRUE]          \* break
                          ELSE LET hit == c \in DOMAIN mS[j]
                                   ev  == IF hit THEN mS[j][c].evals ELSE <<>>
                                   w   == LowBits(acc.x, sc.ar[j])
                                   full == IF w <= Len(ev) THEN InsertAt(ev, w + 1, acc.old) ELSE BAD
                               IN  [x |-> c, old |-> Fold(j, c, full), stop |-> FALSE,
                                    seen |-> [acc.seen EXCEPT ![j] = @ \cup {c}],
                                    out |-> Append(acc.out, acc.old),
                                    miss |-> acc.miss \/ ~hit \/ w > Len(ev)],
               [x |-> x, old |-> old0, stop |-> FALSE, seen |-> pSeen, out |-> inferred, miss |-> miss \/ ~have],
               Rounds)
     IN  inferred' = r.out /\ pSeen' = r.seen /\ miss' = r.miss
  /\ IF k = NQ THEN pc' = "consume" /\ k' = 1 ELSE pc' = "produce" /\ k' = k + 1
  /\ UNCHANGED <<sc, tI, tS, mI, mS, ptr, byDepth, dI, dS, res>>

(***************************************************************************)
(* CompressedFriProof::decompress (consumer): one query per step           *)
(***************************************************************************)
Consume ==
  /\ pc = "consume"
  /\ LET x == sc.q[k]
         have == x \in DOMAIN mI
         ent == IF have THEN mI[x] ELSE [leaves |-> [t \in 1..T |-> BAD], cmps |-> [t \in 1..T |-> BAD], src |-> 0]
         r == FoldLeft(LAMBDA acc, j :
                 LET w == LowBits(acc.x, sc.ar[j])
                     c == Shr(acc.x, sc.ar[j])
                     hit == c \in DOMAIN mS[j]
                     st == IF hit THEN mS[j][c] ELSE [evals |-> <<>>, cmp |-> BAD, src |-> 0]
                     known == c \in DOMAIN acc.byDepth[j]
                     more == acc.ptr <= Len(inferred)
                     ev == IF known THEN acc.byDepth[j][c]
                           ELSE IF more /\ w <= Len(st.evals) THEN InsertAt(st.evals, w + 1, inferred[acc.ptr])
                           ELSE BAD
                 IN  [x |-> c,
                      ptr |-> IF known THEN acc.ptr ELSE acc.ptr + 1,
                      byDepth |-> IF known THEN acc.byDepth ELSE [acc.byDepth EXCEPT ![j] = Put(@, c, ev)],
                      dS |-> [acc.dS EXCEPT ![j] = [idx |-> Append(@.idx, c), evals |-> Append(@.evals, ev),
                                                   proofs |-> Append(@.proofs, st.cmp)]],
                      miss |-> acc.miss \/ ~hit \/ (~known /\ (~more \/ w > Len(st.evals)))],
               [x |-> x, ptr |-> ptr, byDepth |-> byDepth, dS |-> dS, miss |-> miss \/ ~have],
               Rounds)
     IN  /\ dI' = [t \in 1..T |-> [idx |-> Append(dI[t].idx, x), leaves |-> Append(dI[t].leaves, ent.leaves[t]),
                                   proofs |-> Append(dI[t].proofs, ent.cmps[t])]]
         /\ ptr' = r.ptr /\ byDepth' = r.byDepth /\ dS' = r.dS /\ miss' = r.miss
  /\ IF k = NQ THEN pc' = "assemble" /\ k' = 0 ELSE pc' = "consume" /\ k' = k + 1
  /\ UNCHANGED <<sc, tI, tS, mI, mS, inferred, pSeen, res>>

\* decompress all Merkle proofs (heights by the code's scan) and rebuild the query rounds
Assemble ==
  /\ pc = "assemble"
  /\ LET pI == [t \in 1..T |-> DEC(ITree(t), dI[t].leaves, dI[t].idx, dI[t].proofs, sc.n)]
         pS == [j \in 1..R |-> DEC(STree(j), dS[j].evals, dS[j].idx, dS[j].proofs, sc.n - SumTo(sc.ar, j))]
     IN  res' = [a \in 1..NQ |->
                   [init  |-> [t \in 1..T |-> [leaf |-> dI[t].leaves[a], mp |-> pI[t][a]]],
                    steps |-> [j \in 1..R |-> [evals |-> dS[j].evals[a], mp |-> pS[j][a]]]]]
  /\ pc' = "done"
  /\ UNCHANGED <<sc, k, tI, tS, mI, mS, inferred, pSeen, ptr, byDepth, dI, dS, miss>>

EmptyLists == [idx |-> <<>>, leaves |-> <<>>, proofs |-> <<>>]
EmptySteps == [idx |-> <<>>, evals |-> <<>>, proofs |-> <<>>]
StartFrom(s0) ==
  /\ sc = s0
  /\ pc = "transpose" /\ k = 1
  /\ tI = [t \in 1..T |-> EmptyLists] /\ tS = [j \in 1..Len(s0.ar) |-> EmptySteps]
  /\ mI = <<>> /\ mS = [j \in 1..Len(s0.ar) |-> <<>>]
  /\ inferred = <<>> /\ pSeen = [j \in 1..Len(s0.ar) |-> {}] /\ ptr = 1
  /\ byDepth = [j \in 1..Len(s0.ar) |-> <<>>]
  /\ dI = [t \in 1..T |-> EmptyLists] /\ dS = [j \in 1..Len(s0.ar) |-> EmptySteps]
  /\ res = <<>> /\ miss = FALSE

Step == Transpose \/ Dedup \/ Produce \/ Consume \/ Assemble

(***************************************************************************)
(* obligations                                                             *)
(***************************************************************************)
RoundTrip == pc = "done" => res = Orig
NoMiss == ~miss
\* the consumer took exactly what the producer made
Agree == pc = "done" => ptr = Len(inferred) + 1

\* collision classes of the query tuple
Repeated == \E a, b \in 1..NQ : a < b /\ sc.q[a] = sc.q[b]
SharedAt(j) == \E a, b \in 1..NQ : a < b /\ X(sc.q[a], j) # X(sc.q[b], j) /\ Coset(sc.q[a], j) = Coset(sc.q[b], j)
=============================================================================
