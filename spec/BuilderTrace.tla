---------------------------- MODULE BuilderTrace ----------------------------
(***************************************************************************)
(* Trace validation of the real CircuitBuilder against Builder.tla over    *)
(* the Goldilocks field (byte limbs, module Limbs).  The harness (c01      *)
(* `builder`) drives the public API - add_virtual_target, constant,        *)
(* arithmetic, random_access, add_gate, build - with random arguments and  *)
(* records, after every call, the target the call returned and num_gates();*)
(* after build it records, per row, the gate placed there and its constants*)
(* (recovered from the committed constant polynomials) and the degree.     *)
(* Every recorded value must be the one the specification computes: the    *)
(* log carries all arguments, so the search is linear.                     *)
(*   line 1: {"ev":"config","nw","nr","nc"}; "reset" starts a new builder. *)
(***************************************************************************)
EXTENDS Builder, Json, IOUtils
L == INSTANCE Limbs

Rec == ndJsonDeserialize(IOEnv.TRACE)
N == Len(Rec)
NWc == Rec[1].nw
NRc == Rec[1].nr
NCc == Rec[1].nc
GAdd(a, b) == L!AddP(a, b)
GMul(a, b) == L!MulP(a, b)
GLess(a, b) == ~L!Geq(a, b)
ZeroG == L!Zero8
OneG == L!One8
InG == {L!Zero8}
SevenG == L!F8(7)

VARIABLE l
tvars == <<vars, l>>

T(x) == IF x[1] = "v" THEN <<"v", x[2]>> ELSE <<"w", x[2], x[3]>>
Ev(e) == l <= N /\ Rec[l].ev = e /\ l' = l + 1
Obs == last'.res = T(Rec[l].res) /\ last'.ng = Rec[l].ng
TE(x) == <<T(x[1]), T(x[2])>>
ObsE == last'.res = TE(Rec[l].res) /\ last'.ng = Rec[l].ng

\* constants of a row after build: arithmetic rows carry their parameters; generator cells carry the
\* constant assigned to them (zero when the cell was left over)
CellConst(as, r, j) == IF \E c \in DOMAIN as : as[c] = <<r, j>> THEN CHOOSE c \in DOMAIN as : as[c] = <<r, j>> ELSE L!Zero8
RowConsts(rs, as, r) == IF rs[r + 1].kind \in {"arith", "arithext", "mulext"} THEN rs[r + 1].params
                        ELSE [j \in 1..rs[r + 1].cells |-> CellConst(as, r, j - 1)]

TraceInit == Init /\ l = 2
TrReset == Ev("reset") /\ rows' = <<>> /\ slots' = <<>> /\ used' = {} /\ nvirt' = 0 /\ c2t' = <<>> /\ cache' = <<>> /\ ecache' = <<>>
          /\ tval' = <<>> /\ last' = [ev |-> "init"] /\ built' = [done |-> FALSE] /\ copies' = {}
TrVirt == Ev("virt") /\ Virt(L!Zero8) /\ Obs
TrConst == Ev("const") /\ Const(Rec[l].c) /\ Obs
NoBase == "nobase" \in DOMAIN Rec[1] /\ Rec[1].nobase
\* use_base_arithmetic_gate = false: arithmetic forwards to arithmetic_extension on (t, zero) pairs and returns
\* the first coefficient (convert_to_ext allocates the zero constant first, as ConstExtStep does)
Z0 == IF Has(c2t, FZero) THEN V(c2t[FZero]) ELSE V(nvirt)
TrArith == /\ Ev("arith")
           /\ IF NoBase
              THEN /\ ArithExt(Rec[l].c0, Rec[l].c1, <<T(Rec[l].x), Z0>>, <<T(Rec[l].y), Z0>>, <<T(Rec[l].z), Z0>>)
                   /\ last'.res[1] = T(Rec[l].res) /\ last'.ng = Rec[l].ng
              ELSE Arith(Rec[l].c0, Rec[l].c1, T(Rec[l].x), T(Rec[l].y), T(Rec[l].z)) /\ Obs
TrConstExt == Ev("constext") /\ ConstExt(<<Rec[l].e[1], Rec[l].e[2]>>) /\ ObsE
TrArithExt == Ev("arithext") /\ ArithExt(Rec[l].c0, Rec[l].c1, TE(Rec[l].x), TE(Rec[l].y), TE(Rec[l].z)) /\ ObsE
TrRa == Ev("ra") /\ RandomAccess(Rec[l].bits, L!Zero8) /\ Obs
TrRow == Ev("row") /\ AddRow(Rec[l].kind) /\ last'.ng = Rec[l].ng
TrBuild == /\ Ev("build") /\ Build(Rec[l].npi)
          /\ built'.degree = Rec[l].degree
          /\ Len(rows') = Len(Rec[l].rows)
          /\ \A r \in 0..(Len(rows') - 1) :
                /\ rows'[r + 1].kind = Rec[l].rows[r + 1].kind
                /\ RowConsts(rows', built'.assign, r) = Rec[l].rows[r + 1].consts
TraceNext == TrReset \/ TrVirt \/ TrConst \/ TrArith \/ TrConstExt \/ TrArithExt \/ TrRa \/ TrRow \/ TrBuild
TraceSpec == TraceInit /\ [][TraceNext]_tvars

\* vacuity: how often each path of `arithmetic`, a second row of equal parameters and generator cells of
\* RandomAccessGate rows were met (registers, -workers 1)
PathIdx(p) == CASE p = "fold" -> 11 [] p = "addend" -> 12 [] p = "m0" -> 13 [] p = "m1" -> 14 [] p = "cache" -> 15 [] p = "slot" -> 16
EPathIdx(p) == CASE p = "fold" -> 20 [] p = "addend" -> 21 [] p = "m0" -> 22 [] p = "m1" -> 23 [] p = "cache" -> 24 [] p = "slot" -> 25 [] p = "mulslot" -> 26
ASSUME \A i \in 11..26 : TLCSet(i, 0)
Bump(i) == TLCSet(i, TLCGet(i) + 1)
Count == /\ (last'.ev = "arith" => Bump(PathIdx(last'.path)))
         /\ (last'.ev = "arithext" => Bump(EPathIdx(last'.path)))
         /\ (last'.ev = "ra" => Bump(17))
         /\ (last'.ev = "build" => /\ Bump(18)
                                   /\ (\E c \in DOMAIN built'.assign : rows'[built'.assign[c][1] + 1].kind \notin {"const"}) => Bump(19))
Accepted == /\ PrintT("BTRACE " \o ToJson([distinct |-> TLCGet("distinct"), n |-> N,
                                            fold |-> TLCGet(11), addend |-> TLCGet(12), m0 |-> TLCGet(13), m1 |-> TLCGet(14),
                                            cache |-> TLCGet(15), slot |-> TLCGet(16), ra |-> TLCGet(17),
                                            builds |-> TLCGet(18), ra_cells_used |-> TLCGet(19),
                                            efold |-> TLCGet(20), eaddend |-> TLCGet(21), em0 |-> TLCGet(22), em1 |-> TLCGet(23),
                                            ecache |-> TLCGet(24), eslot |-> TLCGet(25), emulslot |-> TLCGet(26)]))
\* acceptance (distinct = n: one state per consumed line) is decided by the driver from the printed record
=============================================================================
