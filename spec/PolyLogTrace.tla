---------------------------- MODULE PolyLogTrace ----------------------------
(***************************************************************************)
(* Trace validation of the operation log recorded from the real            *)
(* transform / polynomial code (harness/src/bin/c15.rs): every event must  *)
(* satisfy the property-level definition of its operation in PolyOps.      *)
(* Event 1 carries the roots of unity primitive_root_of_unity(0..32) and   *)
(* the coset shift of the field; later events refer to them.  The log is   *)
(* walked as a two-level fan-out (chunks of events) so that TLC's workers  *)
(* share it; a violation names the event index l.                          *)
(***************************************************************************)
EXTENDS PolyOps, Json, IOUtils

Rec == ndJsonDeserialize(IOEnv.TRACE)
N == Len(Rec)
Chunk == 4
NChunks == (N + Chunk - 1) \div Chunk

VARIABLES c, l
vars == <<c, l>>

Root(lg) == Rec[1].g[lg + 1]
FieldShift == Rec[1].shift

OpOk(e) ==
  CASE e.op = "roots"    -> RootsOk(e.g) /\ ShiftOk(e.shift, e.s2)
    \* value k of a transform: ys[t] = c(shift * w^k), w = root(lg).  Forward transforms: c = the input
    \* coefficients; inverse transforms: c = the returned coefficients, ys = the input value k;
    \* low-degree extension (LdeOk): c = a witness of length <= maxlen = n whose values on the small
    \* subgroup are the input ("lde_in") and whose values on the large subgroup / coset are the output
    [] e.op = "evalpt"   -> /\ ModP(e.w) = ModP(Root(e.lg))
                            /\ (e.fs => e.shift = FieldShift)
                            /\ Len(e.c) <= e.maxlen
                            /\ DftOk(e.w, e.k, e.pc, e.wk, e.shift, e.x, e.c, e.acc, e.ys)
    [] e.op = "evalat"   -> EvalAtOk(e.c, e.x, e.acc, e.y)
    [] e.op = "same"     -> SameOk(e.a, e.b)
    \* self-test of the fast congruence check against the schoolbook oracle of Limbs / GF
    [] e.op = "mac"      -> MacEq(e.a, e.b, e.s, e.r) /\ MacOk(e.s, e.a, e.b, e.r)
    [] e.op = "macneg"   -> ~MacEq(e.a, e.b, e.s, e.r) /\ ~MacOk(e.s, e.a, e.b, e.r)
    [] e.op = "polymul"  -> MulOkFull(e.a, e.b, e.r, e.accs)
    [] e.op = "mulpt"    -> MulOkPt(e.a, e.b, e.r, e.x, e.ha, e.hb, e.hr)
    [] e.op = "convk"    -> /\ ConvCoefOk(e.a, e.b, e.k, e.acc) /\ EqF(e.rk, Last(e.acc))
                            /\ (e.what = "invmod" => ModP(e.rk) = (IF e.k = 0 THEN One8 ELSE Zero8))
    [] e.op = "divrem"   -> DivRemOkFull(e.a, e.b, e.q, e.r, e.db1, e.accs)
    [] e.op = "divrempt" -> DivRemOkPt(e.a, e.b, e.q, e.r, e.db1, e.x, e.ha, e.hb, e.hq, e.hr)
    [] e.op = "divlin"   -> DivLinearOk(e.p, e.z, e.q, e.ev, e.acc, e.zq)
    [] e.op = "invmod"   -> InvModOkFull(e.a, e.n, e.b, e.accs)
    [] e.op = "interp"   -> Distinct(e.xs) /\ InterpOk(e.xs, e.ys, e.c, e.accs)
    [] e.op = "bary"     -> BaryOk(e.xs, e.w, e.ds, e.pr)
    [] e.op = "trim"     -> TrimOk(e.c, e.out) /\ DegPlus1Ok(e.c, e.d1)
                            /\ (IF e.d1 = 0 THEN IsZ(e.lead) ELSE EqP(e.lead, e.c[e.d1]))
    [] e.op = "pad"      -> PadOk(e.c, e.out, e.len)
    [] e.op = "trimto"   -> TrimToLenOk(e.c, e.len, e.ok, e.out)
    [] e.op = "zpc"      -> /\ ModP(e.w) = ModP(Root(e.nlog + e.rb)) /\ e.shift = FieldShift
                            /\ PointOk(e.w, e.i, e.pc, e.wi, e.shift, e.x)
                            /\ ZeroPolyOk(e.nlog, e.x, e.xn, e.z, e.zi, e.l0, e.xm1, e.nd)
    [] e.op = "shifts"   -> CosetShiftsOk(e.lg, e.ks, e.chs)
    [] e.op = "bitrev"   -> BitRevOk(e.lg, e.out)
    [] e.op = "bitrevs"  -> BitRevSampleOk(e.lg, e.pos, e.val)
    [] e.op = "transpose" -> TransposeOk(e.rows, e.cols, e.out)
    [] e.op = "log2c"    -> Log2CeilOk(e.n, e.r)
    [] e.op = "bits"     -> BitsOk(e.n, e.r)
    [] e.op = "log2s"    -> Log2StrictOk(e.n, e.panicked, e.r)
    [] e.op = "logfl"    -> LogFloorOk(e.n, e.base, e.r, e.pw)
    [] OTHER             -> FALSE

Init == c = 0 /\ l = 0
Next == \/ c = 0 /\ l = 0 /\ c' \in 1..NChunks /\ l' = 0
        \/ c > 0 /\ l = 0 /\ c' = c
           /\ l' \in ((c - 1) * Chunk + 1)..(IF c * Chunk > N THEN N ELSE c * Chunk)
EventOk == l > 0 => OpOk(Rec[l])
ASSUME FirstIsRoots == Rec[1].op = "roots"
\* acceptance: every event was visited (distinct states = 1 + chunks + events)
Accepted == TLCGet("distinct") = 1 + NChunks + N
=============================================================================
