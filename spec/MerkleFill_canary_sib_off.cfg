CONSTANT HSet = {2, 3}
CONSTANT Mutant = "sib_off"
INIT Init
NEXT Next
INVARIANT NoDoubleWrite
INVARIANT InitAtEnd
INVARIANT CapRight
INVARIANT ProveRight
INVARIANT LayoutRight

CHECK_DEADLOCK FALSE
