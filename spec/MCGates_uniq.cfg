CONSTANT P = 5
CONSTANT ALPHA = 3
CONSTANT GEN = 2
CONSTANT DropKind = "none"
CONSTANT DropIdx = 0
CONSTANT Cases <- CasesUniq
CONSTANT Sel = {}
CONSTANT DegShift = 0
INIT InitRows
NEXT NextRows
INVARIANT Satisfied
INVARIANT UniqueInv
CHECK_DEADLOCK FALSE
