----------------------------- MODULE Transcript -----------------------------
(***************************************************************************)
(* Fiat-Shamir transcript of a plonky2 PLONK proof (C04).                  *)
(*                                                                         *)
(* Property level.  `Protocol(cfg)` is the interactive protocol as a       *)
(* sequence of ROUNDS: the statement / prover messages of a round, then    *)
(* the verifier challenges drawn after them.  DependsOn(ch, comp) holds    *)
(* iff comp belongs to a round <= the round of ch.                         *)
(*   FS1  every squeezed element of a challenge depends on every atom of   *)
(*        every component that protocol-precedes it;                       *)
(*   FS2  every such atom is observed before the first element of the      *)
(*        challenge is squeezed (no message can be chosen after seeing a   *)
(*        challenge it must precede);                                      *)
(*   FS0  (shape) it depends on nothing else.                              *)
(*                                                                         *)
(* Implementation shaped.  `Schedule(cfg)` is the exact observe / squeeze  *)
(* program of plonk/get_challenges.rs::get_challenges, plonk/prover.rs,    *)
(* fri/mod.rs::{FriConfig,FriParams}::observe, fri/challenges.rs::         *)
(* fri_challenges, run on the challenger abstraction of TranscriptCore.    *)
(* `Disabled` removes the observe steps of a set of component classes      *)
(* (spec mutants: each must violate FS1).                                  *)
(*                                                                         *)
(* cfg = [nc, lookups, layers, capn, strat, narity, npi, q, nfinal,        *)
(*        nconst, nsigma, nwires, nzs, npp, nquot, nlook]                  *)
(*   nc challenges, capn = 2^cap_height cap entries, layers = commit-phase *)
(*   caps, strat in {"fixed","cab","minsize"}, narity = length of the      *)
(*   derived arity list, npi public inputs, q query rounds, nfinal final-  *)
(*   polynomial coefficients, n* = lengths of the opening vectors.         *)
(***************************************************************************)
EXTENDS TranscriptCore, Json, IOUtils, Functions, SequencesExt

CONSTANTS Mutants, ConfigSet, EncodeMutant
\* Mutants: set of sets of disabled classes; ConfigSet: "lattice" | "quick" | "env" | "one";
\* EncodeMutant: "none" | "drops_final_bits" (the strategy encoding, see TranscriptCore)

H == 4        \* field elements of a digest
D == 2        \* extension degree

\* ---- configurations ------------------------------------------------------
Lattice ==
  {[nc |-> nc, lookups |-> lk, layers |-> ly, capn |-> cp, strat |-> st, narity |-> ly, npi |-> np,
    q |-> 2, nfinal |-> 2, nconst |-> 2, nsigma |-> 2, nwires |-> 3, nzs |-> nc, npp |-> nc, nquot |-> 2 * nc,
    nlook |-> IF lk THEN 2 * nc ELSE 0] :
     nc \in {1, 2}, lk \in BOOLEAN, ly \in 0..2, cp \in {1, 2}, st \in {"fixed", "cab", "minsize"}, np \in {0, 2}}
OneConfig == [nc |-> 2, lookups |-> TRUE, layers |-> 2, capn |-> 2, strat |-> "fixed", narity |-> 2, npi |-> 2,
              q |-> 2, nfinal |-> 2, nconst |-> 2, nsigma |-> 2, nwires |-> 3, nzs |-> 2, npp |-> 2, nquot |-> 4, nlook |-> 4]
\* sub-lattice of the quick tier
LatticeQuick == {c \in Lattice : c.layers # 1 /\ c.strat # "cab"}
Configs == IF ConfigSet = "env" THEN {c : c \in Range(ndJsonDeserialize(IOEnv.CFGS))}
           ELSE IF ConfigSet = "one" THEN {OneConfig}
           ELSE IF ConfigSet = "quick" THEN LatticeQuick ELSE Lattice

\* what the code's serialisation absorbs / the atoms of the component (variant + every parameter)
StratLen(cfg) == EncodeLen(cfg.strat, cfg.narity, EncodeMutant)
StratAtoms(cfg) == StratParamCount(cfg.strat, cfg.narity)
ASSUME EncodeInjective(EncodeMutant)
ASSUME EncodeComplete(EncodeMutant)
ASSUME KnownCollision
CapLen(cfg) == cfg.capn * H
PiAtoms(cfg) == AtomsOf("public_input", cfg.npi)
Layers(cfg) == 1..cfg.layers
Idx(n) == IF n < 10 THEN <<"0","1","2","3","4","5","6","7","8","9">>[n + 1] ELSE ToString(n)
CommitCap(l) == "commit_cap." \o Idx(l)
FriBeta(l) == "fri_betas." \o Idx(l)

\* ---- implementation-shaped: the exact program --------------------------------
RECURSIVE FriLayers(_, _)
FriLayers(cfg, l) == IF l > cfg.layers THEN <<>>
                     ELSE <<Obs(CommitCap(l), CapLen(cfg)), Sq(FriBeta(l), D)>> \o FriLayers(cfg, l + 1)
FullSchedule(cfg) ==
  << \* FriParams::observe = FriConfig::observe, hiding, degree_bits, reduction_arity_bits
     Obs("fri.rate_bits", 1), Obs("fri.cap_height", 1), Obs("fri.proof_of_work_bits", 1),
     Obs("fri.reduction_strategy", StratLen(cfg)), Obs("fri.num_query_rounds", 1),
     Obs("fri.hiding", 1), Obs("fri.degree_bits", 1), Obs("fri.reduction_arity_bits", cfg.narity),
     \* the instance
     Obs("circuit_digest", H),
     ObsDerived("public_inputs_hash", H, TRUE, PiAtoms(cfg), FALSE),
     Obs("wires_cap", CapLen(cfg)),
     Sq("plonk_betas", cfg.nc), Sq("plonk_gammas", cfg.nc),
     Sq("plonk_deltas", IF cfg.lookups THEN 2 * cfg.nc ELSE 0),
     Obs("plonk_zs_partial_products_cap", CapLen(cfg)),
     Sq("plonk_alphas", cfg.nc),
     Obs("quotient_polys_cap", CapLen(cfg)),
     Sq("plonk_zeta", D),
     \* observe_openings(to_fri_openings): zeta batch, then zeta-next batch
     Obs("openings.constants", cfg.nconst * D), Obs("openings.plonk_sigmas", cfg.nsigma * D),
     Obs("openings.wires", cfg.nwires * D), Obs("openings.plonk_zs", cfg.nzs * D),
     Obs("openings.partial_products", cfg.npp * D), Obs("openings.quotient_polys", cfg.nquot * D),
     Obs("openings.lookup_zs", cfg.nlook * D),
     Obs("openings.plonk_zs_next", cfg.nzs * D), Obs("openings.lookup_zs_next", cfg.nlook * D),
     \* fri_challenges
     Sq("fri_alpha", D) >>
  \o FriLayers(cfg, 1)
  \o << Obs("final_poly", cfg.nfinal * D),
        Obs("pow_witness", 1),
        Sq("fri_pow_response", 1),
        Sq("fri_query_indices", cfg.q) >>

\* ---- property level: rounds of the protocol -----------------------------------
StatementClasses ==
  {"fri.rate_bits", "fri.cap_height", "fri.proof_of_work_bits", "fri.reduction_strategy", "fri.num_query_rounds",
   "fri.hiding", "fri.degree_bits", "fri.reduction_arity_bits", "circuit_digest", "public_inputs_hash", "public_input"}
OpeningClasses ==
  {"openings.constants", "openings.plonk_sigmas", "openings.wires", "openings.plonk_zs", "openings.partial_products",
   "openings.quotient_polys", "openings.lookup_zs", "openings.plonk_zs_next", "openings.lookup_zs_next"}
RECURSIVE FriRounds(_, _)
FriRounds(cfg, l) == IF l > cfg.layers THEN <<>>
                     ELSE <<[msgs |-> {CommitCap(l)}, chs |-> {FriBeta(l)}]>> \o FriRounds(cfg, l + 1)
Protocol(cfg) ==
  << [msgs |-> StatementClasses \cup {"wires_cap"}, chs |-> {"plonk_betas", "plonk_gammas", "plonk_deltas"}],
     [msgs |-> {"plonk_zs_partial_products_cap"}, chs |-> {"plonk_alphas"}],
     [msgs |-> {"quotient_polys_cap"}, chs |-> {"plonk_zeta"}],
     [msgs |-> OpeningClasses, chs |-> {"fri_alpha"}] >>
  \o FriRounds(cfg, 1)
  \o << [msgs |-> {"final_poly", "pow_witness"}, chs |-> {"fri_pow_response", "fri_query_indices"}] >>

\* number of atoms of a component class under cfg (0 = the class does not occur)
\* fs = FullSchedule(cfg), passed as a VALUE (TLC re-evaluates definitions at every use)
CountF(fs, cfg, class) ==
  LET S == {s \in Range(fs) : s.k = "O" /\ s.class = class /\ s.own}
  IN IF class = "public_input" THEN cfg.npi
     ELSE IF class = "fri.reduction_strategy" THEN StratAtoms(cfg)
     ELSE IF S = {} THEN 0 ELSE (CHOOSE s \in S : TRUE).n
Count(cfg, class) == CountF(FullSchedule(cfg), cfg, class)
RoundOf(P, ch) == CHOOSE r \in 1..Len(P) : ch \in P[r].chs
Precede(P, ch) == UNION {P[r].msgs : r \in 1..RoundOf(P, ch)}
PrecedeAtomsF(fs, cfg, P, ch) == UNION {AtomsOf(c, CountF(fs, cfg, c)) : c \in Precede(P, ch)}
\* the same, cumulatively per round (one pass): CumAtoms(..)[r] = atoms of all components of rounds 1..r
RECURSIVE CumAtoms(_, _, _, _, _)
CumAtoms(fs, cfg, P, r, acc) ==
  IF r > Len(P) THEN <<>>
  ELSE LET a == CHOOSE x \in {acc \cup UNION {AtomsOf(m, CountF(fs, cfg, m)) : m \in P[r].msgs}} : TRUE
       IN <<a>> \o CumAtoms(fs, cfg, P, r + 1, a)
AllChallenges(P) == UNION {P[r].chs : r \in 1..Len(P)}
AllComponents(P) == UNION {P[r].msgs : r \in 1..Len(P)}
DependsOn(P, ch, comp) == comp \in Precede(P, ch)

\* ---- the run ----------------------------------------------------------------------
\* Everything that is a function of (configuration, mutant) is computed once per behaviour by the
\* Setup step and carried in the state (TLC re-evaluates definitions at every use, also constant ones).
\* (bound variables of a set constructor are bound to VALUES: each of fs, P0, cum is computed once)
Entry(c, d) ==
  CHOOSE e \in UNION {
      {[fs |-> fs, P |-> P0,
        \* a spec mutant drops the observe steps of the classes in d
        prog |-> Compress(SelectSeq(fs, LAMBDA s : ~(s.k = "O" /\ s.class \in d))),
        pre |-> [ch \in AllChallenges(P0) |-> cum[RoundOf(P0, ch)]]] : cum \in {CumAtoms(fs, c, P0, 1, {})}}
      : fs \in {FullSchedule(c)}, P0 \in {Protocol(c)}} : TRUE

VARIABLES cfg, dis, T, pc, el, tc, log, seen, ok
vars == <<cfg, dis, T, pc, el, tc, log, seen, ok>>
\* T = Entry(cfg, dis); log: one record per squeezed element [ch, dc] (dc = classes it depends on);
\* seen: atoms observed so far; ok: the obligations FS1 / FS2 / FS0, evaluated on each squeezed
\* element when it is drawn

NoCfg == [none |-> TRUE]
prog == T.prog
pre == T.pre
P == T.P
Done == pc > 0 /\ pc > Len(prog)

\* the configuration is chosen by the first step and set up by the second, so that TLC's workers
\* share the work (initial states are processed by one worker only)
Init == /\ cfg = NoCfg /\ dis = {} /\ T = NoCfg /\ pc = 0 /\ el = 1 /\ tc = UInit /\ log = <<>> /\ seen = {}
        /\ ok = [fs1 |-> TRUE, fs2 |-> TRUE, fs0 |-> TRUE]
Choose == /\ pc = 0 /\ cfg = NoCfg
          /\ \E c \in Configs : \E d \in Mutants : cfg' = c /\ dis' = d
          /\ UNCHANGED <<T, pc, el, tc, log, seen, ok>>
Setup == /\ pc = 0 /\ cfg # NoCfg
         /\ T' = Entry(cfg, dis) /\ pc' = 1
         /\ UNCHANGED <<cfg, dis, el, tc, log, seen, ok>>
Run ==
  /\ pc > 0 /\ ~Done
  /\ LET s == prog[pc]
         r == CHOOSE x \in {StepElem(s, el, tc)} : TRUE
     IN /\ tc' = r[1]
        /\ log' = IF s.k = "S" THEN Append(log, [ch |-> s.class, dc |-> Classes(r[2])]) ELSE log
        /\ ok' = IF s.k = "S"
                 THEN [fs1 |-> ok.fs1 /\ pre[s.class] \subseteq r[2],
                       fs2 |-> ok.fs2 /\ pre[s.class] \subseteq seen,
                       fs0 |-> ok.fs0 /\ r[2] \subseteq pre[s.class]]
                 ELSE ok
        /\ seen' = IF s.k = "O" THEN seen \cup ElemTaint(s, el, tc) ELSE seen
        /\ IF el < s.n THEN el' = el + 1 /\ pc' = pc ELSE el' = 1 /\ pc' = pc + 1
        /\ UNCHANGED <<cfg, dis, T>>
Next == Choose \/ Setup \/ Run

\* ---- obligations ------------------------------------------------------------------
FS1 == ok.fs1
FS2 == ok.fs2
FS0 == ok.fs0
\* canary form: every spec mutant (a dropped absorption) is caught by FS1 at the end of its run
MutantCaught == (Done /\ dis # {}) => ~ok.fs1
\* every challenge of the protocol is drawn, with the right number of elements, in protocol order
ChallengeCount(ch) == Cardinality({j \in 1..Len(log) : log[j].ch = ch})
ExpectedCount(ch) == FoldSeq(LAMBDA s, acc : acc + (IF s.k = "S" /\ s.class = ch THEN s.n ELSE 0), 0, T.fs)
Complete == Done =>
  /\ \A ch \in AllChallenges(P) :
        ChallengeCount(ch) = ExpectedCount(ch)
  /\ \A j \in 1..Len(log) : log[j].ch \in AllChallenges(P)
  /\ \A i \in 1..Len(log), j \in 1..Len(log) : i < j => RoundOf(P, log[i].ch) <= RoundOf(P, log[j].ch)
  /\ \A c \in AllComponents(P) : CountF(T.fs, cfg, c) > 0 => AtomsOf(c, CountF(T.fs, cfg, c)) \subseteq seen

\* ---- the expected dependency matrix -----------------------------------------------
ObservedDeps(ch) == UNION {log[j].dc : j \in {i \in 1..Len(log) : log[i].ch = ch}}
LiveChallenges == {ch \in AllChallenges(P) : ChallengeCount(ch) > 0}
LiveComponents == {c \in AllComponents(P) : CountF(T.fs, cfg, c) > 0}
Matrix == [system |-> "plonk", cfg |-> cfg,
           challenges |-> SetToSeq(LiveChallenges),
           components |-> SetToSeq(LiveComponents),
           depends |-> [ch \in LiveChallenges |-> SetToSeq({c \in LiveComponents : DependsOn(P, ch, c)})],
           schedule_depends |-> [ch \in LiveChallenges |-> SetToSeq(ObservedDeps(ch))],
           program |-> [i \in 1..Len(T.fs) |->
                          [k |-> T.fs[i].k, class |-> T.fs[i].class, n |-> T.fs[i].n]]]
EmitMatrix == Done => PrintT("MATRIX " \o ToJson(Matrix))
=============================================================================
