CONSTANT P = 17
CONSTANT N = 2
CONSTANT MUT = "z_transition_only"
CONSTANT DIDS = {1}
INIT Init
NEXT Next
INVARIANT Theorem
CHECK_DEADLOCK FALSE
