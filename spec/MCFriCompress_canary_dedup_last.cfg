CONSTANT Ns = {3}
CONSTANT Schedules <- TwoSchedules
CONSTANT MaxCap = 2
CONSTANT MaxLen = 2
CONSTANT Mutant = "dedup_last"
INIT InitG
NEXT Next
INVARIANT RoundTrip
INVARIANT NoMiss
INVARIANT Agree

CHECK_DEADLOCK FALSE
