CONSTANT HSet = {4}
CONSTANT Mutant = "none"
INIT Init
NEXT Next
INVARIANT NoDoubleWrite
INVARIANT InitAtEnd
INVARIANT CapRight
INVARIANT ProveRight
INVARIANT LayoutRight
INVARIANT EmitLayout
CHECK_DEADLOCK FALSE
