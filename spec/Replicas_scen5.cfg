CONSTANT MaxOps = 5
CONSTANT EmitLen = 5
CONSTANT MaxReps = 3
CONSTANT MaxBlobs = 2
CONSTANT MaxProofs = 3
CONSTANT NInputs = 2
CONSTANT NoRepeat = TRUE
CONSTANT CheckRestore = TRUE
CONSTANT Nondegenerate = TRUE
CONSTANT Mutant = "none"
INIT Init
NEXT Next
INVARIANT TypeOK
INVARIANT ObsEqual
INVARIANT AllIntact
INVARIANT AllGood
INVARIANT Emit
CHECK_DEADLOCK FALSE
