----------------------------- MODULE MerkleFill -----------------------------
(***************************************************************************)
(* Implementation-shaped model of MerkleTree::new (merkle_tree.rs), C12.   *)
(*                                                                         *)
(*  - `buf` is the `digests` buffer (MaybeUninit slots), `capbuf` the cap; *)
(*  - fill_digests_buf starts 2^capH independent tasks (par_chunks_exact), *)
(*    or, when the tree is all cap, one task per leaf;                     *)
(*  - fill_subtree is a task tree under `join`: a task is a record         *)
(*    [off, len, lo, n] = the slice digests_buf[off..off+len) and the      *)
(*    leaves [lo..lo+n); it becomes enabled when its two children have     *)
(*    returned, then writes left_digest_mem / right_digest_mem and returns *)
(*    two_to_one; a leaf task (len = 0) returns hash_or_noop(leaf);        *)
(*  - Step(t) runs one enabled task: TLC explores ALL interleavings.       *)
(*                                                                         *)
(* Obligations (for every schedule):                                       *)
(*   NoDoubleWrite  a slot is written at most once              (DRIFT)    *)
(*   InitAtEnd      at quiescence no slot is UNINIT (set_len is sound)     *)
(*   CapRight       cap = CapOf (pairwise hashing level by level)          *)
(*   ProveRight     merkle_tree_prove's index formula reads Path(i)        *)
(*   LayoutRight    the closed form Merkle!StoredGlobal describes the      *)
(*                  layout (used by BatchMerkle and by the harness)        *)
(* The tree height and cap height are chosen in Init from HSet so that one *)
(* TLC run covers several configurations.                                  *)
(***************************************************************************)
EXTENDS Merkle, Json

CONSTANTS HSet,      \* set of tree heights explored by this run
          Mutant     \* "none" | "sib_off" | "rmem" | "swap"

VARIABLES hc,      \* [h, capH] fixed by Init
          buf,     \* slot -> term | UNINIT
          capbuf,  \* cap index -> term | UNINIT
          ret,     \* task -> returned digest | UNINIT (not finished)
          dbl      \* some slot was written twice
vars == <<hc, buf, capbuf, ret, dbl>>

W == 5
Leaves(h) == [j \in 0..(Pow2(h) - 1) |-> <<"v", j>>]

IsLeafTask(t) == t.len = 0
\* fill_subtree's split_at_mut / split_last_mut / split_first_mut and leaves.split_at
LeftMem(t)  == t.off + t.len \div 2 - 1
RightMem(t) == IF Mutant = "rmem" THEN t.off + t.len \div 2 - 1 ELSE t.off + t.len \div 2
LeftTask(t) ==
  [off |-> t.off, len |-> t.len \div 2 - 1,
   lo |-> IF Mutant = "swap" THEN t.lo + t.n \div 2 ELSE t.lo, n |-> t.n \div 2]
RightTask(t) ==
  [off |-> t.off + t.len \div 2 + 1, len |-> t.len \div 2 - 1,
   lo |-> IF Mutant = "swap" THEN t.lo ELSE t.lo + t.n \div 2, n |-> t.n - t.n \div 2]

\* (x ranges over the singleton {t}: binds the EVALUATED task - TLC passes arguments lazily)
RECURSIVE Sub(_)
Sub(t) == UNION {IF IsLeafTask(x) THEN {x} ELSE {x} \cup Sub(LeftTask(x)) \cup Sub(RightTask(x)) : x \in {t}}

NumDigests(h, capH) == 2 * (Pow2(h) - Pow2(capH))
\* fill_digests_buf: the root tasks (chunk c of digests_buf and of leaves)
Roots(h, capH) ==
  IF NumDigests(h, capH) = 0
  THEN [c \in 0..(Pow2(capH) - 1) |-> [off |-> 0, len |-> 0, lo |-> c, n |-> 1]]
  ELSE LET sdl == NumDigests(h, capH) \div Pow2(capH)
           sll == Pow2(h) \div Pow2(capH)
       IN  [c \in 0..(Pow2(capH) - 1) |-> [off |-> c * sdl, len |-> sdl, lo |-> c * sll, n |-> sll]]

Configs == UNION {{[h |-> h, capH |-> c] : c \in 0..h} : h \in HSet}
TaskTab == [g \in Configs |-> UNION {Sub(Roots(g.h, g.capH)[c]) : c \in 0..(Pow2(g.capH) - 1)}]
RootTab == [g \in Configs |-> Roots(g.h, g.capH)]
Tasks == TaskTab[hc]
RootOf(c) == RootTab[hc][c]
IsRoot(t) == \E c \in 0..(Pow2(hc.capH) - 1) : RootOf(c) = t
RootIndex(t) == CHOOSE c \in 0..(Pow2(hc.capH) - 1) : RootOf(c) = t

Init ==
  /\ hc \in Configs
  /\ buf = [s \in 0..(NumDigests(hc.h, hc.capH) - 1) |-> UNINIT]
  /\ capbuf = [c \in 0..(Pow2(hc.capH) - 1) |-> UNINIT]
  /\ ret = [t \in TaskTab[hc] |-> UNINIT]
  /\ dbl = FALSE

Enabled(t) ==
  /\ ret[t] = UNINIT
  /\ IF IsLeafTask(t) THEN TRUE ELSE (ret[LeftTask(t)] # UNINIT /\ ret[RightTask(t)] # UNINIT)

Step(t) ==
  /\ Enabled(t)
  /\ LET out == IF IsLeafTask(t) THEN HashOrNoop(W, Leaves(hc.h)[t.lo])
                ELSE H2(ret[LeftTask(t)], ret[RightTask(t)])
     IN  /\ ret' = [ret EXCEPT ![t] = out]
         /\ capbuf' = IF IsRoot(t) THEN [capbuf EXCEPT ![RootIndex(t)] = out] ELSE capbuf
  /\ IF IsLeafTask(t) THEN UNCHANGED <<buf, dbl>>
     ELSE LET l == LeftMem(t)
              r == RightMem(t)
              b1 == [buf EXCEPT ![l] = ret[LeftTask(t)]]
          IN  /\ buf' = [b1 EXCEPT ![r] = ret[RightTask(t)]]
              /\ dbl' = (dbl \/ buf[l] # UNINIT \/ b1[r] # UNINIT)
  /\ UNCHANGED hc

Next == \E t \in Tasks : Step(t)

Quiescent == \A t \in Tasks : ret[t] # UNINIT

NoDoubleWrite == ~dbl
InitAtEnd == Quiescent => (\A s \in DOMAIN buf : buf[s] # UNINIT) /\ (\A c \in DOMAIN capbuf : capbuf[c] # UNINIT)
CapRight  == Quiescent => capbuf = CapOf(Leaves(hc.h), W, hc.h, hc.capH)
ProveRead(i) ==
  LET sl == ProveSlots(i, hc.h, hc.capH, Mutant)
  IN  [k \in 1..Len(sl) |-> IF sl[k] \in DOMAIN buf THEN buf[sl[k]] ELSE <<"oob", sl[k]>>]
ProveRight == Quiescent => \A i \in 0..(Pow2(hc.h) - 1) :
                ProveRead(i) = Path(Leaves(hc.h), W, hc.h, hc.capH, i)
LayoutRight == Quiescent => \A s \in DOMAIN buf :
                LET g == StoredGlobal(hc.h, hc.capH, s) IN buf[s] = Node(Leaves(hc.h), W, g[1], g[2])
\* the layout table for the harness (printed once per configuration, at quiescence)
EmitLayout == Quiescent =>
  PrintT("LAYOUT " \o ToJson([h |-> hc.h, capH |-> hc.capH,
            slots |-> [s \in 1..NumDigests(hc.h, hc.capH) |-> StoredGlobal(hc.h, hc.capH, s - 1)],
            prove |-> [i \in 1..Pow2(hc.h) |-> ProveSlots(i - 1, hc.h, hc.capH, "none")]]))
=============================================================================
