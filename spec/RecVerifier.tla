------------------------------ MODULE RecVerifier ------------------------------
(***************************************************************************)
(* C06 / C11 - the in-circuit verifier (plonky2 recursion/recursive_        *)
(* verifier.rs + fri/recursive_verifier.rs, starky recursive_verifier.rs)   *)
(* as the SAME ordered list of checks as the native verifier                *)
(* (plonk/verifier.rs + fri/verifier.rs, starky verifier.rs; DESIGN         *)
(* Appendix D), every check an equality constraint over proof components    *)
(* and Fiat-Shamir challenges.                                              *)
(*                                                                          *)
(* Part 1 (state machine).  A proof is a record of COMPONENTS; each         *)
(* verifier owns (i) a transcript schedule - the ordered observe / squeeze  *)
(* program that yields its challenges - and (ii) an ordered check list,     *)
(* every check with the components it READS entirely (`reads`), the         *)
(* components of which it reads ONE indexed element (`reads1`: the cap      *)
(* entry selected by the query index, the coset element at the query        *)
(* position) and the challenges it reads.  The adversary picks one class:   *)
(*   static    - one element of one component is replaced after the proof   *)
(*               was made (shape preserving), or the proof is presented     *)
(*               with other verifier data; a challenge squeezed after the   *)
(*               component was absorbed is re-randomised and every check    *)
(*               reading it fails (ideal hash); a check that reads only     *)
(*               ONE element of the touched component MAY miss the change;  *)
(*   adaptive  - the prover deviates in ONE place before the message is     *)
(*               absorbed (hook H8 knobs, proofs for violating              *)
(*               assignments), the rest of the transcript is consistent,    *)
(*               so exactly the relations `breaks` fail.                    *)
(* Native verdict = every native check passes (first failing check          *)
(* recorded, in native order; "any" when only position-dependent checks     *)
(* can fail); circuit verdict = the same evaluation of the circuit's        *)
(* constraint groups (minus `Disabled`) under the circuit's own schedule.   *)
(* Obligations:                                                             *)
(*   Agree      circuit verdict = native verdict for every class,           *)
(*   FS3        circuit schedule = native schedule (same challenges),       *)
(*   Refines    check-by-check mapping: same ids, read sets, order,         *)
(*   Adequate   every check is the (only) certain detector of some class.   *)
(* `Disabled` is the canary dimension: with the grinding range check, the   *)
(* final-polynomial equality, one Merkle cap or one challenge index of the  *)
(* vanishing identity switched off on the circuit side TLC must find a      *)
(* class on which the two verdicts differ; the class it names must be in    *)
(* the replayed catalogue.                                                  *)
(*                                                                          *)
(* Part 2 (value level, ASSUME).  Where the circuit computes a native       *)
(* quantity differently: leading-zeros test vs. range check, `% lde_size`   *)
(* vs. low bits of a bit decomposition, cap index, coset split.             *)
(*                                                                          *)
(* Part 3 (variable-degree mode of the STARK circuit; instance "vararith":  *)
(* one state per configuration of a lattice and proof degree, invariant     *)
(* VarOK).  One circuit sized for `maxdb` verifies proofs of every degree   *)
(* mindb..maxdb that can be assigned: the degree-bits target drives the     *)
(* `step_active` bits (V1), the Merkle path length selected from a shift    *)
(* register of intermediate digests (V3), and prover, native verifier and   *)
(* circuit absorb the same zero-padded transcript (V4).  Instance           *)
(* "starkvar" runs the check lists of Part 1 for one such circuit and every *)
(* proof degree.                                                            *)
(***************************************************************************)
EXTENDS Naturals, Sequences, FiniteSets, TLC, Json

CONSTANTS Instance,     \* "plonk" | "stark" | "starkvar" (check lists) | "vararith" (Part 3 over the lattice)
          NL,           \* commit-phase layers of the circuit (0..3)
          Disabled,     \* set of circuit-side check ids that are switched off
          Mutant        \* "none" | a named mutant of Part 3 / of the circuit schedule

Q  == 2      \* query rounds
NC == 2      \* challenges (copies of the vanishing identity)
Rs == 0..(Q - 1)
Ls == 0..(NL - 1)
Is == 0..(NC - 1)
IsPlonk == Instance = "plonk"
IsVar == Instance = "starkvar"
IsLk == Instance = "starklk"          \* a STARK with a logUp lookup: auxiliary commitment, lookup challenges
\* plonk: constants/sigmas, wires, zs, quotient; stark: trace, quotient; stark with lookups: trace, auxiliary, quotient
Os == IF IsPlonk THEN 0..3 ELSE IF IsLk THEN 0..2 ELSE 0..1

Digit(n) == <<"0", "1", "2", "3", "4", "5", "6", "7", "8", "9">>[n + 1]

----------------------------------------------------------------------------
(* Part 3 first: the arithmetic of the variable-degree mode *)
Pow2(n) == 2 ^ n

\* FriReductionStrategy::ConstantArityBits(a, f): number of reduction steps for degree bits d
RECURSIVE Steps(_, _)
Steps(c, d) == IF d > c.f /\ d + c.rate >= c.a + c.cap /\ d >= c.a THEN 1 + Steps(c, d - c.a) ELSE 0
\* the library asserts d >= a inside the loop (otherwise it panics): admissible configurations only
RECURSIVE StepsOk(_, _)
StepsOk(c, d) == IF d > c.f /\ d + c.rate >= c.a + c.cap THEN d >= c.a /\ StepsOk(c, d - c.a) ELSE TRUE
FinalBits(c, d) == d - c.a * Steps(c, d)

\* starky/src/prover.rs asserts final_poly_coeff_len(verifier params) = 2^(1 + final_poly_bits);
\* fri/recursive_verifier.rs asserts min_log_n > cap_height
Pre(c) == /\ c.mindb <= c.maxdb
          /\ c.mindb + c.rate > c.cap
          /\ \A d \in c.mindb..c.maxdb : StepsOk(c, d)
          /\ FinalBits(c, c.maxdb) = c.f + 1
VarCfgs == {c \in [rate : 1..2, cap : 2..5, a : 1..3, f : 1..4, maxdb : 4..10, mindb : 2..9] : Pre(c)}

SMax(c) == Steps(c, c.maxdb)
\* set_fri_proof_target: the proof's final polynomial and its number of steps must fit the targets
Assignable(c, db) == FinalBits(c, db) <= FinalBits(c, c.maxdb) /\ Steps(c, db) <= SMax(c)

\* degree_sub_one_bits_vec = bits of 2^db - 1 (maxdb of them); step i reads the bit at
\* (maxdb - sum of arities) + i * a
ActiveIndex(c, i) == (IF Mutant = "step_index_zero" THEN 0 ELSE c.maxdb - c.a * SMax(c)) + i * c.a
StepActive(c, i, db) == ActiveIndex(c, i) < db
V1at(c, db) == \A i \in 0..(SMax(c) - 1) : StepActive(c, i, db) <=> i < Steps(c, db)
V1(c) == \A db \in c.mindb..c.maxdb : Assignable(c, db) => V1at(c, db)

\* verify_merkle_proof_to_cap_with_cap_indices: `final_states` is a shift register over the digests after
\* k siblings (k = 0 the leaf hash); entry n_index = db - mindb is compared with the cap.
RegStep(reg, num, k) == [n \in 0..(num - 1) |-> IF n = num - 1 THEN k ELSE reg[n + 1]]
RECURSIVE RegRun(_, _, _, _)
RegRun(reg, num, k, L) == IF k > L THEN reg ELSE RegRun(RegStep(reg, num, k), num, k + 1, L)
\* tree j: 0 = the initial oracles, j >= 1 = commit-phase layer j - 1
MaxSiblings(c, j) == c.maxdb + c.rate - c.a * j - c.cap
NativeSiblings(c, db, j) == db + c.rate - c.a * j - c.cap
SelectedSiblings(c, db, j) ==
  LET num == c.maxdb - c.mindb + 1
      reg == RegRun([n \in 0..(num - 1) |-> 0], num, 1, MaxSiblings(c, j))
  IN reg[IF Mutant = "path_len_not_tied" THEN num - 1 ELSE db - c.mindb]
V3at(c, db) == \A j \in 0..Steps(c, db) : SelectedSiblings(c, db, j) = NativeSiblings(c, db, j)
V3(c) == \A db \in c.mindb..c.maxdb : Assignable(c, db) => V3at(c, db)

\* the FRI part of the transcript as a sequence of value classes: prover (fri/prover.rs), native verifier
\* (fri/challenges.rs with the circuit's parameters) and circuit (static program over targets that
\* fri/witness_util.rs fills with the proof's values and zero padding)
Rep(x, n) == [i \in 1..n |-> x]
RECURSIVE RealLayers(_, _)
RealLayers(j, n) == IF j >= n THEN <<>> ELSE <<"O:cap" \o Digit(j), "S">> \o RealLayers(j + 1, n)
RECURSIVE PadLayers(_)
PadLayers(n) == IF n = 0 THEN <<>> ELSE <<"O:zerocap", "S">> \o PadLayers(n - 1)
Padded(c, db, pad) ==
  <<"S">> \o RealLayers(0, Steps(c, db))
  \o (IF pad THEN PadLayers(SMax(c) - Steps(c, db)) ELSE <<>>)
  \o Rep("O:coeff", Pow2(FinalBits(c, db)))
  \o (IF pad THEN Rep("O:zero", Pow2(FinalBits(c, c.maxdb)) - Pow2(FinalBits(c, db))) ELSE <<>>)
  \o <<"O:pow", "S", "S">>
ProverFri(c, db) == Padded(c, db, Mutant # "nopad_prover")
NativeFri(c, db) == Padded(c, db, Mutant # "nopad_native")
RECURSIVE CircuitLayers(_, _, _)
CircuitLayers(c, db, j) == IF j >= SMax(c) THEN <<>>
                           ELSE <<IF j < Steps(c, db) THEN "O:cap" \o Digit(j) ELSE "O:zerocap", "S">> \o CircuitLayers(c, db, j + 1)
CircuitFri(c, db) ==
  <<"S">> \o CircuitLayers(c, db, 0)
  \o [i \in 1..Pow2(FinalBits(c, c.maxdb)) |-> IF i <= Pow2(FinalBits(c, db)) THEN "O:coeff" ELSE "O:zero"]
  \o <<"O:pow", "S", "S">>
\* a zero cap / zero coefficient is absorbed as zeros: the classes "O:zerocap"/"O:zero" stand for those values
V4at(c, db) == ProverFri(c, db) = NativeFri(c, db) /\ NativeFri(c, db) = CircuitFri(c, db)
V4(c) == \A db \in c.mindb..c.maxdb : Assignable(c, db) => V4at(c, db)

UnsupportedOf(c) == {db \in c.mindb..c.maxdb : ~Assignable(c, db)}
\* printed for the replay: configurations small enough to build circuits for, with the lengths that cannot be
\* assigned (final polynomial longer than the circuit's): there the native verifier accepts and nothing is asserted
Small == {c \in VarCfgs : c.maxdb <= 8 /\ c.maxdb - c.mindb >= 3 /\ SMax(c) >= 2 /\ c.f <= 3 /\ c.a >= 2}
ASSUME Instance = "vararith" /\ Mutant = "none" => PrintT("VARCFGS " \o ToJson({[cfg |-> c, unsupported |-> UnsupportedOf(c), steps |-> [d \in c.mindb..c.maxdb |-> Steps(c, d)]] : c \in Small}))

\* checked over the whole lattice by the instance "vararith" (one state per configuration and degree, invariant
\* VarOK below); the check-list instance "starkvar" needs them for its own configuration VC only
\* the mode is not vacuous, and the lengths that cannot be assigned are exactly the ones whose final
\* polynomial is longer than the circuit's (they are printed for the replay: native accepts, no assignment)
ASSUME Instance = "vararith" /\ Mutant = "none" => \E c \in VarCfgs : \E db \in c.mindb..(c.maxdb - 1) : Assignable(c, db) /\ Steps(c, db) < SMax(c)

----------------------------------------------------------------------------
(* Part 2: value-level refinements (W-bit words standing for the 64-bit field) *)
W == 6
Words == 0..(Pow2(W) - 1)
Bit(x, i) == (x \div Pow2(i)) % 2
RECURSIVE LeadingZeros(_, _)
LeadingZeros(x, w) == IF w = 0 \/ Bit(x, w - 1) = 1 THEN 0 ELSE 1 + LeadingZeros(x, w - 1)
\* a range check to n bits is satisfiable iff the canonical value has an n-bit decomposition
RECURSIVE LeSum(_, _, _)
LeSum(x, lo, hi) == IF lo >= hi THEN 0 ELSE Bit(x, lo) + 2 * LeSum(x, lo + 1, hi)
RangeOk(x, n) == LeSum(x, 0, n) = x
\* fri_verify_proof_of_work: native `leading_zeros >= b`, circuit `assert_leading_zeros` = range check to W - b bits
ASSUME \A x \in Words : \A b \in 0..W : (LeadingZeros(x, W) >= b) <=> RangeOk(x, W - b)
\* the boundary: a response with exactly b - 1 leading zeros fails the check of width W - b and passes the one of
\* width W - b + 1 (what an off-by-one circuit would enforce); exactly b leading zeros passes
ASSUME \A x \in Words : \A b \in 1..W :
          /\ LeadingZeros(x, W) = b - 1 => ~RangeOk(x, W - b) /\ RangeOk(x, W - b + 1)
          /\ LeadingZeros(x, W) = b => RangeOk(x, W - b)
\* query index: native `x % 2^n`; circuit: the n low bits of the W-bit decomposition
ASSUME \A x \in Words : \A n \in 1..W : x % Pow2(n) = LeSum(x, 0, n)
\* cap index: native index after walking the path = x_index >> (n - h); circuit le_sum(bits[n - h .. n])
ASSUME \A x \in Words : \A n \in 1..W : \A h \in 0..n :
          (x % Pow2(n)) \div Pow2(n - h) = LeSum(x, n - h, n)
\* coset split of a reduction step of arity 2^a
ASSUME \A x \in Words : \A n \in 1..W : \A a \in 0..n :
          /\ (x % Pow2(n)) % Pow2(a) = LeSum(x, 0, a)
          /\ (x % Pow2(n)) \div Pow2(a) = LeSum(x, a, n)
\* the zero-padded final polynomial evaluates like the short one: sum over coefficient indices (coefficients
\* as small numbers, evaluation point y): padding contributes nothing
RECURSIVE PolyEval(_, _, _)
PolyEval(cs, y, i) == IF i > Len(cs) THEN 0 ELSE cs[i] * (y ^ (i - 1)) + PolyEval(cs, y, i + 1)
ASSUME \A cs \in [1..2 -> 0..2] : \A y \in 1..3 : PolyEval(cs \o <<0, 0>>, y, 1) = PolyEval(cs, y, 1)

----------------------------------------------------------------------------
(* Part 1: components, schedules, checks *)
C(k, r, i) == [k |-> k, r |-> r, i |-> i]
S(n) == C(n, 0, 0)
OracleCap(o) == IF IsPlonk
                THEN (CASE o = 0 -> S("vd_cap") [] o = 1 -> S("wires_cap") [] o = 2 -> S("zs_cap") [] OTHER -> S("quot_cap"))
                ELSE (IF o = 0 THEN S("trace_cap") ELSE IF IsLk /\ o = 1 THEN S("aux_cap") ELSE S("quot_cap"))
OpeningNames == IF IsPlonk THEN <<"op_constants", "op_sigmas", "op_wires", "op_zs", "op_pp", "op_quot", "op_lzs", "op_zs_next", "op_lzs_next">>
                ELSE IF IsLk THEN <<"op_local", "op_aux", "op_quot", "op_next", "op_aux_next">>
                ELSE <<"op_local", "op_quot", "op_next">>
Openings == {S(OpeningNames[i]) : i \in 1..Len(OpeningNames)}

\* the configuration of the check-list part of the variable-degree instance (DESIGN C11: rate 1, cap 4,
\* ConstantArityBits(2, 3), verifier degree 8): two layers at most, like NL
VC == [rate |-> 1, cap |-> 4, a |-> 2, f |-> 3, maxdb |-> 8, mindb |-> 4]
ASSUME IsVar => VC \in VarCfgs /\ SMax(VC) = NL /\ V1(VC) /\ V3(VC) /\ V4(VC)
IsArith == Instance = "vararith"
Dbs == IF IsVar THEN {db \in VC.mindb..VC.maxdb : Assignable(VC, db)} ELSE IF IsArith THEN 2..10 ELSE {0}
Layers(db) == IF IsVar THEN 0..(Steps(VC, db) - 1) ELSE Ls

NoComp == [k |-> "-", r |-> 0, i |-> 0]
O(c) == [k |-> "O", c |-> c, ch |-> ""]
Sq(ch) == [k |-> "S", c |-> NoComp, ch |-> ch]
Beta(l) == "beta" \o Digit(l)
RECURSIVE LayerSched(_, _)
LayerSched(l, n) == IF l >= n THEN <<>> ELSE <<O(C("commit_cap", 0, l)), Sq(Beta(l))>> \o LayerSched(l + 1, n)
Head1 == IF IsPlonk
         THEN <<O(S("vd_digest")), O(S("pis")), O(S("wires_cap")), Sq("betas"), O(S("zs_cap")), Sq("alphas"), O(S("quot_cap")), Sq("zeta")>>
         \* starky: public inputs, config, trace cap, alphas', simulating zetas, zeta', bound evaluations
         \* (a function of what was drawn, the public inputs and the degree), alphas, quotient cap, zeta
         ELSE IF IsLk
         THEN <<O(S("pis")), O(S("trace_cap")), Sq("lookup_betas"), O(S("aux_cap")), Sq("alphas_prime"), O(S("degree_bits")), Sq("alphas"),
                O(S("quot_cap")), Sq("zeta")>>
         ELSE <<O(S("pis")), O(S("trace_cap")), Sq("alphas_prime"), O(S("degree_bits")), Sq("alphas"), O(S("quot_cap")), Sq("zeta")>>
RECURSIVE OpenSched(_)
OpenSched(i) == IF i > Len(OpeningNames) THEN <<>> ELSE <<O(S(OpeningNames[i]))>> \o OpenSched(i + 1)
Tail1 == <<O(S("final_poly")), O(S("pow_witness")), Sq("pow_response"), Sq("x_index")>>
\* native: plonk/get_challenges.rs, starky/get_challenges.rs + fri/challenges.rs (the padding absorbs zeros
\* and draws dummies: no component, no named challenge)
NativeSchedule(db) == Head1 \o OpenSched(1) \o <<Sq("fri_alpha")>> \o LayerSched(0, Cardinality(Layers(db))) \o Tail1
\* circuit: the *_target versions; statically NL layers.  A layer beyond the proof's own is a zero cap
\* (Part 3, V4: same absorbed values as the native padding), its beta is a dummy nobody reads.
CircuitSchedule(db) ==
  LET full == Head1 \o OpenSched(1) \o <<Sq("fri_alpha")>> \o LayerSched(0, NL) \o Tail1
      live == SelectSeq(full, LAMBDA s : ~(\E l \in Ls \ Layers(db) : s.c = C("commit_cap", 0, l) \/ s.ch = Beta(l)))
  IN IF Mutant = "circuit_skips_final_poly" THEN SelectSeq(live, LAMBDA s : s.c # S("final_poly")) ELSE live

Chk(id, reads, reads1, chals) == [id |-> id, reads |-> reads, reads1 |-> reads1, chals |-> chals]
\* a wire / constant / trace column that no constraint mentions does not enter the identity: one changed element of
\* these opening vectors MAY go unnoticed by the vanishing check (the transcript still notices it)
\* (lookups: of the next-row auxiliary openings only the running sum's is read)
VanishingPartial == IF IsPlonk THEN {S("op_wires"), S("op_constants"), S("op_lzs"), S("op_lzs_next")}
                    ELSE {S("op_local"), S("op_next")} \cup (IF IsLk THEN {S("op_aux_next")} ELSE {})
VanishingReads == (Openings \ VanishingPartial) \cup {S("pis")} \cup (IF IsPlonk THEN {} ELSE {S("degree_bits")})
\* with lookups the identity includes the logUp terms (eval_ext_lookups / _circuit): helper columns and running sum at
\* zeta and g zeta, the looking / table / frequency / filter COLUMN EXPRESSIONS over the local AND the next trace row
VanChals == (IF IsPlonk THEN {"betas"} ELSE IF IsLk THEN {"lookup_betas"} ELSE {}) \cup {"alphas", "zeta"}
Vanishing(i) == Chk("Vanishing" \o Digit(i), VanishingReads, VanishingPartial, VanChals)
\* mutant: the circuit-side column evaluator reads the LOCAL row where the expression names the NEXT row
VanishingX(i) == Chk("VanishingX" \o Digit(i), VanishingReads, VanishingPartial, VanChals)
PowChk == Chk("Pow", {}, {}, {"pow_response"})
InitMerkle(r, o) == Chk("InitMerkle" \o Digit(o), {C("init_leaf", r, o), C("init_path", r, o)}, {OracleCap(o)}, {"x_index"})
Combined(r) == {C("init_leaf", r, o) : o \in Os} \cup Openings
Consistency(r, l) == Chk("Consistency" \o Digit(l),
                         IF l = 0 THEN Combined(r) ELSE {C("step_eval", r, l - 1)}, {C("step_eval", r, l)},
                         IF l = 0 THEN {"fri_alpha", "zeta", "x_index"} ELSE {Beta(l - 1), "x_index"})
LayerMerkle(r, l) == Chk("LayerMerkle" \o Digit(l), {C("step_eval", r, l), C("step_path", r, l)}, {C("commit_cap", 0, l)}, {"x_index"})
Final(r, n) == Chk("Final", {S("final_poly")} \cup (IF n = 0 THEN Combined(r) ELSE {C("step_eval", r, n - 1)}), {},
                   IF n = 0 THEN {"fri_alpha", "zeta", "x_index"} ELSE {Beta(n - 1), "x_index"})
RECURSIVE LayerChecks(_, _, _)
LayerChecks(r, l, n) == IF l >= n THEN <<>> ELSE <<Consistency(r, l), LayerMerkle(r, l)>> \o LayerChecks(r, l + 1, n)
RECURSIVE InitChecks(_, _)
InitChecks(r, o) == IF o \notin Os THEN <<>> ELSE <<InitMerkle(r, o)>> \o InitChecks(r, o + 1)
RoundChecks(r, n) == InitChecks(r, 0) \o LayerChecks(r, 0, n) \o <<Final(r, n)>>
RECURSIVE AllRounds(_, _)
AllRounds(r, n) == IF r \notin Rs THEN <<>> ELSE RoundChecks(r, n) \o AllRounds(r + 1, n)
RECURSIVE VanChecks(_)
VanChecks(i) == IF i \notin Is THEN <<>> ELSE <<Vanishing(i)>> \o VanChecks(i + 1)
RECURSIVE VanChecksX(_)
VanChecksX(i) == IF i \notin Is THEN <<>> ELSE <<VanishingX(i)>> \o VanChecksX(i + 1)
CircuitVan == IF Mutant = "circuit_next_reads_local" THEN VanChecksX(0) ELSE VanChecks(0)

\* native: validate shape (trivial on assignable proofs), vanishing identity per challenge, grinding, rounds
\* every variable-length list a proof carries: the native verifier's shape validation reads their LENGTHS; on the circuit
\* side the targets have fixed sizes and the library's assignment routine is the shape check
ListComps ==
  {S("pis"), S("final_poly"), S("rounds"), S("commit_caps")} \cup Openings
  \cup (IF IsPlonk THEN {S("wires_cap"), S("zs_cap"), S("quot_cap")} ELSE {S("trace_cap"), S("quot_cap")} \cup (IF IsLk THEN {S("aux_cap")} ELSE {}))
  \cup {C("commit_cap", 0, l) : l \in Ls} \cup {C("init_leaf", 0, o) : o \in Os} \cup {C("init_path", 0, o) : o \in Os}
  \cup {C("step_eval", 1, l) : l \in Ls} \cup {C("step_path", 0, l) : l \in Ls}
\* lists the assignment routine may legitimately find SHORTER than its targets (variable-degree mode): it pads with zeros
PaddedLists == {c \in ListComps : c.k \in {"init_path", "step_path", "final_poly", "commit_caps"}}
\* (they read the LENGTHS of the lists, not their values: a separate field)
ShapeChk == [id |-> "Shape", reads |-> {}, reads1 |-> {}, chals |-> {}, lens |-> ListComps]
AssignChk == [id |-> "Assign", reads |-> {}, reads1 |-> {}, chals |-> {}, lens |-> ListComps]
NativeChecks(db) == <<ShapeChk>> \o VanChecks(0) \o <<PowChk>> \o AllRounds(0, Cardinality(Layers(db)))
\* circuit: the same groups of equality constraints.  In the variable-degree mode the circuit holds NL
\* conditional layers; layer l is switched on by step_active (Part 3, V1: exactly the proof's own layers),
\* an inactive layer constrains nothing and passes old_eval through, so the final check reads the last ACTIVE layer.
\* mutant: the in-circuit range check enforces one leading zero too few
CircuitPow == IF Mutant = "pow_one_bit_short" THEN Chk("PowLoose", {}, {}, {"pow_response"}) ELSE PowChk
CircuitChecks(db) == SelectSeq(<<AssignChk>> \o CircuitVan \o <<CircuitPow>> \o AllRounds(0, Cardinality(Layers(db))),
                               LAMBDA k : k.id \notin Disabled)

\* ---- adversary classes ----------------------------------------------------------------
StaticComps ==
  {S("pis"), S("final_poly"), S("pow_witness")} \cup Openings
  \cup (IF IsPlonk THEN {S("wires_cap"), S("zs_cap"), S("quot_cap")} ELSE {S("trace_cap"), S("quot_cap")} \cup (IF IsLk THEN {S("aux_cap")} ELSE {}))
  \cup {C("commit_cap", 0, l) : l \in Ls} \cup {C("init_leaf", 0, o) : o \in Os}
  \* one Merkle sibling: per oracle / per layer, in the first and in the last query round
  \cup {C("init_path", r, o) : r \in {0, Q - 1}, o \in Os}
  \cup {C("step_eval", 1, l) : l \in Ls} \cup {C("step_path", r, l) : r \in {0, Q - 1}, l \in Ls}
CompName(c) == IF c.k \in {"init_leaf", "init_path", "commit_cap", "step_eval", "step_path"}
               THEN c.k \o ":" \o Digit(c.i) \o (IF c.k \in {"init_path", "step_path"} /\ c.r = Q - 1 THEN "@last" ELSE "")
               ELSE c.k
AllIds(pre) == {pre \o Digit(i) : i \in 0..3}
VanIds == {"Vanishing" \o Digit(i) : i \in Is} \cup {"VanishingX" \o Digit(i) : i \in Is}
VanXIds == {"VanishingX" \o Digit(i) : i \in Is}
StaticClasses == {[name |-> CompName(c), kind |-> "static", touched |-> c, partial |-> TRUE, breaks |-> {}, maybe |-> {}] : c \in StaticComps}
VdClasses == IF ~IsPlonk THEN {} ELSE
  { [name |-> "vd_digest", kind |-> "static", touched |-> S("vd_digest"), partial |-> TRUE, breaks |-> {}, maybe |-> {}],
    [name |-> "vd_other_digest", kind |-> "static", touched |-> S("vd_digest"), partial |-> FALSE, breaks |-> {}, maybe |-> {}],
    [name |-> "vd_other", kind |-> "static", touched |-> S("vd_digest"), partial |-> FALSE, breaks |-> {}, maybe |-> {}],
    \* the constants/sigmas cap is not absorbed (only the digest is): only the Merkle checks of oracle 0 see it
    [name |-> "vd_cap_one", kind |-> "static", touched |-> S("vd_cap"), partial |-> TRUE, breaks |-> {}, maybe |-> {}],
    [name |-> "vd_cap_all", kind |-> "static", touched |-> S("vd_cap"), partial |-> FALSE, breaks |-> {}, maybe |-> {}],
    [name |-> "vd_other_cap", kind |-> "static", touched |-> S("vd_cap"), partial |-> FALSE, breaks |-> {}, maybe |-> {}] }
Ad(name, breaks, maybe) == [name |-> name, kind |-> "adaptive", touched |-> S("none"), partial |-> FALSE, breaks |-> breaks, maybe |-> maybe]
\* what the last layer's fold is compared with
AfterLayer(l, n) == IF l + 1 < n THEN "Consistency" \o Digit(l + 1) ELSE "Final"
AdaptiveClasses(n) ==
  { Ad("none", {}, {}),
    \* Knobs.pow_witness: a witness that does not satisfy the grinding condition, absorbed as sent
    Ad("bad_pow", {"Pow", "PowLoose"}, {}),
    \* boundary of the grinding condition: a witness whose response has EXACTLY pow_bits - 1 leading zeros (one bit
    \* short: rejected, and only a check of the full width notices), and one with exactly pow_bits (accepted)
    Ad("pow_short1", {"Pow"}, {}), Ad("pow_exact", {}, {}),
    \* Knobs.fri_final_poly_delta: coefficient changed before it is absorbed
    Ad("final_delta", {"Final"}, {}) }
  \cup {Ad("layer_delta:" \o Digit(l), {"Consistency" \o Digit(l), AfterLayer(l, n)}, {}) : l \in 0..(n - 1)}
  \cup (IF IsPlonk
        THEN { \* a proof for an assignment violating a gate / copy constraint: every copy of the identity fails
               Ad("false_stmt", VanIds, {}),
               Ad("perturb_q0", {"Vanishing0"}, {}), Ad("perturb_qlast", {"Vanishing" \o Digit(NC - 1)}, {}),
               \* claimed wire opening changed before absorption: the reduced openings no longer match the leaves
               Ad("opening_delta", {IF n = 0 THEN "Final" ELSE "Consistency0"}, VanIds),
               Ad("zero_z", VanIds, {}), Ad("one_z", {}, VanIds) }
        ELSE { Ad("corrupt_trace", VanIds, {}) }
             \cup (IF IsLk
                   THEN { \* a changed cell of a looking column (counted by its filter): the logUp sums no longer match
                          Ad("corrupt_lookup", VanIds, {}),
                          \* honest proofs of a member whose lookup columns / filters read the local row only, resp. also the
                          \* next row: only the latter tells a circuit evaluator that confuses the two rows
                          Ad("honest_lk_local", {}, {}), Ad("honest_lk_next", VanXIds, {}) }
                   ELSE {}))
\* variable-degree mode: a proof made WITHOUT the circuit's parameters (no transcript padding) presented to the
\* padding verifiers: the grinding response and the query indices differ as soon as something had to be padded
VarClasses(d) == IF ~IsVar THEN {} ELSE
  { Ad("unpadded", IF Steps(VC, d) < SMax(VC) \/ FinalBits(VC, d) < FinalBits(VC, VC.maxdb) THEN {"Pow"} ELSE {}, {}) }
\* shape classes: one list at a time gets one surplus element appended / one element removed (otherwise valid proof)
ShapeClasses == {[name |-> "shape:" \o CompName(c) \o ":" \o d, kind |-> "shape", touched |-> c, partial |-> FALSE, breaks |-> {d}, maybe |-> {}] :
                   c \in ListComps, d \in {"surplus", "short"}}
Classes(db) == ShapeClasses \cup StaticClasses \cup VdClasses \cup AdaptiveClasses(Cardinality(Layers(db))) \cup VarClasses(db)

----------------------------------------------------------------------------
VARIABLES adv, db, vc, T, pc, nacc, first, maybeFirst
vars == <<adv, db, vc, T, pc, nacc, first, maybeFirst>>

\* <<component, challenge>> pairs of a schedule: the component is absorbed before the challenge is squeezed
RerPairs(s) == {<<s[i].c, s[j].ch>> : i \in {x \in 1..Len(s) : s[x].k = "O"}, j \in {y \in 1..Len(s) : s[y].k = "S"}}
Before(s) == {p \in RerPairs(s) : \E i \in 1..Len(s) : \E j \in (i + 1)..Len(s) : s[i].k = "O" /\ s[i].c = p[1] /\ s[j].k = "S" /\ s[j].ch = p[2]}
\* everything that depends only on the degree is computed once per behaviour and carried in the state
\* (TLC re-evaluates definitions at every use)
Tables(d) == [nrer |-> Before(NativeSchedule(d)), crer |-> Before(CircuitSchedule(d)),
              nc |-> NativeChecks(d), cc |-> CircuitChecks(d), fs3 |-> NativeSchedule(d) = CircuitSchedule(d)]

\* does check k of a verifier (rer = the absorbed-before relation of its schedule) fail for class a: "yes" | "maybe" | "no"
\* shape classes: the native Shape check rejects both directions.  The assignment routine refuses a surplus element
\* (mutant: it silently truncates) and a short list unless it is one it pads; a padded list is a value change of that
\* component, seen by the checks that read it.
\* the component whose VALUE changes when such a list is padded (the proof's last commit-phase cap for the cap list)
Eff(c) == IF c.k = "commit_caps" THEN C("commit_cap", 0, Cardinality(Layers(db)) - 1) ELSE c
ShapeOutcome(rer, a, k) ==
  IF k.id = "Shape" THEN TRUE
  ELSE IF k.id = "Assign"
       THEN ("surplus" \in a.breaks /\ Mutant # "assign_truncates_surplus") \/ ("short" \in a.breaks /\ a.touched \notin PaddedLists)
       ELSE "short" \in a.breaks /\ a.touched \in PaddedLists
            /\ (Eff(a.touched) \in k.reads \cup k.reads1 \/ \E ch \in k.chals : <<Eff(a.touched), ch>> \in rer)
Outcome(rer, a, k) ==
  IF \/ a.kind = "shape" /\ ShapeOutcome(rer, a, k)
     \/ a.kind = "static" /\ a.touched \in k.reads
     \/ a.kind = "static" /\ a.touched \in k.reads1 /\ ~a.partial
     \/ a.kind = "static" /\ \E ch \in k.chals : <<a.touched, ch>> \in rer
     \/ a.kind = "adaptive" /\ k.id \in a.breaks
  THEN "yes"
  ELSE IF \/ a.kind = "static" /\ a.touched \in k.reads1 /\ a.partial
          \/ a.kind = "adaptive" /\ k.id \in a.maybe
       THEN "maybe" ELSE "no"
\* a component that exists only in layers the proof does not have is not a class of that degree
Exists(a, d) == IF a.kind \notin {"static", "shape"} THEN TRUE
                ELSE IF a.touched.k = "commit_caps" THEN Layers(d) # {}
                ELSE a.touched.k \notin {"commit_cap", "step_eval", "step_path"} \/ a.touched.i \in Layers(d)

Verdict(rer, checks, a) ==
  IF \E i \in 1..Len(checks) : Outcome(rer, a, checks[i]) = "yes" THEN "reject"
  ELSE IF \E i \in 1..Len(checks) : Outcome(rer, a, checks[i]) = "maybe" THEN "any" ELSE "accept"

Init == IF IsArith
        \* Part 3 over the lattice: one state per (configuration, proof degree)
        THEN /\ vc \in VarCfgs /\ db \in vc.mindb..vc.maxdb
             /\ T = <<>> /\ adv = Ad("none", {}, {}) /\ pc = 1 /\ nacc = "accept" /\ first = "" /\ maybeFirst = {}
        ELSE /\ db \in Dbs /\ vc = VC
             /\ T = Tables(db)
             /\ adv \in {a \in Classes(db) : Exists(a, db)}
             /\ pc = 1 /\ nacc = "running" /\ first = "" /\ maybeFirst = {}
\* the native verifier walks its list in order and stops at the first failing check
Next == /\ nacc = "running"
        /\ IF pc > Len(T.nc) THEN nacc' = (IF maybeFirst = {} THEN "accept" ELSE "any") /\ UNCHANGED <<pc, first, maybeFirst>>
           ELSE LET o == Outcome(T.nrer, adv, T.nc[pc]) IN
                IF o = "yes" THEN nacc' = "reject" /\ first' = T.nc[pc].id /\ UNCHANGED <<pc, maybeFirst>>
                ELSE /\ pc' = pc + 1 /\ maybeFirst' = (IF o = "maybe" THEN maybeFirst \cup {T.nc[pc].id} ELSE maybeFirst)
                     /\ UNCHANGED <<nacc, first>>
        /\ UNCHANGED <<adv, db, vc, T>>
Done == nacc # "running"
CircuitVerdict == Verdict(T.crer, T.cc, adv)

\* ---- obligations --------------------------------------------------------------------------
\* verdict level: the circuit's constraint set is satisfiable exactly when the native list passes; where
\* the native verdict depends on the query positions ("any") the circuit depends on them the same way
Agree == Done => CircuitVerdict = nacc
FS3 == T.fs3
\* check-by-check refinement: the circuit list is the native list (ids, read sets, challenges), in order
Refines == Disabled = {} /\ Mutant = "none" => /\ T.cc[1].id = "Assign" /\ T.nc[1].id = "Shape" /\ T.cc[1].lens = T.nc[1].lens
                                             /\ Tail(T.cc) = Tail(T.nc)
\* adequacy of the catalogue: every circuit check is the ONLY certain detector of some class (the consistency
\* checks of the folding chain are always accompanied by the next link: there, a class it certainly detects)
YesIds(a) == {T.nc[i].id : i \in {j \in 1..Len(T.nc) : Outcome(T.nrer, a, T.nc[j]) = "yes"}}
Group(id) == IF id \in {"Consistency" \o Digit(l) : l \in Ls} THEN {"Consistency" \o Digit(l) : l \in Ls} \cup {"Final"}
             ELSE IF id \in VanIds /\ ~IsPlonk THEN VanIds      \* no single-index prover strategy for STARKs (hook H8)
             ELSE {id}
Adequate == (pc = 1 /\ adv.name = "none") =>
            \A id \in {T.nc[i].id : i \in 1..Len(T.nc)} :
              \E a \in Classes(db) : Exists(a, db) /\ id \in YesIds(a) /\ YesIds(a) \subseteq Group(id) /\ Cardinality(YesIds(a)) <= 2
\* every class except the honest proof is rejected or position dependent
OnlyHonestAccepted == Done /\ Disabled = {} => (nacc = "accept" <=> (adv.name \in {"none", "pow_exact", "honest_lk_local", "honest_lk_next"} \/ (adv.name = "unpadded" /\ db = VC.maxdb)))

\* Part 3: for every configuration the prover accepts and every proof degree that can be assigned at all, the
\* circuit switches on exactly the proof's own layers, compares each Merkle path at the proof's own length and
\* absorbs exactly what prover and native verifier absorb
VarOK == IsArith /\ Assignable(vc, db) =>
           /\ V1at(vc, db) /\ V3at(vc, db)
           /\ (FinalBits(vc, vc.maxdb) <= 4 => V4at(vc, db))

\* ---- the catalogue for the replay -------------------------------------------------------
Line == [instance |-> Instance, class |-> adv.name, kind |-> adv.kind, db |-> db, layers |-> Cardinality(Layers(db)),
         expect |-> nacc, first |-> IF first = "" THEN maybeFirst ELSE maybeFirst \cup {first}]
Emit == Done => PrintT("REPLAY " \o ToJson(Line))
=============================================================================
