
