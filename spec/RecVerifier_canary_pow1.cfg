CONSTANT Instance = "plonk"
CONSTANT NL = 2
CONSTANT Disabled = {}
CONSTANT Mutant = "pow_one_bit_short"
INIT Init
NEXT Next
INVARIANT Agree
CHECK_DEADLOCK FALSE
