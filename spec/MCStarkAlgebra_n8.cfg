CONSTANT P = 97
CONSTANT G = 5
CONSTANT LOGN = 3
CONSTANT MUT = "none"
CONSTANT MODE = "corrupt"
CONSTANT SIDS = {1, 4, 5}
CONSTANT FREEVALS = {2, 96}
CONSTANT DELTAS = {1, 50, 96}
CONSTANT VALS = {0, 1, 2}
CONSTANT ALPHAS = {3, 10}
CONSTANT IDENTITY = TRUE
INIT Init
NEXT Next
INVARIANT Theorems
INVARIANT Emit
CHECK_DEADLOCK FALSE
