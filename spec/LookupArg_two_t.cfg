CONSTANT P = 17
CONSTANT NS = 2
CONSTANT InitOn = "last"
CONSTANT Disabled = "none"
CONSTANT MaxLen = 2
CONSTANT OutVals = {0, 1}
CONSTANT Vals = {0, 1, 2}
CONSTANT LuRows = {1, 2}
CONSTANT Mode = "two"
INIT Init
NEXT Next
INVARIANT Complete
INVARIANT Sound
INVARIANT PropSound
INVARIANT PolesFew
CHECK_DEADLOCK FALSE
