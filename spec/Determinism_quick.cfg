CONSTANT Mutant = "none"
CONSTANT Threads = {1, 3, 16}
CONSTANT Flavours = {"release", "seed2", "avx2"}
CONSTANT FlavourThreads = {3}
INIT Init
NEXT Next
INVARIANT TypeOK
INVARIANT KeyIndependent
INVARIANT IntermediatesIndependent
INVARIANT OnlyGrindingDiffers
INVARIANT VerdictIndependent
CHECK_DEADLOCK FALSE
