--------------------------- MODULE GoldilocksAlg ---------------------------
(***************************************************************************)
(* Implementation-shaped transcription of field/src/goldilocks_field.rs    *)
(* and the delayed-reduction helpers of goldilocks_extensions.rs, branch   *)
(* for branch, parametric in the half-word size K:                         *)
(*   W = 2^(2K) (the machine word), EPS = 2^K - 1, P = W - EPS.            *)
(* For K = 32 this is the real 64-bit field; the reduction identities      *)
(* 2^(2K) = EPS and 2^(3K) = -1 (mod P) hold for every K.                  *)
(* Every operator returns [r, ok, path]: the result word, whether every    *)
(* unchecked `assume` / "cannot overflow" comment held, the branch taken.  *)
(* Obligations (property level): r < W, r congruent to the mathematical    *)
(* value modulo P, ok = TRUE for all inputs satisfying the precondition.   *)
(***************************************************************************)
EXTENDS Integers

CONSTANT
  \* @type: Int;
  K

H   == 2^K
W   == 2^(2*K)
EPS == H - 1
P   == W - EPS
W2  == W * W

\* overflowing_add / overflowing_sub on words
OAdd(x, y) == [v |-> (x + y) % W, c |-> x + y >= W]
OSub(x, y) == [v |-> (x - y + W) % W, c |-> x < y]

Canon(x) == IF x >= P THEN x - P ELSE x                   \* to_canonical_u64

AddAlg(x, y) ==
  LET s1 == OAdd(x, y)
      s2 == OAdd(s1.v, IF s1.c THEN EPS ELSE 0)
  IN IF s2.c
     THEN [r |-> (s2.v + EPS) % W, ok |-> (x > P /\ y > P) /\ s2.v + EPS < W, path |-> 2]
     ELSE [r |-> s2.v, ok |-> TRUE, path |-> IF s1.c THEN 1 ELSE 0]

SubAlg(x, y) ==
  LET d1 == OSub(x, y)
      d2 == OSub(d1.v, IF d1.c THEN EPS ELSE 0)
  IN IF d2.c
     THEN [r |-> (d2.v - EPS + W) % W, ok |-> (x < EPS - 1 /\ y > P) /\ d2.v >= EPS, path |-> 2]
     ELSE [r |-> d2.v, ok |-> TRUE, path |-> IF d1.c THEN 1 ELSE 0]

NegAlg(x) == IF Canon(x) = 0 THEN [r |-> 0, ok |-> TRUE, path |-> 0]
             ELSE [r |-> P - Canon(x), ok |-> TRUE, path |-> 1]

\* add_no_canonicalize_trashing_input (add; sbb; add).  Precondition x + y < W + P.
AddNC(x, y) ==
  LET s == OAdd(x, y)  adj == IF s.c THEN EPS ELSE 0
  IN [r |-> (s.v + adj) % W, ok |-> s.v + adj < W, path |-> IF s.c THEN 1 ELSE 0]

\* reduce96((x_lo, x_hi)), x_lo < W, x_hi < 2^K
Reduce96(xlo, xhi) ==
  LET t2 == AddNC(xlo, xhi * EPS) IN [r |-> t2.r, ok |-> t2.ok, path |-> t2.path]

\* reduce128(x), x < W^2.  Core on the split parts (x_lo, x_hi_hi, x_hi_lo):
Reduce128Core(xlo, xhh, xhl) ==
  LET b   == OSub(xlo, xhh)
      t0  == IF b.c THEN (b.v - EPS + W) % W ELSE b.v
      ok0 == IF b.c THEN b.v >= EPS ELSE TRUE
      t2  == AddNC(t0, xhl * EPS)
  IN [r |-> t2.r, ok |-> ok0 /\ t2.ok, path |-> (IF b.c THEN 2 ELSE 0) + t2.path]
Reduce128(x) == Reduce128Core(x % W, (x \div W) \div H, (x \div W) % H)

\* reduce160(x_lo, x_hi): x_lo < W^2, x_hi < 2^K; value x_lo + x_hi * W^2.
\* Unchecked precondition: value < 2^(5K) - 2^(4K) + 2^(3K), i.e. top = value \div 2^(3K) < P.
\* Core on the parts (lo < W, mid < 2^K, top).
Reduce160Core(lo, mid, top) ==
  LET b   == OSub(lo, top % W)
      t0  == IF b.c THEN (b.v - EPS + W) % W ELSE b.v
      ok0 == (top < W) /\ (IF b.c THEN b.v >= EPS ELSE TRUE)
      t2  == AddNC(t0, mid * EPS)
  IN [r |-> t2.r, ok |-> ok0 /\ t2.ok, path |-> (IF b.c THEN 2 ELSE 0) + t2.path]
Reduce160(xlo, xhi) == Reduce160Core(xlo % W, (xlo \div W) % H, (xlo \div (W * H)) + xhi * H)
Reduce160Pre(xlo, xhi) == (xlo \div (W * H)) + xhi * H < P

\* from_noncanonical_i64(n), -W/2 <= n < W/2
FromI64(n) == IF n < 0 THEN [r |-> (P + (n + W)) % W, ok |-> P + (n + W) >= W, path |-> 1]
              ELSE [r |-> n, ok |-> TRUE, path |-> 0]

\* add_canonical_u64 / sub_canonical_u64 (rhs canonical, self any word)
AddCanon(x, y) == LET s == OAdd(x, y) IN
  [r |-> (s.v + (IF s.c THEN EPS ELSE 0)) % W, ok |-> s.v + (IF s.c THEN EPS ELSE 0) < W,
   path |-> IF s.c THEN 1 ELSE 0]
SubCanon(x, y) == LET d == OSub(x, y) IN
  [r |-> (d.v - (IF d.c THEN EPS ELSE 0) + W) % W, ok |-> d.v >= (IF d.c THEN EPS ELSE 0),
   path |-> IF d.c THEN 1 ELSE 0]

\* 160-bit accumulator helpers: (lo < W^2, hi < 2^K)
AccAdd(lo, hi, prod) == [lo |-> (lo + prod) % W2, hi |-> hi + (IF lo + prod >= W2 THEN 1 ELSE 0)]
Times7(lo, hi) ==
  LET sh == (lo * 8) % W2
      br == IF sh < lo THEN 1 ELSE 0
  IN [lo |-> (sh - lo + W2) % W2, hi |-> 7 * hi + (lo \div (W2 \div 8)) - br]
Times3(lo, hi) ==
  LET sh == (lo * 2) % W2
      cy == IF lo + sh >= W2 THEN 1 ELSE 0
  IN [lo |-> (lo + sh) % W2, hi |-> 3 * hi + (lo \div (W2 \div 2)) + cy]

\* congruence modulo P with an explicit small quotient range (SMT friendly)
Cong(r, v, lo, hi) == \E k \in lo..hi : r - v = k * P
=============================================================================
