CONSTANT P = 5
CONSTANT ALPHA = 3
CONSTANT GEN = 2
CONSTANT DropKind = "expo"
CONSTANT DropIdx = 3
CONSTANT Cases <- CasesExpo
CONSTANT Sel = {}
CONSTANT DegShift = 0
INIT InitRows
NEXT NextRows
INVARIANT Satisfied
INVARIANT PinnedInv
INVARIANT UniqueInv
CHECK_DEADLOCK FALSE
