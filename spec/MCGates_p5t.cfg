CONSTANT P = 5
CONSTANT ALPHA = 3
CONSTANT GEN = 2
CONSTANT DropKind = "none"
CONSTANT DropIdx = 0
CONSTANT Cases <- Cases5T
CONSTANT Sel = {}
CONSTANT DegShift = 0
INIT InitRows
NEXT NextRows
INVARIANT Satisfied
INVARIANT PinnedInv
INVARIANT CountInv
INVARIANT LayoutInv
CHECK_DEADLOCK FALSE
