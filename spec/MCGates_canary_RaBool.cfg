CONSTANT P = 17
CONSTANT ALPHA = 3
CONSTANT GEN = 3
CONSTANT DropKind = "ra"
CONSTANT DropIdx = 1
CONSTANT Cases <- CasesRa
CONSTANT Sel = {}
INIT InitRows
NEXT NextRows
INVARIANT Satisfied
INVARIANT PinnedInv
INVARIANT CountInv
INVARIANT LayoutInv
INVARIANT UniqueInv
CHECK_DEADLOCK FALSE
