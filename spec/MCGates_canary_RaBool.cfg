CONSTANT P = 17
CONSTANT ALPHA = 3
CONSTANT GEN = 3
CONSTANT DropKind = "ra"
CONSTANT DropIdx = 1
CONSTANT Cases <- CasesRa
CONSTANT Sel = {}
CONSTANT DegShift = 0
INIT InitRows
NEXT NextRows
INVARIANT Satisfied
INVARIANT PinnedInv
INVARIANT UniqueInv
CHECK_DEADLOCK FALSE
