CONSTANT MaxGates = 5
CONSTANT MaxGateDeg = 8
CONSTANT Mutant = "none"
INIT Init
NEXT Next
INVARIANT Inv
CHECK_DEADLOCK FALSE
