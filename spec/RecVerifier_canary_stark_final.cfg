CONSTANT Instance = "stark"
CONSTANT NL = 2
CONSTANT Disabled = {"Final"}
CONSTANT Mutant = "none"
INIT Init
NEXT Next
INVARIANT Agree
CHECK_DEADLOCK FALSE
