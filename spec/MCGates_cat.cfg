CONSTANT P = 17
CONSTANT ALPHA = 3
CONSTANT GEN = 3
CONSTANT DropKind = "none"
CONSTANT DropIdx = 0
CONSTANT Cases <- CasesDeg
CONSTANT Sel = {}
CONSTANT DegShift = 0
INIT InitCat
NEXT NextDeg
INVARIANT CatLayoutInv
INVARIANT Emit
CHECK_DEADLOCK FALSE
