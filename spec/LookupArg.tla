------------------------------ MODULE LookupArg ------------------------------
(***************************************************************************)
(* The logarithmic-derivative lookup argument of plonky2 as implemented    *)
(* (plonk/vanishing_poly.rs check_lookup_constraints, plonk/prover.rs      *)
(* compute_lookup_polys, gates/selectors.rs selectors_lookup /             *)
(* selector_ends_lookups) over the prime field F_P on a scaled grid:       *)
(* 2 looking (LU) slots per LookupGate row, 2 looked (LUT) slots per        *)
(* LookupTableGate row, one table segment                                   *)
(*                                                                         *)
(*   row 0        the Noop row after the table      InitSre                 *)
(*   rows 1..T    LookupTableGate rows, entry order  TransSre; row T: End_t *)
(*   rows T+1..   LookupGate rows                    TransLdc; last: LastLdc*)
(*                                                                         *)
(* in PROCESSING order ("next row" of the code = previous row here; the     *)
(* code places the rows upside down so that the recurrences only read the   *)
(* next row's lookup polynomials).  The four challenges of one round:       *)
(*   a     (ChallengeA)      looking and looked combos  inp + a * out       *)
(*   b     (ChallengeB)      combos of the RE polynomial inp + b * out      *)
(*   alpha (ChallengeAlpha)  the point of the Sum / LDC fractions            *)
(*   delta (ChallengeDelta)  the point of the RE Horner recurrence           *)
(* Terms transcribed (selector * expression = 0 on every row):              *)
(*   LastLdc  * SLDC[NS-1]                                                   *)
(*   InitSre  * SLDC[k0]           k0 given by the constant InitOn, see below *)
(*   InitSre  * RE                                                            *)
(*   End_t    * (RE - LutPoly_t(b)(delta))        one selector per table     *)
(*   TransSre * (RE - Horner(RE_next, delta, lookup combos of the row))      *)
(*   TransSre * (prod_chunk(alpha - c_i) * (SLDC[k] - prev)                  *)
(*                 - sum_i m_i * prod_{j # i}(alpha - c_j))                   *)
(*   TransLdc * (prod_chunk(alpha - d_i) * (SLDC[k] - prev)                  *)
(*                 + sum_i prod_{j # i}(alpha - d_j))                         *)
(*   with prev = SLDC[k-1] of the same row, and for k = 0 the LAST partial   *)
(*   polynomial SLDC[NS-1] of the next row.                                  *)
(* NS = number of partial SLDC polynomials = ceil(LU slots / chunk): the    *)
(* grid has NS = 1 (chunk 2: both slots in one term of degree 2) or NS = 2  *)
(* (chunk 1); the code has NS = 6 (std), 9 (wide), 3 (narrow).              *)
(*                                                                         *)
(* For EVERY table, EVERY honest filling of the looking slots, EVERY single *)
(* corruption of a cell (looking input / output, padding slot, table cell,  *)
(* multiplicity; a table output cell together with all its lookups) and     *)
(* EVERY challenge:                                                         *)
(*  Complete: a good assignment is accepted for every (b, delta) and every   *)
(*    (a, alpha) that is not a pole, with the accumulators of                *)
(*    compute_lookup_polys;                                                  *)
(*  Sound: if the table rows differ from the (padded) declared table, at     *)
(*    most BoundRE pairs (b, delta) admit an RE polynomial; if they agree     *)
(*    but some looking pair is not in the table or the multiplicities are    *)
(*    wrong, at most BoundLD non-pole pairs (a, alpha) admit partial SLDC    *)
(*    polynomials (Schwartz-Zippel, see BoundRE, BoundLD).                             *)
(* Disabled = one term dropped: each such run must violate Sound (canary).   *)
(*                                                                         *)
(* InitOn: which partial polynomial the InitSre term pins to 0 on the Noop  *)
(* row.  The first transition reads SLDC[NS-1] of that row, so with         *)
(* InitOn = "first" and NS >= 2 the start of the chain is a free value c,   *)
(* the chain ends with c + Sum - LDC, and c = LDC - Sum satisfies LastLdc   *)
(* for ANY looking pairs: TLC refutes Sound (cfg LookupArg_impl_first).     *)
(* This was the pinned code (z_x_lookup_sldcs[0]) until /repo commit        *)
(* 96e3ecf; the replay strategy `ext_shift` is this counterexample run      *)
(* against the real prover/verifier (it produced accepted proofs for        *)
(* looked-up pairs outside the table).  InitOn = "last" is the repaired     *)
(* code.  The driver probes the crate's check_lookup_constraints on unit    *)
(* vectors and checks the variant the code actually implements.             *)
(***************************************************************************)
EXTENDS Integers, Sequences, FiniteSets, TLC

CONSTANTS P,          \* field prime
          NS,         \* partial SLDC polynomials: 1 or 2
          InitOn,     \* "first" | "last" | "all": which SLDC polynomial(s) the InitSre term constrains
          Disabled,   \* "none" | "final_re" | "last_ldc" | "merge_ends" | "init_re" | "init_sum" | "trans_re" | "trans_ldc"
          MaxLen,     \* table lengths 1..MaxLen
          OutVals,    \* outputs of declared tables
          Vals,       \* values a corrupted input / output cell may take
          LuRows,     \* numbers of LookupGate rows explored
          Mode        \* "single": one table, single-cell corruptions; "two": a second table, pairs / rows of the other table

F == 0..(P - 1)
Inv == [x \in 1..(P - 1) |-> CHOOSE y \in 1..(P - 1) : (x * y) % P = 1]
Sub(x, y) == (x - y + P) % P

\* declared tables: inputs 0..n-1, outputs from OutVals (duplicate outputs included)
TablesOfLen(n) == {[e \in 1..n |-> <<e - 1, o[e]>>] : o \in [1..n -> OutVals]}
Tables == UNION {TablesOfLen(n) : n \in 1..MaxLen}
\* get_lut_poly / LookupTableGenerator: an odd table is padded with its first entry
PadLut(t) == IF Len(t) % 2 = 0 THEN t ELSE Append(t, t[1])
PairsOf(t) == {t[e] : e \in 1..Len(t)}

VARIABLES lut,      \* the declared table of this segment
          oth,      \* the other table of the circuit (Mode "two"), else << >>
          lk,       \* looking slots in processing order: sequence of <<inp, out>>, two per row
          tb,       \* looked slots in entry order: sequence of <<inp, out, mult>>, two per row
          cor,      \* description of the corruption
          accRE, accLD, nonPole
vars == <<lut, oth, lk, tb, cor, accRE, accLD, nonPole>>

Combo(pr, c) == (pr[1] + c * pr[2]) % P

(* ---------------- RE: table well-formedness ---------------- *)
RECURSIVE Horner(_, _, _, _, _)
Horner(acc, cells, c, dl, i) == IF i > Len(cells) THEN acc ELSE Horner(TLCEval((acc * dl + Combo(cells[i], c)) % P), cells, c, dl, i + 1)
LutPolyAt(t, bb, dl) == Horner(0, PadLut(t), bb, dl, 1)
\* is there an RE polynomial passing InitSre*RE, the row transitions and the end term?
AcceptRE(bb, dl) ==
  IF Disabled \in {"final_re", "trans_re"} THEN TRUE
  ELSE LET targets == IF Disabled = "merge_ends" /\ oth # << >> THEN {LutPolyAt(lut, bb, dl), LutPolyAt(oth, bb, dl)}
                      ELSE {LutPolyAt(lut, bb, dl)}
           starts == IF Disabled = "init_re" THEN F ELSE {0}
       IN \E r0 \in starts : Horner(r0, tb, bb, dl, 1) \in targets

(* ---------------- Sum / LDC chain ---------------- *)
\* set of values the current partial polynomial may take: -2 none, -1 any, else exactly that value.
\* One term den * (z - prev) - num = 0:
Step(s, den, num) == IF s = -2 THEN -2
                     ELSE IF den # 0 THEN (IF s = -1 THEN -1 ELSE (s + num * Inv[den]) % P)
                     ELSE IF num = 0 THEN -1 ELSE -2
\* the terms in processing order, as <<den, num>>: NS = 2: one slot per term; NS = 1: the two slots of a row in one term
SumTerm1(e, a, al) == <<Sub(al, Combo(tb[e], a)), tb[e][3]>>
LdcTerm1(j, a, al) == <<Sub(al, Combo(lk[j], a)), P - 1>>
SumTerm2(r, a, al) == LET d1 == Sub(al, Combo(tb[2 * r - 1], a))
                          d2 == Sub(al, Combo(tb[2 * r], a))
                      IN <<(d1 * d2) % P, (tb[2 * r - 1][3] * d2 + tb[2 * r][3] * d1) % P>>
LdcTerm2(r, a, al) == LET d1 == Sub(al, Combo(lk[2 * r - 1], a))
                          d2 == Sub(al, Combo(lk[2 * r], a))
                      IN <<(d1 * d2) % P, (P - ((d1 + d2) % P)) % P>>
Terms(a, al) ==
  IF NS = 2 THEN [i \in 1..(Len(tb) + Len(lk)) |-> IF i <= Len(tb) THEN SumTerm1(i, a, al) ELSE LdcTerm1(i - Len(tb), a, al)]
  ELSE [i \in 1..((Len(tb) + Len(lk)) \div 2) |-> IF 2 * i <= Len(tb) THEN SumTerm2(i, a, al) ELSE LdcTerm2(i - Len(tb) \div 2, a, al)]
NumSumTerms == IF NS = 2 THEN Len(tb) ELSE Len(tb) \div 2
RECURSIVE Chain(_, _, _)
Chain(s, ts, i) == IF i > Len(ts) THEN s
                   ELSE IF Disabled = "trans_ldc" /\ i > NumSumTerms THEN (IF s = -2 THEN -2 ELSE -1)
                   ELSE Chain(TLCEval(Step(s, ts[i][1], ts[i][2])), ts, i + 1)
\* InitSre constrains SLDC[0] of the Noop row; the first transition reads SLDC[NS-1] of that row
StartConstrained == Disabled # "init_sum" /\ (NS = 1 \/ InitOn \in {"last", "all"})
AcceptLD(a, al) ==
  LET s == Chain(IF StartConstrained THEN 0 ELSE -1, TLCEval(Terms(a, al)), 1)
  IN IF Disabled = "last_ldc" THEN s # -2 ELSE s \in {0, -1}
IsPole(a, al) == (\E e \in 1..Len(tb) : Combo(tb[e], a) = al) \/ (\E j \in 1..Len(lk) : Combo(lk[j], a) = al)

(* ---------------- what a good assignment is ---------------- *)
GoodTable == Len(tb) = Len(PadLut(lut)) /\ \A e \in 1..Len(tb) : <<tb[e][1], tb[e][2]>> = PadLut(lut)[e]
GoodPairs == \A j \in 1..Len(lk) : lk[j] \in PairsOf(lut)                       \* the property's condition
MultOf(v) == LET S == {e \in 1..Len(tb) : <<tb[e][1], tb[e][2]>> = v}
                 RECURSIVE Sum(_)
                 Sum(T) == IF T = {} THEN 0 ELSE LET e == CHOOSE x \in T : TRUE IN tb[e][3] + Sum(T \ {e})
             IN Sum(S) % P
GoodMult == \A v \in {<<tb[e][1], tb[e][2]>> : e \in 1..Len(tb)} \cup {lk[j] : j \in 1..Len(lk)} :
              MultOf(v) = Cardinality({j \in 1..Len(lk) : lk[j] = v}) % P
Good == GoodTable /\ GoodMult
ASSUME P > 8          \* multiplicities and slot counts stay below the characteristic

(* ---------------- the assignments explored ---------------- *)
Honest(t, idx) ==
  LET pt == PadLut(t)
      cnt(e) == Cardinality({j \in DOMAIN idx : idx[j] = e})
  IN [lk |-> [j \in DOMAIN idx |-> t[idx[j]]],
      tb |-> [e \in 1..Len(pt) |-> <<pt[e][1], pt[e][2], IF e <= Len(t) THEN cnt(e) ELSE 0>>]]
\* single-cell corruptions: <<"lk", j, component, value>> / <<"tb", e, component, value>>
CellEdits(h) ==
  {<<"lk", j, c, v>> : j \in 1..Len(h.lk), c \in 1..2, v \in Vals} \cup
  {<<"tb", e, c, v>> : e \in 1..Len(h.tb), c \in 1..2, v \in Vals} \cup
  {<<"tb", e, 3, v>> : e \in 1..Len(h.tb), v \in {0, 1, P - 1}}       \* multiplicity := 0, +1, -1 (as offsets below)
ApplyEdit(h, ed) ==
  IF ed[1] = "lk" THEN [h EXCEPT !.lk[ed[2]][ed[3]] = ed[4]]
  ELSE IF ed[3] < 3 THEN [h EXCEPT !.tb[ed[2]][ed[3]] = ed[4]]
  ELSE [h EXCEPT !.tb[ed[2]][3] = IF ed[4] = 0 THEN 0 ELSE (@ + ed[4]) % P]
Changed(h, ed) == ApplyEdit(h, ed) # h

Init ==
  /\ accRE = -1 /\ accLD = -1 /\ nonPole = -1
  /\ \E t \in Tables, n \in LuRows :
       \E idx \in [1..(2 * n) -> 1..Len(t)] :
         LET h == Honest(t, idx) IN
         /\ lut = t
         /\ IF Mode = "single"
            THEN /\ oth = << >>
                 /\ \/ cor = <<"none">> /\ lk = h.lk /\ tb = h.tb
                    \/ \E ed \in CellEdits(h) : /\ Changed(h, ed)
                                                /\ cor = ed
                                                /\ lk = ApplyEdit(h, ed).lk
                                                /\ tb = ApplyEdit(h, ed).tb
                    \* a table entry's output cell AND every lookup of that entry carry the same wrong output
                    \/ \E e \in 1..Len(t), v \in Vals :
                         /\ v # t[e][2]
                         /\ cor = <<"tbl_lk", e, v>>
                         /\ lk = [j \in DOMAIN h.lk |-> IF h.lk[j] = t[e] THEN <<t[e][1], v>> ELSE h.lk[j]]
                         /\ tb = [h.tb EXCEPT ![e][2] = v]
            ELSE \E o \in TablesOfLen(Len(t)) \ {t} :
                 /\ oth = o
                 /\ \/ cor = <<"none">> /\ lk = h.lk /\ tb = h.tb
                    \* a looking slot holds a pair of the OTHER table that is not an entry of this one
                    \/ \E j \in 1..Len(h.lk), e \in 1..Len(o) :
                         /\ o[e] \notin PairsOf(t)
                         /\ cor = <<"other_pair", j, e>>
                         /\ lk = [h.lk EXCEPT ![j] = o[e]] /\ tb = h.tb
                    \* the table rows hold the OTHER table and everything is consistent with it
                    \/ LET g == Honest(o, idx) IN cor = <<"other_table">> /\ lk = g.lk /\ tb = g.tb

Challenges == F \X F
Next ==
  /\ accRE = -1
  /\ accRE' = Cardinality({c \in Challenges : AcceptRE(c[1], c[2])})
  /\ LET np == {c \in Challenges : ~IsPole(c[1], c[2])}
     IN /\ nonPole' = Cardinality(np)
        /\ accLD' = Cardinality({c \in np : AcceptLD(c[1], c[2])})
  /\ UNCHANGED <<lut, oth, lk, tb, cor>>
Spec == Init /\ [][Next]_vars

(* Schwartz-Zippel.  RE: the difference of the two Horner sums is a non-zero polynomial in (b, delta)   *)
(* of total degree <= number of table slots.  Sum / LDC: after clearing denominators the identity      *)
(* sum_e m_e / (alpha - c_e) = sum_j 1 / (alpha - d_j) is a polynomial in (a, alpha) of total degree     *)
(* <= slots - 1, non-zero unless the multiplicity of every pair equals its number of occurrences       *)
(* (partial fractions over F(a); distinct pairs give distinct combos inp + a * out).  A non-zero        *)
(* polynomial of total degree d in two variables has at most d * P zeros.                               *)
BoundRE == Len(tb) * P
BoundLD == (Len(tb) + Len(lk) - 1) * P
Done == accRE # -1
Complete == Done /\ Good => accRE = P * P /\ accLD = nonPole
Sound == Done => /\ (~GoodTable => accRE <= BoundRE)
                 /\ (GoodTable /\ ~GoodMult => accLD <= BoundLD)
\* property level: a looking pair outside the designated table is accepted for few challenges only
\* (total accepted fraction <= max(BoundRE, BoundLD) / P^2 plus the poles, at most slots * P of P^2 points)
PropSound == Done /\ ~GoodPairs => accRE <= BoundRE \/ accLD <= BoundLD
\* a wrong output shared by a table cell and all its lookups passes the whole Sum / LDC part: only the RE terms reject it
TblLkOnlyRE == Done /\ cor[1] = "tbl_lk" => accLD = nonPole /\ ~GoodTable       \* the entry may be unused (then all pairs are good) or used
\* the poles are few: the statement above covers all but a slots/P fraction of the challenges
PolesFew == Done => P * P - nonPole <= (Len(tb) + Len(lk)) * P
=============================================================================
