CONSTANT MaxLen = 1
CONSTANT Ops = {"sub", "add"}
CONSTANT Mutant = "sub_reversed"
INIT Init
NEXT Next
INVARIANT TypeOK
INVARIANT Emit
CHECK_DEADLOCK FALSE
