---- MODULE T2 ----
EXTENDS Limbs, TLC
ASSUME PrintT(SubN(P8, <<1>>))
ASSUME PrintT(BitsMsb(<<5,1>>))
ASSUME PrintT(PowP(F8(7), <<5>>))
VARIABLE x
Init == x = 0
Next == x' = x
====
