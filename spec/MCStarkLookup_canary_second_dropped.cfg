CONSTANT P = 17
CONSTANT N = 2
CONSTANT MUT = "second_dropped"
CONSTANT DIDS = {2}
INIT Init
NEXT Next
INVARIANT Theorem
CHECK_DEADLOCK FALSE
