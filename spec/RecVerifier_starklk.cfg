CONSTANT Instance = "starklk"
CONSTANT NL = 2
CONSTANT Disabled = {}
CONSTANT Mutant = "none"
INIT Init
NEXT Next
INVARIANT Agree
INVARIANT FS3
INVARIANT Refines
INVARIANT Adequate
INVARIANT OnlyHonestAccepted
INVARIANT Emit
CHECK_DEADLOCK FALSE
