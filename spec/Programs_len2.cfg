CONSTANT MaxLen = 2
CONSTANT Ops = {"sub", "mul", "inverse", "split", "is_equal", "select", "range", "assert_eq", "exp", "lookup"}
CONSTANT Mutant = "none"
INIT Init
NEXT Next
INVARIANT TypeOK
INVARIANT Emit
CHECK_DEADLOCK FALSE
