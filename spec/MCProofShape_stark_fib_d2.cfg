CONSTANT Entry = "stark"
CONSTANT Variant = "fib"
CONSTANT Fixed = {}
CONSTANT MaxDevs = 2
CONSTANT IdealMutant = "none"
INIT Init
NEXT Next
INVARIANT IdealNeverPanics
INVARIANT IdealRejectsMisshaped
INVARIANT HonestAccepted
INVARIANT Emit
CHECK_DEADLOCK FALSE
