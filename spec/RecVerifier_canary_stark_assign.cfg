CONSTANT Instance = "stark"
CONSTANT NL = 2
CONSTANT Disabled = {}
CONSTANT Mutant = "assign_truncates_surplus"
INIT Init
NEXT Next
INVARIANT Agree
CHECK_DEADLOCK FALSE
