----------------------------- MODULE MCBlinding -----------------------------
(* TLC wrapper of Blinding: every gate count n in 1..MaxN under every strategy / rate / cap / query count  *)
(* of the grid; checks the property-level predicates on the transcribed fixed point and prints one REPLAY   *)
(* line per tuple (compared with the degree of a real zero-knowledge circuit by the harness).               *)
EXTENDS Blinding, Json

CONSTANTS MaxN, MaxBits, Qs, Rbs, Caps,
          Mutant     \* "none" | "no_final_poly" | "z_single" (canaries: blinding that forgets what is revealed)
VARIABLES st, n, rb, cap, q, phase, res
vars == <<st, n, rb, cap, q, phase, res>>

Strats == {[kind |-> "Const", a |-> a, f |-> f] : a \in {1, 3, 4}, f \in {0, 2, 5}}
          \cup {[kind |-> "MinSize", max |-> m] : m \in {-1, 2, 3}}
          \cup {[kind |-> "Fixed", bits |-> b] : b \in {<<>>, <<1>>, <<2, 1>>, <<3, 2>>}}

StdStrats == {[kind |-> "Const", a |-> 4, f |-> 5]}    \* standard_recursion_zk_config
RECURSIVE LoopM(_, _, _, _, _, _, _)
LoopM(s, nn, e, r, c, qq, mb) ==
  IF e > mb THEN [st |-> "diverged", r |-> 0, z |-> 0, est_bits |-> e]
  ELSE LET b0 == NumBlinding(s, e, r, c, qq)
           fin == Pow2(e) \div Prod2(b0.bits)
           b == CASE Mutant = "no_final_poly" -> [b0 EXCEPT !.r = b0.r - qq * D * fin, !.z = b0.z - qq * D * fin]
                  [] Mutant = "z_single" -> [b0 EXCEPT !.z = b0.r]
                  [] OTHER -> b0
       IN IF ~b.ok THEN [st |-> "panic", r |-> 0, z |-> 0, est_bits |-> e]
          ELSE IF nn + b.r + 2 * b.z <= Pow2(e) THEN [st |-> "ok", r |-> b.r, z |-> b.z, est_bits |-> e]
               ELSE LoopM(s, nn, e + 1, r, c, qq, mb)
Compute == IF Mutant = "none" THEN BlindingCounts(st, n, rb, cap, q, MaxBits)
           ELSE LoopM(st, n, Log2Ceil(n), rb, cap, q, MaxBits)

Init == /\ st \in Strats /\ n \in 1..MaxN /\ rb \in Rbs /\ cap \in Caps /\ q \in Qs
        /\ phase = 0 /\ res = [st |-> "none", r |-> 0, z |-> 0, est_bits |-> 0]
Next == phase = 0 /\ phase' = 1 /\ res' = Compute /\ UNCHANGED <<st, n, rb, cap, q>>
Done == phase = 1

FitsInv   == Done => Fits(n, res)
HidesInv  == Done => Hides(st, n, rb, cap, q, res)
DegreeInv == Done => DegreeIsEstimate(n, res)
(* the adaptive strategies always reach the fixed point within the bound *)
TerminatesInv == (Done /\ st.kind # "Fixed") => res.st # "diverged"
(* a Fixed schedule reaches it iff its final polynomial stops growing relative to ... : recorded, not required *)
StratJson == CASE st.kind = "Const" -> [kind |-> "Const", a |-> st.a, f |-> st.f]
               [] st.kind = "MinSize" -> [kind |-> "MinSize", max |-> st.max]
               [] OTHER -> [kind |-> "Fixed", bits |-> st.bits]
Line == [s |-> StratJson, n |-> n, rb |-> rb, cap |-> cap, q |-> q, st |-> res.st, r |-> res.r, z |-> res.z,
         est_bits |-> res.est_bits,
         deg_bits |-> IF res.st = "ok" THEN FinalDegreeBits(n, res) ELSE -1]
Emit == Done => PrintT("REPLAY " \o ToJson(Line))
=============================================================================
