CONSTANT P = 17
CONSTANT ALPHA = 3
CONSTANT GEN = 3
CONSTANT DropKind = "none"
CONSTANT DropIdx = 0
CONSTANT Cases <- CasesDeg
CONSTANT Sel = {}
INIT InitDeg
NEXT NextDeg
INVARIANT DegreeTightInv
CHECK_DEADLOCK FALSE
