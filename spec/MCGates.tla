------------------------------ MODULE MCGates ------------------------------
(***************************************************************************)
(* TLC wrapper of Gates (C07).  Three uses, selected by INIT/NEXT:         *)
(*  rows      InitRows/NextRows: for every case of `Cases` EVERY choice of *)
(*            constants, public-input hash and generator inputs is built   *)
(*            up one value per step; with the last value the generator is  *)
(*            run (GenRow) and the row stored; invariants Satisfied (G1),  *)
(*            PinnedInv (G2), CountInv (G3), LayoutInv on the final states.*)
(*  degree    InitDeg: one state per (case, line); DegreeInv (G4: no       *)
(*            constraint exceeds the declared degree) and DegreeExactInv   *)
(*            (some constraint reaches it); mutant DegShift = 1.           *)
(*  catalogue InitCat: one state per catalogue entry; Emit prints the      *)
(*            layout / counts / roles as a REPLAY line for the harness.    *)
(***************************************************************************)
EXTENDS Gates, Json

CONSTANTS Cases,       \* sequence of gate cases (records, see Gates)
          Sel,         \* indices of the cases to run ({} = all)
          DegShift     \* mutant: the declared degree is lowered by DegShift (0 = none)

VARIABLES g,           \* the gate case
          ch,          \* choices made so far: constants, then hash elements, then inputs
          row          \* the generated row (<<>> until all choices are made)
vars == <<g, ch, row>>

\* ---------------------------------------------------------------- cases
B(kind) == [kind |-> kind, dom |-> "full", cdom |-> "full"]
Arith(n, dom, cdom) == [kind |-> "arith", n |-> n, dom |-> dom, cdom |-> cdom]
ArithExt(n, dom, cdom) == [kind |-> "arithext", n |-> n, dom |-> dom, cdom |-> cdom]
MulExt(n, dom, cdom) == [kind |-> "mulext", n |-> n, dom |-> dom, cdom |-> cdom]
BaseSum(b, l) == [kind |-> "basesum", b |-> b, l |-> l, dom |-> "full", cdom |-> "full"]
Constant(n) == [kind |-> "constant", n |-> n, dom |-> "full", cdom |-> "full"]
Expo(n) == [kind |-> "expo", n |-> n, dom |-> "full", cdom |-> "full"]
Ra(bits, copies, extra, dom, cdom) ==
  [kind |-> "ra", bits |-> bits, copies |-> copies, extra |-> extra, dom |-> dom, cdom |-> cdom]
Reducing(n, dom) == [kind |-> "reducing", n |-> n, dom |-> dom, cdom |-> "full"]
ReducingExt(n, dom) == [kind |-> "reducingext", n |-> n, dom |-> dom, cdom |-> "full"]
MdsG(w, dom) == [kind |-> "mds", w |-> w, dom |-> dom, cdom |-> "full"]
Pi == B("pi")
Noop == B("noop")
Lookup(slots) == [kind |-> "lookup", slots |-> slots, dom |-> "full", cdom |-> "full"]
LookupTable(slots) == [kind |-> "lookuptable", slots |-> slots, dom |-> "full", cdom |-> "full"]
Coset(bits, maxdeg, dom) ==
  [kind |-> "coset", bits |-> bits, deg |-> CosetDegreeFor(bits, maxdeg), dom |-> dom, cdom |-> "full"]
Poseidon(w, hf, np, blk, alpha, dom) ==
  [kind |-> "poseidon", w |-> w, hf |-> hf, np |-> np, blk |-> blk, alpha |-> alpha, dom |-> dom, cdom |-> "full"]

\* ---- quick tier -----------------------------------------------------------------------
\* P = 17 (GEN 3, ALPHA 3): the base-field gates, exhaustive over all wires
Cases17 == <<Arith(1, "full", "tiny"), BaseSum(2, 1), BaseSum(2, 2), BaseSum(2, 3), BaseSum(2, 4),
             BaseSum(3, 1), BaseSum(3, 2), BaseSum(4, 1), BaseSum(4, 2), Constant(1), Constant(2),
             Expo(1), Expo(2), Expo(3), Expo(4), Ra(1, 1, 0, "full", "full"), Ra(1, 1, 1, "full", "small"),
             Ra(1, 2, 0, "small", "full"), Ra(2, 1, 0, "small", "full"), Noop, Lookup(2), LookupTable(2),
             MulExt(1, "small", "small"), Reducing(1, "small"), Coset(1, 2, "tiny")>>
\* P = 5 (GEN 2, ALPHA 3): extension-field gates and joint uniqueness
Cases5 == <<Expo(1), Expo(2), Expo(3), Arith(2, "tiny", "small"), ArithExt(1, "small", "tiny"),
            MulExt(1, "full", "small"), Ra(2, 1, 0, "full", "full"), Ra(1, 2, 1, "small", "small"),
            Reducing(1, "full"), Reducing(2, "small"), ReducingExt(1, "small"), ReducingExt(2, "tiny"),
            MdsG(3, "small"), MdsG(4, "tiny"), Pi, Constant(3), BaseSum(2, 2), BaseSum(4, 1),
            Coset(1, 2, "small"), Poseidon(3, 1, 1, 1, ALPHA, "full")>>
\* P = 5: joint uniqueness (G2s) on the cases with at most 4 pinned wires
CasesUniq == <<Expo(1), Expo(2), Expo(3), Arith(2, "tiny", "tiny"), MulExt(1, "small", "small"),
               Ra(1, 1, 0, "full", "full"), Ra(2, 1, 0, "tiny", "full"), Reducing(1, "small"), Reducing(2, "tiny"),
               ReducingExt(1, "tiny"), BaseSum(2, 2), BaseSum(4, 1), Constant(3), Coset(1, 2, "tiny")>>
\* P = 5: the two expensive twins
Cases5H == <<Coset(2, 2, "tiny"), Poseidon(4, 2, 2, 1, ALPHA, "small")>>
\* ---- thorough tier additions ---------------------------------------------------------
Cases5T == <<Coset(2, 4, "tiny"), MulExt(1, "full", "full"), ArithExt(1, "full", "small"), Arith(2, "full", "small"), MulExt(2, "small", "small"),
             Ra(1, 2, 1, "full", "small"), Ra(2, 2, 1, "tiny", "small"), Reducing(2, "full"), Reducing(3, "small"),
             ReducingExt(1, "full"), ReducingExt(2, "small"), MdsG(3, "full"), MdsG(4, "small"),
             Coset(1, 2, "full"), Coset(2, 3, "tiny"), Poseidon(4, 2, 2, 1, ALPHA, "full"),
             Poseidon(4, 2, 2, 2, ALPHA, "small"), Poseidon(4, 3, 3, 1, ALPHA, "small")>>
\* P = 7 (GEN 3, ALPHA 5; 7 mod 7 = 0, so no extension-field gates here)
Cases7T == <<Ra(2, 1, 0, "full", "full"), Ra(1, 2, 0, "full", "full"), Ra(1, 1, 2, "full", "full"),
             Poseidon(4, 2, 2, 1, ALPHA, "small"), Poseidon(3, 1, 1, 1, ALPHA, "full"), Arith(1, "full", "full"),
             Pi, Expo(5), BaseSum(2, 2), Constant(2)>>
\* P = 13 (GEN 2, ALPHA 5)
Cases13T == <<MulExt(1, "small", "full"), Arith(1, "full", "small"), BaseSum(3, 2), BaseSum(2, 3),
              Coset(1, 2, "small"), Coset(2, 4, "tiny"), Expo(3), Ra(3, 1, 0, "tiny", "full"),
              Reducing(2, "small"), ReducingExt(1, "small")>>
\* P = 17
Cases17T == <<Arith(1, "full", "small"), Ra(2, 1, 0, "small", "full"), Ra(1, 2, 1, "small", "small"),
              [kind |-> "pi", dom |-> "small", cdom |-> "full"], Coset(2, 3, "tiny"),
              Poseidon(4, 2, 2, 1, ALPHA, "small"), MdsG(4, "tiny"), Expo(6), Ra(3, 1, 0, "tiny", "full"),
              ArithExt(1, "small", "small")>>
\* canary case lists (small, so that the mutant is found fast)
CasesExpo == <<Expo(3)>>
CasesRa == <<Ra(2, 1, 0, "small", "full")>>
CasesBaseSum == <<BaseSum(2, 3)>>
CasesPoseidon == <<Poseidon(3, 1, 1, 1, ALPHA, "full")>>
CasesCoset == <<Coset(2, 2, "tiny")>>
CasesReducing == <<Reducing(2, "small")>>
CasesArith == <<Arith(1, "small", "small")>>
CasesDegCanary == <<Coset(2, 3, "full")>>
\* degree runs (P = 17): one representative of every kind and parameter shape
CasesDeg == <<Arith(2, "full", "full"), ArithExt(2, "full", "full"), MulExt(2, "full", "full"), BaseSum(2, 3),
              BaseSum(3, 2), BaseSum(4, 2), Constant(2), Expo(1), Expo(3), Ra(1, 1, 1, "full", "full"),
              Ra(2, 2, 0, "full", "full"), Ra(3, 1, 0, "full", "full"), Reducing(3, "full"), ReducingExt(2, "full"),
              MdsG(4, "full"), Pi, Noop, Lookup(2), LookupTable(2), Coset(1, 2, "full"), Coset(2, 2, "full"),
              Coset(2, 3, "full"), Coset(2, 4, "full"), Coset(3, 3, "full"), Coset(3, 5, "full"), Coset(3, 8, "full"),
              Poseidon(4, 2, 2, 1, ALPHA, "full")>>

\* ---------------------------------------------------------------- rows
NC(x) == NumConsts(x)
NH(x) == NumHash(x)
NChoices(x) == NC(x) + NH(x) + Len(InputSpec(x))

DomOf(x, s) ==
  CASE s.dom = "bool" -> {0, 1}
    [] s.dom = "nz" -> IF x.dom = "full" THEN F \ {0} ELSE IF x.dom = "small" THEN {1, 3 % P, P - 1} ELSE {1, P - 2}
    [] s.dom = "lt" -> 0..((IF s.n < P THEN s.n ELSE P) - 1)
    [] s.dom = "ltpow" -> 0..((IF IPow(x.b, s.n) < P THEN IPow(x.b, s.n) ELSE P) - 1)
    [] OTHER -> IF x.dom = "small" THEN Small ELSE IF x.dom = "tiny" THEN Tiny ELSE F
ChoiceDom(x, k) ==
  IF k <= NC(x) THEN (IF x.cdom = "small" THEN Small ELSE IF x.cdom = "tiny" THEN Tiny ELSE F)
  ELSE IF k <= NC(x) + NH(x) THEN (IF x.dom = "full" THEN F ELSE Small)
  ELSE DomOf(x, InputSpec(x)[k - NC(x) - NH(x)])

ConstsOf(x, c) == SubSeq(c, 1, NC(x))
HashOf(x, c) == SubSeq(c, NC(x) + 1, NC(x) + NH(x))
InputsOf(x, c) == SubSeq(c, NC(x) + NH(x) + 1, Len(c))
RowOf(x, c) == GenRow(x, ConstsOf(x, c), HashOf(x, c), InputsOf(x, c))

Selected == IF Sel = {} THEN SeqSet(Cases) ELSE {Cases[i] : i \in Sel \cap (1..Len(Cases))}
InitRows == /\ g \in Selected
            /\ ch = <<>>
            /\ row = IF NChoices(g) = 0 THEN RowOf(g, <<>>) ELSE <<>>
NextRows == /\ Len(ch) < NChoices(g)
            /\ \E x \in ChoiceDom(g, Len(ch) + 1) :
                 /\ ch' = Append(ch, x)
                 /\ row' = IF Len(ch) + 1 = NChoices(g) THEN RowOf(g, Append(ch, x)) ELSE <<>>
            /\ g' = g

Done == Len(ch) = NChoices(g)
Satisfied == Done => G1(g, ConstsOf(g, ch), HashOf(g, ch), row)
PinnedInv == Done => G2(g, ConstsOf(g, ch), HashOf(g, ch), row)
CountInv == Done => G3(g, ConstsOf(g, ch), HashOf(g, ch), row)
LayoutInv == (ch = <<>>) => LayoutOK(g)
\* joint uniqueness where the search space P^|pinned| stays small
UniqMax == IF P <= 5 THEN 4 ELSE 3
UniqueInv == (Done /\ Len(Pinned(g)) <= UniqMax) => G2s(g, ConstsOf(g, ch), HashOf(g, ch), row)

\* ---------------------------------------------------------------- degree
\* lines: offsets and directions are fixed pseudo-random patterns in the wire index (an
\* exponential term, so that no finite difference over the wire index vanishes identically)
Pattern(n, a, b) == MapN(LAMBDA i : (a * Pow(GEN, (b * i + a) % (P - 1)) + b * i * i + a + 2 * b) % P, n)
LineParams == {<<1, 2>>, <<3, 5>>, <<6, 1>>, <<2, 7>>}
InitDeg == /\ g \in Selected
           /\ ch \in LineParams
           /\ row = <<>>
NextDeg == FALSE /\ UNCHANGED vars
DegVals(x, lp, m) ==
  LineVals(x, Pattern(NC(x), lp[1], lp[2]), Pattern(NC(x), lp[2] + 1, lp[1]),
           Pattern(NH(x), lp[1] + 2, lp[2]), Pattern(NH(x), lp[2], lp[1] + 3),
           Pattern(NumWires(x), lp[1], lp[2] + 4), Pattern(NumWires(x), lp[2] + 2, lp[1] + 1), m)
DegreeInv ==
  (ch # <<>>) =>
  Let(DegVals(g, ch, Degree(g) + 1),
      LAMBDA vals : /\ Len(vals[1]) = NumConstraints(g)
                    /\ \A j \in 1..NumConstraints(g) : DegreeAtMost(vals, j, Degree(g) - DegShift))
\* the declared degree is reached by some constraint on some line (it is exact, not an
\* over-estimate; a 1-bit exponentiation gate has degree 2 but declares the uniform bound 4)
DegreeExactInv ==
  (ch = <<1, 2>> /\ NumConstraints(g) > 0 /\ Degree(g) > 0 /\ ~(g.kind = "expo" /\ g.n = 1)) =>
    \E lp \in LineParams :
      Let(DegVals(g, lp, Degree(g)),
          LAMBDA vals : \E j \in 1..NumConstraints(g) : ~DegreeAtMost(vals, j, Degree(g) - 1))

\* ---------------------------------------------------------------- catalogue
\* the parameterisations the harness instantiates on the real gates (D = 2, Goldilocks)
CatSeq(Op(_), lo, hi) == MapN(LAMBDA i : Op(lo + i - 1), hi - lo + 1)
Catalogue ==
  CatSeq(LAMBDA n : Arith(n, "full", "full"), 1, 20)
  \o CatSeq(LAMBDA n : ArithExt(n, "full", "full"), 1, 10)
  \o CatSeq(LAMBDA n : MulExt(n, "full", "full"), 1, 13)
  \o CatSeq(LAMBDA l : BaseSum(2, l), 1, 63) \o CatSeq(LAMBDA l : BaseSum(3, l), 1, 40)
  \o CatSeq(LAMBDA l : BaseSum(4, l), 1, 31) \o CatSeq(LAMBDA l : BaseSum(8, l), 1, 21)
  \o CatSeq(LAMBDA l : BaseSum(16, l), 1, 15)
  \o CatSeq(LAMBDA n : Constant(n), 1, 4)
  \o CatSeq(LAMBDA n : Expo(n), 1, 60)
  \o FlatMapN(LAMBDA bits : FlatMapN(LAMBDA copies : MapN(LAMBDA e : Ra(bits, copies, e - 1, "full", "full"), 3), 3), 6)
  \o CatSeq(LAMBDA n : Reducing(n, "full"), 1, 30)
  \o CatSeq(LAMBDA n : ReducingExt(n, "full"), 1, 30)
  \o <<MdsG(12, "full"), Pi, Noop, Lookup(40), LookupTable(26), Lookup(1), LookupTable(1), Lookup(7), LookupTable(5)>>
  \o FlatMapN(LAMBDA bits : MapN(LAMBDA md : Coset(bits, md + 1, "full"), IPow(2, bits) - 1), 4)
  \o <<Poseidon(12, 4, 22, 4, 7, "full")>>
InitCat == /\ g \in SeqSet(Catalogue)
           /\ ch = <<>>
           /\ row = <<>>
\* degree and catalogue in one run: catalogue states have ch = <<>>, degree states a line
InitDegCat == InitDeg \/ InitCat
CatLayoutInv == (ch = <<>>) => LayoutOK(g)
Emit == (ch = <<>>) => PrintT("REPLAY " \o ToJson([gate |-> g, nw |-> NumWires(g), nc |-> NumConsts(g),
                                    ncon |-> NumConstraints(g), deg |-> Degree(g), nh |-> NumHash(g),
                                    inputs |-> InputSpec(g), written |-> Written(g), filled |-> Filled(g),
                                    delegated |-> Delegated(g), other |-> Other(g), pinned |-> Pinned(g)]))
=============================================================================
