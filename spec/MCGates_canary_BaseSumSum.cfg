CONSTANT P = 17
CONSTANT ALPHA = 3
CONSTANT GEN = 3
CONSTANT DropKind = "basesum"
CONSTANT DropIdx = 1
CONSTANT Cases <- CasesBaseSum
CONSTANT Sel = {}
INIT InitRows
NEXT NextRows
INVARIANT Satisfied
INVARIANT PinnedInv
INVARIANT CountInv
INVARIANT LayoutInv
INVARIANT UniqueInv
CHECK_DEADLOCK FALSE
