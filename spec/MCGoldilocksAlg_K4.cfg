CONSTANT K = 4
CONSTANT Disabled = "none"
INIT Init
NEXT Next
INVARIANT Correct
INVARIANT AssumesHold
INVARIANT NegCanonical
CHECK_DEADLOCK FALSE
