------------------------------ MODULE Programs ------------------------------
(***************************************************************************)
(* Circuit programs over the gadget vocabulary of the circuit builder, and *)
(* their direct evaluation ("what the program computes") over a small      *)
(* prime field.  This is the property-level meaning of C01: for every      *)
(* program, every satisfying input and every admissible configuration the  *)
(* proof's public inputs are Eval(program, inputs).                        *)
(*                                                                         *)
(* A program is a sequence of instructions [op, args] over a growing list  *)
(* of values; the first NIn values are the inputs.  Operand k denotes      *)
(* value (k mod len); a boolean operand denotes the first boolean-typed    *)
(* value at or after (k mod len), cyclically, or constant false if there   *)
(* is none - so every argument tuple is well formed.  An instruction may   *)
(* make the program unsatisfiable for an input (division by zero, a failed *)
(* range check or assertion).                                              *)
(*                                                                         *)
(* The state machine appends one instruction per step and keeps the values *)
(* for every input tuple in Tuples (state variables hold evaluated values, *)
(* which keeps TLC linear).  The field is F_P with P = 17 and word size    *)
(* NB = 5 bits; the harness interpreter (harness/src/prog.rs) is generic   *)
(* in (p, nb) and must reproduce every value printed here before it is     *)
(* used, with p = 2^64 - 2^32 + 1 and nb = 64, as the oracle for the real  *)
(* circuits.                                                               *)
(***************************************************************************)
EXTENDS Integers, Sequences, FiniteSets, TLC, Json

CONSTANTS MaxLen,        \* programs of at most this many instructions
          Ops,           \* the opcodes explored in this run
          Mutant         \* "none", or the name of a deliberately wrong semantics (canary)

P  == 17
NB == 5
NIn == 3
W7 == 7                  \* the extension is F_P[X] / (X^2 - 7); 7 is a non-residue mod 17 too

Tuples == << <<0, 1, 2>>, <<16, 0, 1>>, <<3, 3, 5>>, <<1, 16, 16>>, <<0, 0, 0>>, <<7, 11, 13>> >>
NT == Len(Tuples)

VARIABLES prog, vals, ty, sat
vars == <<prog, vals, ty, sat>>

\* ---- field ------------------------------------------------------------------------------
Add(a, b) == (a + b) % P
Sub(a, b) == (a - b + P) % P
Mul(a, b) == (a * b) % P
Neg(a) == (P - a) % P
Inv(a) == CHOOSE x \in 0..(P - 1) : (a * x) % P = 1            \* a # 0
PowT[a \in 0..(P - 1), e \in 0..16] == IF e = 0 THEN 1 ELSE (PowT[a, e - 1] * a) % P
\* a^e for a 64-bit exponent given as (e mod 16, e > 0): a^16 = 1 for a # 0
PowBig(a, emod, epos) == IF ~epos THEN 1 ELSE IF a = 0 THEN 0 ELSE PowT[a, emod]
EAdd(a, b) == <<Add(a[1], b[1]), Add(a[2], b[2])>>
ESub(a, b) == <<Sub(a[1], b[1]), Sub(a[2], b[2])>>
EMul(a, b) == <<Add(Mul(a[1], b[1]), Mul(W7, Mul(a[2], b[2]))), Add(Mul(a[1], b[2]), Mul(a[2], b[1]))>>
ENorm(a) == Sub(Mul(a[1], a[1]), Mul(W7, Mul(a[2], a[2])))
EInv(a) == LET ni == Inv(ENorm(a)) IN <<Mul(a[1], ni), Mul(Neg(a[2]), ni)>>

\* ---- tables shared with harness/src/prog.rs (reduced mod 17) -----------------------------
\* [0, 1, 2, p-1, p-2, 2^32, 2^32-1, 3, 7, 2^64-1] mod 17  (2^8 = 1 mod 17)
ConstT == <<0, 1, 2, 16, 15, 1, 0, 3, 7, 0>>
\* exponents [0, 1, 2, 3, 5, 16, 64, 255, 65537, 2^64-1] as (e mod 16, e > 0)
ExpT == << <<0, FALSE>>, <<1, TRUE>>, <<2, TRUE>>, <<3, TRUE>>, <<5, TRUE>>, <<0, TRUE>>,
           <<0, TRUE>>, <<15, TRUE>>, <<1, TRUE>>, <<15, TRUE>> >>
\* x^(2^k) for k in [0, 1, 2, 5, 31, 63]: exponent 2^k as (mod 16, > 0)
Pow2T == << <<1, TRUE>>, <<2, TRUE>>, <<4, TRUE>>, <<0, TRUE>>, <<0, TRUE>>, <<0, TRUE>> >>
RangeT == <<1, 2, 3, 4, 5>>
ExpBitsT == <<1, 2, 5>>
LensT == <<2, 3, 4, 8>>
LutBits == <<2, 4, 5>>
Bit(x, i) == (x \div (2 ^ i)) % 2
Low(x, n) == x % (2 ^ n)
Fits(x, n) == x < 2 ^ n
Log2Ceil(n) == IF n <= 2 THEN 1 ELSE IF n <= 4 THEN 2 ELSE 3
Xor5(a, b) == LET X(i) == (Bit(a, i) + Bit(b, i)) % 2
              IN X(0) + 2 * X(1) + 4 * X(2) + 8 * X(3) + 16 * X(4)
\* the three lookup tables of the harness: inputs 0..2^bits-1, 16-bit outputs, reduced mod 17
\* (65535 = 0 mod 17; 0x5A5A = 23130 = 23104 + 26, 23104 mod 17 = 1)
LutOut(t, i) == IF t = 0 THEN (i * i + 3) % P
                ELSE IF t = 1 THEN (17 * 7 - 7 * i) % P
                ELSE (23104 + Xor5(i, 26)) % P

\* ---- operand resolution -------------------------------------------------------------------
A(ins, k) == IF k <= Len(ins.args) THEN ins.args[k] ELSE 0       \* 1-based here, 0-based in Rust
VIdx(tys, k) == (k % Len(tys)) + 1
BIdx(tys, k) ==
  LET n == Len(tys)  s == k % n
      Cands == {d \in 0..(n - 1) : tys[((s + d) % n) + 1]}
  IN IF Cands = {} THEN 0
     ELSE LET d == CHOOSE c \in Cands : \A c2 \in Cands : c <= c2 IN ((s + d) % n) + 1

\* ---- one instruction on one value list: [sat, out, oty] -------------------------------------
R(s, o, t) == [sat |-> s, out |-> o, oty |-> t]
Step(ins, vs, tys) ==
  LET V(k) == vs[VIdx(tys, A(ins, k))]
      B(k) == LET i == BIdx(tys, A(ins, k)) IN IF i = 0 THEN 0 ELSE vs[i]
      C(k) == ConstT[(A(ins, k) % 10) + 1]
      op == ins.op
      F1(x) == R(TRUE, <<x>>, <<FALSE>>)
      B1(x) == R(TRUE, <<x>>, <<TRUE>>)
      F2(x) == R(TRUE, <<x[1], x[2]>>, <<FALSE, FALSE>>)
      None == R(TRUE, <<>>, <<>>)
      Unsat == R(FALSE, <<>>, <<>>)
  IN CASE op = "const"     -> F1(C(1))
       [] op = "add"       -> F1(Add(V(1), V(2)))
       [] op = "sub"       -> F1(IF Mutant = "sub_reversed" THEN Sub(V(2), V(1)) ELSE Sub(V(1), V(2)))
       [] op = "mul"       -> F1(Mul(V(1), V(2)))
       [] op = "neg"       -> F1(Neg(V(1)))
       [] op = "square"    -> F1(Mul(V(1), V(1)))
       [] op = "cube"      -> F1(Mul(V(1), Mul(V(1), V(1))))
       [] op = "inverse"   -> IF V(1) = 0 THEN Unsat ELSE F1(Inv(V(1)))
       [] op = "div"       -> IF V(2) = 0 THEN Unsat ELSE F1(Mul(V(1), Inv(V(2))))
       [] op = "mul_const" -> F1(Mul(C(1), V(2)))
       [] op = "add_const" -> F1(Add(C(1), V(2)))
       [] op = "arith"     -> F1(Add(Mul(C(1), Mul(V(3), V(4))), Mul(C(2), V(5))))
       [] op = "mul_add"   -> F1(Add(Mul(V(1), V(2)), V(3)))
       [] op = "mul_sub"   -> F1(Sub(Mul(V(1), V(2)), V(3)))
       [] op = "add_many"  -> F1(Add(Add(V(1), V(2)), V(3)))
       [] op = "mul_many"  -> F1(Mul(Mul(V(1), V(2)), V(3)))
       [] op = "exp_u64"   -> LET e == ExpT[(A(ins, 2) % 10) + 1] IN F1(PowBig(V(1), e[1], e[2]))
       [] op = "exp_pow2"  -> LET e == Pow2T[(A(ins, 2) % 6) + 1] IN F1(PowBig(V(1), e[1], e[2]))
       [] op = "exp"       -> LET n == ExpBitsT[(A(ins, 3) % 3) + 1] IN
                              IF ~Fits(V(2), n) THEN Unsat ELSE F1(PowT[V(1), V(2)])
       [] op = "split"     -> LET k == A(ins, 2) % NB IN
                              R(TRUE, <<V(1), Bit(V(1), k), Low(V(1), k)>>, <<FALSE, TRUE, FALSE>>)
       [] op = "split_base4" -> R(TRUE, <<V(1) % 4, (V(1) \div 4) % 4, V(1)>>, <<FALSE, FALSE, FALSE>>)
       [] op = "range"     -> IF Fits(V(1), RangeT[(A(ins, 2) % 5) + 1]) THEN None ELSE Unsat
       [] op = "low_bits"  -> F1(Low(V(1), A(ins, 2) % NB))
       [] op = "is_equal"  -> B1(IF V(1) = V(2) THEN 1 ELSE 0)
       [] op = "select"    -> F1(IF (B(1) = 1) = (Mutant # "select_swapped") THEN V(2) ELSE V(3))
       [] op = "not"       -> B1(1 - B(1))
       [] op = "and"       -> B1(B(1) * B(2))
       [] op = "or"        -> B1(IF B(1) + B(2) > 0 THEN 1 ELSE 0)
       [] op = "assert_bool" -> None
       [] op = "random_access" ->
            LET len == LensT[(A(ins, 6) % 4) + 1]
                idx == Low(V(1), Log2Ceil(len))
                El(j) == vs[VIdx(tys, A(ins, 2 + (j % 4)) + (j \div 4))]        \* j = 0..len-1
            IN F1(IF idx < len THEN El(idx) ELSE El(len - 1))
       [] op = "reduce"    ->          \* sum_i terms[i] * alpha^i, alpha in the extension
            LET al == <<V(1), V(2)>>
                a3 == <<V(5), 0>>
                a2 == EAdd(EMul(a3, al), <<V(4), 0>>)
                a1 == EAdd(EMul(a2, al), <<V(3), 0>>)
            IN F2(a1)
       [] op = "emul"      -> F2(EMul(<<V(1), V(2)>>, <<V(3), V(4)>>))
       [] op = "eadd"      -> F2(EAdd(<<V(1), V(2)>>, <<V(3), V(4)>>))
       [] op = "esub"      -> F2(ESub(<<V(1), V(2)>>, <<V(3), V(4)>>))
       [] op = "ediv"      -> IF V(3) = 0 /\ V(4) = 0 THEN Unsat
                              ELSE F2(EMul(<<V(1), V(2)>>, EInv(<<V(3), V(4)>>)))
       [] op = "lookup"    -> LET t == A(ins, 2) % 3
                                  b == IF LutBits[t + 1] < NB THEN LutBits[t + 1] ELSE NB
                              IN F1(LutOut(t, Low(V(1), b)))
       [] op = "assert_comm" -> None
       [] op = "assert_eq" -> IF V(1) = V(2) THEN None ELSE Unsat
       [] op = "assert_zero" -> IF V(1) = 0 THEN None ELSE Unsat
       \* hashing and Merkle membership exist over the real field only: here they are typed
       \* placeholders (four digest elements); programs containing them are replayed on the real
       \* circuits with the native hash as the reference and are skipped by the F_17 comparison
       [] op \in {"hash", "hash_or_noop", "merkle"} -> R(TRUE, <<0, 0, 0, 0>>, <<FALSE, FALSE, FALSE, FALSE>>)

\* output types of an opcode (TRUE = boolean-typed); independent of the values
OTy(op) == CASE op \in {"is_equal", "not", "and", "or"} -> <<TRUE>>
             [] op = "split" -> <<FALSE, TRUE, FALSE>>
             [] op = "split_base4" -> <<FALSE, FALSE, FALSE>>
             [] op \in {"reduce", "emul", "eadd", "esub", "ediv"} -> <<FALSE, FALSE>>
             [] op \in {"hash", "hash_or_noop", "merkle"} -> <<FALSE, FALSE, FALSE, FALSE>>
             [] op \in {"range", "assert_bool", "assert_comm", "assert_eq", "assert_zero"} -> <<>>
             [] OTHER -> <<FALSE>>

\* ---- argument domains per opcode (value operands 0..2, table operands per table) ----------
VD == 0..2
ArgSets(op) ==
  CASE op = "const" -> <<0..9>>
    [] op \in {"add", "sub", "mul", "div", "is_equal", "and", "or", "assert_comm", "assert_eq"} -> <<VD, VD>>
    [] op \in {"neg", "square", "cube", "inverse", "not", "assert_bool", "assert_zero", "split_base4"} -> <<VD>>
    [] op \in {"mul_const", "add_const"} -> <<0..9, VD>>
    [] op = "arith" -> <<{0, 1, 3, 8}, {0, 1, 3, 8}, VD, VD, VD>>
    [] op \in {"mul_add", "mul_sub", "add_many", "mul_many", "select"} -> <<VD, VD, VD>>
    [] op = "exp_u64" -> <<VD, 0..9>>
    [] op = "exp_pow2" -> <<VD, 0..5>>
    [] op = "exp" -> <<VD, VD, 0..2>>
    [] op \in {"split", "range", "low_bits"} -> <<VD, 0..4>>
    [] op = "random_access" -> <<VD, VD, 0..1, 0..1, 0..1, 0..3>>
    [] op = "reduce" -> <<VD, VD, VD, VD, VD>>
    [] op \in {"emul", "eadd", "esub", "ediv"} -> <<VD, VD, VD, VD>>
    [] op = "lookup" -> <<VD, 0..2>>
    [] op \in {"hash", "hash_or_noop"} -> <<VD, VD, VD, 0..5>>
    [] op = "merkle" -> <<VD, VD, 0..2>>

\* all argument tuples of an opcode (cartesian product of its ArgSets)
RECURSIVE Tuplify(_, _)
Tuplify(sets, k) == IF k > Len(sets) THEN {<<>>}
                    ELSE {<<x>> \o rest : x \in sets[k], rest \in Tuplify(sets, k + 1)}
ArgTuples(op) == Tuplify(ArgSets(op), 1)

\* ---- the state machine --------------------------------------------------------------------
Init == /\ prog = <<>>
        /\ vals = [t \in 1..NT |-> Tuples[t]]
        /\ ty = <<FALSE, FALSE, FALSE>>
        /\ sat = [t \in 1..NT |-> TRUE]

AddInstr(op, args) ==
  LET ins == [op |-> op, args |-> args]
      \* an unsatisfiable input keeps its values frozen (the harness interpreter stops there)
      res == [t \in 1..NT |-> IF sat[t] THEN Step(ins, vals[t], ty) ELSE R(FALSE, <<>>, <<>>)]
      oty == OTy(op)                              \* the typing does not depend on the values
  IN /\ Len(prog) < MaxLen
     /\ prog' = Append(prog, ins)
     /\ vals' = [t \in 1..NT |-> IF res[t].sat THEN vals[t] \o res[t].out ELSE vals[t]]
     /\ sat' = [t \in 1..NT |-> res[t].sat]
     /\ ty' = ty \o oty

Next == \E op \in Ops : \E args \in ArgTuples(op) : AddInstr(op, args)
Spec == Init /\ [][Next]_vars

\* ---- obligations ----------------------------------------------------------------------------
TypeOK == /\ \A t \in 1..NT : \A i \in 1..Len(vals[t]) : vals[t][i] \in 0..(P - 1)
          \* boolean-typed values are 0/1 (what makes BoolTarget::new_unsafe in the replay sound)
          /\ \A t \in 1..NT : sat[t] => \A i \in 1..Len(ty) : ty[i] => vals[t][i] \in {0, 1}
          /\ \A t \in 1..NT : sat[t] => Len(vals[t]) = Len(ty)
          \* Step's own typing agrees with the static typing OTy
\* every reachable program is a scenario: printed once, with the expected values per input
RealOnly == \E i \in 1..Len(prog) : prog[i].op \in {"hash", "hash_or_noop", "merkle"}
Scenario == [prog |-> [nin |-> NIn, instrs |-> prog], real_only |-> RealOnly,
             inputs |-> Tuples,
             expect |-> [t \in 1..NT |-> IF sat[t] THEN [unsat |-> FALSE, vals |-> vals[t]]
                                          ELSE [unsat |-> TRUE, vals |-> <<>>]]]
Emit == Len(prog) >= 1 => PrintT("PROG " \o ToJson(Scenario))
=============================================================================
