CONSTANT MaxH = 3
CONSTANT MaxLen = 2
CONSTANT Mutant = "noinitknown"
INIT Init
NEXT Next
INVARIANT RoundTrip

CHECK_DEADLOCK FALSE
