------------------------------ MODULE PlonkIOP ------------------------------
(***************************************************************************)
(* C03 — component-level model of a PLONK/FRI proof and of its verifier.    *)
(*                                                                          *)
(* The proof is a record of COMPONENTS (caps, opening vectors, per query    *)
(* round and oracle a leaf, its salt and its Merkle path, per round and     *)
(* layer the coset evaluations and their path, commit-phase caps, final     *)
(* polynomial, pow witness, public inputs; compressed form: + the redundant *)
(* `indices` list and the de-duplication maps).  The verifier is the        *)
(* ordered list of checks of plonk/verifier.rs + fri/verifier.rs (DESIGN    *)
(* Appendix D), each with the components and challenges it READS;           *)
(* Fiat–Shamir is the ordered list of absorptions: a changed absorbed       *)
(* component re-randomises every later challenge, and a check that reads a  *)
(* re-randomised challenge fails.                                           *)
(*                                                                          *)
(* Adversary: replace one component, drop-last / empty / duplicate-last a   *)
(* list, present the proof with another circuit's verifier data.            *)
(* Obligation  Bound:  Accept => only components marked unread were touched *)
(* (the compressed proof's `indices`).  `disabled` (a set of checks and     *)
(* absorptions) is the canary dimension: with every detector of a component *)
(* disabled TLC must exhibit an accepted tamper of it.                      *)
(***************************************************************************)
EXTENDS Naturals, Sequences, FiniteSets

CONSTANTS Form,        \* "plain" | "compressed"
          Zk,          \* salted leaves
          Lookups      \* lookup openings present

Q  == 2      \* query rounds
NL == 2      \* reduction layers
NO == 4      \* oracles: 0 = constants/sigmas (cap in the verifier data), 1 wires, 2 zs/pp, 3 quotient
Rs == 0..(Q - 1)
Ls == 0..(NL - 1)
Os == 0..(NO - 1)

----------------------------------------------------------------------------
(* components *)
Caps == {"wires_cap", "zs_cap", "quot_cap"}
Openings == {"op.constants", "op.sigmas", "op.wires", "op.zs", "op.zs_next", "op.pp", "op.quot"}
            \cup (IF Lookups THEN {"op.lzs", "op.lzs_next"} ELSE {})
C(kind, r, i) == [k |-> kind, r |-> r, i |-> i]
S(name) == C(name, 0, 0)
RoundComps == {C("leaf", r, o) : r \in Rs, o \in Os} \cup {C("path", r, o) : r \in Rs, o \in Os}
              \cup (IF Zk THEN {C("salt", r, o) : r \in Rs, o \in Os \ {0}} ELSE {})
              \cup {C("evals", r, l) : r \in Rs, l \in Ls} \cup {C("lpath", r, l) : r \in Rs, l \in Ls}
Components ==
  {S(n) : n \in Caps \cup Openings \cup {"public_inputs", "final_poly", "pow_witness"}}
  \cup {C("commit_cap", 0, l) : l \in Ls} \cup RoundComps
  \cup (IF Form = "compressed" THEN {S("indices")} ELSE {})

(* containers whose LENGTH can be mutated without touching a value inside *)
Lists ==
  {S(n) : n \in Caps \cup Openings \cup {"public_inputs", "final_poly"}}
  \cup {C("commit_cap", 0, l) : l \in Ls} \cup {S("commit_caps")}
  \cup {c \in RoundComps : c.k # "salt"}
  \cup {C("oracles", r, 0) : r \in Rs} \cup {C("steps", r, 0) : r \in Rs}
  \cup (IF Form = "compressed" THEN {S("indices")} ELSE {S("rounds")})

Unread == {S("indices")}

Actions ==
  {[a |-> "replace", c |-> c] : c \in Components}
  \cup {[a |-> m, c |-> c] : m \in {"droplast", "empty", "duplast"}, c \in Lists}
  \cup {[a |-> "swap_vd", c |-> S("vd")]}

----------------------------------------------------------------------------
(* Fiat–Shamir: ordered absorptions and the challenges squeezed after them *)
AbsorbOrder == <<"A.vd", "A.pis", "A.wires_cap", "A.zs_cap", "A.quot_cap", "A.openings",
                 "A.commit_cap0", "A.commit_cap1", "A.final_poly", "A.pow_witness">>
(* challenge -> index of the last absorption that precedes it *)
ChalAfter == [betas |-> 3, alphas |-> 4, zeta |-> 5, fri_alpha |-> 6, beta0 |-> 7, beta1 |-> 8,
              pow_response |-> 10, x_index |-> 10]
Challenges == DOMAIN ChalAfter

(* which absorption takes a component in *)
AbsorbedBy(c) ==
  CASE c.k = "vd" -> {"A.vd"}
    [] c.k = "public_inputs" -> {"A.pis"}
    [] c.k \in Caps -> {"A." \o c.k}
    [] c.k \in Openings -> {"A.openings"}
    [] c.k = "commit_cap" -> {IF c.i = 0 THEN "A.commit_cap0" ELSE "A.commit_cap1"}
    [] c.k = "commit_caps" -> {"A.commit_cap1"}     \* one cap fewer / more changes what is absorbed from there on
    [] c.k = "final_poly" -> {"A.final_poly"}
    [] c.k = "pow_witness" -> {"A.pow_witness"}
    [] OTHER -> {}

Pos(a) == CHOOSE i \in 1..Len(AbsorbOrder) : AbsorbOrder[i] = a

----------------------------------------------------------------------------
VARIABLES act, disabled, pc, verdict, first
vars == <<act, disabled, pc, verdict, first>>

Touched == act.c
ValueChanged == TRUE                                  \* every action changes the value of its component
LenChanged == act.a \in {"droplast", "empty", "duplast"}

(* a challenge is re-randomised iff an ENABLED absorption at or before its position takes the changed component in *)
Rerand(ch) == \E a \in AbsorbedBy(Touched) : a \notin disabled /\ Pos(a) <= ChalAfter[ch]

(* ordered checks: name, the components whose VALUE it binds, the lists whose LENGTH it reads, the challenges it reads *)
Chk(n, vals, lens, chals) == [n |-> n, vals |-> vals, lens |-> lens, chals |-> chals]

InitMerkle(r, o) ==
  Chk("InitMerkle", {C("leaf", r, o), C("path", r, o), C("salt", r, o)}
                     \cup (CASE o = 0 -> {S("vd")} [] o = 1 -> {S("wires_cap")} [] o = 2 -> {S("zs_cap")} [] OTHER -> {S("quot_cap")}),
      {}, {"x_index"})
Combine(r) == Chk("Consistency", {C("leaf", r, o) : o \in Os} \cup {S(n) : n \in Openings}, {}, {"fri_alpha", "zeta", "x_index"})
Fold(r, l) == Chk("Consistency", {C("evals", r, l)}, {}, {IF l = 0 THEN "beta0" ELSE "beta1", "x_index"})
LayerMerkle(r, l) == Chk("LayerMerkle", {C("evals", r, l), C("lpath", r, l), C("commit_cap", 0, l)}, {}, {"x_index"})
Final(r) == Chk("Final", {S("final_poly")}, {}, {"beta1", "x_index"})

RoundChecks(r) ==
  <<InitMerkle(r, 0), InitMerkle(r, 1), InitMerkle(r, 2), InitMerkle(r, 3), Combine(r),
    Fold(r, 0), LayerMerkle(r, 0), Fold(r, 1), LayerMerkle(r, 1), Final(r)>>

Checks ==
  (IF Form = "compressed"
     THEN << Chk("Decompress", {}, {c \in Lists : c.k \in {"path", "lpath", "steps", "oracles"}}, {"x_index"}) >>
     ELSE <<>>)
  \o << Chk("Shape", {}, {S(n) : n \in Caps \cup Openings \cup {"public_inputs"}}, {}),
        Chk("Vanishing", {S(n) : n \in {"public_inputs"} \cup Openings}, {}, {"betas", "alphas", "zeta"}),
        \* the NUMBER of commit-phase caps is read by FriShape only since the repair of C18 defect (6); on the
        \* pinned tree a changed number was noticed through Fiat–Shamir alone (A.commit_cap1 -> Pow)
        Chk("FriShape", {}, {c \in Lists : c.k \in {"commit_cap", "commit_caps", "oracles", "leaf", "path", "steps", "evals", "lpath", "final_poly"}}, {}),
        Chk("Pow", {}, {}, {"pow_response"}),
        Chk("NumRounds", {}, {S("rounds")}, {}) >>
  \o RoundChecks(0) \o RoundChecks(1)

CheckNames == {"Decompress", "Shape", "Vanishing", "FriShape", "Pow", "NumRounds", "InitMerkle", "Consistency",
               "LayerMerkle", "Final"}
Items == CheckNames \cup {AbsorbOrder[i] : i \in 1..Len(AbsorbOrder)}

(* in the compressed form the verifier looks query data up by the recomputed index: a re-randomised x_index *)
(* makes Decompress fail (missing key) before anything else                                               *)
Detects(k) ==
  /\ k.n \notin disabled
  /\ \/ Touched \in k.vals
     \/ LenChanged /\ Touched \in k.lens
     \/ \E ch \in k.chals : Rerand(ch)
     \/ act.a = "swap_vd" /\ S("vd") \in k.vals

Detectors == {Checks[i].n : i \in {j \in 1..Len(Checks) : Detects(Checks[j])}}

(* every check or absorption that can notice a change of component c (canary sets) *)
AllDetectorsOf(c) ==
  {Checks[i].n : i \in {j \in 1..Len(Checks) : c \in Checks[j].vals \cup Checks[j].lens}}
  \cup AbsorbedBy(c)

CanarySets == {{}} \cup {{k} : k \in Items} \cup {AllDetectorsOf(c) : c \in Components \cup Lists \cup {S("vd")}}

Init ==
  /\ act \in Actions
  /\ disabled \in CanarySets
  /\ pc = 1
  /\ verdict = "running"
  /\ first = ""

Next ==
  /\ verdict = "running"
  /\ IF pc > Len(Checks) THEN verdict' = "accept" /\ UNCHANGED <<pc, first>>
     ELSE IF Detects(Checks[pc]) THEN verdict' = "reject" /\ first' = Checks[pc].n /\ pc' = pc
     ELSE pc' = pc + 1 /\ UNCHANGED <<verdict, first>>
  /\ UNCHANGED <<act, disabled>>

Done == verdict # "running"

----------------------------------------------------------------------------
(* obligations *)
Bound == (verdict = "accept" /\ disabled = {}) => Touched \in Unread
(* every component is read by some check or absorbed *)
EveryComponentRead == \A c \in (Components \cup Lists) \ Unread : AllDetectorsOf(c) # {}
(* nothing but the stated exception is unread *)
OnlyIndicesUnread == \A c \in Unread : AllDetectorsOf(c) = {}
=============================================================================
