CONSTANT Mutant = "none"
INIT Init
NEXT Next
INVARIANT SelectedOnly
INVARIANT Emit
CHECK_DEADLOCK FALSE
