---------------------------- MODULE MCProofShape ----------------------------
(* TLC wrapper of ProofShape: prints one scenario line per complete behaviour. *)
EXTENDS ProofShape, TLC, Json, SequencesExt, FiniteSetsExt

DevStr(d) == d.f \o ":" \o d.v
IdOf == Entry \o "/" \o Variant \o "/" \o (IF adaptive THEN "A" ELSE "S") \o "/"
        \o FoldSet(LAMBDA d, acc : IF acc = "" THEN DevStr(d) ELSE acc \o "+" \o DevStr(d), "", devs)

Scenario ==
  [id |-> IdOf, entry |-> Entry, variant |-> Variant, adaptive |-> adaptive,
   devs |-> SetToSeq(devs),
   faithful |-> fout, alt |-> falt, decompress |-> dout, ideal |-> iout]

Emit == Done => PrintT("REPLAY " \o ToJson(Scenario))
=============================================================================
