CONSTANT MaxLen = 3
CONSTANT Mutant = "step_ties_digest_only"
INIT Init
NEXT Next
INVARIANT ChainSound
INVARIANT StepProofsGood
INVARIANT CheckVDExact
INVARIANT NoAlteredAccepted
CHECK_DEADLOCK FALSE
