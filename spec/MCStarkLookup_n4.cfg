CONSTANT P = 13
CONSTANT N = 4
CONSTANT MUT = "none"
CONSTANT DIDS = {7}
INIT Init
NEXT Next
INVARIANT Theorem
INVARIANT Emit
CHECK_DEADLOCK FALSE
