CONSTANT P = 13
CONSTANT N = 4
CONSTANT MUT = "none"
CONSTANT DIDS = {1}
INIT Init
NEXT Next
INVARIANT Theorem
INVARIANT Emit
CHECK_DEADLOCK FALSE
