CONSTANT MaxH = 2
CONSTANT W0s = {5}
CONSTANT Mutant = "nomix"
INIT Init
NEXT Next
INVARIANT Correct
CHECK_DEADLOCK FALSE
