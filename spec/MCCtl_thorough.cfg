CONSTANT P = 17
CONSTANT N = 2
CONSTANT MUT = "none"
CONSTANT DIDS = {1, 2, 3, 4, 5}
CONSTANT BETAS = {2, 3}
INIT Init
NEXT Next
INVARIANT Theorem
INVARIANT Emit
CHECK_DEADLOCK FALSE
