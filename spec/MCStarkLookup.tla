--------------------------- MODULE MCStarkLookup ---------------------------
(***************************************************************************)
(* TLC wrapper of StarkLookup (C10): one state per (declaration, trace);   *)
(* all traces over per-column value sets.  Theorem:                        *)
(*   MultisetOk     => Accepts(x) for every non-degenerate challenge x,    *)
(*   not MultisetOk => Accepts(x) for at most N*(K+1)-1 non-degenerate x,  *)
(*   and for non-degenerate x the helper / Z witness is unique (so every   *)
(*   single corruption of a helper or Z cell violates a constraint).       *)
(* Every case is printed (LOOKUP17) with the verdict of MultisetOk; the    *)
(* harness evaluates its reference predicate on exactly these cases.       *)
(***************************************************************************)
EXTENDS StarkLookup, Json

CONSTANTS DIDS       \* declarations used

VARIABLE s

C(i) == [lin |-> <<<<i, 1>>>>, next |-> <<>>, k |-> 0]
NoF == [lin |-> <<>>, next |-> <<>>, k |-> 1]          \* no filter = the constant column 1 (Filter::default)
(* declarations: cols, per-column value sets, deg (batch size deg-1) *)
DECLS == TLCEval(<<
  \* 1: one looking column, [f0, t, m]
  [cols |-> 3, deg |-> 3, looking |-> <<C(0)>>, filters |-> <<NoF>>, table |-> C(1), freq |-> C(2),
   vals |-> <<{1, 2}, {1, 2}, {0, 1, 2}>>],
  \* 2: two looking columns in one batch, the second filtered by a selector, [f0, f1, t, m, s]
  [cols |-> 5, deg |-> 3, looking |-> <<C(0), C(1)>>, filters |-> <<NoF, C(4)>>, table |-> C(2), freq |-> C(3),
   vals |-> <<{1, 2}, {1, 2}, {1, 2}, {0, 1}, {0, 1}>>],
  \* 3: the same with constraint degree 2 (two batches of one)
  [cols |-> 5, deg |-> 2, looking |-> <<C(0), C(1)>>, filters |-> <<NoF, C(4)>>, table |-> C(2), freq |-> C(3),
   vals |-> <<{1, 2}, {1, 2}, {1, 2}, {0, 1, 2}, {0, 1}>>],
  \* 4: linear combination f0 + 2 f1 + 1 and a plain column
  [cols |-> 5, deg |-> 3, looking |-> <<[lin |-> <<<<0, 1>>, <<1, 2>>>>, next |-> <<>>, k |-> 1], C(1)>>,
   filters |-> <<NoF, NoF>>, table |-> C(2), freq |-> C(3),
   vals |-> <<{0, 1}, {1, 2}, {1, 2, 4}, {0, 1, 2}, {0}>>],
  \* 5: looking column on the next row
  [cols |-> 3, deg |-> 2, looking |-> <<[lin |-> <<>>, next |-> <<<<0, 1>>>>, k |-> 0]>>, filters |-> <<NoF>>,
   table |-> C(1), freq |-> C(2), vals |-> <<{1, 2}, {1, 2}, {0, 1, 2}>>],
  \* 6: the table column declared on the next row (unprovable before the repair of eval_packed_lookups_generic:
  \*   mutant "table_local_only")
  [cols |-> 3, deg |-> 2, looking |-> <<C(0)>>, filters |-> <<NoF>>,
   table |-> [lin |-> <<>>, next |-> <<<<1, 1>>>>, k |-> 0], freq |-> C(2), vals |-> <<{1, 2}, {1, 2}, {0, 1, 2}>>],
  \* 7: declaration 1 with frequencies 0/1 (used with N = 4)
  [cols |-> 3, deg |-> 3, looking |-> <<C(0)>>, filters |-> <<NoF>>, table |-> C(1), freq |-> C(2),
   vals |-> <<{1, 2}, {1, 2}, {0, 1}>>]
>>)

\* fan-out over the first row so that TLC's workers share the cases
RowsD(d) == LET U == UNION {d.vals[c] : c \in 1..d.cols}
            IN  {row \in [1..d.cols -> U] : \A c \in 1..d.cols : row[c] \in d.vals[c]}
Groups == UNION {{[did |-> did, kind |-> "group", tr |-> <<row>>] : row \in RowsD(DECLS[did])} : did \in DIDS}
CasesOf(g) == {[g EXCEPT !.kind = "case", !.tr = g.tr \o rest] : rest \in [1..(N - 1) -> RowsD(DECLS[g.did])]}
Init == s \in Groups
Next == s.kind = "group" /\ s' \in CasesOf(s)

Theorem ==
  s.kind = "case" =>
    LET d == DECLS[s.did] IN
    \A ok \in {MultisetOk(d, s.tr)} :
    \A tb \in {Tab(d, s.tr)} :
    \A nd \in {{x \in Fp : ~Degenerate(d, tb, x)}} :
    \A acc \in {{x \in nd : Accepts(d, tb, x)}} :
       /\ IF ok THEN acc = nd ELSE Cardinality(acc) <= N * (K(d) + 1) - 1
       /\ (MUT = "none" /\ nd # {}) => UniqueWitness(d, tb, CHOOSE x \in nd : TRUE)

JsonCe(ce) == [lin |-> ce.lin, next |-> ce.next, k |-> ce.k]
JsonDecl(d) == [looking |-> [i \in 1..Len(d.looking) |-> JsonCe(d.looking[i])],
                filters |-> [i \in 1..Len(d.filters) |-> JsonCe(d.filters[i])],
                table |-> JsonCe(d.table), freq |-> JsonCe(d.freq)]
Emit ==
  s.kind = "case" =>
    LET d == DECLS[s.did] IN
    PrintT("LOOKUP17 " \o ToJson([what |-> "lookup", p |-> P, did |-> s.did, cols |-> d.cols, decl |-> JsonDecl(d),
                                  trace |-> s.tr, ok |-> MultisetOk(d, s.tr)]))
=============================================================================
