CONSTANT P = 17
CONSTANT G = 3
CONSTANT LOGN = 3
CONSTANT RB = 1
CONSTANT AR <- AR_11
CONSTANT Alphas <- CanaryAlphas
CONSTANT Betas <- CanaryBetas
CONSTANT Disabled = {"Shape"}
CONSTANT Polys2 <- NoPolys
CONSTANT Bats2 <- NoPolys
CONSTANT Enter = 0
CONSTANT PolySets <- F17_Polys
CONSTANT BatSets <- F17_Bats
CONSTANT Orc <- Orc_112
CONSTANT Deltas <- F17_Deltas
CONSTANT Mode = "small"
INIT Init
NEXT Next
INVARIANT TypeOK
INVARIANT Completeness
INVARIANT Soundness
INVARIANT OnlyFinalNotices
CHECK_DEADLOCK FALSE
