----------------------------- MODULE Challenger -----------------------------
(***************************************************************************)
(* Implementation-shaped model of plonky2's `Challenger` (iop/challenger.rs)*)
(* over the term algebra of module Sponge:                                 *)
(*   C = [st |-> sponge_state, inb |-> input_buffer, outb |-> output_buffer]*)
(*   observe_element: clear the output buffer, push, duplex when the input *)
(*                    buffer holds RATE elements;                          *)
(*   get_challenge  : duplex if the input buffer is non-empty or the output*)
(*                    buffer is empty; pop from the END of the output      *)
(*                    buffer;                                              *)
(*   duplexing      : overwrite the first lanes with the input buffer,     *)
(*                    permute, refill the output buffer with lanes 1..RATE;*)
(*   compact        : duplex if the input buffer is non-empty, clear the   *)
(*                    output buffer, return the state;                     *)
(*   observe_elements / observe_hash / observe_cap / observe_extension_*   *)
(*                    are loops over observe_element;                      *)
(*   hash_n_to_m_no_pad / compress / hash_or_noop / hash_pad are           *)
(*                    (hashing.rs, config.rs) the definitions of Sponge.   *)
(* `Mutant` selects a deliberately broken variant (canaries).              *)
(***************************************************************************)
EXTENDS Sponge

CONSTANT Mutant      \* "none" | "noclear" | "noflush" | "stale" | "resetcap" | "compactnoflush" | "popfront"
\* NOTE (found by TLC): "noclear" alone and "noflush" alone are behaviourally EQUIVALENT to the
\* original - clearing the output buffer on observe and re-duplexing on a non-empty input buffer
\* are redundant with each other; only BufferInv tells "noclear" apart.  "stale" removes both.

ChInit == [st |-> ZeroState, inb |-> <<>>, outb |-> <<>>]

\* <<T', C'>>
Duplex(T, C) ==
  LET base == IF Mutant = "resetcap" THEN ZeroState ELSE C.st
      p == CHOOSE x \in {Permute(T, Overwrite(base, C.inb))} : TRUE
  IN <<p[1], [st |-> p[2], inb |-> <<>>, outb |-> SubSeq(p[2], 1, RATE)]>>

Observe(T, C, x) ==
  LET C1 == [C EXCEPT !.outb = IF Mutant \in {"noclear", "stale"} THEN C.outb ELSE <<>>,
                      !.inb = Append(C.inb, x)]
  IN IF Len(C1.inb) = RATE THEN Duplex(T, C1) ELSE <<T, C1>>

RECURSIVE ObserveElements(_, _, _)
ObserveElements(T, C, xs) ==
  IF xs = <<>> THEN <<T, C>>
  ELSE LET r == CHOOSE x \in {Observe(T, C, Head(xs))} : TRUE
       IN ObserveElements(r[1], r[2], Tail(xs))

\* <<T', C', challenge>>
GetChallenge(T, C) ==
  LET need == IF Mutant \in {"noflush", "stale"} THEN C.outb = <<>> ELSE C.inb # <<>> \/ C.outb = <<>>
      d == CHOOSE x \in {IF need THEN Duplex(T, C) ELSE <<T, C>>} : TRUE
      ob == d[2].outb
  IN IF Mutant = "popfront"
     THEN <<d[1], [d[2] EXCEPT !.outb = Tail(ob)], Head(ob)>>
     ELSE <<d[1], [d[2] EXCEPT !.outb = SubSeq(ob, 1, Len(ob) - 1)], ob[Len(ob)]>>

\* <<T', C', state>>
Compact(T, C) ==
  LET d == CHOOSE x \in {IF C.inb # <<>> /\ Mutant # "compactnoflush" THEN Duplex(T, C) ELSE <<T, C>>} : TRUE
  IN <<d[1], [d[2] EXCEPT !.outb = <<>>], d[2].st>>

\* invariants of the buffers
BufferInv(C) == /\ (C.outb # <<>> => C.inb = <<>>)
                /\ Len(C.inb) < RATE
                /\ Len(C.outb) <= RATE
=============================================================================
