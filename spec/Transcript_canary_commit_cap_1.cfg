CONSTANTS
  RATE = 8
  WIDTH = 12
  Disabled = {"commit_cap.1"}
  UseEnvConfigs = FALSE
INIT Init
NEXT Next
CHECK_DEADLOCK FALSE
INVARIANT FS1
