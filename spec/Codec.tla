------------------------------- MODULE Codec -------------------------------
(***************************************************************************)
(* The byte layout of ProofWithPublicInputs / CompressedProofWithPublic-    *)
(* Inputs (plonky2/src/util/serialization/mod.rs, read_proof ..            *)
(* read_compressed_proof_with_public_inputs), as a GRAMMAR driven by the   *)
(* common circuit data: a sequence of fields, each with a number of items, *)
(* an item size and the SOURCE of its length:                              *)
(*    "implied"  the reader takes the length from the common data          *)
(*               (cap sizes, opening vector lengths, number of query       *)
(*               rounds, number of FRI layers, arity of each layer,        *)
(*               final polynomial length, oracle row widths, salt)         *)
(*    "u8"       a one-byte count precedes the items (Merkle paths:        *)
(*               read_merkle_proof; the honest value is implied too -      *)
(*               lde_bits - cap_height - folded bits - but the reader      *)
(*               believes the byte)                                        *)
(*    "u64"      an eight-byte count precedes the items (public inputs of  *)
(*               a plain proof: read_usize)                                *)
(*    "rest"     everything up to the end of the input (public inputs of a *)
(*               compressed proof: remaining() / 8)                        *)
(* Walk sums the grammar; Size is the closed formula.  Their agreement on  *)
(* a lattice of shapes is checked by TLC (MCCodec); CodecTrace evaluates   *)
(* Size on the shapes of REAL proofs and compares with to_bytes().len()    *)
(* (a mismatch is DRIFT: the layout changed, not the property).            *)
(*                                                                         *)
(* shape = [H hash bytes, cap cap height, nconst constant polys (incl.     *)
(*   selectors), routed, wires, nch challenges, nlp lookup polys, npp      *)
(*   partial products, qdf quotient degree factor, arities reduction arity *)
(*   bits, dbits degree bits, rate rate bits, q query rounds, hiding, npi] *)
(***************************************************************************)
EXTENDS Integers, Sequences, FiniteSets, SequencesExt, TLC

B == 8                      \* bytes of a base field element / of a usize
E == 16                     \* bytes of an extension element (D = 2)
Pow2(n) == 2 ^ n
RECURSIVE SumSeq(_)
SumSeq(s) == IF Len(s) = 0 THEN 0 ELSE Head(s) + SumSeq(Tail(s))
Prefix(s, k) == SubSeq(s, 1, k)

Salt(s) == IF s.hiding THEN 4 ELSE 0
LdeBits(s) == s.dbits + s.rate
CapBytes(s) == Pow2(s.cap) * s.H
\* row widths of the four oracles (constants+sigmas is never salted)
OracleWidths(s) == << s.nconst + s.routed,
                      s.wires + Salt(s),
                      s.nch * (1 + s.npp + s.nlp) + Salt(s),
                      s.nch * s.qdf + Salt(s) >>
\* height of the Merkle tree of FRI layer k (1-based; leaves are cosets of size 2^arity_k)
LayerBits(s, k) == LdeBits(s) - SumSeq(Prefix(s.arities, k))
FinalPolyLen(s) == Pow2(s.dbits - SumSeq(s.arities))

F(name, n, unit, len) == [name |-> name, n |-> n, unit |-> unit, len |-> len]
LenBytes(f) == CASE f.len = "u8" -> 1 [] f.len = "u64" -> 8 [] OTHER -> 0
FieldBytes(f) == LenBytes(f) + f.n * f.unit

\* ---- grammar of a plain proof -----------------------------------------------------------------
Caps(s) == << F("wires_cap", Pow2(s.cap), s.H, "implied"),
              F("plonk_zs_partial_products_cap", Pow2(s.cap), s.H, "implied"),
              F("quotient_polys_cap", Pow2(s.cap), s.H, "implied") >>
Openings(s) == << F("constants", s.nconst, E, "implied"), F("plonk_sigmas", s.routed, E, "implied"),
                  F("wires", s.wires, E, "implied"), F("plonk_zs", s.nch, E, "implied"),
                  F("plonk_zs_next", s.nch, E, "implied"), F("lookup_zs", s.nch * s.nlp, E, "implied"),
                  F("lookup_zs_next", s.nch * s.nlp, E, "implied"),
                  F("partial_products", s.npp * s.nch, E, "implied"),
                  F("quotient_polys", s.qdf * s.nch, E, "implied") >>
CommitCaps(s) == [k \in 1..Len(s.arities) |-> F("commit_phase_cap", Pow2(s.cap), s.H, "implied")]
InitialProof(s, path) ==
  LET w == OracleWidths(s)
  IN << F("evals0", w[1], B, "implied"), F("path0", path, s.H, "u8"),
        F("evals1", w[2], B, "implied"), F("path1", path, s.H, "u8"),
        F("evals2", w[3], B, "implied"), F("path2", path, s.H, "u8"),
        F("evals3", w[4], B, "implied"), F("path3", path, s.H, "u8") >>
RECURSIVE Steps(_, _)
Steps(s, k) == IF k > Len(s.arities) THEN <<>>
               ELSE << F("step_evals", Pow2(s.arities[k]), E, "implied"),
                       F("step_path", LayerBits(s, k) - s.cap, s.H, "u8") >> \o Steps(s, k + 1)
QueryRound(s) == InitialProof(s, LdeBits(s) - s.cap) \o Steps(s, 1)
RECURSIVE Rounds(_, _)
Rounds(s, n) == IF n = 0 THEN <<>> ELSE QueryRound(s) \o Rounds(s, n - 1)
Tail2(s) == << F("final_poly", FinalPolyLen(s), E, "implied"), F("pow_witness", 1, B, "implied") >>
ProofGrammar(s) == Caps(s) \o Openings(s) \o CommitCaps(s) \o Rounds(s, s.q) \o Tail2(s)
                   \o << F("public_inputs", s.npi, B, "u64") >>
WalkSeq(fs) == FoldSeq(LAMBDA f, acc : acc + FieldBytes(f), 0, fs)
Walk(s) == WalkSeq(ProofGrammar(s))
\* which lengths does the decoder take from the input?
ReadFromInput(s) == LET g == ProofGrammar(s) IN {g[i].name : i \in {j \in 1..Len(g) : g[j].len # "implied"}}

\* ---- closed formulas ----------------------------------------------------------------------------
OpeningsBytes(s) == E * (s.nconst + s.routed + s.wires + 2 * s.nch + 2 * s.nch * s.nlp + s.npp * s.nch + s.qdf * s.nch)
InitialEvalBytes(s) == B * SumSeq(OracleWidths(s))
RECURSIVE StepsBytes(_, _)
StepsBytes(s, k) == IF k > Len(s.arities) THEN 0
                    ELSE Pow2(s.arities[k]) * E + 1 + (LayerBits(s, k) - s.cap) * s.H + StepsBytes(s, k + 1)
RoundBytes(s) == InitialEvalBytes(s) + 4 * (1 + (LdeBits(s) - s.cap) * s.H) + StepsBytes(s, 1)
FixedBytes(s) == 3 * CapBytes(s) + OpeningsBytes(s) + Len(s.arities) * CapBytes(s) + E * FinalPolyLen(s) + B
Size(s) == FixedBytes(s) + s.q * RoundBytes(s) + 8 + B * s.npi

\* ---- compressed proof: Merkle paths of all rounds share siblings ----------------------------------
\* (hash/path_compression.rs) a sibling is kept iff it is not itself on the path of a queried leaf:
\* levels 0 .. height - cap - 1, P_j = the queried nodes of level j
Sib(n) == IF n % 2 = 0 THEN n + 1 ELSE n - 1
Nodes(S, j) == {i \div Pow2(j) : i \in S}
RECURSIVE RetainedFrom(_, _, _)
RetainedFrom(S, j, top) == IF j >= top THEN 0
                           ELSE Cardinality({n \in Nodes(S, j) : Sib(n) \notin Nodes(S, j)}) + RetainedFrom(S, j + 1, top)
Retained(S, height, cap) == RetainedFrom(S, 0, height - cap)
IdxSet(idx) == {idx[i] : i \in 1..Len(idx)}
\* indices of FRI layer k: the query indices shifted by the arities folded so far
LayerIdx(s, S, k) == {i \div Pow2(SumSeq(Prefix(s.arities, k))) : i \in S}
RECURSIVE CStepsBytes(_, _, _)
CStepsBytes(s, S, k) ==
  IF k > Len(s.arities) THEN 0
  ELSE LET Sk == LayerIdx(s, S, k)
       IN Cardinality(Sk) * ((Pow2(s.arities[k]) - 1) * E + 1) + s.H * Retained(Sk, LayerBits(s, k), s.cap)
          + CStepsBytes(s, S, k + 1)
CSize(s, idx) ==
  LET S == IdxSet(idx)
  IN FixedBytes(s) + 4 * s.q
     + Cardinality(S) * (InitialEvalBytes(s) + 4) + 4 * s.H * Retained(S, LdeBits(s), s.cap)
     + CStepsBytes(s, S, 1) + B * s.npi

\* shapes the library can produce (FriParams / builder assertions)
WellFormed(s) == /\ s.cap <= LdeBits(s) - SumSeq(s.arities)
                 /\ SumSeq(s.arities) <= s.dbits
                 /\ s.q >= 1 /\ s.nch >= 1
=============================================================================
