CONSTANT MaxGates = 5
CONSTANT MaxGateDeg = 8
CONSTANT Mutant = "ignore_size"
INIT Init
NEXT Next
INVARIANT Inv
CHECK_DEADLOCK FALSE
