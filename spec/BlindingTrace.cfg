INIT Init
NEXT Next
CHECK_DEADLOCK FALSE
