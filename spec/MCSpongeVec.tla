---------------------------- MODULE MCSpongeVec ----------------------------
(***************************************************************************)
(* Scenario generator for C13 (hash part): evaluates the property-level    *)
(* definitions of module Sponge at the real parameters (RATE 8, WIDTH 12,  *)
(* OUT 4) on the message <<1, .., n>> of distinct atoms and prints, for    *)
(* the harness to replay on the real hash_n_to_m_no_pad / hash_no_pad /    *)
(* two_to_one / compress / hash_or_noop / hash_pad, the expected outputs   *)
(* as interned terms together with the table of permutation calls.         *)
(***************************************************************************)
EXTENDS Sponge, Json

CONSTANTS NMax, Ms

VARIABLE step
Msg(n) == [i \in 1..n |-> i]

HashScen(n, m) == LET h == CHOOSE x \in {HashNToM(EmptyT, Msg(n), m)} : TRUE
                  IN [kind |-> "hash_n_to_m", n |-> n, m |-> m, out |-> h[2], tbl |-> h[1].st]
TwoScen == LET h == CHOOSE x \in {TwoToOne(EmptyT, Msg(OUT), [i \in 1..OUT |-> OUT + i])} : TRUE
           IN [kind |-> "two_to_one", n |-> 2 * OUT, m |-> OUT, out |-> h[2], tbl |-> h[1].st]
NoopScen(n) == LET h == CHOOSE x \in {HashOrNoop(EmptyT, Msg(n))} : TRUE
               IN [kind |-> "hash_or_noop", n |-> n, m |-> OUT, out |-> h[2], tbl |-> h[1].st]
PadScen(n) == LET h == CHOOSE x \in {HashPad(EmptyT, Msg(n))} : TRUE
              IN [kind |-> "hash_pad", n |-> n, m |-> OUT, out |-> h[2], tbl |-> h[1].st, padded |-> Pad(Msg(n))]

\* structural facts about the printed vectors (checked while printing)
ScenOk(s) == /\ Len(s.out) = s.m
             /\ \A k \in 1..Len(s.out) : s.kind = "hash_or_noop" \/ s.n = 0 \/ IsOut(s.out[k])

Init == step = 0
Next == step < NMax + 1 /\ step' = step + 1
\* state `step` = n + 1 prints the scenarios of message length n
Emit == step > 0 =>
          LET n == step - 1 IN
          /\ \A m \in Ms : ScenOk(HashScen(n, m)) /\ PrintT("REPLAY " \o ToJson(HashScen(n, m)))
          /\ ScenOk(NoopScen(n)) /\ PrintT("REPLAY " \o ToJson(NoopScen(n)))
          /\ ScenOk(PadScen(n)) /\ PrintT("REPLAY " \o ToJson(PadScen(n)))
          /\ (n = 2 * OUT => ScenOk(TwoScen) /\ PrintT("REPLAY " \o ToJson(TwoScen)))
=============================================================================
