CONSTANTS
  RATE = 8
  WIDTH = 12
  Mutants = {{"pow_witness"}}
  EncodeMutant = "none"
  ConfigSet = "one"
INIT Init
NEXT Next
CHECK_DEADLOCK FALSE
INVARIANT FS1
