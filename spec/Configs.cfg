
