CONSTANT MaxH = 3
CONSTANT Widths = {5}
CONSTANT Mutant = "capany"
INIT Init
NEXT Next
INVARIANT Correct
CHECK_DEADLOCK FALSE
