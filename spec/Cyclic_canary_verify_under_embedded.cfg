CONSTANT MaxLen = 3
CONSTANT Mutant = "verify_under_embedded"
INIT Init
NEXT Next
INVARIANT ChainSound
INVARIANT StepProofsGood
INVARIANT CheckVDExact
INVARIANT NoAlteredAccepted
CHECK_DEADLOCK FALSE
