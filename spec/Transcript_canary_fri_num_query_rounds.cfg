CONSTANTS
  RATE = 8
  WIDTH = 12
  Disabled = {"fri.num_query_rounds"}
  UseEnvConfigs = FALSE
INIT Init
NEXT Next
CHECK_DEADLOCK FALSE
INVARIANT FS1
