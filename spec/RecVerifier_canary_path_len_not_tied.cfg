CONSTANT Instance = "starkvar"
CONSTANT Disabled = {}
CONSTANT Mutant = "path_len_not_tied"
INIT Init
NEXT Next
INVARIANT Agree
CHECK_DEADLOCK FALSE
