CONSTANT Instance = "vararith"
CONSTANT NL = 2
CONSTANT Disabled = {}
CONSTANT Mutant = "path_len_not_tied"
INIT Init
NEXT Next
INVARIANT VarOK
CHECK_DEADLOCK FALSE
