CONSTANT Mutant = "none"
INIT InitT
NEXT NextT
INVARIANT RoundTrip
INVARIANT NoMiss
INVARIANT Agree
INVARIANT ShapeOk
POSTCONDITION AllConsumed
CHECK_DEADLOCK FALSE
