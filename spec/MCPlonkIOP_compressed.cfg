CONSTANT Form = "compressed"
CONSTANT Zk = TRUE
CONSTANT Lookups = TRUE
INIT Init
NEXT Next
INVARIANT Bound
INVARIANT Emit
CHECK_DEADLOCK FALSE
