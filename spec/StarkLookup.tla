---------------------------- MODULE StarkLookup ----------------------------
(***************************************************************************)
(* logUp column lookups of starky (property C10) over a small prime field. *)
(*                                                                         *)
(* Property tier: MultisetOk - for every value v the filter-weighted       *)
(*   number of looking entries equal to v is the sum of the frequencies of *)
(*   the table rows equal to v.                                            *)
(* Implementation tier (starky/src/lookup.rs `eval_packed_lookups_generic`,*)
(*   `eval_helper_columns`, `lookup_helper_columns`): for a challenge x    *)
(*   the prover supplies one helper column per batch of DEG-1 looking      *)
(*   columns and a column Z; the constraints are, on every row r (the      *)
(*   successor of the last row is the first row):                          *)
(*     batch of two:  (f_1+x)(f_0+x) h - s_0 (f_1+x) - s_1 (f_0+x) = 0     *)
(*     batch of one:  (f_0+x) h - s_0 = 0                                  *)
(*     first row:     Z = 0                                                *)
(*     every row:     (Z' - Z)(t+x) - (sum_b h_b (t+x) - m) = 0            *)
(*   with f_i the looking expressions, s_i the filters, t / m the table /  *)
(*   frequency expressions, all read with their next-row part              *)
(*   (`eval_with_next`; the pinned tree read t and m on the current row    *)
(*   only - mutant "table_local_only" - which made declarations with a     *)
(*   next-row table or frequency column unprovable; repaired in /repo).    *)
(*   Accepts(x) = such columns exist (computed by forward propagation of   *)
(*   the set of possible Z values, so every prover choice is covered).     *)
(***************************************************************************)
EXTENDS Integers, Sequences, FiniteSets, TLC

CONSTANTS P, N, MUT

Fp == 0..(P - 1)
Add(a, b) == (a + b) % P
Sub(a, b) == (a + P - b) % P
Mul(a, b) == (a * b) % P
Norm(c) == ((c % P) + P) % P

(* column expressions [lin, next, k]: lin / next are sequences of <<column, coefficient>> *)
RECURSIVE LinSum(_, _, _)
LinSum(ps, row, i) == IF i > Len(ps) THEN 0 ELSE Add(Mul(Norm(ps[i][2]), row[ps[i][1] + 1]), LinSum(ps, row, i + 1))
\* value with the next-row part (Column::eval_with_next / eval_table); rows are 0-based, tr is 1-based
ColVal(ce, tr, r) == Add(Add(LinSum(ce.lin, tr[r + 1], 1), LinSum(ce.next, tr[((r + 1) % N) + 1], 1)), Norm(ce.k))
\* value on the current row only (Column::eval)
ColLocal(ce, tr, r) == Add(LinSum(ce.lin, tr[r + 1], 1), Norm(ce.k))
FiltVal(f, tr, r) == ColVal(f, tr, r)            \* "no filter" is the constant column 1

K(d) == Len(d.looking)
LV(d, tr, i, r) == ColVal(d.looking[i], tr, r)
SV(d, tr, i, r) == IF MUT = "ignore_filter" THEN 1 ELSE FiltVal(d.filters[i], tr, r)

(* ---- property tier -------------------------------------------------- *)
RECURSIVE SumOver(_, _)
SumOver(f, S) == IF S = {} THEN 0 ELSE LET e == CHOOSE e \in S : TRUE IN Add(f[e], SumOver(f, S \ {e}))
Entries(d) == (1..K(d)) \X (0..(N - 1))
LookW(d, tr, v) == SumOver([e \in Entries(d) |-> FiltVal(d.filters[e[1]], tr, e[2])],
                           {e \in Entries(d) : ColVal(d.looking[e[1]], tr, e[2]) = v})
TabW(d, tr, v) == SumOver([r \in 0..(N - 1) |-> ColVal(d.freq, tr, r)], {r \in 0..(N - 1) : ColVal(d.table, tr, r) = v})
MultisetOk(d, tr) == \A v \in Fp : LookW(d, tr, v) = TabW(d, tr, v)

(* ---- implementation tier -------------------------------------------- *)
Chunk(d) == IF d.deg >= 2 THEN d.deg - 1 ELSE 1          \* constraint_degree.checked_sub(1).unwrap_or(1)
NB(d) == (K(d) + Chunk(d) - 1) \div Chunk(d)
First(d, b) == (b - 1) * Chunk(d) + 1
Two(d, b) == Chunk(d) = 2 /\ First(d, b) + 1 <= K(d)
\* what the constraints read from the trace (fully evaluated once per case)
Tab(d, tr) == TLCEval([lv |-> [i \in 1..K(d) |-> [r \in 0..(N - 1) |-> LV(d, tr, i, r)]],
                       sv |-> [i \in 1..K(d) |-> [r \in 0..(N - 1) |-> SV(d, tr, i, r)]],
                       t  |-> [r \in 0..(N - 1) |-> IF MUT = "table_local_only" THEN ColLocal(d.table, tr, r)
                                                      ELSE ColVal(d.table, tr, r)],
                       m  |-> [r \in 0..(N - 1) |-> IF MUT = "no_freq" THEN 0
                                                      ELSE IF MUT = "table_local_only" THEN ColLocal(d.freq, tr, r)
                                                      ELSE ColVal(d.freq, tr, r)]])
HelperOk(d, tb, x, r, b, h) ==
  LET i0 == First(d, b) c0 == Add(tb.lv[i0][r], x) s0 == tb.sv[i0][r] IN
  IF Two(d, b)
  THEN LET c1 == Add(tb.lv[i0 + 1][r], x) s1 == tb.sv[i0 + 1][r] IN
       Sub(Sub(Mul(Mul(c1, c0), h), Mul(s0, c1)), IF MUT = "second_dropped" THEN 0 ELSE Mul(s1, c0)) = 0
  ELSE Sub(Mul(c0, h), s0) = 0
HSols(d, tb, x, r, b) == {h \in Fp : HelperOk(d, tb, x, r, b, h)}
\* the possible values of sum_b h_b on row r
RECURSIVE HSums(_, _, _, _, _)
HSums(d, tb, x, r, b) == IF b = 0 THEN {0}
                         ELSE {Add(a, h) : a \in HSums(d, tb, x, r, b - 1), h \in HSols(d, tb, x, r, b)}
TX(tb, x, r) == IF MUT = "table_no_challenge" THEN tb.t[r] ELSE Add(tb.t[r], x)
\* successors of z on row r
ZStep(tb, x, r, z, hs) ==
  {z2 \in Fp : \E s \in hs : Mul(Sub(z2, z), TX(tb, x, r)) = Sub(Mul(s, TX(tb, x, r)), tb.m[r])}
RECURSIVE ZReach(_, _, _, _)        \* possible values of Z on row r
ZReach(d, tb, x, r) ==
  IF r = 0 THEN {0}
  ELSE UNION {ZStep(tb, x, r - 1, z, HSums(d, tb, x, r - 1, NB(d))) : z \in ZReach(d, tb, x, r - 1)}
Accepts(d, tb, x) ==
  IF MUT = "z_transition_only" THEN ZReach(d, tb, x, N - 1) # {}
  ELSE \E z \in ZReach(d, tb, x, N - 1) : 0 \in ZStep(tb, x, N - 1, z, HSums(d, tb, x, N - 1, NB(d)))

Degenerate(d, tb, x) ==
  \/ \E e \in Entries(d) : Add(tb.lv[e[1]][e[2]], x) = 0
  \/ \E r \in 0..(N - 1) : Add(tb.t[r], x) = 0
\* for a non-degenerate challenge the witness is unique: every helper and Z cell is determined
UniqueWitness(d, tb, x) ==
  /\ \A r \in 0..(N - 1), b \in 1..NB(d) : Cardinality(HSols(d, tb, x, r, b)) = 1
  /\ \A r \in 0..(N - 1) : Cardinality(ZReach(d, tb, x, r)) <= 1

(* ---- layout of the auxiliary (helper / Z) columns of a STARK with several lookups --------- *)
(* nh[l] = Lookup::num_helper_columns of lookup l (helper batches + the Z column), C = num_challenges.   *)
(* Both sides are transcribed as the loops of the code: the position at which the block of               *)
(* (lookup l, challenge c) starts is what the loop counter holds when the iteration (l, c) begins.       *)
RECURSIVE SumNh(_, _)
SumNh(nh, k) == IF k = 0 THEN 0 ELSE nh[k] + SumNh(nh, k - 1)
\* prover.rs `prove_with_commitment`:
\*   for lookup in &lookups { for &challenge in challenges { columns.extend(lookup_helper_columns(..)) } }
\* (mutant "prover_challenge_major": the two loops exchanged)
RECURSIVE ProverStart(_, _, _, _)
ProverStart(nh, C, l, c) ==
  IF MUT = "prover_challenge_major"
  THEN IF l = 1 /\ c = 1 THEN 0
       ELSE IF l > 1 THEN ProverStart(nh, C, l - 1, c) + nh[l - 1]
       ELSE ProverStart(nh, C, Len(nh), c - 1) + nh[Len(nh)]
  ELSE IF l = 1 /\ c = 1 THEN 0
       ELSE IF c > 1 THEN ProverStart(nh, C, l, c - 1) + nh[l]
       ELSE ProverStart(nh, C, l - 1, C) + nh[l - 1]
\* lookup.rs `eval_packed_lookups_generic` (and `eval_ext_lookups_circuit`):
\*   start = 0; for lookup in lookups { for &challenge in challenges { helpers = [start, start+nh-1), z = start+nh-1; start += nh } }
RECURSIVE EvalStart(_, _, _, _)
EvalStart(nh, C, l, c) ==
  IF l = 1 /\ c = 1 THEN 0
  ELSE IF c > 1 THEN EvalStart(nh, C, l, c - 1) + nh[l]
  ELSE EvalStart(nh, C, l - 1, C) + nh[l - 1]
\* column index of auxiliary column h (1..nh[l]; the last one is Z) of (lookup l, challenge c)
ProverIndex(nh, C, l, c, h) == ProverStart(nh, C, l, c) + h - 1
EvalIndex(nh, C, l, c, h) == EvalStart(nh, C, l, c) + h - 1
Slots(nh, C) == {lch \in (1..Len(nh)) \X (1..C) \X (1..4) : lch[3] <= nh[lch[1]]}
\* the evaluator reads, for every (lookup, challenge, helper), the column the prover wrote for it; the columns
\* are exactly 0 .. num_lookup_helper_columns - 1 (= C * sum nh), each used once
LayoutEq(nh, C) ==
  /\ \A x \in Slots(nh, C) : ProverIndex(nh, C, x[1], x[2], x[3]) = EvalIndex(nh, C, x[1], x[2], x[3])
  /\ {EvalIndex(nh, C, x[1], x[2], x[3]) : x \in Slots(nh, C)} = 0..(C * SumNh(nh, Len(nh)) - 1)
  /\ Cardinality(Slots(nh, C)) = C * SumNh(nh, Len(nh))
=============================================================================
