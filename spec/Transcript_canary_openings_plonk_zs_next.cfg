CONSTANTS
  RATE = 8
  WIDTH = 12
  Disabled = {"openings.plonk_zs_next"}
  UseEnvConfigs = FALSE
INIT Init
NEXT Next
CHECK_DEADLOCK FALSE
INVARIANT FS1
