---------------------------- MODULE MCFriCompress ----------------------------
(***************************************************************************)
(* TLC wrapper of FriCompress (C16): all query tuples of length <= MaxLen  *)
(* over LDE sizes 2^n (n \in Ns), the arity schedules Schedules, cap       *)
(* heights 0..MaxCap (kept when every commit-phase tree is at least as     *)
(* high as the cap).  Two-level fan-out: a group state per (n, schedule,   *)
(* capH, length), whose successors are the query tuples.  Every finished   *)
(* behaviour is printed as a REPLAY line: the tuple, its collision classes *)
(* and the shape of the compressed proof (keys of the de-duplicated maps,  *)
(* which query supplied an entry, which coset position was removed) - the  *)
(* harness replays it on the real FriProof::compress.                      *)
(***************************************************************************)
EXTENDS FriCompress

CONSTANTS Ns, Schedules, MaxCap, MaxLen

AllSchedules == {<<1>>, <<2>>, <<1, 1>>, <<2, 1>>, <<1, 2>>, <<3>>}
TwoSchedules == {<<1, 1>>, <<2>>}
Admissible(n, ar, capH) == n - SumTo(ar, Len(ar)) >= capH
Groups ==
  UNION {UNION {UNION {
     {[n |-> n, ar |-> ar, capH |-> c, q |-> <<>>, len |-> l] : l \in 1..MaxLen}
     : c \in {c \in 0..MaxCap : Admissible(n, ar, c)}} : ar \in Schedules} : n \in Ns}

InitG == /\ sc \in Groups
         /\ pc = "group" /\ k = 1
         /\ tI = [t \in 1..T |-> EmptyLists] /\ tS = [j \in 1..Len(sc.ar) |-> EmptySteps]
         /\ mI = <<>> /\ mS = [j \in 1..Len(sc.ar) |-> <<>>]
         /\ inferred = <<>> /\ pSeen = [j \in 1..Len(sc.ar) |-> {}] /\ ptr = 1
         /\ byDepth = [j \in 1..Len(sc.ar) |-> <<>>]
         /\ dI = [t \in 1..T |-> EmptyLists] /\ dS = [j \in 1..Len(sc.ar) |-> EmptySteps]
         /\ res = <<>> /\ miss = FALSE
Pick == /\ pc = "group"
        /\ \E q \in [1..sc.len -> 0..(Pow2(sc.n) - 1)] : sc' = [sc EXCEPT !.q = q]
        /\ pc' = "transpose"
        /\ UNCHANGED <<k, tI, tS, mI, mS, inferred, pSeen, ptr, byDepth, dI, dS, res, miss>>
Next == Pick \/ Step

Emit == pc = "done" =>
  PrintT("REPLAY " \o ToJson(
     [n |-> sc.n, ar |-> sc.ar, capH |-> sc.capH, q |-> sc.q,
      rep |-> Repeated, share |-> [j \in 1..R |-> SharedAt(j)],
      init |-> [a \in 1..NQ |-> mI[sc.q[a]].src],
      steps |-> [j \in 1..R |-> [a \in 1..NQ |->
                   [c |-> Coset(sc.q[a], j), src |-> mS[j][Coset(sc.q[a], j)].src,
                    pos |-> Within(sc.q[mS[j][Coset(sc.q[a], j)].src], j)]]],
      ninferred |-> Len(inferred)]))
=============================================================================
