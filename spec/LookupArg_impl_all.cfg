CONSTANT P = 13
CONSTANT NS = 2
CONSTANT InitOn = "all"
CONSTANT Disabled = "none"
CONSTANT MaxLen = 2
CONSTANT OutVals = {0, 1}
CONSTANT Vals = {0, 1, 2}
CONSTANT LuRows = {1, 2}
CONSTANT Mode = "single"
INIT Init
NEXT Next
INVARIANT Complete
INVARIANT Sound
INVARIANT PropSound
INVARIANT PolesFew
INVARIANT TblLkOnlyRE
CHECK_DEADLOCK FALSE
