CONSTANT HSet = {2}
CONSTANT Mutant = "rmem"
INIT Init
NEXT Next
INVARIANT NoDoubleWrite
INVARIANT InitAtEnd
INVARIANT CapRight
INVARIANT ProveRight
INVARIANT LayoutRight

CHECK_DEADLOCK FALSE
