------------------------------- MODULE Cyclic -------------------------------
(***************************************************************************)
(* C20 - cyclic recursion (recursion/cyclic_recursion.rs, dummy_circuit.rs, *)
(* circuit_builder.rs add_verifier_data_public_inputs).                    *)
(*                                                                         *)
(* One cyclic circuit (counter style): public inputs = start value,        *)
(* counter, and the circuit's OWN verifier data (digest, cap).  A step     *)
(* takes a condition and an inner proof:                                   *)
(*   cond = FALSE  base case: the inner slot holds `cyclic_base_proof` (a   *)
(*                 dummy proof carrying the own verifier data), the dummy   *)
(*                 pair is verified, counter' = inc;                        *)
(*   cond = TRUE   the inner proof is verified under the OWN verifier data  *)
(*                 and its embedded verifier data is connected to the own   *)
(*                 one, counter' = inner counter + inc.                     *)
(* Outside the circuit `check_cyclic_proof_verifier_data` compares the      *)
(* embedded data of a proof with the real data.                             *)
(*                                                                         *)
(* The model keeps the LATEST proof: its counter, its embedded data         *)
(* (digest, cap: own | alt), whether it verifies under the own circuit.     *)
(* Histories over {StepBase, StepRec, TamperDigest, TamperCap, Foreign} of  *)
(* length <= MaxLen; after every action the expected observables            *)
(* (step outcome, verify, check_vd, counter) are recorded for the replay.   *)
(*                                                                         *)
(* Property level: every proof a step yields verifies and carries the own   *)
(* verifier data and the right counter; CheckVD rejects iff the embedded    *)
(* data differ; a step never succeeds on an inner proof that is not a       *)
(* chain proof of this circuit.                                             *)
(* The circuit cannot constrain its verifier-data public inputs to be the   *)
(* true data (they are not known before it is built): a prover may run the  *)
(* base case with data that differ from the real ones in EXACTLY ONE        *)
(* component - only the digest, or only one cap element (BadBaseDigest,     *)
(* BadBaseCap).  Such a link is an otherwise honest proof: it verifies as a *)
(* plain proof; only CheckVD tells it apart, and a recursive step on it     *)
(* must fail because the inner proof's embedded data (digest AND cap) are   *)
(* connected to the step's own.                                             *)
(* Mutants: CheckVD compares only the digest; the step connects only the    *)
(* digest of the embedded data; the step verifies the inner proof under the *)
(* data the proof itself carries instead of the own data (then a foreign    *)
(* circuit's valid proof would extend the chain).                           *)
(***************************************************************************)
EXTENDS Naturals, Sequences, FiniteSets, TLC, Json

CONSTANTS MaxLen, Mutant     \* Mutant: "none" | "checkvd_digest_only" | "step_ties_digest_only" | "verify_under_embedded"

NoProof == [n |-> 0, digest |-> "none", cap |-> "none", ok |-> FALSE, underAlt |-> FALSE]
Actions == {"StepBase", "StepRec", "TamperDigest", "TamperCap", "Foreign", "BadBaseDigest", "BadBaseCap"}

VARIABLES latest,     \* the proof in hand
          h,          \* history: sequence of [act, expect]
          chainOK     \* every proof produced by a successful step was a proper chain proof
vars == <<latest, h, chainOK>>

Own(p) == p.digest = "own" /\ p.cap = "own"
\* check_cyclic_proof_verifier_data(proof, own data): Ok iff both fields equal
CheckVD(p) == IF Mutant = "checkvd_digest_only" THEN p.digest = "own" ELSE Own(p)
\* the in-circuit step with cond = TRUE: verify the inner proof (under the own data) and connect its embedded data
InnerAccepted(p) ==
  IF Mutant = "verify_under_embedded"
  THEN p.ok \/ p.underAlt                       \* verifies under whatever data the proof itself carries
  ELSE IF Mutant = "step_ties_digest_only"
  THEN p.ok /\ p.digest = "own"                 \* connect_hashes without connect_merkle_caps
  ELSE p.ok /\ Own(p)
Obs(p, stepok) == [step |-> stepok, verify |-> p.ok, check_vd |-> CheckVD(p), counter |-> p.n, embedded_own |-> Own(p)]

Do(a) ==
  CASE a = "StepBase" ->
         LET q == [n |-> 1, digest |-> "own", cap |-> "own", ok |-> TRUE, underAlt |-> FALSE]
         IN /\ latest' = q /\ h' = Append(h, [act |-> a, expect |-> Obs(q, "ok")])
            /\ chainOK' = chainOK
    [] a = "StepRec" ->
         IF latest.n > 0 /\ InnerAccepted(latest)
         THEN LET q == [n |-> latest.n + 1, digest |-> "own", cap |-> "own", ok |-> TRUE, underAlt |-> FALSE]
              IN /\ latest' = q /\ h' = Append(h, [act |-> a, expect |-> Obs(q, "ok")])
                 /\ chainOK' = (chainOK /\ latest.ok /\ Own(latest))
         ELSE /\ UNCHANGED latest /\ h' = Append(h, [act |-> a, expect |-> Obs(latest, "rejected")])
              /\ chainOK' = chainOK
    [] a \in {"TamperDigest", "TamperCap"} ->
         \* the embedded data sit in the public inputs: altering them invalidates the proof as well
         LET q == [latest EXCEPT !.ok = FALSE, !.underAlt = FALSE,
                                 !.digest = IF a = "TamperDigest" THEN "alt" ELSE @,
                                 !.cap = IF a = "TamperCap" THEN "alt" ELSE @]
         IN /\ latest' = q /\ h' = Append(h, [act |-> a, expect |-> Obs(q, "n/a")]) /\ chainOK' = chainOK
    [] a \in {"BadBaseDigest", "BadBaseCap"} ->
         \* base case run with verifier data differing in exactly one component: an otherwise honest, verifying proof
         LET q == [n |-> 1, digest |-> IF a = "BadBaseDigest" THEN "alt" ELSE "own",
                   cap |-> IF a = "BadBaseCap" THEN "alt" ELSE "own", ok |-> TRUE, underAlt |-> FALSE]
         IN /\ latest' = q /\ h' = Append(h, [act |-> a, expect |-> Obs(q, "bad-link")]) /\ chainOK' = chainOK
    [] a = "Foreign" ->
         \* a valid chain proof of ANOTHER cyclic circuit with the same common data (same counter so far)
         LET q == [n |-> latest.n, digest |-> "alt", cap |-> "alt", ok |-> FALSE, underAlt |-> TRUE]
         IN /\ latest' = q /\ h' = Append(h, [act |-> a, expect |-> Obs(q, "n/a")]) /\ chainOK' = chainOK

Enabled(a) == a \in {"StepBase", "BadBaseDigest", "BadBaseCap"} \/ latest.n > 0
Init == latest = NoProof /\ h = <<>> /\ chainOK = TRUE
Next == /\ Len(h) < MaxLen
        /\ \E a \in Actions : Enabled(a) /\ Do(a)

\* ---- obligations ------------------------------------------------------------------------
\* a successful recursive step only ever consumed a verifying proof carrying the own verifier data
ChainSound == chainOK
\* every proof a step yields verifies, carries the own data, and counts the successful steps since the base case
StepProofsGood == \A i \in 1..Len(h) : h[i].expect.step = "ok" =>
                     h[i].expect.verify /\ h[i].expect.embedded_own /\ h[i].expect.check_vd
\* the verifier-data check rejects exactly the proofs whose embedded data differ
CheckVDExact == \A i \in 1..Len(h) : h[i].expect.check_vd <=> h[i].expect.embedded_own
\* no proof with altered embedded data is both verifying and passing the check
NoAlteredAccepted == \A i \in 1..Len(h) : ~h[i].expect.embedded_own => ~(h[i].expect.verify /\ h[i].expect.check_vd)

Emit == (Len(h) = MaxLen) => PrintT("REPLAY " \o ToJson([history |-> h]))
=============================================================================
