CONSTANT P = 5
CONSTANT ALPHA = 3
CONSTANT GEN = 2
CONSTANT DropKind = "poseidon"
CONSTANT DropIdx = 3
CONSTANT Cases <- CasesPoseidon
CONSTANT Sel = {}
INIT InitRows
NEXT NextRows
INVARIANT Satisfied
INVARIANT PinnedInv
INVARIANT CountInv
INVARIANT LayoutInv
INVARIANT UniqueInv
CHECK_DEADLOCK FALSE
