CONSTANT P = 17
CONSTANT G = 3
CONSTANT LOGN = 3
CONSTANT RB = 1
CONSTANT AR <- AR_11
CONSTANT Alphas <- AllFp
CONSTANT Betas <- AllFp
CONSTANT Disabled = {}
CONSTANT Polys2 <- F17_Polys2
CONSTANT Bats2 <- F17_Bats2
CONSTANT Enter = 1
CONSTANT PolySets <- F17_Polys
CONSTANT BatSets <- F17_Bats
CONSTANT Orc <- Orc_112
CONSTANT Deltas <- F17_Deltas
CONSTANT Mode = "small"
INIT Init
NEXT Next
INVARIANT TypeOK
INVARIANT Completeness
INVARIANT Soundness
INVARIANT OnlyFinalNotices
INVARIANT Emit
CHECK_DEADLOCK FALSE
