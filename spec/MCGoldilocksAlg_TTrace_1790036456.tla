---- MODULE MCGoldilocksAlg_TTrace_1790036456 ----
EXTENDS Sequences, TLCExt, Toolbox, MCGoldilocksAlg, Naturals, TLC

_expression ==
    LET MCGoldilocksAlg_TEExpression == INSTANCE MCGoldilocksAlg_TEExpression
    IN MCGoldilocksAlg_TEExpression!expression
----

_trace ==
    LET MCGoldilocksAlg_TETrace == INSTANCE MCGoldilocksAlg_TETrace
    IN MCGoldilocksAlg_TETrace!trace
----

_inv ==
    ~(
        TLCGet("level") = Len(_TETrace)
        /\
        a = (2)
        /\
        res = ([r |-> 63, ok |-> TRUE, path |-> 0])
        /\
        op = ("mac")
        /\
        b = (30)
    )
----

_init ==
    /\ a = _TETrace[1].a
    /\ b = _TETrace[1].b
    /\ res = _TETrace[1].res
    /\ op = _TETrace[1].op
----

_next ==
    /\ \E i,j \in DOMAIN _TETrace:
        /\ \/ /\ j = i + 1
              /\ i = TLCGet("level")
        /\ a  = _TETrace[i].a
        /\ a' = _TETrace[j].a
        /\ b  = _TETrace[i].b
        /\ b' = _TETrace[j].b
        /\ res  = _TETrace[i].res
        /\ res' = _TETrace[j].res
        /\ op  = _TETrace[i].op
        /\ op' = _TETrace[j].op

\* Uncomment the ASSUME below to write the states of the error trace
\* to the given file in Json format. Note that you can pass any tuple
\* to `JsonSerialize`. For example, a sub-sequence of _TETrace.
    \* ASSUME
    \*     LET J == INSTANCE Json
    \*         IN J!JsonSerialize("MCGoldilocksAlg_TTrace_1790036456.json", _TETrace)

=============================================================================

 Note that you can extract this module `MCGoldilocksAlg_TEExpression`
  to a dedicated file to reuse `expression` (the module in the 
  dedicated `MCGoldilocksAlg_TEExpression.tla` file takes precedence 
  over the module `MCGoldilocksAlg_TEExpression` below).

---- MODULE MCGoldilocksAlg_TEExpression ----
EXTENDS Sequences, TLCExt, Toolbox, MCGoldilocksAlg, Naturals, TLC

expression == 
    [
        \* To hide variables of the `MCGoldilocksAlg` spec from the error trace,
        \* remove the variables below.  The trace will be written in the order
        \* of the fields of this record.
        a |-> a
        ,b |-> b
        ,res |-> res
        ,op |-> op
        
        \* Put additional constant-, state-, and action-level expressions here:
        \* ,_stateNumber |-> _TEPosition
        \* ,_aUnchanged |-> a = a'
        
        \* Format the `a` variable as Json value.
        \* ,_aJson |->
        \*     LET J == INSTANCE Json
        \*     IN J!ToJson(a)
        
        \* Lastly, you may build expressions over arbitrary sets of states by
        \* leveraging the _TETrace operator.  For example, this is how to
        \* count the number of times a spec variable changed up to the current
        \* state in the trace.
        \* ,_aModCount |->
        \*     LET F[s \in DOMAIN _TETrace] ==
        \*         IF s = 1 THEN 0
        \*         ELSE IF _TETrace[s].a # _TETrace[s-1].a
        \*             THEN 1 + F[s-1] ELSE F[s-1]
        \*     IN F[_TEPosition - 1]
    ]

=============================================================================



Parsing and semantic processing can take forever if the trace below is long.
 In this case, it is advised to uncomment the module below to deserialize the
 trace from a generated binary file.

\*
\*---- MODULE MCGoldilocksAlg_TETrace ----
\*EXTENDS IOUtils, MCGoldilocksAlg, TLC
\*
\*trace == IODeserialize("MCGoldilocksAlg_TTrace_1790036456.bin", TRUE)
\*
\*=============================================================================
\*

---- MODULE MCGoldilocksAlg_TETrace ----
EXTENDS MCGoldilocksAlg, TLC

trace == 
    <<
    ([a |-> 2,res |-> [r |-> 0, ok |-> TRUE, path |-> 0],op |-> "init",b |-> 0]),
    ([a |-> 2,res |-> [r |-> 63, ok |-> TRUE, path |-> 0],op |-> "mac",b |-> 30])
    >>
----


=============================================================================

---- CONFIG MCGoldilocksAlg_TTrace_1790036456 ----
CONSTANTS
    K = 3
    Disabled = "red128_borrow"

INVARIANT
    _inv

CHECK_DEADLOCK
    \* CHECK_DEADLOCK off because of PROPERTY or INVARIANT above.
    FALSE

INIT
    _init

NEXT
    _next

CONSTANT
    _TETrace <- _trace

ALIAS
    _expression
=============================================================================
\* Generated on Tue Sep 22 00:20:57 UTC 2026