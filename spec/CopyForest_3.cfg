CONSTANT MaxConnects = 3
CONSTANT Ordered = FALSE
CONSTANT Mutant = "none"
INIT Init
NEXT Next
INVARIANT ForestIsClosure
INVARIANT RepIsFixedPoint
INVARIANT SigmaIsPermutation
INVARIANT OneCyclePerClass
INVARIANT Emit
CHECK_DEADLOCK FALSE
