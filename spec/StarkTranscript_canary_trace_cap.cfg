CONSTANTS
  RATE = 8
  WIDTH = 12
  Mutants = {{"trace_cap"}}
  ConfigSet = "one"
INIT Init
NEXT Next
CHECK_DEADLOCK FALSE
INVARIANT FS1
