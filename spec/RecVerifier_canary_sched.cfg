CONSTANT Instance = "plonk"
CONSTANT NL = 2
CONSTANT Disabled = {}
CONSTANT Mutant = "circuit_skips_final_poly"
INIT Init
NEXT Next
INVARIANT FS3
CHECK_DEADLOCK FALSE
