---------------------------- MODULE Determinism ----------------------------
(***************************************************************************)
(* C19: keys, deterministic intermediates and verdicts do not depend on    *)
(* the iteration order of hash containers, on the task schedule, on the    *)
(* number of worker threads.  The model has the three sources of           *)
(* nondeterminism of the pinned code and what the code does with each:     *)
(*                                                                         *)
(* (1) hash containers of CircuitBuilder::build (plonk/circuit_builder.rs, *)
(*     plonk/permutation_argument.rs) - each ITERATION is an arbitrary     *)
(*     permutation (the order depends on the compile-time hash seed):      *)
(*       gates : HashSet        -> Vec, sort_unstable_by_key((degree,id))  *)
(*                                 -> selector groups, constant columns    *)
(*       constants_to_targets   -> into_iter, sorted_by_key(value), zipped *)
(*                                 with the constant slots (creation order)*)
(*       wire partition HashMap -> into_values: classes in arbitrary order,*)
(*                                 wires inside a class in row-major       *)
(*                                 insertion order; get_sigma_map inserts  *)
(*                                 neighbour pairs with DISJOINT keys      *)
(*       current_slots          -> values().flat_map().collect() into a    *)
(*                                 map with unique keys (one row per slot),*)
(*                                 afterwards only probed                  *)
(*     (base_arithmetic_results, arithmetic_results, targets_to_constants  *)
(*     and the prover's table_value_to_idx are only probed, never          *)
(*     iterated; generator_indices_by_watches is a BTreeMap.)              *)
(* (2) par_iter().map().collect() / join: tasks finish in any order but    *)
(*     write to their own index (Merkle digests, FFT columns, sigma        *)
(*     chunks, query rounds).                                              *)
(* (3) grinding (fri/prover.rs, find_any): returns ANY candidate with      *)
(*     enough leading zeros - the smallest one with a single worker.  The  *)
(*     witness is absorbed, so everything after it in the transcript       *)
(*     (query indices, query rounds) is a function of it.                  *)
(*                                                                         *)
(* Obligations: every key-relevant output and every deterministic          *)
(* intermediate equals the one of the canonical run; the proof differs     *)
(* from the canonical proof at most in the grinding witness and what       *)
(* depends on it; the verdict never changes.  Each Mutant removes one of   *)
(* the things that make this true.                                         *)
(***************************************************************************)
EXTENDS Integers, Sequences, FiniteSets, SequencesExt, TLC, Json

CONSTANTS Mutant,          \* "none" or one of Mutants
          Threads,         \* thread counts of the scenario catalogue
          Flavours,        \* build flavours of the catalogue
          FlavourThreads   \* thread counts under which the non-release flavours run

Mutants == {"none", "gates_unsorted", "gates_by_degree_only", "constants_unsorted", "sigma_uses_class_position",
            "collect_in_completion_order", "key_uses_pow_witness", "verifier_wants_smallest_witness"}
ASSUME Mutant \in Mutants

\* ---- a small circuit under construction -----------------------------------------------------------
\* two gate types share a degree: the id in the sort key is what makes the order total
Gates == { [id |-> "ArithmeticGate", deg |-> 3], [id |-> "ConstantGate", deg |-> 1], [id |-> "NoopGate", deg |-> 0],
           [id |-> "PublicInputGate", deg |-> 1] }
ConstVals == {0, 1, 5}                              \* keys of constants_to_targets
ConstSlots == <<"row0.c0", "row0.c1", "row3.c0">>   \* constant_generators, creation order
Wires == 1..6                                       \* routed wires in row-major numbering
Classes == { {1, 4}, {2}, {3, 5, 6} }               \* the disjoint-set forest's partition
OpenSlots == { [row |-> 2, used |-> 1], [row |-> 5, used |-> 3] }    \* current_slots values: unique rows

Perms(S) == {s \in [1..Cardinality(S) -> S] : \A a, b \in 1..Cardinality(S) : s[a] = s[b] => a = b}
StrLess(a, b) == \* order of the four ids (TLC has no string order): by their rank in this list
  LET R == [x \in {"ArithmeticGate", "ConstantGate", "NoopGate", "PublicInputGate"} |->
              CASE x = "ArithmeticGate" -> 1 [] x = "ConstantGate" -> 2 [] x = "NoopGate" -> 3 [] OTHER -> 4]
  IN R[a] < R[b]

IntLess(a, b) == a < b
\* ---- what the code does with each iteration -------------------------------------------------------
GateKeyLess(a, b) == a.deg < b.deg \/ (a.deg = b.deg /\ StrLess(a.id, b.id))
\* sort_unstable_by_key on the degree alone leaves ties in iteration order (one of the orders it may produce)
GateDegLess(a, b) == a.deg < b.deg
SortedGates(gOrd) == CASE Mutant = "gates_unsorted" -> gOrd
                       [] Mutant = "gates_by_degree_only" -> SortSeq(gOrd, GateDegLess)
                       [] OTHER -> SortSeq(gOrd, GateKeyLess)
\* selector index of each gate = its position in the sorted list (selectors.rs groups consecutive gates)
SelectorOf(gs) == [k \in 1..Len(gs) |-> gs[k].id]
ConstAssign(cOrd) == LET srt == IF Mutant = "constants_unsorted" THEN cOrd ELSE SortSeq(cOrd, IntLess)
                     IN [k \in 1..Len(srt) |-> [slot |-> ConstSlots[k], value |-> srt[k]]]
\* neighbour of a wire = the next wire of its class in insertion (ascending) order, cyclically
Ascending(c) == SortSeq(SetToSeq(c), IntLess)
NeighbourPairs(c) == LET a == Ascending(c) IN {<<a[k], a[(k % Len(a)) + 1]>> : k \in 1..Len(a)}
RECURSIVE SigmaFrom(_, _, _)
SigmaFrom(pOrd, k, acc) ==
  IF k > Len(pOrd) THEN acc
  ELSE LET pairs == IF Mutant = "sigma_uses_class_position"
                    THEN {<<p[1], (p[2] + k) % 7>> : p \in NeighbourPairs(pOrd[k])}     \* position leaks into sigma
                    ELSE NeighbourPairs(pOrd[k])
       IN SigmaFrom(pOrd, k + 1, acc \cup pairs)
Sigma(pOrd) == SigmaFrom(pOrd, 1, {})
RECURSIVE CollectSlots(_, _, _)
CollectSlots(sOrd, k, acc) == IF k > Len(sOrd) THEN acc
                              ELSE CollectSlots(sOrd, k + 1, acc \cup {<<sOrd[k].row, sOrd[k].used>>})

\* ---- parallel map: three tasks, indexed slots ---------------------------------------------------
NTasks == 3
TaskResult(t) == 10 * t + 7                        \* any function of the task's own input
\* ---- grinding ----------------------------------------------------------------------------------
Candidates == 0..7
Satisfying == {2, 5, 6}                             \* candidates whose response has enough leading zeros
Smallest == CHOOSE x \in Satisfying : \A y \in Satisfying : x <= y

\* for the schedule only "one worker" vs "several" matters
ModelThreads == {t \in Threads : t = 1} \cup (IF \E t \in Threads : t > 1 THEN {CHOOSE t \in Threads : t > 1} ELSE {})
\* res = the observables of the finished run (computed once, when grinding ends)
VARIABLES phase, gOrd, cOrd, pOrd, sOrd, pending, out, log, nthreads, wit, res
vars == <<phase, gOrd, cOrd, pOrd, sOrd, pending, out, log, nthreads, wit, res>>

Init == /\ phase = "par"
        /\ gOrd \in Perms(Gates) /\ cOrd \in Perms(ConstVals) /\ pOrd \in Perms(Classes) /\ sOrd \in Perms(OpenSlots)
        /\ pending = 1..NTasks /\ out = [t \in 1..NTasks |-> -1] /\ log = <<>>
        /\ nthreads \in ModelThreads
        /\ wit = -1 /\ res = <<>>

\* ---- observables ---------------------------------------------------------------------------------
Collected == IF Mutant = "collect_in_completion_order" THEN log ELSE out
Key(g, c, p, w) == [gates |-> SelectorOf(SortedGates(g)), constants |-> ConstAssign(c), sigma |-> Sigma(p),
                    grind |-> IF Mutant = "key_uses_pow_witness" THEN w ELSE 0]
Intermediates(s, col) == [incomplete_gates |-> CollectSlots(s, 1, {}), columns |-> col]
\* the proof: a deterministic prefix, the witness, and a suffix that is a function of both
Prefix(k, col) == <<"commitments", k.gates, col>>
Suffix(pre, w) == <<"queries", w * 31 % 8>>
Proof(k, col, w) == [prefix |-> Prefix(k, col), pow |-> w, suffix |-> Suffix(Prefix(k, col), w)]
Verify(k, pf) == /\ pf.prefix[2] = k.gates
                 /\ pf.pow \in Satisfying
                 /\ (Mutant = "verifier_wants_smallest_witness" => pf.pow = Smallest)
                 /\ pf.suffix = Suffix(pf.prefix, pf.pow)

Observe(w) == LET k == Key(gOrd, cOrd, pOrd, w)
              IN [key |-> k, inter |-> Intermediates(sOrd, Collected), proof |-> Proof(k, Collected, w)]

\* a task finishes (any order when there are several workers; in order with one)
Finish(t) == /\ phase = "par" /\ t \in pending
             /\ (nthreads = 1 => \A u \in pending : t <= u)
             /\ pending' = pending \ {t}
             /\ out' = [out EXCEPT ![t] = TaskResult(t)]
             /\ log' = IF Mutant = "collect_in_completion_order" THEN Append(log, TaskResult(t)) ELSE log
             /\ phase' = IF pending' = {} THEN "grind" ELSE "par"
             /\ UNCHANGED <<gOrd, cOrd, pOrd, sOrd, nthreads, wit, res>>
\* find_any: the smallest satisfying candidate with one worker, any satisfying candidate otherwise
Grind(w) == /\ phase = "grind" /\ w \in Satisfying
            /\ (nthreads = 1 => w = Smallest)
            /\ wit' = w /\ phase' = "done"
            /\ res' = Observe(w)
            /\ UNCHANGED <<gOrd, cOrd, pOrd, sOrd, pending, out, log, nthreads>>
Next == (\E t \in 1..NTasks : Finish(t)) \/ (\E w \in Candidates : Grind(w))
Spec == Init /\ [][Next]_vars

\* the canonical run: some fixed iteration orders, tasks in order, smallest witness
Canon(S) == CHOOSE s \in Perms(S) : TRUE
RefKey == Key(Canon(Gates), Canon(ConstVals), Canon(Classes), Smallest)
RefCols == [t \in 1..NTasks |-> TaskResult(t)]
RefInter == Intermediates(Canon(OpenSlots), RefCols)
RefProof == Proof(RefKey, RefCols, Smallest)

Done == phase = "done"
KeyIndependent == Done => res.key = RefKey
IntermediatesIndependent == Done => res.inter = RefInter
OnlyGrindingDiffers == Done => /\ res.proof.prefix = RefProof.prefix
                               /\ (wit = RefProof.pow => res.proof = RefProof)
\* a proof produced under any condition is accepted under any other: the verifying side has the canonical key
VerdictIndependent == Done => /\ Verify(RefKey, res.proof)
                              /\ Verify(res.key, RefProof)
TypeOK == /\ phase \in {"par", "grind", "done"} /\ pending \subseteq 1..NTasks
          /\ (Done => wit \in Satisfying)

\* ---- the scenario catalogue: conditions x artefacts that the harness compares ---------------------
Conditions == {[flavour |-> "release", threads |-> t] : t \in Threads}
              \cup {[flavour |-> f, threads |-> t] : f \in Flavours \ {"release"}, t \in FlavourThreads}
Artefacts == { [name |-> "verifier_only", class |-> "key"], [name |-> "common", class |-> "key"],
               [name |-> "circuit_digest", class |-> "key"], [name |-> "gate_order", class |-> "key"],
               [name |-> "prover_only", class |-> "intermediate"],
               [name |-> "merkle_caps", class |-> "intermediate"], [name |-> "fft", class |-> "intermediate"],
               [name |-> "lde", class |-> "intermediate"], [name |-> "poly_batch", class |-> "intermediate"],
               [name |-> "hashing", class |-> "intermediate"], [name |-> "field_batch", class |-> "intermediate"],
               [name |-> "stark_transcript", class |-> "intermediate"],
               [name |-> "stark_pow_witness", class |-> "schedule_dependent"],
               [name |-> "proof", class |-> "cross_verify"] }
ASSUME PrintT("CATALOGUE " \o ToJson([conditions |-> Conditions, artefacts |-> Artefacts]))
=============================================================================
