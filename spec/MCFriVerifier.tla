--------------------------- MODULE MCFriVerifier ---------------------------
(* TLC wrapper of FriVerifier: the scenario catalogue (instances x deviations), *)
(* exhaustive over all challenges and query positions; one REPLAY line per      *)
(* (scenario, alpha, beta_1..beta_{NL-1}) with the acceptance counts over all    *)
(* beta_NL and positions.                                                        *)
EXTENDS FriVerifier, Json

CONSTANTS Polys2,        \* batched variant: polynomials of the second instance (<<>> = not batched)
          Bats2, Enter,  \* its opening structure and the reduction after which it joins
          PolySets,      \* sequence of instances: each a sequence of NP coefficient sequences (length 2^DB)
          BatSets,       \* sequence of opening structures: each a sequence of [z, idx]
          Orc,           \* oracle of each polynomial
          Deltas,        \* non-zero field elements used as edit sizes
          Mode           \* "full" | "small" (canary: one instance, first delta only)

Dev(k, l, t, j, d) == [k |-> k, l |-> l, t |-> t, j |-> j, d |-> d]
n == 2 ^ DB
Layers == 0..(NL - 1)
NPolys == Len(Orc)
SomePos(l) == {0, LSize(l) - 1, (LSize(l) \div 2) + 1}           \* a few flat indices of layer l
Extend(p, deg, top) == [k \in 1..(deg + 1) |-> IF k <= Len(p) THEN p[k] ELSE IF k = deg + 1 THEN top ELSE 0]

DevsFor(ds) ==
     {Dev("honest", 0, 0, 0, 0), Dev("pow_bad", 0, 0, 0, 0), Dev("drop_round", 0, 0, 0, 0)}
  \cup {Dev("layer_delta", l, 0, 0, d) : l \in Layers, d \in ds}
  \cup {Dev("layer_replace", l, 0, 0, d) : l \in Layers, d \in ds}
  \cup {Dev("final_delta", 0, t, 0, d) : t \in 0..(FL - 1), d \in ds}
  \cup {Dev("final_edit", 0, t, 0, d) : t \in 0..(FL - 1), d \in ds}
  \cup {Dev("claim_edit", 1, 0, j, d) : j \in 1..NPolys, d \in ds}
  \cup {Dev("claim_adaptive", 1, 0, j, d) : j \in {1, NPolys}, d \in ds}
  \cup {Dev("leaf_edit", 0, t, j, d) : t \in SomePos(0), j \in {2, 3}, d \in ds}
  \cup {Dev("leaf_recommit", 0, t, j, d) : t \in SomePos(0), j \in {2, 3}, d \in ds}
  \cup {Dev("leaf_kernel", 0, t, 0, d) : t \in SomePos(0), d \in ds}
  \cup {Dev("leaf_kernel_recommit", 0, t, 0, d) : t \in SomePos(0), d \in ds}
  \cup {Dev("init_path", o, t, 0, 0) : o \in {Orc[p] : p \in 1..NPolys}, t \in {1, N - 2}}
  \cup UNION {{Dev("layer_path", l, t, 0, 0) : t \in {0, LSize(l + 1) - 1}} : l \in Layers}
  \* cap entries: j = path length; j = 0 is the "tree height = cap height" sub-case (empty Merkle path)
  \cup UNION {{Dev("layer_cap", l, t, j, 1) : j \in {0, 1}, t \in {0, 1}} : l \in Layers}
  \cup {Dev("init_cap", o, t, j, 1) : o \in {Orc[p] : p \in 1..NPolys}, j \in {0, 1}, t \in {0, 2}}
  \cup {Dev("final_extend", 0, 0, 0, 0), Dev("final_truncate", 0, 0, 0, 0)}
  \cup {Dev("degree_scaled", 0, 0, e, 0) : e \in 1..RB}
  \cup {Dev("coset_forge", NL - 1, t, 0, d) : t \in SomePos(NL - 1), d \in ds}
  \cup UNION {{Dev("coset_edit", l, t, 0, d) : t \in SomePos(l), d \in ds} : l \in Layers}
  \cup UNION {{Dev("coset_recommit", l, t, 0, d) : t \in SomePos(l), d \in ds} : l \in Layers}
  \cup {Dev("high_degree", 0, dg, j, d) : dg \in (n + 1)..(N - 1), j \in {1, 2}, d \in ds}
  \cup {Dev("degree_n", 0, n, j, d) : j \in {1, 2}, d \in ds}

n2 == 2 ^ (DB - SumAr(Enter))
Devs2(ds) ==
  IF Enter = 0 THEN {}
  ELSE {Dev("claim_edit2", 1, 0, j, d) : j \in 1..Len(Polys2), d \in ds}
       \* leaf edits on polynomial 1, which is opened at one point only: an edit of a polynomial opened at
       \* several points is invisible exactly on the roots of a non-zero polynomial in alpha (a small-field
       \* coincidence; negligible for extension-field challenges)
       \cup {Dev("leaf_edit2", 0, t, 1, d) : t \in SomePos(Enter), d \in ds}
       \cup {Dev("leaf_recommit2", 0, t, 1, d) : t \in SomePos(Enter), d \in ds}
       \cup {Dev("high_degree2", 0, dg, 1, d) : dg \in (n2 + 1)..(LSize(Enter) - 1), d \in ds}
       \cup {Dev("degree_n2", 0, n2, 1, d) : d \in ds}

ExtendAll(p, len, salt) == [k \in 1..len |-> IF k <= Len(p) THEN p[k] ELSE ((k * 7 + salt) % (P - 1)) + 1]
Instance(ps, bs, dv) ==
  [polys |-> IF dv.k = "degree_scaled"
             THEN [p \in 1..NPolys |-> ExtendAll(PolySets[ps][p], n * 2 ^ dv.j, p)]
             ELSE IF dv.k \in {"high_degree", "degree_n"}
             THEN [p \in 1..NPolys |-> IF p = dv.j THEN Extend(PolySets[ps][p], dv.t, dv.d) ELSE PolySets[ps][p]]
             ELSE PolySets[ps],
   orc |-> Orc, bat |-> BatSets[bs], dev |-> dv, ps |-> ps, bs |-> bs,
   e |-> Enter, bat2 |-> Bats2,
   polys2 |-> IF dv.k = "degree_scaled" /\ Enter > 0
              THEN [p \in 1..Len(Polys2) |-> ExtendAll(Polys2[p], n2 * 2 ^ dv.j, p + 5)]
              ELSE IF dv.k \in {"high_degree2", "degree_n2"}
              THEN [p \in 1..Len(Polys2) |-> IF p = dv.j THEN Extend(Polys2[p], dv.t, dv.d) ELSE Polys2[p]]
              ELSE Polys2]

(* claim edits of the second batch exist only where there is one *)
Scenarios ==
  IF Mode = "small"
  THEN {Instance(1, 1, dv) : dv \in DevsFor({Deltas[1]}) \cup Devs2({Deltas[1]})}
  ELSE {Instance(ps, bs, dv) : ps \in 1..Len(PolySets), bs \in 1..Len(BatSets),
                               dv \in DevsFor({Deltas[i] : i \in 1..Len(Deltas)}) \cup Devs2({Deltas[i] : i \in 1..Len(Deltas)})}
       \cup {Instance(ps, bs, Dev(k, 2, 0, 1, Deltas[1])) :
               ps \in 1..Len(PolySets), bs \in {b \in 1..Len(BatSets) : Len(BatSets[b]) > 1}, k \in {"claim_edit", "claim_adaptive"}}

(* ---- configurations (cfg files cannot spell sequences) ---- *)
AR_11 == <<1, 1>>
F17_Polys == << << <<1,2,3,4>>, <<5,0,7,1>>, <<2,2,0,9>> >>, << <<0,0,0,0>>, <<3,0,0,0>>, <<0,1,0,0>> >> >>
F17_Bats == << << [z |-> 2, idx |-> <<1,2,3>>], [z |-> 9, idx |-> <<1>>] >>, << [z |-> 0, idx |-> <<1,2,3>>] >> >>
Orc_112 == <<1, 1, 2>>
F17_Deltas == <<1, 11>>
AllFp == 0..(P - 1)
NoPolys == <<>>
CanaryAlphas == {2}          \* one generic challenge tuple per scenario suffices for the Disabled runs
CanaryBetas == {1, 2}
AR_21 == <<2, 1>>
AR_111 == <<1, 1, 1>>
F97_Polys == << << <<1,2,3,4,5,6,7,8>>, <<90,0,7,1,0,0,33,2>>, <<2,2,0,9,96,5,5,61>> >>,
                << <<0,0,0,0,0,0,0,0>>, <<3,0,0,0,0,0,0,0>>, <<0,0,0,0,0,0,0,1>> >> >>
F97_Bats == << << [z |-> 4, idx |-> <<1,2,3>>], [z |-> 10, idx |-> <<1>>] >>, << [z |-> 0, idx |-> <<1,2,3>>] >> >>
F97_Deltas == <<1, 58>>
F97_Betas == {0, 1, 2, 5, 7, 25, 29, 33, 50, 64, 77, 88, 96}
F97_Polys2 == << <<3, 7>>, <<0, 12>> >>
F97_Polys2b == << <<3, 7, 1, 80>>, <<0, 12, 0, 5>> >>
F97_Bats2 == << [z |-> 6, idx |-> <<1, 2>>], [z |-> 15, idx |-> <<2>>] >>
F17_Polys2 == << <<3, 7>>, <<0, 12>> >>
F17_Bats2 == << [z |-> 4, idx |-> <<1, 2>>], [z |-> 15, idx |-> <<2>>] >>

Init == InitWith(Scenarios)
Spec == Init /\ [][Next]_vars

SetsJson(s) == [c \in Classes |-> {[fails |-> F, first |-> First(F \ Disabled)] : F \in s[c]}]
Emit == Done => PrintT("REPLAY " \o ToJson([dev |-> D, batched |-> (Enter > 0), nl |-> NL, enter |-> Enter, ps |-> sc.ps, bs |-> sc.bs, nb |-> NB, chal |-> chal, gen |-> gen,
                                          class |-> Class, n |-> res.n, sets |-> SetsJson(res.sets)]))
(* FriIndex: domain points are distinct, the next point is x^arity, and the coset the verifier rebuilds
   from any member (compute_evaluation) is the chunk the prover committed *)
ASSUME IndexFacts
=============================================================================
