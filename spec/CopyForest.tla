----------------------------- MODULE CopyForest -----------------------------
(***************************************************************************)
(* The copy-constraint forest of plonk/permutation_argument.rs and the     *)
(* sigma map derived from it, transcribed: `parents` with path-compressing *)
(* `find`, `merge` (the second root is hung under the first), the final    *)
(* `compress_paths`, `wire_partition` (routed wires grouped by their       *)
(* representative, in row-major order) and `get_sigma_map` (next member of *)
(* the class, cyclically).                                                 *)
(*                                                                         *)
(* Targets: a grid of Rows x Cols wires, of which the first Routed columns *)
(* are routed, followed by NV virtual targets; target index = row * Cols + *)
(* col, virtual targets after the grid (Target::index).                    *)
(*                                                                         *)
(* Property level (what C02 relies on): after ANY sequence of connects,    *)
(* two targets have the same representative iff they are related by the    *)
(* equivalence closure of the connects; sigma is a permutation of the      *)
(* routed wires whose cycles are exactly the classes restricted to routed  *)
(* wires - one cycle per class, so that the permutation argument forces    *)
(* equality inside every class and nothing else.                           *)
(* Every behaviour is printed (connect sequence, expected classes) and     *)
(* replayed on the real CircuitBuilder (harness c02 forest).               *)
(***************************************************************************)
EXTENDS Integers, Sequences, FiniteSets, TLC, Json

CONSTANTS MaxConnects,               \* length of the connect sequences explored
          Ordered,                   \* TRUE: both orders of every pair (merge is not symmetric in the forest shape)
          Mutant                     \* "none" | "merge_unrooted" | "sigma_skip_last"

Rows == 2
Cols == 3
Routed == 2
NV == 2
NT == Rows * Cols + NV              \* targets 0 .. NT-1
Targets == 0..(NT - 1)
IsRoutedWire(t) == t < Rows * Cols /\ (t % Cols) < Routed
RoutedWires == {t \in Targets : IsRoutedWire(t)}

VARIABLES parents, connects
vars == <<parents, connects>>

\* root of x following parent pointers (at most NT steps)
RECURSIVE RootOf(_, _, _)
RootOf(p, x, fuel) == IF p[x] = x \/ fuel = 0 THEN x ELSE RootOf(p, p[x], fuel - 1)
Root(p, x) == RootOf(p, x, NT)
\* path compression: every node on the chain from x points to the root
RECURSIVE ChainOf(_, _, _)
ChainOf(p, x, fuel) == IF p[x] = x \/ fuel = 0 THEN {} ELSE {x} \cup ChainOf(p, p[x], fuel - 1)
Find(p, x) == LET r == Root(p, x) ch == ChainOf(p, x, NT) IN [t \in Targets |-> IF t \in ch THEN r ELSE p[t]]

Merge(p, x, y) ==
  LET p1 == Find(p, x)
      rx == Root(p, x)
      p2 == Find(p1, y)
      ry == Root(p1, y)
  IN IF rx = ry THEN p2
     ELSE IF Mutant = "merge_unrooted" THEN [p2 EXCEPT ![y] = rx]      \* canary: hangs the node, not its root
     ELSE [p2 EXCEPT ![ry] = rx]

Init == parents = [t \in Targets |-> t] /\ connects = <<>>
Connect(x, y) == /\ Len(connects) < MaxConnects
                 /\ parents' = Merge(parents, x, y)
                 /\ connects' = Append(connects, <<x, y>>)
\* `connect` refuses wires that are not routable: only routed wires and virtual targets are connected
Connectable == {t \in Targets : IsRoutedWire(t) \/ t >= Rows * Cols}
Next == \E x, y \in Connectable : x # y /\ (Ordered \/ x < y) /\ Connect(x, y)
Spec == Init /\ [][Next]_vars

\* ---- after build: compress_paths, wire_partition, sigma ---------------------------------
Rep(t) == Root(parents, t)                       \* compress_paths makes parents[t] = Rep(t)
ClassOf(t) == {u \in Targets : Rep(u) = Rep(t)}
\* routed members of a class in row-major order (wire_partition pushes them in that order)
RoutedMembers(t) == {u \in RoutedWires : Rep(u) = Rep(t)}
NextInClass(t) ==
  LET m == RoutedMembers(t)
      later == {u \in m : u > t}
      last == CHOOSE u \in m : \A v \in m : v <= u
  IN IF Mutant = "sigma_skip_last" /\ later # {} /\ (CHOOSE u \in later : \A v \in later : u <= v) = last /\ Cardinality(m) > 2
     THEN CHOOSE u \in m : \A v \in m : u <= v                  \* canary: the last member is left out of the cycle
     ELSE IF later # {} THEN CHOOSE u \in later : \A v \in later : u <= v
     ELSE CHOOSE u \in m : \A v \in m : u <= v
Sigma == [t \in RoutedWires |-> NextInClass(t)]

\* ---- property level -----------------------------------------------------------------------
\* equivalence closure of the connects, computed independently of the forest
RECURSIVE Closure(_, _)
Closure(cl, k) ==      \* cl: function target -> class id (min member); k connects processed
  IF k > Len(connects) THEN cl
  ELSE LET a == cl[connects[k][1]]  b == cl[connects[k][2]]
           lo == IF a < b THEN a ELSE b  hi == IF a < b THEN b ELSE a
       IN Closure([t \in Targets |-> IF cl[t] = hi THEN lo ELSE cl[t]], k + 1)
Expected == Closure([t \in Targets |-> t], 1)

ForestIsClosure == \A t, u \in Targets : (Rep(t) = Rep(u)) <=> (Expected[t] = Expected[u])
RepIsFixedPoint == \A t \in Targets : parents[Rep(t)] = Rep(t)
SigmaIsPermutation == {Sigma[t] : t \in RoutedWires} = RoutedWires
\* following sigma from t visits exactly the routed members of t's class
RECURSIVE Orbit(_, _, _)
Orbit(t, cur, acc) == IF cur \in acc THEN acc ELSE Orbit(t, Sigma[cur], acc \cup {cur})
OneCyclePerClass == \A t \in RoutedWires : Orbit(t, t, {}) = {u \in RoutedWires : Expected[u] = Expected[t]}

Scenario == [connects |-> connects, expected |-> [t \in 1..NT |-> Expected[t - 1]],
             rows |-> Rows, cols |-> Cols, routed |-> Routed, nv |-> NV]
Emit == Len(connects) = MaxConnects => PrintT("FOREST " \o ToJson(Scenario))
=============================================================================
