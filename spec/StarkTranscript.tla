--------------------------- MODULE StarkTranscript ---------------------------
(***************************************************************************)
(* Fiat-Shamir transcript of a starky STARK proof (single table; C04).     *)
(* Same structure as Transcript: `Protocol` (rounds, property level) and   *)
(* `FullSchedule` (the exact program of starky/src/prover.rs::prove +      *)
(* prove_with_commitment and get_challenges.rs::get_challenges on the      *)
(* verifier side, config.rs::StarkConfig::observe, FriConfig::observe,     *)
(* fri/challenges.rs::fri_challenges incl. the zero-cap / zero-coefficient *)
(* padding of the variable-degree recursion mode).                         *)
(*                                                                         *)
(* Differences from PLONK that the model makes explicit:                   *)
(*  * the statement is (public inputs, StarkConfig); there is no circuit   *)
(*    digest - the constraint system enters only through the verifier-     *)
(*    computed `constraint_evals`;                                         *)
(*  * FriParams (hiding, degree_bits, arity list) are NOT absorbed, only   *)
(*    FriConfig is; the trace length `degree_bits` is not part of the      *)
(*    statement at all: the verifier recovers it from the length of the    *)
(*    first Merkle path of the proof.  It reaches the transcript through   *)
(*    constraint_evals (z_last, L_0, L_last depend on it): the model       *)
(*    places it as an implicit prover message in that round, so the        *)
(*    lookup challenges and the hidden alphas', simulating zetas, zeta'    *)
(*    legitimately do not depend on it;                                    *)
(*  * constraint_evals is not a prover message but a function of           *)
(*    everything drawn so far, the public inputs and degree_bits.          *)
(*                                                                         *)
(* cfg = [nc, npi, npifree, capn, layers, strat, narity, q, nfinal, ncols, *)
(*        naux, nquot, lookups, nsimz, padcaps, padfinal]                  *)
(* npifree = number of (trailing) public inputs that occur in no constraint*)
(***************************************************************************)
EXTENDS TranscriptCore, Json, IOUtils, Functions, SequencesExt

CONSTANTS Mutants, ConfigSet, EncodeMutant
\* Mutants: set of sets of disabled classes; ConfigSet: "lattice" | "quick" | "env" | "one";
\* EncodeMutant: "none" | "drops_final_bits" (the strategy encoding, see TranscriptCore)

H == 4
D == 2

Lattice ==
  {[nc |-> nc, npi |-> np, capn |-> cp, layers |-> ly, strat |-> st, narity |-> ly, q |-> 2, nfinal |-> 2,
    ncols |-> 2, naux |-> IF lk THEN 2 ELSE 0, nquot |-> 2 * nc, lookups |-> lk, nsimz |-> 1,
    padcaps |-> pd, padfinal |-> 2 * pd, npifree |-> IF np = 0 THEN 0 ELSE 1] :
     nc \in {1, 2}, np \in {0, 3}, cp \in {1, 2}, ly \in 0..2, st \in {"fixed", "cab", "minsize"},
     lk \in BOOLEAN, pd \in {0, 1}}
OneConfig == [nc |-> 2, npi |-> 3, capn |-> 2, layers |-> 2, strat |-> "fixed", narity |-> 2, q |-> 2, nfinal |-> 2,
              ncols |-> 2, naux |-> 2, nquot |-> 4, lookups |-> TRUE, nsimz |-> 1, padcaps |-> 1, padfinal |-> 2, npifree |-> 1]
\* sub-lattice of the quick tier
LatticeQuick == {c \in Lattice : c.layers # 1 /\ c.strat # "minsize" /\ c.capn = 2}
Configs == IF ConfigSet = "env" THEN {c : c \in Range(ndJsonDeserialize(IOEnv.CFGS))}
           ELSE IF ConfigSet = "one" THEN {OneConfig}
           ELSE IF ConfigSet = "quick" THEN LatticeQuick ELSE Lattice

\* what the code's serialisation absorbs / the atoms of the component (variant + every parameter)
StratLen(cfg) == EncodeLen(cfg.strat, cfg.narity, EncodeMutant)
StratAtoms(cfg) == StratParamCount(cfg.strat, cfg.narity)
ASSUME EncodeInjective(EncodeMutant)
ASSUME EncodeComplete(EncodeMutant)
ASSUME KnownCollision
CapLen(cfg) == cfg.capn * H
Idx(n) == IF n < 10 THEN <<"0","1","2","3","4","5","6","7","8","9">>[n + 1] ELSE ToString(n)
CommitCap(l) == "commit_cap." \o Idx(l)
FriBeta(l) == "fri_betas." \o Idx(l)

RECURSIVE FriLayers(_, _)
FriLayers(cfg, l) == IF l > cfg.layers THEN <<>>
                     ELSE <<Obs(CommitCap(l), CapLen(cfg)), Sq(FriBeta(l), D)>> \o FriLayers(cfg, l + 1)
\* variable-degree padding: a zero cap is observed and a dummy challenge drawn per missing layer
RECURSIVE PadLayers(_, _)
PadLayers(cfg, k) == IF k = 0 THEN <<>>
                     ELSE <<ObsDerived("zero_cap_padding", CapLen(cfg), FALSE, {}, FALSE), Sq("fri_pad_betas", D)>>
                          \o PadLayers(cfg, k - 1)
FullSchedule(cfg) ==
  << Obs("public_input", cfg.npi),
     \* StarkConfig::observe
     Obs("cfg.security_bits", 1), Obs("cfg.num_challenges", 1),
     Obs("fri.rate_bits", 1), Obs("fri.cap_height", 1), Obs("fri.proof_of_work_bits", 1),
     Obs("fri.reduction_strategy", StratLen(cfg)), Obs("fri.num_query_rounds", 1),
     Obs("trace_cap", CapLen(cfg)),
     Sq("lookup_challenges", IF cfg.lookups THEN 2 * cfg.nc ELSE 0),
     Obs("auxiliary_polys_cap", IF cfg.naux > 0 THEN CapLen(cfg) ELSE 0),
     Sq("stark_alphas_prime", cfg.nc),
     Sq("simulating_zetas", cfg.nsimz * D),
     Sq("zeta_prime", D),
     \* bound-constraint evaluations: computed by the verifier from all challenges so far, the
     \* public inputs and degree_bits
     \* (only the public inputs that occur in a constraint: the last npifree ones occur in none - for those
     \* the observe step at the top of the program is the ONLY thing that binds them)
     ObsDerived("constraint_evals", cfg.nc * D, FALSE,
                {<<"degree_bits", 1>>} \cup AtomsOf("public_input", cfg.npi - cfg.npifree), TRUE),
     Sq("stark_alphas", cfg.nc),
     \* (a STARK whose constraints have degree 0 has no quotient polynomial: cap and openings are absent)
     Obs("quotient_polys_cap", IF cfg.nquot > 0 THEN CapLen(cfg) ELSE 0),
     Sq("stark_zeta", D),
     \* observe_openings: zeta batch = local, auxiliary, quotient; next batch = next, auxiliary next
     Obs("openings.local_values", cfg.ncols * D), Obs("openings.auxiliary_polys", cfg.naux * D),
     Obs("openings.quotient_polys", cfg.nquot * D),
     Obs("openings.next_values", cfg.ncols * D), Obs("openings.auxiliary_polys_next", cfg.naux * D),
     Sq("fri_alpha", D) >>
  \o FriLayers(cfg, 1)
  \o PadLayers(cfg, cfg.padcaps)
  \o << Obs("final_poly", cfg.nfinal * D),
        ObsDerived("zero_coeff_padding", cfg.padfinal * D, FALSE, {}, FALSE),
        Obs("pow_witness", 1),
        Sq("fri_pow_response", 1),
        Sq("fri_query_indices", cfg.q) >>

StatementClasses ==
  {"public_input", "cfg.security_bits", "cfg.num_challenges", "fri.rate_bits", "fri.cap_height",
   "fri.proof_of_work_bits", "fri.reduction_strategy", "fri.num_query_rounds"}
OpeningClasses ==
  {"openings.local_values", "openings.auxiliary_polys", "openings.quotient_polys", "openings.next_values",
   "openings.auxiliary_polys_next"}
RECURSIVE FriRounds(_, _)
FriRounds(cfg, l) == IF l > cfg.layers THEN <<>>
                     ELSE <<[msgs |-> {CommitCap(l)}, chs |-> {FriBeta(l)}]>> \o FriRounds(cfg, l + 1)
Protocol(cfg) ==
  << [msgs |-> StatementClasses \cup {"trace_cap"}, chs |-> {"lookup_challenges"}],
     [msgs |-> {"auxiliary_polys_cap"}, chs |-> {"stark_alphas_prime", "simulating_zetas", "zeta_prime"}],
     [msgs |-> {"degree_bits"}, chs |-> {"stark_alphas"}],
     [msgs |-> {"quotient_polys_cap"}, chs |-> {"stark_zeta"}],
     [msgs |-> OpeningClasses, chs |-> {"fri_alpha"}] >>
  \o FriRounds(cfg, 1)
  \o << [msgs |-> {}, chs |-> {"fri_pad_betas"}],
        [msgs |-> {"final_poly", "pow_witness"}, chs |-> {"fri_pow_response", "fri_query_indices"}] >>

\* fs = FullSchedule(cfg), passed as a VALUE (TLC re-evaluates definitions at every use)
CountF(fs, cfg, class) ==
  LET S == {s \in Range(fs) : s.k = "O" /\ s.class = class /\ s.own}
  IN IF class = "degree_bits" THEN 1
     ELSE IF class = "fri.reduction_strategy" THEN StratAtoms(cfg)
     ELSE IF S = {} THEN 0 ELSE (CHOOSE s \in S : TRUE).n
Count(cfg, class) == CountF(FullSchedule(cfg), cfg, class)
RoundOf(P, ch) == CHOOSE r \in 1..Len(P) : ch \in P[r].chs
Precede(P, ch) == UNION {P[r].msgs : r \in 1..RoundOf(P, ch)}
PrecedeAtomsF(fs, cfg, P, ch) == UNION {AtomsOf(c, CountF(fs, cfg, c)) : c \in Precede(P, ch)}
\* the same, cumulatively per round (one pass): CumAtoms(..)[r] = atoms of all components of rounds 1..r
RECURSIVE CumAtoms(_, _, _, _, _)
CumAtoms(fs, cfg, P, r, acc) ==
  IF r > Len(P) THEN <<>>
  ELSE LET a == CHOOSE x \in {acc \cup UNION {AtomsOf(m, CountF(fs, cfg, m)) : m \in P[r].msgs}} : TRUE
       IN <<a>> \o CumAtoms(fs, cfg, P, r + 1, a)
AllChallenges(P) == UNION {P[r].chs : r \in 1..Len(P)}
AllComponents(P) == UNION {P[r].msgs : r \in 1..Len(P)}
DependsOn(P, ch, comp) == comp \in Precede(P, ch)

\* ---- the run ----------------------------------------------------------------------
\* Everything that is a function of (configuration, mutant) is computed once per behaviour by the
\* Setup step and carried in the state (TLC re-evaluates definitions at every use, also constant ones).
\* (bound variables of a set constructor are bound to VALUES: each of fs, P0, cum is computed once)
Entry(c, d) ==
  CHOOSE e \in UNION {
      {[fs |-> fs, P |-> P0,
        \* a spec mutant drops the observe steps of the classes in d
        prog |-> Compress(SelectSeq(fs, LAMBDA s : ~(s.k = "O" /\ s.class \in d))),
        pre |-> [ch \in AllChallenges(P0) |-> cum[RoundOf(P0, ch)]]] : cum \in {CumAtoms(fs, c, P0, 1, {})}}
      : fs \in {FullSchedule(c)}, P0 \in {Protocol(c)}} : TRUE

\* challenges the library's StarkProofChallenges exposes (alphas', the simulating zetas, zeta' and the padding
\* dummies are internal): FS1X is FS1 restricted to them - what a replay through the API can observe
Exposed(ch) == ch \notin {"stark_alphas_prime", "simulating_zetas", "zeta_prime", "fri_pad_betas"}
VARIABLES cfg, dis, T, pc, el, tc, log, seen, ok
vars == <<cfg, dis, T, pc, el, tc, log, seen, ok>>
\* T = Entry(cfg, dis); log: one record per squeezed element [ch, dc] (dc = classes it depends on);
\* seen: atoms observed so far; ok: the obligations FS1 / FS2 / FS0, evaluated on each squeezed
\* element when it is drawn

NoCfg == [none |-> TRUE]
prog == T.prog
pre == T.pre
P == T.P
Done == pc > 0 /\ pc > Len(prog)

\* the configuration is chosen by the first step and set up by the second, so that TLC's workers
\* share the work (initial states are processed by one worker only)
Init == /\ cfg = NoCfg /\ dis = {} /\ T = NoCfg /\ pc = 0 /\ el = 1 /\ tc = UInit /\ log = <<>> /\ seen = {}
        /\ ok = [fs1 |-> TRUE, fs2 |-> TRUE, fs0 |-> TRUE, fs1x |-> TRUE]
Choose == /\ pc = 0 /\ cfg = NoCfg
          /\ \E c \in Configs : \E d \in Mutants : cfg' = c /\ dis' = d
          /\ UNCHANGED <<T, pc, el, tc, log, seen, ok>>
Setup == /\ pc = 0 /\ cfg # NoCfg
         /\ T' = Entry(cfg, dis) /\ pc' = 1
         /\ UNCHANGED <<cfg, dis, el, tc, log, seen, ok>>
Run ==
  /\ pc > 0 /\ ~Done
  /\ LET s == prog[pc]
         r == CHOOSE x \in {StepElem(s, el, tc)} : TRUE
     IN /\ tc' = r[1]
        /\ log' = IF s.k = "S" THEN Append(log, [ch |-> s.class, dc |-> Classes(r[2])]) ELSE log
        /\ ok' = IF s.k = "S"
                 THEN [fs1 |-> ok.fs1 /\ pre[s.class] \subseteq r[2],
                       fs2 |-> ok.fs2 /\ pre[s.class] \subseteq seen,
                       fs0 |-> ok.fs0 /\ r[2] \subseteq pre[s.class],
                       fs1x |-> ok.fs1x /\ (Exposed(s.class) => pre[s.class] \subseteq r[2])]
                 ELSE ok
        /\ seen' = IF s.k = "O" THEN seen \cup ElemTaint(s, el, tc) ELSE seen
        /\ IF el < s.n THEN el' = el + 1 /\ pc' = pc ELSE el' = 1 /\ pc' = pc + 1
        /\ UNCHANGED <<cfg, dis, T>>
Next == Choose \/ Setup \/ Run

\* ---- obligations ------------------------------------------------------------------
FS1 == ok.fs1
FS2 == ok.fs2
FS0 == ok.fs0
\* canary form: every spec mutant (a dropped absorption) is caught by FS1 at the end of its run
MutantCaught == (Done /\ dis # {}) => ~ok.fs1
\* ... and already through the exposed challenges alone (needs a public input outside every constraint and a
\* lookup argument in the configuration, as in OneConfig)
MutantCaughtExposed == (Done /\ dis # {}) => ~ok.fs1x
\* every challenge of the protocol is drawn, with the right number of elements, in protocol order
ChallengeCount(ch) == Cardinality({j \in 1..Len(log) : log[j].ch = ch})
ExpectedCount(ch) == FoldSeq(LAMBDA s, acc : acc + (IF s.k = "S" /\ s.class = ch THEN s.n ELSE 0), 0, T.fs)
Complete == Done =>
  /\ \A ch \in AllChallenges(P) :
        ChallengeCount(ch) = ExpectedCount(ch)
  /\ \A j \in 1..Len(log) : log[j].ch \in AllChallenges(P)
  /\ \A i \in 1..Len(log), j \in 1..Len(log) : i < j => RoundOf(P, log[i].ch) <= RoundOf(P, log[j].ch)
  /\ \A c \in AllComponents(P) : CountF(T.fs, cfg, c) > 0 => AtomsOf(c, CountF(T.fs, cfg, c)) \subseteq seen

\* ---- the expected dependency matrix -----------------------------------------------
ObservedDeps(ch) == UNION {log[j].dc : j \in {i \in 1..Len(log) : log[i].ch = ch}}
LiveChallenges == {ch \in AllChallenges(P) : ChallengeCount(ch) > 0}
LiveComponents == {c \in AllComponents(P) : CountF(T.fs, cfg, c) > 0}
Matrix == [system |-> "stark", cfg |-> cfg,
           challenges |-> SetToSeq(LiveChallenges),
           components |-> SetToSeq(LiveComponents),
           depends |-> [ch \in LiveChallenges |-> SetToSeq({c \in LiveComponents : DependsOn(P, ch, c)})],
           schedule_depends |-> [ch \in LiveChallenges |-> SetToSeq(ObservedDeps(ch))],
           program |-> [i \in 1..Len(T.fs) |->
                          [k |-> T.fs[i].k, class |-> T.fs[i].class, n |-> T.fs[i].n]]]
EmitMatrix == Done => PrintT("MATRIX " \o ToJson(Matrix))
=============================================================================
