----------------------------- MODULE MCPlonkIOP -----------------------------
(* TLC wrapper: scenario lines (disabled = {}) and canary lines (disabled # {} and accepted). *)
EXTENDS PlonkIOP, TLC, Json, FiniteSetsExt

SetStr(Sx) == FoldSet(LAMBDA x, acc : IF acc = "" THEN x ELSE acc \o "," \o x, "", Sx)
Scenario == [form |-> Form, zk |-> Zk, lookups |-> Lookups, action |-> act.a, comp |-> act.c.k, r |-> act.c.r, i |-> act.c.i,
             expect |-> verdict, first |-> first, detectors |-> SetStr(Detectors), unread |-> (act.c \in Unread)]
Canary == [action |-> act.a, comp |-> act.c.k, r |-> act.c.r, i |-> act.c.i, disabled |-> SetStr(disabled)]

Emit == Done => IF disabled = {} THEN PrintT("REPLAY " \o ToJson(Scenario))
                ELSE (verdict = "accept" /\ act.c \notin Unread) => PrintT("CANARY " \o ToJson(Canary))
ASSUME EveryComponentRead
ASSUME OnlyIndicesUnread
=============================================================================
