SPECIFICATION TraceSpec
CONSTANTS
  FZero <- ZeroG
  FOne <- OneG
  FAdd <- GAdd
  FMul <- GMul
  FLess <- GLess
  FW <- SevenG
  NW <- NWc
  NR <- NRc
  NC <- NCc
  Mutant = "none"
  Sem = FALSE
  InputVals <- InG
INVARIANT Inv
ACTION_CONSTRAINT Count
POSTCONDITION Accepted
CHECK_DEADLOCK FALSE
