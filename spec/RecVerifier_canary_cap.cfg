CONSTANT Instance = "plonk"
CONSTANT Disabled = {"InitMerkle0"}
CONSTANT Mutant = "none"
INIT Init
NEXT Next
INVARIANT Agree
CHECK_DEADLOCK FALSE
