SPECIFICATION MCSpec
CONSTANTS
  FZero = 0
  FOne = 1
  FAdd <- AddM
  FMul <- MulM
  FLess <- LessM
  FW = 2
  WithExt = TRUE
  ExtConsts <- ExtConstsDef
  NW = 16
  NR = 13
  NC = 2
  Mutant = "none"
  Sem = TRUE
  InputVals = {0, 1, 2}
  P = 5
  MaxCalls = 3
  Consts = {0, 1, 3}
  MaxBits = 2
  MaxPi = 0
INVARIANT Inv
CHECK_DEADLOCK FALSE
