CONSTANT HashSizes = {25, 32}
CONSTANT MaxW = 9
CONSTANT Mutant = "none"
INIT Init
NEXT Next
INVARIANT CollisionFree
INVARIANT OpensOnlyCommitted
INVARIANT NoopIffFits
INVARIANT SymbolicAgrees
INVARIANT Emit
CHECK_DEADLOCK FALSE
