CONSTANT MaxH = 3
CONSTANT Widths = {5}
CONSTANT Mutant = "noswap"
INIT Init
NEXT Next
INVARIANT Correct
CHECK_DEADLOCK FALSE
