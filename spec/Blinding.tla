------------------------------ MODULE Blinding ------------------------------
(***************************************************************************)
(* Zero-knowledge blinding schedule of the PLONK circuit builder.          *)
(*                                                                         *)
(* Implementation-shaped tier: a transcription of                          *)
(*   plonky2/src/plonk/circuit_builder.rs                                  *)
(*     num_blinding_gates(degree_estimate)   (D = 2)                       *)
(*     blinding_counts()  -- the fixed-point loop over degree_estimate     *)
(*     blind_and_pad()    -- r no-op rows + 2*z no-op rows, then padding   *)
(*                           to a power of two                             *)
(* on top of FriParams!ReductionArityBits (the schedule depends on the     *)
(* estimate, so the amount of blinding and the degree depend on each       *)
(* other).  The loop has no bound in the code; here it is cut at MaxBits   *)
(* and a cut is reported as "diverged" (this is what happens for a Fixed   *)
(* schedule whose final polynomial grows with the degree, see Configs.tla).*)
(*                                                                         *)
(* Property-level tier:                                                    *)
(*   Fits       the blinding rows and the gates fit the returned estimate  *)
(*   Hides      at the degree the circuit is finally padded to, every      *)
(*              value the proof reveals about a wire polynomial (resp. Z)  *)
(*              is covered by one (resp. one copy-constrained pair of)     *)
(*              random row(s)                                              *)
(*   DegreeIsEstimate  the final degree is the estimate the counts were    *)
(*              computed for (Hides follows from Fits under it)            *)
(***************************************************************************)
EXTENDS FriParams

D == 2
Log2Ceil(n) == CHOOSE k \in 0..30 : Pow2(k) >= n /\ (k = 0 \/ Pow2(k - 1) < n)
Prod2(bits) == Pow2(Sum(bits))

(* num_blinding_gates: [ok, r, z]; ok = FALSE when the schedule itself panics or folds past the degree
   (degree_estimate / product is then 0 in the code; kept as the code computes it) *)
NumBlinding(st, est_bits, rb, cap, q) ==
  LET sch  == ReductionArityBits(st, est_bits, rb, cap, q)
      bits == sch.bits
      fold == LET RECURSIVE F(_) F(i) == IF i = 0 THEN 0 ELSE (Pow2(bits[i]) - 1) + F(i - 1) IN F(Len(bits))
      fin  == Pow2(est_bits) \div Prod2(bits)
      fri  == q * (1 + D * fold + D * fin)
  IN [ok |-> sch.ok, r |-> D + fri, z |-> 2 * D + fri, bits |-> bits]

(* blinding_counts: [st |-> "ok" | "diverged" | "panic", r, z, est_bits] *)
RECURSIVE CountsLoop(_, _, _, _, _, _, _)
CountsLoop(st, n, e, rb, cap, q, maxBits) ==
  IF e > maxBits THEN [st |-> "diverged", r |-> 0, z |-> 0, est_bits |-> e]
  ELSE LET b == NumBlinding(st, e, rb, cap, q)
       IN IF ~b.ok THEN [st |-> "panic", r |-> 0, z |-> 0, est_bits |-> e]
          ELSE IF n + b.r + 2 * b.z <= Pow2(e)
               THEN [st |-> "ok", r |-> b.r, z |-> b.z, est_bits |-> e]
               ELSE CountsLoop(st, n, e + 1, rb, cap, q, maxBits)
BlindingCounts(st, n, rb, cap, q, maxBits) == CountsLoop(st, n, Log2Ceil(n), rb, cap, q, maxBits)

(* blind_and_pad: rows after blinding, padded to a power of two *)
FinalDegreeBits(n, c) == Log2Ceil(n + c.r + 2 * c.z)

(* ---- property level ---------------------------------------------------- *)
Fits(n, c) == c.st = "ok" => n + c.r + 2 * c.z <= Pow2(c.est_bits)
DegreeIsEstimate(n, c) == c.st = "ok" => FinalDegreeBits(n, c) = c.est_bits
(* what a proof of degree 2^db reveals per wire polynomial / per Z polynomial *)
Revealed(st, db, rb, cap, q) == NumBlinding(st, db, rb, cap, q)
Hides(st, n, rb, cap, q, c) ==
  c.st = "ok" =>
    LET db  == FinalDegreeBits(n, c)
        rev == Revealed(st, db, rb, cap, q)
    IN rev.ok /\ c.r >= rev.r /\ c.z >= rev.z
=============================================================================
