CONSTANT P = 97
CONSTANT G = 28
CONSTANT MaxLg = 5
CONSTANT PackLg = 3
CONSTANT Mutant = "none"
CONSTANT Shifts = {1, 5}
INIT Init
NEXT Next
INVARIANT Correct
INVARIANT InRange
INVARIANT PanicByContract
CHECK_DEADLOCK FALSE
