--------------------------- MODULE MCLookupLayout ---------------------------
(***************************************************************************)
(* TLC wrapper for the auxiliary-column layout of StarkLookup (C10): every *)
(* number of lookups L <= MAXL, challenges C <= MAXC and per-lookup column *)
(* counts nh[l] in 2..4 (1..3 helper columns + Z).  The state grows by one *)
(* lookup or one challenge per step, so that a breadth-first search        *)
(* reports a smallest counterexample.                                      *)
(***************************************************************************)
EXTENDS StarkLookup

CONSTANTS MAXL, MAXC
VARIABLE s

Init == s \in {[nh |-> <<k>>, C |-> 1] : k \in 2..4}
Next == \/ s.C < MAXC /\ s' = [s EXCEPT !.C = @ + 1]
        \/ Len(s.nh) < MAXL /\ \E k \in 2..4 : s' = [s EXCEPT !.nh = Append(@, k)]
Layout == LayoutEq(s.nh, s.C)
=============================================================================
