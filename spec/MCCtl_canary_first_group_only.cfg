CONSTANT P = 17
CONSTANT N = 2
CONSTANT MUT = "first_group_only"
CONSTANT DIDS = {4}
CONSTANT BETAS = {2}
INIT Init
NEXT Next
INVARIANT Theorem
CHECK_DEADLOCK FALSE
