CONSTANT NIn = 3
CONSTANT MaxGens = 2
CONSTANT Mutant = "none"
INIT Init
NEXT Next
INVARIANT OutcomeAsExpected
INVARIANT OkMeansComplete
INVARIANT ExpireOnce
INVARIANT Emit
CHECK_DEADLOCK FALSE
