CONSTANT K = 3
CONSTANT Disabled = "none"
INIT Init
NEXT Next
INVARIANT Correct
INVARIANT AssumesHold
INVARIANT NegCanonical
CHECK_DEADLOCK FALSE
