------------------------------- MODULE PolyOps -------------------------------
(***************************************************************************)
(* Property-level definitions for transforms and polynomial algebra over   *)
(* the Goldilocks field on byte-limb numbers (Limbs, GF): what a recorded  *)
(* call of the implementation must satisfy.  Nothing here is transcribed   *)
(* from the implementation.                                                *)
(*                                                                         *)
(* Every predicate is FLAT: a heavy operator (MacEq / ModP) is only ever   *)
(* applied to recorded values.  Sums, products and powers of many terms are*)
(* witnessed by a recorded chain of partial results (Horner partial sums,  *)
(* convolution partial sums, partial products) and TLC checks every link   *)
(* of the chain independently; the last link is compared with the value    *)
(* the implementation returned.  Polynomials are 1-based sequences of      *)
(* 8-limb numbers, coefficient of X^i at position i + 1; operands may be   *)
(* non-canonical; chain links are checked as congruences modulo p.         *)
(***************************************************************************)
EXTENDS GF

IsVec(v) == \A i \in 1..Len(v) : Is64(v[i])
IsZ(a) == ModP(a) = Zero8
MinusOne8 == <<0, 0, 0, 0, 255, 255, 255, 255>>           \* p - 1
Last(s) == s[Len(s)]
Pow2(k) == 2 ^ k

\* ---- fast congruence check  a * b + c = n (mod p)  on 8-limb numbers -------------------------
\* Schoolbook column sums of a * b + c - n (|column| < 2^21), folded with 2^64 = 2^32 - 1 and
\* 2^96 = -1 (mod p) into 8 signed columns; three rounds of carry propagation + folding of the
\* carry (2^64 = 2^32 - 1) bring the value into [0, 2^64); it must be 0 or p.  Fully unrolled:
\* TLC evaluates plain integer expressions an order of magnitude faster than Limbs!MulP.
MacCols(a, b, c, n) ==
  << (a[1] * b[1] + c[1] - n[1]) - (a[2] * b[8] + a[3] * b[7] + a[4] * b[6] + a[5] * b[5] + a[6] * b[4] + a[7] * b[3] + a[8] * b[2]) - (a[6] * b[8] + a[7] * b[7] + a[8] * b[6]),
     (a[1] * b[2] + a[2] * b[1] + c[2] - n[2]) - (a[3] * b[8] + a[4] * b[7] + a[5] * b[6] + a[6] * b[5] + a[7] * b[4] + a[8] * b[3]) - (a[7] * b[8] + a[8] * b[7]),
     (a[1] * b[3] + a[2] * b[2] + a[3] * b[1] + c[3] - n[3]) - (a[4] * b[8] + a[5] * b[7] + a[6] * b[6] + a[7] * b[5] + a[8] * b[4]) - (a[8] * b[8]),
     (a[1] * b[4] + a[2] * b[3] + a[3] * b[2] + a[4] * b[1] + c[4] - n[4]) - (a[5] * b[8] + a[6] * b[7] + a[7] * b[6] + a[8] * b[5]),
     (a[1] * b[5] + a[2] * b[4] + a[3] * b[3] + a[4] * b[2] + a[5] * b[1] + c[5] - n[5]) + (a[2] * b[8] + a[3] * b[7] + a[4] * b[6] + a[5] * b[5] + a[6] * b[4] + a[7] * b[3] + a[8] * b[2]),
     (a[1] * b[6] + a[2] * b[5] + a[3] * b[4] + a[4] * b[3] + a[5] * b[2] + a[6] * b[1] + c[6] - n[6]) + (a[3] * b[8] + a[4] * b[7] + a[5] * b[6] + a[6] * b[5] + a[7] * b[4] + a[8] * b[3]),
     (a[1] * b[7] + a[2] * b[6] + a[3] * b[5] + a[4] * b[4] + a[5] * b[3] + a[6] * b[2] + a[7] * b[1] + c[7] - n[7]) + (a[4] * b[8] + a[5] * b[7] + a[6] * b[6] + a[7] * b[5] + a[8] * b[4]),
     (a[1] * b[8] + a[2] * b[7] + a[3] * b[6] + a[4] * b[5] + a[5] * b[4] + a[6] * b[3] + a[7] * b[2] + a[8] * b[1] + c[8] - n[8]) + (a[5] * b[8] + a[6] * b[7] + a[7] * b[6] + a[8] * b[5]) >>
\* carry propagation of 8 signed columns: <<8 bytes, carry>> (\div is floor division, % is >= 0)
Norm8(r) ==
  LET t1 == r[1]
      t2 == r[2] + (t1 \div 256)
      t3 == r[3] + (t2 \div 256)
      t4 == r[4] + (t3 \div 256)
      t5 == r[5] + (t4 \div 256)
      t6 == r[6] + (t5 \div 256)
      t7 == r[7] + (t6 \div 256)
      t8 == r[8] + (t7 \div 256)
  IN << t1 % 256, t2 % 256, t3 % 256, t4 % 256, t5 % 256, t6 % 256, t7 % 256, t8 % 256, t8 \div 256 >>
\* carry * 2^64 = carry * 2^32 - carry
FoldCarry(d) == << d[1] - d[9], d[2], d[3], d[4], d[5] + d[9], d[6], d[7], d[8] >>
MacEq(a, b, c, n) ==
  LET d3 == Norm8(FoldCarry(Norm8(FoldCarry(Norm8(MacCols(a, b, c, n))))))
  IN /\ d3[9] = 0
     /\ \/ \A i \in 1..8 : d3[i] = 0
        \/ \A i \in 1..8 : d3[i] = P8[i]
MulEq(a, b, n) == MacEq(a, b, Zero8, n)
\* a = b (mod p); identical representations short-cut
EqF(a, b) == a = b \/ ModP(a) = ModP(b)

\* ---- evaluation (Horner) --------------------------------------------------------------------
\* acc[1] = 0, acc[i + 1] = acc[i] * x + c[m + 1 - i] (mod p); the last link is c(x)
HornerOk(c, x, acc) ==
  /\ Len(acc) = Len(c) + 1
  /\ acc[1] = Zero8
  /\ \A i \in 1..Len(c) : MacEq(acc[i], x, c[Len(c) + 1 - i], acc[i + 1])
EvalAtOk(c, x, acc, y) == HornerOk(c, x, acc) /\ Is64(y) /\ EqF(y, Last(acc))

\* ---- powers ---------------------------------------------------------------------------------
\* ch[1] = x, ch[t + 1] = ch[t]^2: ch[lg + 1] = x^(2^lg)
SqChainOk(x, lg, ch) == /\ Len(ch) = lg + 1 /\ EqF(ch[1], x)
                        /\ \A t \in 1..lg : MulEq(ch[t], ch[t], ch[t + 1])
\* bits = binary digits of k, most significant first (any number of leading zeros)
RECURSIVE BitsVal(_, _)
BitsVal(bits, i) == IF i = 0 THEN 0 ELSE 2 * BitsVal(bits, i - 1) + bits[i]
\* square and multiply: st[1] = 1, sq[i] = st[i]^2, st[i + 1] = sq[i] * w if bits[i] = 1 else sq[i]
PowChainOk(w, k, bits, sq, st, wk) ==
  /\ Len(st) = Len(bits) + 1 /\ Len(sq) = Len(bits)
  /\ \A i \in 1..Len(bits) : bits[i] \in {0, 1}
  /\ BitsVal(bits, Len(bits)) = k
  /\ st[1] = One8
  /\ \A i \in 1..Len(bits) : /\ MulEq(st[i], st[i], sq[i])
                             /\ IF bits[i] = 1 THEN MulEq(sq[i], w, st[i + 1]) ELSE st[i + 1] = sq[i]
  /\ EqF(wk, Last(st))

\* ---- roots of unity -------------------------------------------------------------------------
\* g[k + 1] = primitive_root_of_unity(k), k = 0..32: g[k] = g[k + 1]^2, g[1] = 1, g[2] = -1, hence
\* g[k + 1] has order exactly 2^k and the subgroups are nested consistently
RootsOk(g) ==
  /\ Len(g) = 33 /\ IsVec(g)
  /\ ModP(g[1]) = One8 /\ ModP(g[2]) = MinusOne8
  /\ \A k \in 1..32 : MulEq(g[k + 1], g[k + 1], g[k])
\* the coset shift lies outside the 2-adic subgroup: shift^(2^32) # 1
ShiftOk(shift, s2) == SqChainOk(shift, 32, s2) /\ ModP(s2[33]) # One8

\* x = shift * w^k with w the recorded root; wk is the recorded w^k with its chain pc
PointOk(w, k, pc, wk, shift, x) ==
  /\ PowChainOk(w, k, pc.bits, pc.sq, pc.st, wk)
  /\ MulEq(shift, wk, x)

\* value k of the (coset) DFT of c w.r.t. the root w: every recorded output in ys equals c(shift * w^k)
DftOk(w, k, pc, wk, shift, x, c, acc, ys) ==
  /\ PointOk(w, k, pc, wk, shift, x)
  /\ HornerOk(c, x, acc)
  /\ \A t \in 1..Len(ys) : Is64(ys[t]) /\ EqF(ys[t], Last(acc))

\* ---- convolution ----------------------------------------------------------------------------
\* coefficient k (0-based) of a * b: partial sums over i = lo..hi (0-based index into a)
ConvLo(la, lb, k) == IF k - (lb - 1) > 0 THEN k - (lb - 1) ELSE 0
ConvHi(la, lb, k) == IF k < la - 1 THEN k ELSE la - 1
ConvCoefOk(a, b, k, acc) ==
  LET la == Len(a)  lb == Len(b)
      lo == ConvLo(la, lb, k)  hi == ConvHi(la, lb, k)
      cnt == IF la = 0 \/ lb = 0 \/ hi < lo THEN 0 ELSE hi - lo + 1
  IN /\ Len(acc) = cnt + 1
     /\ acc[1] = Zero8
     /\ \A t \in 1..cnt : MacEq(a[lo + t], b[k - (lo + t - 1) + 1], acc[t], acc[t + 1])
CoefAt(v, k) == IF k + 1 <= Len(v) THEN v[k + 1] ELSE Zero8
\* r = a * b: every coefficient of r is the convolution sum (r may be longer than the product)
MulOkFull(a, b, r, accs) ==
  /\ IsVec(r) /\ Len(accs) = Len(r)
  /\ Len(r) >= Len(a) + Len(b) - 1 \/ Len(a) = 0 \/ Len(b) = 0
  /\ \A k \in 0..(Len(r) - 1) : ConvCoefOk(a, b, k, accs[k + 1]) /\ EqF(r[k + 1], Last(accs[k + 1]))
\* r(x) = a(x) b(x) at a recorded point (identity of polynomials of degree < Len(r) sampled at x)
MulOkPt(a, b, r, x, ha, hb, hr) ==
  /\ IsVec(r) /\ (Len(r) >= Len(a) + Len(b) - 1 \/ Len(a) = 0 \/ Len(b) = 0)
  /\ HornerOk(a, x, ha) /\ HornerOk(b, x, hb) /\ HornerOk(r, x, hr)
  /\ MulEq(Last(ha), Last(hb), Last(hr))

\* ---- degree ---------------------------------------------------------------------------------
\* d1 = degree + 1 (0 for the zero polynomial)
DegPlus1Ok(c, d1) == /\ d1 \in 0..Len(c)
                     /\ (d1 = 0 \/ ~IsZ(c[d1]))
                     /\ \A i \in (d1 + 1)..Len(c) : IsZ(c[i])
TrimOk(c, out) == /\ DegPlus1Ok(c, Len(out))
                  /\ \A i \in 1..Len(out) : out[i] = c[i]

\* ---- division with remainder: a = q b + r, deg r < deg b ------------------------------------
\* db1 = deg b + 1 >= 1; accs[k + 1] is the convolution chain of coefficient k of q * b
DivRemOkFull(a, b, q, r, db1, accs) ==
  LET K == Max(Max(Len(a), Len(r)), Len(q) + Len(b) - 1)
  IN /\ IsVec(q) /\ IsVec(r)
     /\ DegPlus1Ok(b, db1) /\ db1 >= 1
     /\ \A i \in db1..Len(r) : IsZ(r[i])                       \* deg r < deg b
     /\ Len(accs) = K
     /\ \A k \in 0..(K - 1) :
          /\ ConvCoefOk(q, b, k, accs[k + 1])
          /\ EqP(CoefAt(a, k), AddP(Last(accs[k + 1]), CoefAt(r, k)))
\* the same identity sampled at a recorded point (degrees up to thousands)
DivRemOkPt(a, b, q, r, db1, x, ha, hb, hq, hr) ==
  /\ IsVec(q) /\ IsVec(r)
  /\ DegPlus1Ok(b, db1) /\ db1 >= 1
  /\ \A i \in db1..Len(r) : IsZ(r[i])
  /\ HornerOk(a, x, ha) /\ HornerOk(b, x, hb) /\ HornerOk(q, x, hq) /\ HornerOk(r, x, hr)
  /\ MacEq(Last(hq), Last(hb), Last(hr), Last(ha))

\* ---- division by a linear factor: p(X) = q(X) (X - z) + p(z) --------------------------------
\* zq[i] = z * q[i] recorded; coefficient i: p_i + z q_i = q_{i-1} (i >= 1), p_0 + z q_0 = p(z)
DivLinearOk(p, z, q, ev, acc, zq) ==
  /\ IsVec(q) /\ Is64(ev)
  /\ Len(q) = (IF Len(p) = 0 THEN 0 ELSE Len(p) - 1) /\ Len(zq) = Len(q)
  /\ HornerOk(p, z, acc) /\ EqF(ev, Last(acc))
  /\ \A i \in 1..Len(q) : MulEq(z, q[i], zq[i])
  /\ \A i \in 1..Len(p) :
        EqP(AddP(p[i], IF i <= Len(q) THEN zq[i] ELSE Zero8),
            IF i = 1 THEN ev ELSE q[i - 1])

\* ---- inverse modulo X^n: a * b = 1 (mod X^n) -------------------------------------------------
InvModOkFull(a, n, b, accs) ==
  /\ IsVec(b) /\ Len(b) <= n /\ Len(accs) = n
  /\ \A k \in 0..(n - 1) : /\ ConvCoefOk(a, b, k, accs[k + 1])
                           /\ ModP(Last(accs[k + 1])) = (IF k = 0 THEN One8 ELSE Zero8)

\* ---- interpolation: deg c < number of points, c(x_i) = y_i ----------------------------------
Distinct(xs) == \A i \in 1..Len(xs) : \A j \in (i + 1)..Len(xs) : ModP(xs[i]) # ModP(xs[j])
InterpOk(xs, ys, c, accs) ==
  /\ IsVec(c) /\ Len(c) <= Len(xs) /\ Len(accs) = Len(xs) /\ Len(ys) = Len(xs)
  /\ \A i \in 1..Len(xs) : HornerOk(c, xs[i], accs[i]) /\ EqF(ys[i], Last(accs[i]))
\* barycentric weights: w_i * prod_{j # i} (x_i - x_j) = 1; ds[i] the recorded differences
\* (in order j = 1..n, j # i), pr[i] the chain of partial products
BaryOk(xs, w, ds, pr) ==
  LET n == Len(xs) IN
  /\ Len(w) = n /\ Len(ds) = n /\ Len(pr) = n
  /\ \A i \in 1..n :
       /\ Len(ds[i]) = n - 1 /\ Len(pr[i]) = n
       /\ \A t \in 1..(n - 1) : EqP(AddP(ds[i][t], xs[IF t < i THEN t ELSE t + 1]), xs[i])
       /\ pr[i][1] = One8
       /\ \A t \in 1..(n - 1) : MulEq(pr[i][t], ds[i][t], pr[i][t + 1])
       /\ MulEq(pr[i][n], w[i], One8)

\* ---- padding / low-degree extension of coefficients -----------------------------------------
PadOk(c, out, len) == /\ Len(out) = len /\ len >= Len(c)
                      /\ \A i \in 1..Len(c) : out[i] = c[i]
                      /\ \A i \in (Len(c) + 1)..len : out[i] = Zero8
TrimToLenOk(c, len, ok, out) ==
  LET can == Len(c) >= len /\ \A i \in (len + 1)..Len(c) : IsZ(c[i])
  IN /\ ok = can
     /\ ok => Len(out) = len /\ \A i \in 1..len : out[i] = c[i]

\* ---- vanishing polynomial of the subgroup of size n = 2^nlog on a coset point x -------------
\* z = x^n - 1, zi = 1 / z, l0 = z / (n (x - 1));  xn: squaring chain of x, xm1 = x - 1, nd = n * xm1
ZeroPolyOk(nlog, x, xn, z, zi, l0, xm1, nd) ==
  /\ SqChainOk(x, nlog, xn)
  /\ EqP(AddP(z, One8), Last(xn))
  /\ MulEq(z, zi, One8)
  /\ EqP(AddP(xm1, One8), x)
  /\ MulEq(F8(Pow2(nlog)), xm1, nd)
  /\ MulEq(l0, nd, z)

\* ---- coset shifts: k_i^n pairwise distinct, i.e. (k_i / k_j)^n # 1 --------------------------
CosetShiftsOk(lg, ks, chs) ==
  /\ Len(chs) = Len(ks)
  /\ \A i \in 1..Len(ks) : SqChainOk(ks[i], lg, chs[i])
  /\ \A i \in 1..Len(ks) : \A j \in (i + 1)..Len(ks) : ModP(Last(chs[i])) # ModP(Last(chs[j]))

\* ---- index permutations on tagged elements (tag = original index) ---------------------------
RECURSIVE RevBits(_, _)
RevBits(i, bits) == IF bits = 0 THEN 0 ELSE (i % 2) * Pow2(bits - 1) + RevBits(i \div 2, bits - 1)
BitRevOk(lg, out) == Len(out) = Pow2(lg) /\ \A i \in 1..Len(out) : out[i] = RevBits(i - 1, lg)
BitRevSampleOk(lg, pos, val) == Len(pos) = Len(val) /\ \A t \in 1..Len(pos) : val[t] = RevBits(pos[t], lg)
\* out = transpose of the rows x cols matrix with entry (r, c) tagged r * cols + c
TransposeOk(rows, cols, out) ==
  /\ Len(out) = cols
  /\ \A i \in 1..cols : /\ Len(out[i]) = rows
                        /\ \A j \in 1..rows : out[i][j] = (j - 1) * cols + (i - 1)

\* ---- integer helpers on limb numbers ---------------------------------------------------------
Pow2L(k) == [i \in 1..(k \div 8 + 1) |-> IF i = k \div 8 + 1 THEN Pow2(k % 8) ELSE 0]
Log2CeilOk(n, r) == IF Len(Trim(n)) = 0 THEN r = 0
                    ELSE /\ Geq(Pow2L(r), n) /\ (r = 0 \/ ~Geq(Pow2L(r - 1), n))
BitsOk(n, r) == IF Len(Trim(n)) = 0 THEN r = 0
                ELSE r >= 1 /\ Geq(n, Pow2L(r - 1)) /\ ~Geq(n, Pow2L(r))
IsPow2L(n) == \E k \in 0..63 : Trim(n) = Trim(Pow2L(k))
Log2StrictOk(n, panicked, r) == IF panicked THEN ~IsPow2L(n) ELSE Trim(n) = Trim(Pow2L(r))
\* largest r with base^r <= n; pw[t + 1] = base^t as naturals (recorded), t = 0..r+1
LogFloorOk(n, base, r, pw) ==
  /\ Len(pw) = r + 2 /\ pw[1] = <<1>>
  /\ \A t \in 1..(r + 1) : pw[t + 1] = MulN(pw[t], base)
  /\ Geq(n, pw[r + 1]) /\ ~Geq(n, pw[r + 2])

SameOk(a, b) == Len(a) = Len(b) /\ \A i \in 1..Len(a) : EqF(a[i], b[i])
=============================================================================
