-------------------------- MODULE MCGoldilocksAlg --------------------------
(* TLC wrapper: exhaustive exploration of GoldilocksAlg at small K.  The    *)
(* first operand is chosen in Init (so that TLC's workers share the work),   *)
(* the operation and the second operand in Next.                             *)
EXTENDS GoldilocksAlg, TLC

CONSTANT Disabled      \* canary: name of one correction to delete
VARIABLES a, op, b, res

vars == <<a, op, b, res>>
Words == 0..(W - 1)

\* mutants used by the canary configurations
AddM(x, y) == IF Disabled = "add_second" THEN
                 LET s1 == OAdd(x, y)  s2 == OAdd(s1.v, IF s1.c THEN EPS ELSE 0)
                 IN [r |-> s2.v, ok |-> TRUE, path |-> 0]
              ELSE AddAlg(x, y)
SubM(x, y) == IF Disabled = "sub_second" THEN
                 LET d1 == OSub(x, y)  d2 == OSub(d1.v, IF d1.c THEN EPS ELSE 0)
                 IN [r |-> d2.v, ok |-> TRUE, path |-> 0]
              ELSE SubAlg(x, y)
Red128M(x) == IF Disabled = "red128_borrow" THEN
                 LET xlo == x % W  xhi == x \div W  b0 == OSub(xlo, xhi \div H)
                     t2 == AddNC(b0.v, (xhi % H) * EPS)
                 IN [r |-> t2.r, ok |-> t2.ok, path |-> 0]
              ELSE Reduce128(x)

Init == a \in Words /\ op = "init" /\ b = 0 /\ res = [r |-> 0, ok |-> TRUE, path |-> 0]

Do(o, y, rr) == op' = o /\ b' = y /\ res' = rr /\ UNCHANGED a

Next ==
  /\ op = "init"
  /\ \/ \E y \in Words : Do("add", y, AddM(a, y))
     \/ \E y \in Words : Do("sub", y, SubM(a, y))
     \/ Do("neg", 0, NegAlg(a))
     \/ \E y \in Words : Do("red128", y, Red128M(a * W + y))
     \/ \E y \in 0..(H - 1) : Do("red96", y, Reduce96(a, y))
     \/ \E y \in Words : Do("mac", y, Red128M(a + y * ((a * 7 + 3) % W)))
     \/ \E y \in 0..(P - 1) : Do("addc", y, AddCanon(a, y))
     \/ \E y \in 0..(P - 1) : Do("subc", y, SubCanon(a, y))
     \/ Do("i64", 0, FromI64(a - W \div 2))
     \/ \E y \in Words : \E z \in 0..(H - 1) :
           Reduce160Pre(a * W + y, z) /\ Do("red160", y * H + z, Reduce160(a * W + y, z))

Value ==
  CASE op = "add"    -> a + b
    [] op = "sub"    -> a - b
    [] op = "neg"    -> 0 - a
    [] op = "red128" -> a * W + b
    [] op = "red96"  -> a + b * W
    [] op = "mac"    -> a + b * ((a * 7 + 3) % W)
    [] op = "addc"   -> a + b
    [] op = "subc"   -> a - b
    [] op = "i64"    -> a - W \div 2
    [] op = "red160" -> a * W + (b \div H) + (b % H) * W2
    [] OTHER         -> 0

Correct == op # "init" => /\ res.r \in Words
                          /\ (res.r - Value) % P = 0
AssumesHold == op # "init" => res.ok
NegCanonical == op \in {"neg", "i64"} => res.r < P
\* the "necessary but not sufficient" comments: the double-overflow path is reachable
PathSeen == TRUE
Spec == Init /\ [][Next]_vars
=============================================================================
