CONSTANT MaxDb = 12
CONSTANT MaxRb = 4
CONSTANT MaxCap = 5
CONSTANT MaxQ = 4
CONSTANT Mutant = "none"
INIT Init
NEXT Next
INVARIANT ConstOk
INVARIANT ConstPanicOnlyWhenTooWide
INVARIANT MinOk
INVARIANT FinalLenOk
INVARIANT Emit
CHECK_DEADLOCK FALSE
