CONSTANT Instance = "stark"
CONSTANT NL = 2
CONSTANT Disabled = {"InitMerkle1"}
CONSTANT Mutant = "none"
INIT Init
NEXT Next
INVARIANT Agree
CHECK_DEADLOCK FALSE
