CONSTANT P = 17
CONSTANT N = 2
CONSTANT MUT = "no_last_row"
CONSTANT DIDS = {3}
CONSTANT BETAS = {2}
INIT Init
NEXT Next
INVARIANT Theorem
CHECK_DEADLOCK FALSE
