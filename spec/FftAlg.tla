------------------------------- MODULE FftAlg -------------------------------
(***************************************************************************)
(* Implementation-shaped transcription of /repo/field/src/fft.rs over a    *)
(* small prime field F_P: fft_root_table, fft_classic (bit reversal of the *)
(* input, the first r butterfly rounds replaced by copying when the last   *)
(* 1 - 2^-r inputs are known to be zero, packed rounds via `interleave`,   *)
(* the main butterfly rounds), the reversal/scaling epilogue of            *)
(* ifft_with_options and the coefficient scalings of coset_fft /           *)
(* coset_ifft (polynomial/mod.rs).  Vectors are functions on 0..n-1.       *)
(* The property-level tier is the naive DFT at the bottom.  The state      *)
(* machine that steps through these operators is MCFftAlg.                 *)
(***************************************************************************)
EXTENDS Integers, Sequences, FiniteSets

CONSTANTS P,         \* a small prime with 2^MaxLg | P - 1
          G,         \* an element of multiplicative order exactly 2^MaxLg
          MaxLg,     \* two-adicity used
          PackLg,    \* lg of the packed width (0 = scalar build, 2 = four lanes)
          Mutant     \* "none" or the name of one seeded transcription error (canaries)

Pow2(k) == 2 ^ k
Mod(x) == x % P                     \* TLC's % is non-negative for positive modulus
RECURSIVE PowM(_, _)
PowM(a, e) == IF e = 0 THEN 1 ELSE Mod(a * PowM(a, e - 1))
InvM(a) == PowM(a, P - 2)
Min(a, b) == IF a < b THEN a ELSE b
Max(a, b) == IF a > b THEN a ELSE b

\* n-bit reversal of i (definition)
RECURSIVE Rev(_, _)
Rev(i, bits) == IF bits = 0 THEN 0 ELSE (i % 2) * Pow2(bits - 1) + Rev(i \div 2, bits - 1)

\* ---- F::primitive_root_of_unity(lg) = POWER_OF_TWO_GENERATOR^(2^(TWO_ADICITY - lg)) -------
PrimRoot(lgn) == PowM(G, Pow2(MaxLg - lgn))

\* ---- fft_root_table(n): bases by repeated squaring, rows of max(half_m, 2) powers ---------
RECURSIVE BasesAcc(_, _, _)
BasesAcc(acc, base, todo) == IF todo = 0 THEN acc
                             ELSE BasesAcc(Append(acc, Mod(base * base)), Mod(base * base), todo - 1)
\* bases[i + 1] = g^(2^i), i = 0 .. lg_n - 1 (one element even when lg_n = 0)
Bases(lgn) == BasesAcc(<<PrimRoot(lgn)>>, PrimRoot(lgn), IF lgn > 1 THEN lgn - 1 ELSE 0)
\* base.powers().take(k)
RECURSIVE Powers(_, _, _, _)
Powers(acc, cur, base, k) == IF k = 0 THEN acc ELSE Powers(Append(acc, cur), Mod(cur * base), base, k - 1)
\* root_table[lg_m - 1], lg_m = 1 .. lg_n; rows are 1-based sequences (row[j + 1] = base^j)
RootRow(lgn, lgm) ==
  LET halfm == Pow2(lgm - 1)
      base == Bases(lgn)[lgn - lgm + 1]
  IN Powers(<<>>, 1, base, Max(halfm, 2))
RootTable(lgn) == [lgm \in 1..lgn |-> RootRow(lgn, lgm)]      \* length lg_n (0 rows for n = 1)
\* root_table[lg_half_m][j]
Tw(tbl, lghalf, j) ==
  LET jj == IF Mutant = "twiddle_stride" THEN (2 * j) % Len(tbl[lghalf + 1]) ELSE j
  IN tbl[lghalf + 1][jj + 1]

\* ---- reverse_index_bits_in_place (its own model is BitRev.tla) ------------------------------
BitRevVec(v, lgn) == IF Mutant = "no_bitrev" THEN v
                     ELSE [i \in 0..(Pow2(lgn) - 1) |-> v[Rev(i, lgn)]]

\* ---- the copying loop that replaces the first r rounds: values[i] = values[i & mask] --------
\* (in place, ascending i: i & mask <= i and position i & mask is a fixed point, so the loop
\* equals the simultaneous assignment)
CopyVec(v, lgn, r) ==
  IF r = 0 THEN v
  ELSE LET rr == IF Mutant = "copy_mask" THEN r + 1 ELSE r
           blk == Pow2(rr)
       IN [i \in 0..(Pow2(lgn) - 1) |-> v[i - (i % blk)]]

\* ---- PackedField::interleave on two W-lane vectors (1-based lane sequences) ------------------
\* u takes the even blocks of A and B alternately, v the odd blocks
Interleave(A, B, bl) ==
  LET W == Len(A)
      U == [p \in 1..W |-> LET q == (p - 1) \div bl  off == (p - 1) % bl
                           IN IF q % 2 = 0 THEN A[q * bl + off + 1] ELSE B[(q - 1) * bl + off + 1]]
      V == [p \in 1..W |-> LET q == (p - 1) \div bl  off == (p - 1) % bl
                           IN IF q % 2 = 0 THEN A[(q + 1) * bl + off + 1] ELSE B[q * bl + off + 1]]
  IN <<U, V>>

\* one packed round, lg_half_m < lg_packed_width: pairs of adjacent vectors (k, k + 1)
PackedRound(v, lgn, tbl, lghalf) ==
  LET W == Pow2(PackLg)
      halfm == Pow2(lghalf)
      Vec(k) == [p \in 1..W |-> v[k * W + p - 1]]
      omega == [p \in 1..W |-> Tw(tbl, lghalf, IF Mutant = "packed_omega" THEN ((p - 1) % (2 * halfm)) % Len(tbl[lghalf + 1])
                                                ELSE (p - 1) % halfm)]
      Pair(k) == LET uv == Interleave(Vec(k), Vec(k + 1), halfm)
                     t == [p \in 1..W |-> Mod(omega[p] * uv[2][p])]
                     s == [p \in 1..W |-> Mod(uv[1][p] + t[p])]
                     d == [p \in 1..W |-> Mod(uv[1][p] - t[p])]
                 IN Interleave(s, d, halfm)
  IN [i \in 0..(Pow2(lgn) - 1) |->
        LET vec == i \div W  lane == i % W  k == vec - (vec % 2)
        IN Pair(k)[(vec % 2) + 1][lane + 1]]

\* one main-loop round on vectors of W lanes (W = 1: the scalar code), lg_half_m >= lg W
MainRound(v, lgn, tbl, lghalf, W) ==
  LET m == Pow2(lghalf + 1)
      packedm == m \div W
      halfpm == packedm \div 2
  IN [i \in 0..(Pow2(lgn) - 1) |->
        LET vec == i \div W  lane == i % W  pos == vec % packedm
        IN IF pos < halfpm
           THEN Mod(v[i] + Tw(tbl, lghalf, pos * W + lane) * v[i + halfpm * W])
           ELSE Mod(v[i - halfpm * W] - Tw(tbl, lghalf, (pos - halfpm) * W + lane) * v[i])]

\* which code path a round takes: fft_classic uses the scalar instantiation iff lg_n <= lg W
UsesPacked(lgn) == lgn > PackLg
FirstRound(lgn, r) == IF Mutant = "skip_round0" /\ r = 0 /\ lgn > 0 THEN 1 ELSE r
\* round lg_half_m of fft_classic_simd::<P>
Round(v, lgn, tbl, lghalf) ==
  IF UsesPacked(lgn)
  THEN IF lghalf < Min(lgn, PackLg) THEN PackedRound(v, lgn, tbl, lghalf)
       ELSE MainRound(v, lgn, tbl, lghalf, Pow2(PackLg))
  ELSE MainRound(v, lgn, tbl, lghalf, 1)

\* ---- ifft_with_options epilogue: reverse all values but the first, divide by n ---------------
IfftPost(v, lgn) ==
  LET n == Pow2(lgn)
      ninv == InvM(Mod(Pow2(lgn)))                       \* F::inverse_2exp(lg_n)
      b1 == [v EXCEPT ![0] = Mod(v[0] * ninv)]
      b2 == IF Mutant = "ifft_half" THEN b1 ELSE [b1 EXCEPT ![n \div 2] = Mod(b1[n \div 2] * ninv)]
  IN [i \in 0..(n - 1) |->
        IF i >= 1 /\ i # n \div 2 /\ i < n
        THEN (IF Mutant = "ifft_no_reverse" THEN Mod(b2[i] * ninv) ELSE Mod(b2[n - i] * ninv))
        ELSE b2[i]]

\* ---- coset variants: scale coefficient i by shift^i before / by shift^-i after ---------------
CosetPre(v, lgn, shift) ==
  [i \in 0..(Pow2(lgn) - 1) |-> Mod(PowM(shift, IF Mutant = "coset_pow" THEN i + 1 ELSE i) * v[i])]
CosetPost(v, lgn, shift) ==
  [i \in 0..(Pow2(lgn) - 1) |-> Mod(v[i] * PowM(InvM(shift), i))]

\* ---- property level: naive evaluation --------------------------------------------------------
RECURSIVE SumTo(_, _, _, _)
\* sum_{j < m} c[j] * x^j
SumTo(c, x, m, j) == IF j = m THEN 0 ELSE Mod(c[j] * PowM(x, j) + SumTo(c, x, m, j + 1))
EvalAt(c, n, x) == SumTo(c, x, n, 0)
\* value i of the DFT of c: evaluation at w^i, w = primitive_root_of_unity(lg n)
DftAt(c, lgn, i) == EvalAt(c, Pow2(lgn), PowM(PrimRoot(lgn), i))
CosetDftAt(c, lgn, shift, i) == EvalAt(c, Pow2(lgn), Mod(shift * PowM(PrimRoot(lgn), i)))
=============================================================================
