----------------------------- MODULE ProofShape -----------------------------
(***************************************************************************)
(* C18 — shape of a (compressed / STARK) proof as a record of COMPONENT     *)
(* LENGTHS, an adversary that deviates one or two length fields, and two    *)
(* verifier models:                                                         *)
(*                                                                          *)
(*   Ideal    (property level): shape first, never indexes out of range:    *)
(*            ~WellShaped => Reject, never Panic.                           *)
(*   Faithful (implementation shaped): every index, unwrap, log2_strict and *)
(*            HashMap lookup of plonk/verifier.rs, plonk/validate_shape.rs, *)
(*            fri/validate_shape.rs, fri/verifier.rs, plonk/proof.rs        *)
(*            (compressed path), plonk/get_challenges.rs                    *)
(*            (get_inferred_elements), fri/proof.rs (decompress),           *)
(*            hash/path_compression.rs, starky/src/{verifier,proof,         *)
(*            get_challenges}.rs is a guarded step, in the code's ORDER;    *)
(*            a failed guard of kind "P" is a Panic, of kind "R" an Err.    *)
(*                                                                          *)
(* `Fixed` names the repairs that are present in the code being described:  *)
(* a repaired guard is of kind "R".  Fixed = {} is the pinned tree.         *)
(* The abstract `common` is fixed below (cap height 2, 4 oracles, 2 query   *)
(* rounds, 2 reduction layers of arity 4, ...); lengths are symbolic        *)
(* classes relative to the correct value, made concrete by the harness on   *)
(* real proofs.                                                             *)
(***************************************************************************)
EXTENDS Naturals, Sequences, FiniteSets, SequencesExt

CONSTANTS
  Entry,        \* "verify" | "compressed" | "stark"
  Variant,      \* plonk: "std" | "zk" | "lookup";  stark: "fib" | "perm" | "lowcap"
  Fixed,        \* set of repair names present in the code
  MaxDevs,      \* 1 or 2 deviations at a time
  IdealMutant   \* "none" | "skip_shape" (canary: an Ideal verifier that forgets the shape check)

FixNames == {"capheight", "mapget", "starkdeg", "starkdegrange", "starkopt", "cshape",
             "cinferred", "ncaps", "surplus", "squotcap"}

----------------------------------------------------------------------------
(* the abstract common data                                                *)
CapH   == 2
CapLen == 4
NO     == IF Entry = "stark" THEN 2 ELSE 4          \* oracles
NL     == 2                                         \* reduction layers
Q      == 2                                         \* query rounds
Arity  == 4
IsStark == Entry = "stark"
Zk      == Variant = "zk"
Lookups == Variant = "lookup"
UsesLookups == Variant = "perm"                     \* STARK with logUp columns
NumQuot == IF Variant = "perm" THEN 0 ELSE 2        \* STARK quotient polys (constraint degree 0 => none)
RateBits == IF Variant = "lowcap" THEN 3 ELSE 1
Salt(o) == IF Zk /\ o = 1 THEN 4 ELSE 0             \* oracle "1" = last oracle (blinded)
PathLen == 5
LPath(l) == IF l = 0 THEN 3 ELSE 1
EvalsLen == IF Entry = "compressed" THEN Arity - 1 ELSE Arity

Rounds == {0, 1}     \* 0 = first round / smallest key, 1 = last round / largest key
RoundFields(r) ==
  LET p == IF r = 0 THEN "r0." ELSE "r1." IN
  {p \o "noracles", p \o "leaf0", p \o "leaf1", p \o "path0", p \o "path1",
   p \o "evals0", p \o "evals1", p \o "lpath0", p \o "lpath1"}
   \cup (IF Entry = "compressed" THEN {} ELSE {p \o "nsteps"})

FriFields == {"ncaps", "ccap", "nrounds", "final_poly"} \cup RoundFields(0) \cup RoundFields(1)
             \cup (IF Entry = "compressed" THEN {"nsteps", "skeys0", "skeys1", "indices"} ELSE {})

PlonkOpenings == {"op.constants", "op.sigmas", "op.wires", "op.zs", "op.zs_next", "op.pp",
                  "op.quot", "op.lzs", "op.lzs_next"}
PlonkFields == {"wires_cap", "zs_cap", "quot_cap", "pis"} \cup PlonkOpenings \cup FriFields
StarkOptFields == {"aux_cap", "squot_cap", "op.aux", "op.aux_next", "op.ctl", "op.squot"}
StarkFields == {"trace_cap", "op.local", "op.next", "pis"} \cup StarkOptFields \cup FriFields
(* the "lowcap" STARK variant (cap height below the rate bits) exists only to reach the      *)
(* degree underflow of recover_degree_bits: its adversary touches the first round only      *)
Fields == IF Variant = "lowcap" THEN {"nrounds", "r0.noracles", "r0.path0", "r0.path1"}
          ELSE IF IsStark THEN StarkFields ELSE PlonkFields

CapFields == {"wires_cap", "zs_cap", "quot_cap", "ccap", "trace_cap", "aux_cap", "squot_cap"}
PathFields == {"r0.path0", "r0.path1", "r1.path0", "r1.path1", "r0.lpath0", "r0.lpath1", "r1.lpath0", "r1.lpath1"}

(* correct length of every field *)
Cor(f) ==
  CASE f \in CapFields -> CapLen
    [] f = "op.constants" -> 2  [] f = "op.sigmas" -> 3  [] f = "op.wires" -> 4
    [] f = "op.zs" -> 2  [] f = "op.zs_next" -> 2  [] f = "op.pp" -> 2  [] f = "op.quot" -> 4
    [] f \in {"op.lzs", "op.lzs_next"} -> IF Lookups THEN 2 ELSE 0
    [] f \in {"op.local", "op.next"} -> 3
    [] f \in {"op.aux", "op.aux_next"} -> 2
    [] f = "op.ctl" -> 0
    [] f = "op.squot" -> NumQuot
    [] f = "pis" -> 2
    [] f = "ncaps" -> NL  [] f = "nrounds" -> Q  [] f = "final_poly" -> 2
    [] f \in {"nsteps", "r0.nsteps", "r1.nsteps"} -> NL
    [] f \in {"skeys0", "skeys1", "indices"} -> Q
    [] f \in {"r0.noracles", "r1.noracles"} -> NO
    [] f \in {"r0.leaf0", "r1.leaf0"} -> 5
    [] f \in {"r0.leaf1", "r1.leaf1"} -> 4 + Salt(1)
    [] f \in {"r0.path0", "r0.path1", "r1.path0", "r1.path1"} -> PathLen
    [] f \in {"r0.evals0", "r0.evals1", "r1.evals0", "r1.evals1"} -> EvalsLen
    [] f \in {"r0.lpath0", "r1.lpath0"} -> LPath(0)
    [] f \in {"r0.lpath1", "r1.lpath1"} -> LPath(1)
    [] OTHER -> 0

(* presence of the optional STARK components in a well-shaped proof *)
CorSome(f) ==
  CASE f \in {"aux_cap", "op.aux", "op.aux_next"} -> UsesLookups
    [] f \in {"squot_cap", "op.squot"} -> NumQuot > 0
    [] f = "op.ctl" -> FALSE
    [] OTHER -> TRUE

Classes == {"zero", "minus1", "plus1", "np2", "huge"}
Apply(c, v, f) ==
  CASE v = "zero" -> 0
    [] v = "minus1" -> c - 1
    [] v = "plus1" -> c + 1
    [] v = "np2" -> IF c = 3 THEN 5 ELSE 3
    [] v = "huge" -> IF f \in CapFields THEN 1024 ELSE IF f \in PathFields THEN 31 ELSE c + 100   \* 31 siblings: cap height + path length just above the two-adicity (32), below every "absurdly long" cut-off
    [] OTHER -> c

(* the adversary's catalogue *)
Applicable(f, v) ==
  /\ (v = "np2") => (f \in CapFields)      \* "not a power of two" is a class of cap lengths only
  /\ ~(v \in {"zero", "minus1"} /\ Cor(f) = 0)
  /\ ~(v = "zero" /\ Cor(f) = 1 )   \* same as minus1
  /\ (f \in StarkOptFields /\ IsStark) => CorSome(f)       \* lengths only of present components
  /\ ~(f \in {"nrounds", "skeys0", "skeys1"} /\ Entry = "compressed" /\ v \in {"np2", "huge"})
AllDevs ==
  {d \in [f : Fields, v : Classes] : Applicable(d.f, d.v)}
  \cup (IF IsStark THEN {d \in [f : StarkOptFields \cap Fields, v : {"none", "some"}] :
                           (d.v = "none") = CorSome(d.f)} ELSE {})

(* two deviations must not address a container and something inside it *)
InRound(r) == RoundFields(r)
Inside(r, what) == LET p == IF r = 0 THEN "r0." ELSE "r1." IN
  CASE what = "noracles" -> {p \o "leaf0", p \o "leaf1", p \o "path0", p \o "path1"}
    [] OTHER -> {p \o "evals0", p \o "evals1", p \o "lpath0", p \o "lpath1"}
StepInner == Inside(0, "nsteps") \cup Inside(1, "nsteps")
Clash(x, y) ==
  \/ (x = "ncaps" /\ y = "ccap")
  \/ (x = "nrounds" /\ y \in InRound(0) \cup InRound(1))
  \/ \E r \in Rounds : (x = (IF r = 0 THEN "r0.noracles" ELSE "r1.noracles") /\ y \in Inside(r, "noracles"))
  \/ \E r \in Rounds : (x = (IF r = 0 THEN "r0.nsteps" ELSE "r1.nsteps") /\ y \in Inside(r, "nsteps"))
  \/ (x \in {"nsteps", "skeys0", "skeys1"} /\ y \in StepInner)
  \/ (x = "nsteps" /\ y \in {"skeys0", "skeys1"})
Independent(a, b) == a.f # b.f /\ ~Clash(a.f, b.f) /\ ~Clash(b.f, a.f)

----------------------------------------------------------------------------
VARIABLES stage, idx, devs, adaptive, plan, pc, fout, falt, dout, iout
vars == <<stage, idx, devs, adaptive, plan, pc, fout, falt, dout, iout>>

Dev(f) == CHOOSE d \in devs : d.f = f
Has(f) == \E d \in devs : d.f = f
L(f) == IF Has(f) /\ Dev(f).v \in Classes THEN Apply(Cor(f), Dev(f).v, f) ELSE Cor(f)
O(f) == IF Has(f) /\ Dev(f).v \in {"none", "some"} THEN Dev(f).v = "some" ELSE CorSome(f)
IsPow2(n) == n \in {1, 2, 4, 8, 16, 32, 64, 128, 256, 512, 1024}

WellShaped ==
  \A f \in Fields \ {"indices"} : /\ L(f) = Cor(f)
                                   /\ (f \in StarkOptFields => O(f) = CorSome(f))

(* what is absorbed into the Fiat–Shamir transcript, and when *)
EarlyAbsorbed == {"wires_cap", "zs_cap", "quot_cap", "pis", "trace_cap", "aux_cap", "squot_cap"}
LateAbsorbed == PlonkOpenings \cup {"op.local", "op.next", "op.aux", "op.aux_next", "op.ctl", "op.squot",
                                    "ncaps", "ccap", "final_poly"}
EarlyDev == \E d \in devs : d.f \in EarlyAbsorbed
(* to_fri_openings drops lookup_zs_next when lookup_zs is empty *)
AbsorbedDev == \E d \in devs : /\ d.f \in EarlyAbsorbed \cup LateAbsorbed
                                /\ ~(d.f = "op.lzs_next" /\ L("op.lzs") = 0)

(* guarded steps *)
P(id, fix, ok)  == [id |-> id, fix |-> fix, kind |-> IF fix \in Fixed THEN "R" ELSE "P", ok |-> ok, maybe |-> FALSE]
PM(id, fix, ok) == [id |-> id, fix |-> fix, kind |-> IF fix \in Fixed THEN "R" ELSE "P", ok |-> ok, maybe |-> TRUE]
R(id, ok)       == [id |-> id, fix |-> "", kind |-> "R", ok |-> ok, maybe |-> FALSE]
(* a check that exists only in repaired code *)
RF(id, fix, ok) == [id |-> id, fix |-> fix, kind |-> "R", ok |-> (fix \notin Fixed) \/ ok, maybe |-> FALSE]

MinOf(S) == CHOOSE x \in S : \A y \in S : x <= y
FirstFail(steps) ==      \* apply to values (variables / SubSeq of a variable) only
  LET I == {i \in 1..Len(steps) : ~steps[i].ok} IN
  IF I = {} THEN [res |-> "ok", step |-> "", fix |-> "", maybe |-> FALSE]
  ELSE LET s == steps[MinOf(I)] IN
       [res |-> IF s.kind = "P" THEN "panic" ELSE "reject", step |-> s.id, fix |-> s.fix, maybe |-> s.maybe]

(* a "maybe" step fails or not depending on a Fiat–Shamir-random index / the gate set:    *)
(* `falt` is the outcome when every such step passes, `fout` when it fails                *)
SkipMaybe(p) == [i \in 1..Len(p) |-> IF p[i].maybe THEN [p[i] EXCEPT !.ok = TRUE] ELSE p[i]]
AsVerdict(ff) == IF ff.res = "ok" THEN [ff EXCEPT !.res = "accept"] ELSE ff

RP(r) == IF r = 0 THEN "r0." ELSE "r1."
OS(o) == IF o = 0 THEN "0" ELSE "1"

----------------------------------------------------------------------------
(* FRI part shared by the three entry points (fri/validate_shape.rs, fri/verifier.rs) *)
RoundPresent(r) == IF r = 0 THEN L("nrounds") >= 1 ELSE L("nrounds") >= 2

FriRoundShape(r) ==
  LET p == RP(r) IN
  IF ~RoundPresent(r) THEN <<>> ELSE
  << R("frishape." \o p \o "noracles", L(p \o "noracles") = NO),
     R("frishape." \o p \o "leaf0", L(p \o "leaf0") = Cor(p \o "leaf0")),
     R("frishape." \o p \o "path0", Entry = "compressed" \/ L(p \o "path0") = PathLen),   \* decompression regenerates full paths
     R("frishape." \o p \o "leaf1", L(p \o "leaf1") = Cor(p \o "leaf1")),
     R("frishape." \o p \o "path1", Entry = "compressed" \/ L(p \o "path1") = PathLen),
     R("frishape." \o p \o "nsteps", IF Entry = "compressed" THEN TRUE ELSE L(p \o "nsteps") = NL),
     R("frishape." \o p \o "evals0", IF Entry = "compressed" THEN L(p \o "evals0") + 1 = Arity ELSE L(p \o "evals0") = Arity),
     R("frishape." \o p \o "lpath0", Entry = "compressed" \/ L(p \o "lpath0") = LPath(0)),
     R("frishape." \o p \o "evals1", IF Entry = "compressed" THEN L(p \o "evals1") + 1 = Arity ELSE L(p \o "evals1") = Arity),
     R("frishape." \o p \o "lpath1", Entry = "compressed" \/ L(p \o "lpath1") = LPath(1)) >>

FriShape ==
  << P("frishape.ccap.height", "capheight", L("ncaps") = 0 \/ IsPow2(L("ccap"))),
     R("frishape.ccap", L("ncaps") = 0 \/ L("ccap") = CapLen),
     RF("frishape.ncaps", "ncaps", L("ncaps") = NL) >>
  \o FriRoundShape(0) \o FriRoundShape(1)
  \o << R("frishape.final_poly", L("final_poly") = 2) >>

(* proof of work, round count, then the query rounds *)
FriChecks ==
  << R("fri.pow", ~AbsorbedDev \/ (adaptive /\ Entry # "compressed")),
     R("fri.nrounds", Entry = "compressed" \/ L("nrounds") = Q),
     R("fri.merkle", ~(Entry = "compressed" /\ adaptive /\ AbsorbedDev)),
     P("fri.betas[0]", "ncaps", L("ncaps") >= 1),
     P("fri.betas[1]", "ncaps", L("ncaps") >= 2) >>

----------------------------------------------------------------------------
(* plonk/verifier.rs::verify *)
PlonkShape ==
  << P("shape.wires_cap.height", "capheight", IsPow2(L("wires_cap"))), R("shape.wires_cap", L("wires_cap") = CapLen),
     P("shape.zs_cap.height", "capheight", IsPow2(L("zs_cap"))),       R("shape.zs_cap", L("zs_cap") = CapLen),
     P("shape.quot_cap.height", "capheight", IsPow2(L("quot_cap"))),   R("shape.quot_cap", L("quot_cap") = CapLen),
     R("shape.op.constants", L("op.constants") = Cor("op.constants")),
     R("shape.op.sigmas", L("op.sigmas") = Cor("op.sigmas")),
     R("shape.op.wires", L("op.wires") = Cor("op.wires")),
     R("shape.op.zs", L("op.zs") = Cor("op.zs")),
     R("shape.op.zs_next", L("op.zs_next") = Cor("op.zs_next")),
     R("shape.op.pp", L("op.pp") = Cor("op.pp")),
     R("shape.op.quot", L("op.quot") = Cor("op.quot")),
     R("shape.op.lzs", L("op.lzs") = Cor("op.lzs")),
     R("shape.op.lzs_next", L("op.lzs_next") = Cor("op.lzs_next")),
     R("shape.pis", L("pis") = 2) >>

VerifySteps ==
  PlonkShape \o << R("vanishing.identity", ~EarlyDev) >> \o FriShape \o FriChecks

----------------------------------------------------------------------------
(* CompressedProofWithPublicInputs::verify: no shape validation of the opening set and of *)
(* the three main caps; get_inferred_elements and decompress index by Fiat–Shamir-derived *)
(* keys.  `adaptive` = the adversary re-keys the maps with the recomputed indices.        *)
KeysMiss == AbsorbedDev /\ ~adaptive
KeyPresent(r, f) == IF r = 0 THEN L(f) >= 1 ELSE L(f) >= 2

InferredRound(r) ==
  LET p == RP(r) IN
  << P("inferred.initial[x]", "mapget", ~KeysMiss /\ KeyPresent(r, "nrounds")),
     P("inferred." \o p \o "oracle", "cinferred", L(p \o "noracles") >= NO),
     P("inferred." \o p \o "leaf0", "cinferred", L(p \o "leaf0") >= Cor(p \o "leaf0")),
     P("inferred." \o p \o "leaf1", "cinferred", L(p \o "leaf1") >= Cor(p \o "leaf1")),
     P("inferred.steps[0]", "mapget", L("nsteps") >= 1),
     P("inferred.steps[0][c]", "mapget", ~KeysMiss /\ KeyPresent(r, "skeys0")),
     PM("inferred." \o p \o "evals0.insert", "cinferred", L(p \o "evals0") >= Arity - 1),
     P("inferred." \o p \o "evals0.log2", "cinferred", IsPow2(L(p \o "evals0") + 1)),
     P("inferred.betas[0]", "cinferred", L("ncaps") >= 1),
     P("inferred.steps[1]", "mapget", L("nsteps") >= 2),
     P("inferred.steps[1][c]", "mapget", ~KeysMiss /\ KeyPresent(r, "skeys1")),
     PM("inferred." \o p \o "evals1.insert", "cinferred", L(p \o "evals1") >= Arity - 1),
     P("inferred." \o p \o "evals1.log2", "cinferred", IsPow2(L(p \o "evals1") + 1)),
     P("inferred.betas[1]", "cinferred", L("ncaps") >= 2) >>

PathStep(f, c) ==
  IF adaptive THEN PM("decompress." \o f, "cinferred", L(f) >= c)
  ELSE P("decompress." \o f, "cinferred", L(f) >= c)

DecompressSteps ==
  << P("decompress.first_value", "mapget", L("nrounds") >= 1),
     PM("decompress.transpose", "cinferred", L("r0.noracles") <= NO /\ L("r1.noracles") <= NO),
     PathStep("r0.path0", PathLen), PathStep("r0.path1", PathLen),
     PathStep("r1.path0", PathLen), PathStep("r1.path1", PathLen),
     PathStep("r0.lpath0", LPath(0)), PathStep("r1.lpath0", LPath(0)),
     PathStep("r0.lpath1", LPath(1)), PathStep("r1.lpath1", LPath(1)),
     RF("decompress.surplus", "surplus",
        /\ \A f \in PathFields : L(f) <= Cor(f)
        /\ \A f \in {"nrounds", "skeys0", "skeys1", "nsteps"} : L(f) <= Cor(f)) >>

ShortOpenings == {"op.constants", "op.sigmas", "op.wires", "op.zs", "op.zs_next", "op.pp", "op.lzs", "op.lzs_next"}
CompressedVanishing ==
  << RF("cshape.shape", "cshape", \A f \in {"wires_cap", "zs_cap", "quot_cap"} \cup PlonkOpenings : L(f) = Cor(f)),
     PM("vanishing.index", "cshape", \A f \in ShortOpenings : L(f) >= Cor(f)),
     R("vanishing.identity", ~EarlyDev /\ (L("op.quot") >= Cor("op.quot") \/ L("op.quot") = 0)),
     P("vanishing.chunks", "cshape", L("op.quot") <= Cor("op.quot")) >>

CompressedSteps ==
  << R("pis", L("pis") = 2) >>
  \o InferredRound(0) \o InferredRound(1) \o DecompressSteps \o CompressedVanishing
  \o FriShape \o FriChecks

(* the public `decompress` alone *)
DecompressOnlySteps == InferredRound(0) \o InferredRound(1) \o DecompressSteps

----------------------------------------------------------------------------
(* starky/src/verifier.rs::verify_stark_proof: get_challenges (which recovers the degree  *)
(* from the first Merkle path and unwraps the optional lookup data) runs BEFORE            *)
(* validate_proof_shape.                                                                  *)
DegBits == CapH + L("r0.path0") - RateBits      \* evaluated only when CapH + path >= RateBits
StarkChallenges ==
  << P("degbits.rounds[0]", "starkdeg", L("nrounds") >= 1),
     P("degbits.evals_proofs[0]", "starkdeg", L("nrounds") = 0 \/ L("r0.noracles") >= 1),
     P("degbits.range", "starkdegrange",
       L("nrounds") = 0 \/ L("r0.noracles") = 0 \/ (CapH + L("r0.path0") >= RateBits /\ DegBits <= 32)),
     P("challenges.aux_cap.unwrap", "starkopt", ~UsesLookups \/ O("aux_cap")),
     P("challenges.aux.len", "starkopt", ~UsesLookups \/ (O("op.aux") /\ L("op.aux") >= Cor("op.aux"))) >>

StarkShape ==
  << R("shape.pis", L("pis") = 2),
     P("shape.trace_cap.height", "capheight", IsPow2(L("trace_cap"))), R("shape.trace_cap", L("trace_cap") = CapLen),
     P("shape.squot_cap.height", "capheight", ~O("squot_cap") \/ IsPow2(L("squot_cap"))),
     R("shape.squot_cap", ~O("squot_cap") \/ L("squot_cap") = CapLen),
     RF("shape.squot_cap.present", "squotcap", O("squot_cap") = (NumQuot > 0)),
     R("shape.op.local", L("op.local") = 3), R("shape.op.next", L("op.next") = 3),
     R("shape.op.squot", IF O("op.squot") THEN L("op.squot") = NumQuot ELSE NumQuot = 0),
     R("shape.aux.options", IF UsesLookups THEN O("aux_cap") /\ O("op.aux") /\ O("op.aux_next")
                            ELSE ~O("aux_cap") /\ ~O("op.aux") /\ ~O("op.aux_next")),
     R("shape.op.ctl", ~UsesLookups \/ ~O("op.ctl") \/ L("op.ctl") = 0),
     P("shape.aux_cap.height", "capheight", ~UsesLookups \/ IsPow2(L("aux_cap"))),
     R("shape.aux_cap", ~UsesLookups \/ L("aux_cap") = CapLen),
     R("shape.op.aux", ~UsesLookups \/ (L("op.aux") = 2 /\ L("op.aux_next") = 2)) >>

StarkSteps ==
  << R("pis", L("pis") = 2) >> \o StarkChallenges \o StarkShape
  \o << R("quotient.identity", (~EarlyDev \/ adaptive) /\ L("r0.path0") = PathLen) >>   \* a wrong recovered degree changes the statement
  \o FriShape \o FriChecks

----------------------------------------------------------------------------
Steps == CASE Entry = "verify" -> VerifySteps
           [] Entry = "compressed" -> CompressedSteps
           [] OTHER -> StarkSteps

(* phases = chunks of the step list, so that the verifier is a small state machine; the    *)
(* list is evaluated once (Init) into the variable `plan`: TLC re-evaluates operator        *)
(* arguments at every use, a variable holds a value.                                        *)
PhaseLen == 12
NPhases == (Len(plan) + PhaseLen - 1) \div PhaseLen
Phase(k) == SubSeq(plan, (k - 1) * PhaseLen + 1, IF k * PhaseLen > Len(plan) THEN Len(plan) ELSE k * PhaseLen)
DecompressOnlyLen == 14 + 14 + 11      \* InferredRound(0), InferredRound(1), DecompressSteps

Ideal == IF IdealMutant = "skip_shape" THEN "accept"
         ELSE IF WellShaped THEN "accept" ELSE "reject"

(* which adversaries are adaptive: compressed = re-keyed maps; verify = pow-witness search, *)
(* meaningful only for the late-absorbed, not shape-checked number of commit caps;          *)
(* stark = a forger that re-runs the transcript without the quotient cap.                   *)
AdaptiveOK(ds, a) ==
  CASE Entry = "compressed" -> TRUE
    [] Entry = "verify" -> a => (\A d \in ds : d.f = "ncaps") /\ ds # {}
    [] OTHER -> a => (ds = {[f |-> "squot_cap", v |-> "none"]})

Running == [res |-> "running", step |-> "", fix |-> "", maybe |-> FALSE]

(* the first deviation is drawn in Init, the second one and the adversary's adaptivity in   *)
(* the first step (so that TLC's workers share the enumeration); pairs are ordered.         *)
DevOrd == SetToSeq(AllDevs)
NDevs == Len(DevOrd)

Init ==
  /\ stage = "pick"
  /\ idx \in 0..NDevs
  /\ devs = IF idx = 0 THEN {} ELSE {DevOrd[idx]}
  /\ adaptive = FALSE
  /\ plan = <<>>
  /\ pc = 1
  /\ fout = Running
  /\ falt = Running
  /\ dout = Running
  /\ iout = "reject"

Pick ==
  /\ stage = "pick"
  /\ stage' = "run"
  /\ \/ devs' = devs
     \/ /\ MaxDevs >= 2 /\ idx > 0
        /\ \E j \in (idx + 1)..NDevs : Independent(DevOrd[idx], DevOrd[j]) /\ devs' = devs \cup {DevOrd[j]}
  /\ adaptive' \in BOOLEAN
  /\ AdaptiveOK(devs', adaptive')
  /\ plan' = Steps'
  /\ falt' = AsVerdict(FirstFail(SkipMaybe(plan')))
  /\ dout' = IF Entry = "compressed" THEN FirstFail(SubSeq(plan', 2, 1 + DecompressOnlyLen)) ELSE Running
  /\ iout' = Ideal'
  /\ UNCHANGED <<idx, pc, fout>>

Run ==
  /\ stage = "run"
  /\ fout.res = "running"
  /\ LET ff == FirstFail(Phase(pc)) IN
     IF ff.res # "ok" THEN fout' = ff /\ pc' = pc
     ELSE IF pc = NPhases THEN fout' = [ff EXCEPT !.res = "accept"] /\ pc' = pc
     ELSE fout' = fout /\ pc' = pc + 1
  /\ UNCHANGED <<stage, idx, devs, adaptive, plan, falt, dout, iout>>

Next == Pick \/ Run

Done == fout.res # "running"

----------------------------------------------------------------------------
(* obligations *)
IdealNeverPanics == iout \in {"accept", "reject"}
IdealRejectsMisshaped == (stage = "run" /\ iout = "accept") => WellShaped
HonestAccepted == (Done /\ devs = {}) => (fout.res = "accept" /\ iout = "accept")
(* refinement of Ideal by Faithful: holds only for fully repaired code; for the pinned tree  *)
(* its counterexamples are the candidate defects and are printed as scenarios               *)
FaithfulRefinesIdeal == Done => (fout.res = iout)
=============================================================================
