CONSTANTS
  RATE = 8
  WIDTH = 12
  OUT = 4
  NMax = 26
  Ms = {1, 4, 8, 9, 17}
INIT Init
NEXT Next
INVARIANT Emit
CHECK_DEADLOCK FALSE
