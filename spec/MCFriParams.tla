---------------------------- MODULE MCFriParams ----------------------------
(* TLC wrapper of FriParams: enumerates parameter tuples, checks the          *)
(* property-level predicates on the transcribed schedule functions and prints *)
(* one REPLAY line per tuple (compared with the real reduction_arity_bits).   *)
EXTENDS FriParams, Json

CONSTANTS MaxDb, MaxRb, MaxCap, MaxQ,
          Mutant          \* "none" | "const_no_cap_guard" | "minsize_nonstrict" (canaries)
VARIABLES st, db, rb, cap, q, phase, res
vars == <<st, db, rb, cap, q, phase, res>>

ConstStrats == {[kind |-> "Const", a |-> a, f |-> f] : a \in 1..4, f \in 0..5}
MinStrats   == {[kind |-> "MinSize", max |-> m] : m \in -1..4}
FixedLists  == {<<>>, <<1>>, <<2>>, <<3>>, <<1, 1>>, <<2, 1>>, <<1, 2>>, <<3, 2>>, <<2, 2, 1>>, <<1, 1, 1>>, <<4, 4>>, <<5>>}
FixedStrats == {[kind |-> "Fixed", bits |-> b] : b \in FixedLists}

(* ---- mutants ---- *)
RECURSIVE ConstLoopNoCap(_, _, _, _, _, _)
ConstLoopNoCap(d, r, c, a, f, acc) ==
  IF d > f THEN IF d < a THEN [ok |-> FALSE, bits |-> acc] ELSE ConstLoopNoCap(d - a, r, c, a, f, Append(acc, a))
  ELSE [ok |-> TRUE, bits |-> acc]
RECURSIVE MinHelperM(_, _, _, _, _), MinLoopM(_, _, _, _, _, _, _)
MinLoopM(d, r, qq, maxA, prefix, next, best) ==
  IF next > maxA THEN best
  ELSE LET rr == MinHelperM(d, r, qq, maxA, Append(prefix, next))
           nb == IF rr[2] <= best[2] THEN rr ELSE best
       IN MinLoopM(d, r, qq, maxA, prefix, next + 1, nb)
MinHelperM(d, r, qq, gmax, prefix) ==
  LET cur  == d + r - Sum(prefix)
      maxA == Min2(IF Len(prefix) = 0 THEN gmax ELSE prefix[Len(prefix)], cur - r)
  IN MinLoopM(d, r, qq, maxA, prefix, 1, <<prefix, RelSize(d, r, qq, prefix)>>)

Compute ==
  CASE Mutant = "const_no_cap_guard" /\ st.kind = "Const" -> ConstLoopNoCap(db, rb, cap, st.a, st.f, <<>>)
    [] Mutant = "minsize_nonstrict" /\ st.kind = "MinSize" ->
         [ok |-> TRUE, bits |-> MinHelperM(db, rb, q, IF st.max < 0 THEN 4 ELSE st.max, <<>>)[1]]
    [] OTHER -> ReductionArityBits(st, db, rb, cap, q)

Init == /\ db \in 0..MaxDb /\ rb \in 0..MaxRb /\ phase = 0 /\ res = [ok |-> TRUE, bits |-> <<>>]
        /\ \/ st \in ConstStrats /\ cap \in 0..MaxCap /\ q = 1      \* independent of q
           \/ st \in MinStrats /\ cap = 0 /\ q \in 1..MaxQ           \* independent of cap
           \/ st \in FixedStrats /\ cap \in 0..MaxCap /\ q = 1
Next == phase = 0 /\ phase' = 1 /\ res' = Compute /\ UNCHANGED <<st, db, rb, cap, q>>

Done == phase = 1
(* property-level obligations on the transcription *)
ConstOk == (Done /\ st.kind = "Const" /\ res.ok) =>
              /\ ScheduleOk(db, res.bits) /\ CapRespected(db, rb, cap, res.bits)
              /\ ConstStopsRight(db, rb, cap, st.a, st.f, res.bits)
ConstPanicOnlyWhenTooWide == (Done /\ st.kind = "Const" /\ ~res.ok) => st.a > db - Sum(res.bits)
MinOk == (Done /\ st.kind = "MinSize") =>
              /\ ScheduleOk(db, res.bits) /\ MinSizeOptimal(db, rb, q, st.max, res.bits)
FinalLenOk == (Done /\ res.ok /\ ScheduleOk(db, res.bits)) =>
              /\ FinalPolyBits(db, res.bits) >= 0
              /\ FinalPolyLen(db, res.bits) * Pow2(Sum(res.bits)) = Pow2(db)

StratJson == CASE st.kind = "Const" -> [kind |-> "Const", a |-> st.a, f |-> st.f]
               [] st.kind = "MinSize" -> [kind |-> "MinSize", max |-> st.max]
               [] OTHER -> [kind |-> "Fixed", bits |-> st.bits]
Line == [s |-> StratJson, db |-> db, rb |-> rb, cap |-> cap, q |-> q, ok |-> res.ok, bits |-> res.bits,
         sched_ok |-> ScheduleOk(db, res.bits),
         final_len |-> IF ScheduleOk(db, res.bits) THEN FinalPolyLen(db, res.bits) ELSE -1,
         caps_ok |-> [c \in 0..MaxCap |-> (db + rb >= c) /\ CapRespected(db, rb, c, res.bits)]]
Emit == Done => PrintT("REPLAY " \o ToJson(Line))
Spec == Init /\ [][Next]_vars
=============================================================================
