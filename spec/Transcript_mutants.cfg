CONSTANTS
  RATE = 8
  WIDTH = 12
  Mutants = {{"wires_cap"}, {"plonk_zs_partial_products_cap"}, {"quotient_polys_cap"}, {"openings.constants"}, {"openings.plonk_sigmas"}, {"openings.wires"}, {"openings.plonk_zs"}, {"openings.partial_products"}, {"openings.quotient_polys"}, {"openings.lookup_zs"}, {"openings.plonk_zs_next"}, {"openings.lookup_zs_next"}, {"commit_cap.1"}, {"commit_cap.2"}, {"final_poly"}, {"pow_witness"}, {"public_inputs_hash"}, {"circuit_digest"}, {"fri.rate_bits"}, {"fri.cap_height"}, {"fri.proof_of_work_bits"}, {"fri.reduction_strategy"}, {"fri.num_query_rounds"}, {"fri.hiding"}, {"fri.degree_bits"}, {"fri.reduction_arity_bits"}}
  EncodeMutant = "none"
  ConfigSet = "one"
INIT Init
NEXT Next
CHECK_DEADLOCK FALSE
INVARIANT MutantCaught
