CONSTANT TB = 3
CONSTANT WB = 12
CONSTANT SMALL = 32
CONSTANT BIGT = 8
CONSTANT LBBLOCK = 3
CONSTANT MaxLb = 10
CONSTANT ESizes = {1, 4}
CONSTANT Mutant = "none"
INIT Init
NEXT Next
INVARIANT Correct
INVARIANT InBounds
CHECK_DEADLOCK FALSE
