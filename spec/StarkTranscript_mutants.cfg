CONSTANTS
  RATE = 8
  WIDTH = 12
  Mutants = {{"public_input"}, {"cfg.security_bits"}, {"cfg.num_challenges"}, {"fri.rate_bits"}, {"fri.cap_height"}, {"fri.proof_of_work_bits"}, {"fri.reduction_strategy"}, {"fri.num_query_rounds"}, {"trace_cap"}, {"auxiliary_polys_cap"}, {"constraint_evals"}, {"quotient_polys_cap"}, {"openings.local_values"}, {"openings.auxiliary_polys"}, {"openings.quotient_polys"}, {"openings.next_values"}, {"openings.auxiliary_polys_next"}, {"commit_cap.1"}, {"commit_cap.2"}, {"final_poly"}, {"pow_witness"}}
  EncodeMutant = "none"
  ConfigSet = "one"
INIT Init
NEXT Next
CHECK_DEADLOCK FALSE
INVARIANT MutantCaught
INVARIANT MutantCaughtExposed
