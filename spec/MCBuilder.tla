------------------------------ MODULE MCBuilder ------------------------------
(* Model-checking instance of Builder: the field is the integers mod P,    *)
(* every call sequence of at most MaxCalls calls followed by build.        *)
EXTENDS Builder
CONSTANTS P, MaxCalls, Consts, MaxBits, MaxPi, WithExt, ExtConsts
VARIABLES n, etg
AddM(a, b) == (a + b) % P
MulM(a, b) == (a * b) % P
LessM(a, b) == a < b
Field == 0..(P - 1)
Tg == {V(i) : i \in 0..(nvirt - 1)} \cup {t \in DOMAIN tval : t[1] = "w"}
ExtConstsDef == {<<0, 0>>, <<1, 0>>, <<2, 0>>, <<0, 1>>, <<3, 1>>}
ExtConstsSmall == {<<1, 0>>, <<2, 0>>, <<0, 1>>}
ETg == etg \cup {<<V(i), V(j)>> : i \in 0..(nvirt - 1), j \in 0..(nvirt - 1)}
MCInit == Init /\ n = 0 /\ etg = {}
BaseCall == \/ \E v \in InputVals : Virt(v)
            \/ \E c \in Consts : Const(c)
            \/ \E c0 \in Consts, c1 \in Consts : \E x \in Tg, y \in Tg, z \in Tg : Arith(c0, c1, x, y, z)
            \/ \E b \in 1..MaxBits : \E v \in InputVals : RandomAccess(b, v)
            \/ \E k \in {"noop", "const"} : AddRow(k)
            \/ \E x \in Tg \cup {W(0, NR - 1), W(0, NR), W(0, NW - 1)}, y \in Tg : Connect(x, y)
ExtCall == \/ \E v \in InputVals : Virt(v)
           \/ \E e \in ExtConsts : ConstExt(e)
           \/ \E c0 \in Consts, c1 \in Consts : \E X \in ETg, Y \in ETg, Z \in ETg : ArithExt(c0, c1, X, Y, Z)
Call == IF WithExt THEN ExtCall /\ etg' = (IF last'.ev \in {"constext", "arithext"} THEN etg \cup {last'.res} ELSE etg)
        ELSE BaseCall /\ etg' = etg
MCNext == \/ n < MaxCalls /\ Call /\ n' = n + 1
          \/ \E npi \in 0..MaxPi : Build(npi) /\ n' = n /\ etg' = etg
MCSpec == MCInit /\ [][MCNext]_<<vars, n, etg>>
\* the canary for vacuity: every path of arithmetic is reachable
NeverPath(p) == ~(last.ev \in {"arith", "arithext"} /\ last.path = p)
NoMulSlot == NeverPath("mulslot")
NoSlot == NeverPath("slot")
NoFold == NeverPath("fold")
NoAddend == NeverPath("addend")
NoM0 == NeverPath("m0")
NoM1 == NeverPath("m1")
NoCache == NeverPath("cache")
NoSecondRow == ~(\E r1, r2 \in 1..Len(rows) : r1 # r2 /\ rows[r1].kind = "arith" /\ rows[r2].kind = "arith" /\ rows[r1].params = rows[r2].params)
=============================================================================
