------------------------------ MODULE MCBuilder ------------------------------
(* Model-checking instance of Builder: the field is the integers mod P,    *)
(* every call sequence of at most MaxCalls calls followed by build.        *)
EXTENDS Builder
CONSTANTS P, MaxCalls, Consts, MaxBits, MaxPi
VARIABLE n
AddM(a, b) == (a + b) % P
MulM(a, b) == (a * b) % P
LessM(a, b) == a < b
Field == 0..(P - 1)
Tg == {V(i) : i \in 0..(nvirt - 1)} \cup {t \in DOMAIN tval : t[1] = "w"}
MCInit == Init /\ n = 0
Call == \/ \E v \in InputVals : Virt(v)
        \/ \E c \in Consts : Const(c)
        \/ \E c0 \in Consts, c1 \in Consts : \E x \in Tg, y \in Tg, z \in Tg : Arith(c0, c1, x, y, z)
        \/ \E b \in 1..MaxBits : \E v \in InputVals : RandomAccess(b, v)
        \/ \E k \in {"noop", "const"} : AddRow(k)
MCNext == \/ n < MaxCalls /\ Call /\ n' = n + 1
          \/ \E npi \in 0..MaxPi : Build(npi) /\ n' = n
MCSpec == MCInit /\ [][MCNext]_<<vars, n>>
\* the canary for vacuity: every path of arithmetic is reachable
PathsSeen == last.ev = "arith" => last.path \in {"fold", "addend", "m0", "m1", "cache", "slot"}
NeverPath(p) == ~(last.ev = "arith" /\ last.path = p)
NoFold == NeverPath("fold")
NoAddend == NeverPath("addend")
NoM0 == NeverPath("m0")
NoM1 == NeverPath("m1")
NoCache == NeverPath("cache")
NoSecondRow == ~(\E r1, r2 \in 1..Len(rows) : r1 # r2 /\ rows[r1].kind = "arith" /\ rows[r2].kind = "arith" /\ rows[r1].params = rows[r2].params)
=============================================================================
