CONSTANTS
  RATE = 8
  WIDTH = 12
  Disabled = {"plonk_zs_partial_products_cap"}
  UseEnvConfigs = FALSE
INIT Init
NEXT Next
CHECK_DEADLOCK FALSE
INVARIANT FS1
