CONSTANT TB = 6
CONSTANT WB = 16
CONSTANT SMALL = 65536
CONSTANT BIGT = 16384
CONSTANT LBBLOCK = 3
CONSTANT MaxLb = 14
CONSTANT ESizes = {8, 16}
CONSTANT Mutant = "none"
INIT Init
NEXT Next
INVARIANT Correct
INVARIANT InBounds
CHECK_DEADLOCK FALSE
