CONSTANT P = 97
CONSTANT G = 28
CONSTANT MaxLg = 5
CONSTANT PackLg = 2
CONSTANT Mutant = "none"
CONSTANT Shifts = {1, 5, 28, 96}
INIT Init
NEXT Next
INVARIANT Correct
INVARIANT InRange
INVARIANT PanicByContract
CHECK_DEADLOCK FALSE
