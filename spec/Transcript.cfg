CONSTANTS
  RATE = 8
  WIDTH = 12
  Mutants = {{}}
  EncodeMutant = "none"
  ConfigSet = "lattice"
INIT Init
NEXT Next
CHECK_DEADLOCK FALSE
INVARIANT FS1
INVARIANT FS2
INVARIANT FS0
INVARIANT Complete
INVARIANT EmitMatrix
