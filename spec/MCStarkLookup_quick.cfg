CONSTANT P = 13
CONSTANT N = 2
CONSTANT MUT = "none"
CONSTANT DIDS = {1, 2, 6}
INIT Init
NEXT Next
INVARIANT Theorem
INVARIANT Emit
CHECK_DEADLOCK FALSE
