CONSTANTS
  RATE = 8
  WIDTH = 12
  Mutants = {{"wires_cap"}}
  EncodeMutant = "none"
  ConfigSet = "one"
INIT Init
NEXT Next
CHECK_DEADLOCK FALSE
INVARIANT FS1
