CONSTANTS
  RATE = 8
  WIDTH = 12
  Mutants = {{"wires_cap"}}
  ConfigSet = "one"
INIT Init
NEXT Next
CHECK_DEADLOCK FALSE
INVARIANT FS1
