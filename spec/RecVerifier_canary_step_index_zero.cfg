CONSTANT Instance = "starkvar"
CONSTANT Disabled = {}
CONSTANT Mutant = "step_index_zero"
INIT Init
NEXT Next
INVARIANT Agree
CHECK_DEADLOCK FALSE
