CONSTANT Instance = "vararith"
CONSTANT NL = 2
CONSTANT Disabled = {}
CONSTANT Mutant = "step_index_zero"
INIT Init
NEXT Next
INVARIANT VarOK
CHECK_DEADLOCK FALSE
