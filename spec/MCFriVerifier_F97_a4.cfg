CONSTANT P = 97
CONSTANT G = 5
CONSTANT LOGN = 4
CONSTANT RB = 1
CONSTANT AR <- AR_21
CONSTANT Alphas <- AllFp
CONSTANT Betas <- F97_Betas
CONSTANT Disabled = {}
CONSTANT Polys2 <- NoPolys
CONSTANT Bats2 <- NoPolys
CONSTANT Enter = 0
CONSTANT PolySets <- F97_Polys
CONSTANT BatSets <- F97_Bats
CONSTANT Orc <- Orc_112
CONSTANT Deltas <- F97_Deltas
CONSTANT Mode = "small"
INIT Init
NEXT Next
INVARIANT TypeOK
INVARIANT Completeness
INVARIANT Soundness
INVARIANT OnlyFinalNotices
INVARIANT Emit
CHECK_DEADLOCK FALSE
