----------------------------- MODULE CodecTrace -----------------------------
(***************************************************************************)
(* Sizes of REAL proofs against Codec's formulas.  TRACE = ndjson, one     *)
(* record per proof: the shape read from the circuit's common data, the    *)
(* query indices of the compressed proof, and the measured lengths of      *)
(* to_bytes().  Every record is evaluated; mismatches are printed          *)
(* (MISMATCH ...) and counted - the driver reports them as DRIFT.          *)
(***************************************************************************)
EXTENDS Codec, Json, IOUtils

Rec == ndJsonDeserialize(IOEnv.TRACE)
Shape(r) == [H |-> r.H, cap |-> r.cap, nconst |-> r.nconst, routed |-> r.routed, wires |-> r.wires, nch |-> r.nch,
             nlp |-> r.nlp, npp |-> r.npp, qdf |-> r.qdf, arities |-> r.arities, dbits |-> r.dbits, rate |-> r.rate,
             q |-> r.q, hiding |-> r.hiding, npi |-> r.npi]
VARIABLE i
Init == i = 1
Next == i <= Len(Rec) /\ i' = i + 1
PlainOk(r) == Size(Shape(r)) = r.plain
CompOk(r) == r.comp = 0 \/ CSize(Shape(r), r.indices) = r.comp
Check == i <= Len(Rec) =>
           LET r == Rec[i] IN
             /\ (PlainOk(r) \/ PrintT("MISMATCH " \o ToJson([i |-> i, kind |-> "plain", expected |-> Size(Shape(r)), got |-> r.plain])))
             /\ (CompOk(r) \/ PrintT("MISMATCH " \o ToJson([i |-> i, kind |-> "compressed", expected |-> CSize(Shape(r), r.indices), got |-> r.comp])))
             /\ (WellFormed(Shape(r)) \/ PrintT("MISMATCH " \o ToJson([i |-> i, kind |-> "shape not WellFormed"])))
Done == i = Len(Rec) + 1 => PrintT("CHECKED " \o ToJson([n |-> Len(Rec)]))
=============================================================================
