CONSTANT Instance = "plonk"
CONSTANT NL = 2
CONSTANT Disabled = {"InitMerkle2"}
CONSTANT Mutant = "none"
INIT Init
NEXT Next
INVARIANT Agree
CHECK_DEADLOCK FALSE
