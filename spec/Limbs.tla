------------------------------- MODULE Limbs -------------------------------
(***************************************************************************)
(* Arbitrary-precision naturals as little-endian base-256 digit sequences, *)
(* and arithmetic modulo the Goldilocks prime p = 2^64 - 2^32 + 1 on them. *)
(* TLC integers are 32 bit; every intermediate value below stays < 2^31.   *)
(* This module is the arithmetic oracle: nothing in it is transcribed from *)
(* the implementation, it is schoolbook arithmetic only.                   *)
(***************************************************************************)
EXTENDS Integers, Sequences

Byte == 0..255

\* ---- normalisation of (possibly signed) column sums into digits ----------
RECURSIVE NormAcc(_, _, _, _)
NormAcc(cols, i, carry, acc) ==
  IF i > Len(cols)
  THEN IF carry = 0 THEN acc
       ELSE IF carry < 0 THEN <<-1>>          \* negative total: poison value
       ELSE NormAcc(cols, i, carry \div 256, Append(acc, carry % 256))
  ELSE LET t == cols[i] + carry
       IN NormAcc(cols, i + 1, t \div 256, Append(acc, t % 256))

RECURSIVE Trim(_)
Trim(x) == IF Len(x) > 0 /\ x[Len(x)] = 0 THEN Trim(SubSeq(x, 1, Len(x) - 1)) ELSE x

\* the natural number denoted by column sums (trimmed digits)
Nat256(cols) == Trim(NormAcc(cols, 1, 0, <<>>))

Zeros32 == <<0,0,0,0,0,0,0,0,0,0,0,0,0,0,0,0,0,0,0,0,0,0,0,0,0,0,0,0,0,0,0,0>>
Pad(x, n) == SubSeq(x \o Zeros32, 1, n)                  \* eager (a tuple, not a lazy function)
\* force a function on 1..n into a tuple (TLC evaluates [i \in S |-> e] lazily, per access)
RECURSIVE Tup(_, _)
Tup(f, n) == IF n = 0 THEN <<>> ELSE Append(Tup(f, n - 1), f[n])
At(x, i) == IF i >= 1 /\ i <= Len(x) THEN x[i] ELSE 0
Max(a, b) == IF a > b THEN a ELSE b

IsNat256(x) == \A i \in 1..Len(x) : x[i] \in Byte

AddN(a, b) == Nat256([i \in 1..Max(Len(a), Len(b)) |-> At(a, i) + At(b, i)])
\* a - b, requires a >= b (otherwise the poison value <<-1>>)
SubN(a, b) == Nat256([i \in 1..Max(Len(a), Len(b)) |-> At(a, i) - At(b, i)])
ShlBytes(a, k) == IF Len(a) = 0 THEN a ELSE [i \in 1..(Len(a) + k) |-> IF i <= k THEN 0 ELSE a[i - k]]

\* column k of the schoolbook product (k = 1 .. Len(a)+Len(b)-1)
MulCols(a, b) ==
  IF Len(a) = 0 \/ Len(b) = 0 THEN <<>>
  ELSE [k \in 1..(Len(a) + Len(b) - 1) |->
          LET lo == IF k > Len(b) THEN k - Len(b) + 1 ELSE 1
              hi == IF k > Len(a) THEN Len(a) ELSE k
              S[i \in lo..hi] == a[i] * b[k + 1 - i] + (IF i = hi THEN 0 ELSE S[i + 1])
          IN S[lo]]
MulN(a, b) == Nat256(MulCols(a, b))
\* multiplication by a small natural c < 2^15
MulSmall(a, c) == Nat256([i \in 1..Len(a) |-> a[i] * c])

\* comparison of trimmed numbers
RECURSIVE GeqFrom(_, _, _)
GeqFrom(a, b, i) == IF i = 0 THEN TRUE
                    ELSE IF a[i] # b[i] THEN a[i] > b[i] ELSE GeqFrom(a, b, i - 1)
Geq(a0, b0) == LET a == Trim(a0)  b == Trim(b0)
               IN IF Len(a) # Len(b) THEN Len(a) > Len(b) ELSE GeqFrom(a, b, Len(a))

\* ---- the Goldilocks prime ------------------------------------------------
P8 == <<1, 0, 0, 0, 255, 255, 255, 255>>          \* 2^64 - 2^32 + 1

RECURSIVE CondSubP(_)
CondSubP(x) == IF Geq(x, P8) THEN CondSubP(SubN(x, P8)) ELSE x

\* x mod p for a natural of any length: 2^64 * y = (2^32 - 1) * y (mod p)
RECURSIVE ModP(_)
ModP(x0) ==
  LET x == Trim(x0) IN
  IF Len(x) <= 8 THEN Pad(CondSubP(x), 8)
  ELSE LET lo == SubSeq(x, 1, 8)
           y  == SubSeq(x, 9, Len(x))
           n  == Len(y) + 4
       IN ModP(Nat256([i \in 1..Max(n, 8) |->
                         At(lo, i) + (IF i > 4 THEN At(y, i - 4) ELSE 0) - At(y, i)]))

Zero8 == <<0, 0, 0, 0, 0, 0, 0, 0>>
One8  == <<1, 0, 0, 0, 0, 0, 0, 0>>
AddP(a, b) == ModP(AddN(a, b))
SubP(a, b) == ModP(SubN(AddN(ModP(a), P8), ModP(b)))
NegP(a)    == SubP(Zero8, a)
MulP(a, b) == ModP(MulN(a, b))
SqP(a)     == MulP(a, a)
EqP(a, b)  == ModP(a) = ModP(b)

\* a^e with e a natural given as digit sequence (square and multiply, by bits)
RECURSIVE PowBits(_, _, _)
PowBits(base, bits, acc) ==    \* bits: sequence of 0/1, most significant first
  IF Len(bits) = 0 THEN acc
  ELSE LET sq == SqP(acc)
       IN PowBits(base, Tail(bits), IF Head(bits) = 1 THEN MulP(sq, base) ELSE sq)
BitsOfByte(v) == [j \in 1..8 |-> (v \div (2 ^ (8 - j))) % 2]
RECURSIVE BitsMsb(_)
BitsMsb(e) == IF Len(e) = 0 THEN <<>> ELSE BitsMsb(SubSeq(e, 2, Len(e))) \o BitsOfByte(e[1])
PowP(base, e) == PowBits(ModP(base), BitsMsb(e), One8)

\* small naturals as digit sequences
RECURSIVE OfInt(_)
OfInt(n) == IF n = 0 THEN <<>> ELSE <<n % 256>> \o OfInt(n \div 256)
F8(n) == Pad(OfInt(n), 8)
=============================================================================
