CONSTANT Ns = {4}
CONSTANT Schedules <- AllSchedules
CONSTANT MaxCap = 2
CONSTANT MaxLen = 3
CONSTANT Mutant = "none"
INIT InitG
NEXT Next
INVARIANT RoundTrip
INVARIANT NoMiss
INVARIANT Agree
INVARIANT Emit
CHECK_DEADLOCK FALSE
