SPECIFICATION MCSpec
CONSTANTS
  FZero = 0
  FOne = 1
  FAdd <- AddM
  FMul <- MulM
  FLess <- LessM
  FW = 1
  WithExt = FALSE
  ExtConsts = {}
  NW = 10
  NR = 9
  NC = 2
  Mutant = "routable_le"
  Sem = TRUE
  InputVals = {0, 1, 2}
  P = 3
  MaxCalls = 3
  Consts = {0, 1, 2}
  MaxBits = 2
  MaxPi = 0
INVARIANT Inv
CHECK_DEADLOCK FALSE
