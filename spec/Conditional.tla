----------------------------- MODULE Conditional -----------------------------
(***************************************************************************)
(* C20 - conditional recursive verification                                *)
(* (recursion/conditional_recursive_verifier.rs, gadgets/select.rs).       *)
(*                                                                         *)
(* `conditionally_verify_proof(c, p0, vd0, p1, vd1)` selects ELEMENT-WISE  *)
(* between the two proofs (caps, openings, every FRI element, public       *)
(* inputs) and between the two verifier data (cap, digest), then runs ONE  *)
(* verification on the selected elements.                                  *)
(*                                                                         *)
(* Model: circuits A, B (same common data, different verifier data) and D  *)
(* (the dummy circuit of that common data).  A proof is a vector of K      *)
(* elements, each carrying the circuit it was made for and whether it is   *)
(* intact; verifier data is the data of one circuit or corrupted.  A       *)
(* (proof, data) pair is valid iff every element is intact and made for    *)
(* the circuit whose data is presented.                                    *)
(*                                                                         *)
(* Property level: the conditional circuit accepts iff the pair CHOSEN by  *)
(* the condition is valid - whatever the other pair is.                    *)
(* Implementation shaped: element-wise select, one verification.           *)
(* Mutants: the verifier data is not selected (always vd0); one proof      *)
(* element is not selected (always from proof 0).                          *)
(***************************************************************************)
EXTENDS Naturals, Sequences, FiniteSets, TLC, Json

CONSTANT Mutant      \* "none" | "vd_not_selected" | "element_not_selected"

K == 3                                   \* proof elements: 1 a commitment cap, 2 the final polynomial, 3 a queried leaf
Circuits == {"A", "B", "D"}
\* a pair as the adversary presents it: a proof made for `owner`, element `bad` altered (0 = none), shown with data `vd`
Pairs == [owner : Circuits, bad : 0..K, vd : Circuits \cup {"corrupt"}]

Elem(p, i) == [owner |-> p.owner, intact |-> p.bad # i]
ValidPair(p) == p.bad = 0 /\ p.vd = p.owner

VARIABLES p0, p1, cond
vars == <<p0, p1, cond>>

\* conditionally_verify_proof: `if condition { proof0 } else { proof1 }`
SelElem(i) == IF Mutant = "element_not_selected" /\ i = K THEN Elem(p0, i)
              ELSE IF cond THEN Elem(p0, i) ELSE Elem(p1, i)
SelVd == IF Mutant = "vd_not_selected" THEN p0.vd ELSE IF cond THEN p0.vd ELSE p1.vd
\* the single verification of the selected elements under the selected data
CircuitAccepts == \A i \in 1..K : SelElem(i).intact /\ SelElem(i).owner = SelVd

Chosen == IF cond THEN p0 ELSE p1
Other == IF cond THEN p1 ELSE p0

Init == p0 \in Pairs /\ p1 \in Pairs /\ cond \in BOOLEAN
Next == UNCHANGED vars

\* ---- obligations --------------------------------------------------------------------
SelectedOnly == CircuitAccepts <=> ValidPair(Chosen)
\* the four validity combinations x two conditions all occur, and the verdict never depends on the other pair
Combos == {<<ValidPair(a), ValidPair(b), c>> : a \in Pairs, b \in Pairs, c \in BOOLEAN}
ASSUME Cardinality(Combos) = 8

Kind(p) == IF ValidPair(p) THEN "valid"
           ELSE IF p.vd = "corrupt" THEN "corrupt_vd"
           ELSE IF p.vd # p.owner THEN "foreign_vd"
           ELSE "tampered"
Line == [p0 |-> p0, p1 |-> p1, cond |-> cond, kind0 |-> Kind(p0), kind1 |-> Kind(p1),
         expect |-> IF ValidPair(Chosen) THEN "accept" ELSE "reject"]
Emit == PrintT("REPLAY " \o ToJson(Line))
=============================================================================
