----------------------------- MODULE Conditional -----------------------------
(***************************************************************************)
(* C20 - conditional recursive verification                                *)
(* (recursion/conditional_recursive_verifier.rs, gadgets/select.rs).       *)
(*                                                                         *)
(* `conditionally_verify_proof(c, p0, vd0, p1, vd1)` selects ELEMENT-WISE  *)
(* between the two proofs (caps, openings, every FRI element, public       *)
(* inputs) and between the two verifier data (cap, digest), then runs ONE  *)
(* verification on the selected elements.                                  *)
(*                                                                         *)
(* Model: circuits A, B (same common data, different verifier data) and D  *)
(* (the dummy circuit of that common data).  A proof is a vector of K      *)
(* elements, each carrying the circuit it was made for and whether it is   *)
(* intact; verifier data is the data of one circuit or corrupted.  A       *)
(* (proof, data) pair is valid iff every element is intact and made for    *)
(* the circuit whose data is presented.                                    *)
(*                                                                         *)
(* Property level: the conditional circuit accepts iff the pair CHOSEN by  *)
(* the condition is valid - whatever the other pair is.                    *)
(* Implementation shaped: element-wise select, one verification.           *)
(* Mutants: the verifier data is not selected (always vd0); one proof      *)
(* element is not selected (always from proof 0).                          *)
(***************************************************************************)
EXTENDS Naturals, Sequences, FiniteSets, TLC, Json

CONSTANT Mutant      \* "none" | "vd_not_selected" | "element_not_selected" | "select_mixes_lookup_openings"

\* proof elements: 1 a commitment cap, 2 the final polynomial, 3 a queried leaf, 4 the lookup openings at zeta,
\* 5 the lookup openings at g zeta (4 and 5 are empty vectors unless the inner circuits have a lookup table: `lk`)
K == 5
Circuits == {"A", "B", "D"}
\* a pair as the adversary presents it: a proof made for `owner`, element `bad` altered (0 = none), shown with data `vd`
Pairs == [owner : Circuits, bad : 0..3, vd : Circuits \cup {"corrupt"}, lk : BOOLEAN]

\* slot: which component of its proof the element is (empty lookup vectors are indistinguishable: slot 4)
Elem(p, i) == [owner |-> p.owner, intact |-> p.bad # i, slot |-> IF i = 5 /\ ~p.lk THEN 4 ELSE i]
ValidPair(p) == p.bad = 0 /\ p.vd = p.owner

VARIABLES p0, p1, cond
vars == <<p0, p1, cond>>

\* conditionally_verify_proof: `if condition { proof0 } else { proof1 }`
\* mutant select_mixes_lookup_openings: the g zeta slot is filled from the two zeta vectors (copy of the line above)
Src(i) == IF Mutant = "select_mixes_lookup_openings" /\ i = 5 THEN 4 ELSE i
SelElem(i) == IF Mutant = "element_not_selected" /\ i = 3 THEN Elem(p0, i)
              ELSE IF cond THEN Elem(p0, Src(i)) ELSE Elem(p1, Src(i))
SelVd == IF Mutant = "vd_not_selected" THEN p0.vd ELSE IF cond THEN p0.vd ELSE p1.vd
\* the single verification of the selected elements under the selected data
Want(i) == IF i = 5 /\ ~(IF cond THEN p0.lk ELSE p1.lk) THEN 4 ELSE i
CircuitAccepts == \A i \in 1..K : SelElem(i).intact /\ SelElem(i).owner = SelVd /\ SelElem(i).slot = Want(i)

Chosen == IF cond THEN p0 ELSE p1
Other == IF cond THEN p1 ELSE p0

\* both inner proofs are for the same common data: both with or both without a lookup table
Init == p0 \in Pairs /\ p1 \in Pairs /\ p0.lk = p1.lk /\ cond \in BOOLEAN
Next == UNCHANGED vars

\* ---- obligations --------------------------------------------------------------------
SelectedOnly == CircuitAccepts <=> ValidPair(Chosen)
\* the four validity combinations x two conditions all occur, and the verdict never depends on the other pair
Combos == {<<ValidPair(a), ValidPair(b), c>> : a \in Pairs, b \in Pairs, c \in BOOLEAN}
ASSUME Cardinality(Combos) = 8

Kind(p) == IF ValidPair(p) THEN "valid"
           ELSE IF p.vd = "corrupt" THEN "corrupt_vd"
           ELSE IF p.vd # p.owner THEN "foreign_vd"
           ELSE "tampered"
Line == [p0 |-> p0, p1 |-> p1, cond |-> cond, lk |-> p0.lk, kind0 |-> Kind(p0), kind1 |-> Kind(p1),
         expect |-> IF ValidPair(Chosen) THEN "accept" ELSE "reject"]
Emit == PrintT("REPLAY " \o ToJson(Line))
=============================================================================
