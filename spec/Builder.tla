------------------------------- MODULE Builder -------------------------------
(***************************************************************************)
(* The front end of plonk/circuit_builder.rs, transcribed as a state       *)
(* machine with one action per public call:                                *)
(*   add_virtual_target, constant (cached per value), arithmetic           *)
(*   (gadgets/arithmetic.rs: special cases, result cache, slot allocation  *)
(*   in an ArithmeticGate row), random_access (slot in a RandomAccessGate  *)
(*   row of the list's size), add_gate (a row of its own), and build       *)
(*   (public-input hashing rows, the PublicInputGate row, constant         *)
(*   generators: ConstantGate cells and the spare constant cells of        *)
(*   RandomAccessGate rows, handed to the constants in increasing order;   *)
(*   the generators of unused slots dropped; padding to a power of two).   *)
(*                                                                         *)
(* find_slot: an open slot is kept per (gate type, parameters); a request  *)
(* takes the open slot or opens a new row, and the entry disappears when   *)
(* the row is full.                                                        *)
(*                                                                         *)
(* Property level (what C01 / C02 / C19 rely on, for EVERY call sequence): *)
(*   SlotsDistinct   no two operations are given the same (row, index);    *)
(*   SlotsTyped      a slot lies in a row of its own gate type and         *)
(*                   parameters, below the row's capacity;                 *)
(*   OpenSlotsExact  the open-slot table points at the first unused index  *)
(*                   of a partially filled row, every earlier index used;  *)
(*   MeaningKept     the target returned by arithmetic has the value       *)
(*                   c0*x*y + c1*z under the wire semantics, whichever     *)
(*                   shortcut (constant folding, absorbing zero, identity, *)
(*                   cache hit) produced it;                               *)
(*   ConstInjective  one virtual target per constant value and back;       *)
(*   at build: every constant gets exactly one generator cell, distinct    *)
(*   constants distinct cells, kept generators = used slots, the row count *)
(*   is the least power of two that holds all rows.                        *)
(* The module is parametric in the field (MC: integers mod a small prime;  *)
(* trace validation: Goldilocks on byte limbs) and in the row shape        *)
(* (num_wires, num_routed_wires, num_constants).                           *)
(***************************************************************************)
EXTENDS Integers, Sequences, FiniteSets, TLC

CONSTANTS FZero, FOne, FAdd(_, _), FMul(_, _), FLess(_, _),
          FW,                    \* the non-residue W of the quadratic extension F[X]/(X^2 - W)
          NW, NR, NC,            \* num_wires, num_routed_wires, num_constants
          Mutant                 \* "none" or the name of a seeded deviation

VARIABLES rows,      \* sequence of [kind, params, cells]; row r of the code is rows[r + 1]
          slots,     \* open slot per <<kind, params>>: <<row, index>>
          used,      \* (history) set of <<row, index>> handed out
          nvirt,     \* virtual_target_index
          c2t,       \* constants_to_targets: constant -> virtual index
          cache,     \* base_arithmetic_results: <<c0, c1, x, y, z>> -> target
          ecache,    \* arithmetic_results: <<c0, c1, X, Y, Z>> -> extension target (a pair of targets)
          tval,      \* (semantics) target -> value; only maintained when Sem
          last,      \* what the last call returned / observed
          built,     \* [done |-> FALSE], or the record describing the built circuit
          copies     \* copy constraints recorded by connect (explicit calls and the operand wiring of the gadgets)
vars == <<rows, slots, used, nvirt, c2t, cache, ecache, tval, last, built, copies>>

CONSTANTS Sem, InputVals         \* semantic layer on/off; values a fresh virtual target may take

\* ---- row shapes (gates/arithmetic_base.rs num_ops, gates/random_access.rs new_from_config) ----
Min(a, b) == IF a < b THEN a ELSE b
Pow2(n) == 2 ^ n
ArithOps == NR \div 4
RaCopies(bits) == Min(NR \div (2 + Pow2(bits)), NW \div (2 + Pow2(bits) + bits))
RaExtra(bits) == Min(NR - (2 + Pow2(bits)) * RaCopies(bits), NC)
RaKind(bits) == "ra" \o ToString(bits)
ArithExtOps == NR \div 8        \* ArithmeticExtensionGate: 4 * D wires per operation, D = 2
MulExtOps == NR \div 6          \* MulExtensionGate: 3 * D wires per operation
Capacity(kind, bits) == IF kind = "arith" THEN ArithOps ELSE IF kind = "arithext" THEN ArithExtOps
                        ELSE IF kind = "mulext" THEN MulExtOps ELSE RaCopies(bits)
\* constant-generator cells of a row (ConstantGate: num_consts = num_constants)
Cells(row) == row.cells

V(i) == <<"v", i>>
W(r, c) == <<"w", r, c>>
NumRows == Len(rows)

Init == /\ rows = <<>> /\ slots = <<>> /\ used = {} /\ nvirt = 0 /\ c2t = <<>> /\ cache = <<>> /\ ecache = <<>>
        /\ tval = <<>> /\ last = [ev |-> "init"] /\ built = [done |-> FALSE] /\ copies = {}

Put(f, k, v) == (k :> v) @@ f                       \* insert / overwrite
Has(f, k) == k \in DOMAIN f
Del(f, k) == [x \in (DOMAIN f) \ {k} |-> f[x]]

\* ---- constant(c): the pair (state after, target) ----------------------------------------
\* returns <<c2t', nvirt', target>>
ConstStep(m, n, c) == IF Has(m, c) THEN <<m, n, V(m[c])>> ELSE <<Put(m, c, n), n + 1, V(n)>>
TConst(m, t) == IF t[1] = "v" /\ \E c \in DOMAIN m : m[c] = t[2]
                THEN <<TRUE, CHOOSE c \in DOMAIN m : m[c] = t[2]>> ELSE <<FALSE, FZero>>

SetVal(tv, t, v) == IF Sem THEN Put(tv, t, v) ELSE tv
Val(tv, t) == IF Sem /\ Has(tv, t) THEN tv[t] ELSE FZero

\* ---- find_slot(kind, params): <<slots', rows', row, index>> -----------------------------------
FindSlot(kind, params, bits, cells) ==
  LET key == <<kind, params>>
      open == Has(slots, key)
      row == IF open THEN slots[key][1] ELSE NumRows
      idx == IF open THEN slots[key][2] ELSE 0
      cap == Capacity(kind, bits)
      rows2 == IF open THEN rows ELSE Append(rows, [kind |-> kind, params |-> params, cells |-> cells])
      full == IF Mutant = "slot_full_late" THEN idx = cap ELSE idx = cap - 1
      slots2 == IF full THEN Del(slots, key) ELSE Put(slots, key, <<row, idx + 1>>)
  IN <<slots2, rows2, row, idx>>

\* ---- the public calls -------------------------------------------------------------------------
Virt(v) ==
  /\ ~built.done /\ v \in InputVals
  /\ nvirt' = nvirt + 1 /\ tval' = SetVal(tval, V(nvirt), v)
  /\ last' = [ev |-> "virt", res |-> V(nvirt), ng |-> NumRows]
  /\ UNCHANGED <<rows, slots, used, c2t, cache, ecache, built, copies>>

Const(c) ==
  /\ ~built.done
  /\ LET s == ConstStep(c2t, nvirt, c) IN
       /\ c2t' = s[1] /\ nvirt' = s[2] /\ tval' = SetVal(tval, s[3], c)
       /\ last' = [ev |-> "const", c |-> c, res |-> s[3], ng |-> NumRows]
  /\ UNCHANGED <<rows, slots, used, cache, ecache, built, copies>>

\* arithmetic(c0, c1, x, y, z) with use_base_arithmetic_gate
Arith(c0, c1, x, y, z) ==
  /\ ~built.done
  /\ LET zs == ConstStep(c2t, nvirt, FZero)              \* self.zero() inside arithmetic_special_cases
         m1 == zs[1]  n1 == zs[2]  zero == zs[3]
         tv1 == SetVal(tval, zero, FZero)
         xc == TConst(m1, x)  yc == TConst(m1, y)  zc == TConst(m1, z)
         firstZero == c0 = FZero \/ x = zero \/ y = zero
         secondZero == c1 = FZero \/ z = zero
         firstConst == IF firstZero THEN <<TRUE, FZero>>
                       ELSE IF xc[1] /\ yc[1] THEN <<TRUE, FMul(FMul(xc[2], yc[2]), c0)>> ELSE <<FALSE, FZero>>
         secondConst == IF secondZero THEN <<TRUE, FZero>>
                        ELSE IF zc[1] THEN <<TRUE, FMul(zc[2], c1)>> ELSE <<FALSE, FZero>>
         E == FAdd(FMul(FMul(c0, Val(tv1, x)), Val(tv1, y)), FMul(c1, Val(tv1, z)))
         op == <<c0, c1, x, y, z>>
     IN
     IF firstConst[1] /\ secondConst[1]
     THEN \* both terms constant: constant(sum)
          LET cs == ConstStep(m1, n1, FAdd(firstConst[2], secondConst[2])) IN
          /\ c2t' = cs[1] /\ nvirt' = cs[2] /\ tval' = SetVal(tv1, cs[3], FAdd(firstConst[2], secondConst[2]))
          /\ last' = [ev |-> "arith", path |-> "fold", res |-> cs[3], ng |-> NumRows, expect |-> E]
          /\ UNCHANGED <<rows, slots, used, cache, copies>>
     ELSE IF firstZero /\ c1 = FOne
     THEN /\ c2t' = m1 /\ nvirt' = n1 /\ tval' = tv1
          /\ last' = [ev |-> "arith", path |-> "addend", res |-> z, ng |-> NumRows, expect |-> E]
          /\ UNCHANGED <<rows, slots, used, cache, copies>>
     ELSE IF secondZero /\ xc[1] /\ FMul(xc[2], c0) = FOne
     THEN /\ c2t' = m1 /\ nvirt' = n1 /\ tval' = tv1
          /\ last' = [ev |-> "arith", path |-> "m1", res |-> (IF Mutant = "identity_wrong_operand" THEN x ELSE y),
                      ng |-> NumRows, expect |-> E]
          /\ UNCHANGED <<rows, slots, used, cache, copies>>
     ELSE IF secondZero /\ yc[1] /\ FMul(yc[2], c0) = FOne
     THEN /\ c2t' = m1 /\ nvirt' = n1 /\ tval' = tv1
          /\ last' = [ev |-> "arith", path |-> "m0", res |-> x, ng |-> NumRows, expect |-> E]
          /\ UNCHANGED <<rows, slots, used, cache, copies>>
     ELSE IF Has(cache, IF Mutant = "cache_ignores_consts" THEN <<FOne, FOne, x, y, z>> ELSE op)
     THEN /\ c2t' = m1 /\ nvirt' = n1 /\ tval' = tv1
          /\ last' = [ev |-> "arith", path |-> "cache",
                      res |-> cache[IF Mutant = "cache_ignores_consts" THEN <<FOne, FOne, x, y, z>> ELSE op],
                      ng |-> NumRows, expect |-> E]
          /\ UNCHANGED <<rows, slots, used, cache, copies>>
     ELSE LET fs == FindSlot("arith", <<c0, c1>>, 0, 0)
              row == fs[3]  i == fs[4]  out == W(row, 4 * i + 3) IN
          /\ slots' = fs[1] /\ rows' = fs[2] /\ used' = used \cup {<<row, i>>}
          /\ c2t' = m1 /\ nvirt' = n1
          /\ cache' = Put(cache, IF Mutant = "cache_ignores_consts" THEN <<FOne, FOne, x, y, z>> ELSE op, out)
          /\ tval' = SetVal(tv1, out, E)
          /\ copies' = copies \cup {<<x, W(row, 4 * i)>>, <<y, W(row, 4 * i + 1)>>, <<z, W(row, 4 * i + 2)>>}
          /\ last' = [ev |-> "arith", path |-> "slot", res |-> out, ng |-> Len(fs[2]), expect |-> E,
                      fresh |-> <<row, i>> \notin used]
  /\ UNCHANGED <<built, ecache>>

\* ---- extension arithmetic (gadgets/arithmetic_extension.rs), D = 2 ---------------------------------
EZero == <<FZero, FZero>>
EOne == <<FOne, FZero>>
EAdd(a, b) == <<FAdd(a[1], b[1]), FAdd(a[2], b[2])>>
EMul(a, b) == <<FAdd(FMul(a[1], b[1]), FMul(FW, FMul(a[2], b[2]))), FAdd(FMul(a[1], b[2]), FMul(a[2], b[1]))>>
EScal(a, c) == <<FMul(a[1], c), FMul(a[2], c)>>
\* constant_extension(e): self.zero() for the initial array, then constant() of each coefficient
ConstExtStep(m, n, e) ==
  LET s0 == ConstStep(m, n, FZero)
      s1 == ConstStep(s0[1], s0[2], e[1])
      s2 == ConstStep(s1[1], s1[2], e[2])
  IN <<s2[1], s2[2], <<s1[3], s2[3]>>>>
TConstE(m, X) == LET a == TConst(m, X[1])  b == TConst(m, X[2])
                 IN IF a[1] /\ b[1] THEN <<TRUE, <<a[2], b[2]>>>> ELSE <<FALSE, EZero>>
ValE(tv, X) == <<Val(tv, X[1]), Val(tv, X[2])>>
SetValE(tv, X, e) == SetVal(SetVal(tv, X[1], e[1]), X[2], e[2])

ConstExt(e) ==
  /\ ~built.done
  /\ LET s == ConstExtStep(c2t, nvirt, e) IN
       /\ c2t' = s[1] /\ nvirt' = s[2]
       /\ tval' = SetValE(SetVal(tval, V(IF Has(c2t, FZero) THEN c2t[FZero] ELSE nvirt), FZero), s[3], e)
       /\ last' = [ev |-> "constext", res |-> s[3], ng |-> NumRows]
  /\ UNCHANGED <<rows, slots, used, cache, ecache, built, copies>>

ArithExt(c0, c1, X, Y, Z) ==
  /\ ~built.done
  /\ LET zs == ConstExtStep(c2t, nvirt, EZero)            \* self.zero_extension()
         m1 == zs[1]  n1 == zs[2]  zeroE == zs[3]
         tv1 == SetVal(tval, zeroE[1], FZero)
         xc == TConstE(m1, X)  yc == TConstE(m1, Y)  zc == TConstE(m1, Z)
         firstZero == c0 = FZero \/ X = zeroE \/ Y = zeroE
         secondZero == c1 = FZero \/ Z = zeroE
         firstConst == IF firstZero THEN <<TRUE, EZero>>
                       ELSE IF xc[1] /\ yc[1] THEN <<TRUE, EScal(EMul(xc[2], yc[2]), c0)>> ELSE <<FALSE, EZero>>
         secondConst == IF secondZero THEN <<TRUE, EZero>>
                        ELSE IF zc[1] THEN <<TRUE, EScal(zc[2], c1)>> ELSE <<FALSE, EZero>>
         E == EAdd(EScal(EMul(ValE(tv1, X), ValE(tv1, Y)), c0), EScal(ValE(tv1, Z), c1))
         op == <<c0, c1, X, Y, Z>>
     IN
     IF firstConst[1] /\ secondConst[1]
     THEN LET cs == ConstExtStep(m1, n1, EAdd(firstConst[2], secondConst[2])) IN
          /\ c2t' = cs[1] /\ nvirt' = cs[2] /\ tval' = SetValE(tv1, cs[3], EAdd(firstConst[2], secondConst[2]))
          /\ last' = [ev |-> "arithext", path |-> "fold", res |-> cs[3], ng |-> NumRows, expect |-> E]
          /\ UNCHANGED <<rows, slots, used, ecache, copies>>
     ELSE IF firstZero /\ c1 = FOne
     THEN /\ c2t' = m1 /\ nvirt' = n1 /\ tval' = tv1
          /\ last' = [ev |-> "arithext", path |-> "addend", res |-> Z, ng |-> NumRows, expect |-> E]
          /\ UNCHANGED <<rows, slots, used, ecache, copies>>
     ELSE IF secondZero /\ xc[1] /\ EScal(xc[2], c0) = EOne
     THEN /\ c2t' = m1 /\ nvirt' = n1 /\ tval' = tv1
          /\ last' = [ev |-> "arithext", path |-> "m1", res |-> Y, ng |-> NumRows, expect |-> E]
          /\ UNCHANGED <<rows, slots, used, ecache, copies>>
     ELSE IF secondZero /\ yc[1] /\ EScal(yc[2], c0) = EOne
     THEN /\ c2t' = m1 /\ nvirt' = n1 /\ tval' = tv1
          /\ last' = [ev |-> "arithext", path |-> "m0", res |-> (IF Mutant = "ext_identity_wrong_operand" THEN Y ELSE X),
                      ng |-> NumRows, expect |-> E]
          /\ UNCHANGED <<rows, slots, used, ecache, copies>>
     ELSE IF Has(ecache, op)
     THEN /\ c2t' = m1 /\ nvirt' = n1 /\ tval' = tv1
          /\ last' = [ev |-> "arithext", path |-> "cache", res |-> ecache[op], ng |-> NumRows, expect |-> E]
          /\ UNCHANGED <<rows, slots, used, ecache, copies>>
     ELSE \* addend a constant zero: multiplication gate (3 * D wires per operation); else arithmetic gate
          LET mulOnly == IF Mutant = "mul_gate_for_any_const_addend" THEN zc[1] ELSE zc[1] /\ zc[2] = EZero
              fs == IF mulOnly THEN FindSlot("mulext", <<c0>>, 0, 0) ELSE FindSlot("arithext", <<c0, c1>>, 0, 0)
              row == fs[3]  i == fs[4]
              out == IF mulOnly THEN <<W(row, 6 * i + 4), W(row, 6 * i + 5)>> ELSE <<W(row, 8 * i + 6), W(row, 8 * i + 7)>>
              \* what the gate computes: the multiplication gate has no addend
              G == IF mulOnly THEN EScal(EMul(ValE(tv1, X), ValE(tv1, Y)), c0) ELSE E IN
          /\ slots' = fs[1] /\ rows' = fs[2] /\ used' = used \cup {<<row, i>>}
          /\ c2t' = m1 /\ nvirt' = n1
          /\ ecache' = Put(ecache, op, out)
          /\ tval' = SetValE(tv1, out, G)
          /\ copies' = copies \cup (IF mulOnly
                                      THEN {<<X[1], W(row, 6 * i)>>, <<X[2], W(row, 6 * i + 1)>>, <<Y[1], W(row, 6 * i + 2)>>, <<Y[2], W(row, 6 * i + 3)>>}
                                      ELSE {<<X[1], W(row, 8 * i)>>, <<X[2], W(row, 8 * i + 1)>>, <<Y[1], W(row, 8 * i + 2)>>, <<Y[2], W(row, 8 * i + 3)>>,
                                            <<Z[1], W(row, 8 * i + 4)>>, <<Z[2], W(row, 8 * i + 5)>>})
          /\ last' = [ev |-> "arithext", path |-> (IF mulOnly THEN "mulslot" ELSE "slot"), res |-> out, ng |-> Len(fs[2]),
                      expect |-> E, fresh |-> <<row, i>> \notin used]
  /\ UNCHANGED <<built, cache>>

\* connect(x, y): both ends must be routable (iop/wire.rs is_routable: column < num_routed_wires; virtual targets
\* always are); a refused call panics and leaves the builder unchanged
Routable(t) == t[1] = "v" \/ t[3] < (IF Mutant = "routable_le" THEN NR + 1 ELSE NR)
Connect(x, y) ==
  /\ ~built.done
  /\ IF Routable(x) /\ Routable(y)
     THEN copies' = copies \cup {<<x, y>>} /\ last' = [ev |-> "connect", ok |-> TRUE, ng |-> NumRows]
     ELSE copies' = copies /\ last' = [ev |-> "connect", ok |-> FALSE, ng |-> NumRows]
  /\ UNCHANGED <<rows, slots, used, nvirt, c2t, cache, ecache, tval, built>>

\* random_access(index, list of 2^bits targets), bits >= 1: a fresh virtual target and a slot
RandomAccess(bits, v) ==
  /\ ~built.done /\ bits >= 1 /\ RaCopies(bits) >= 1 /\ v \in InputVals
  /\ LET fs == FindSlot(RaKind(bits), <<>>, bits, RaExtra(bits)) IN
       /\ slots' = fs[1] /\ rows' = fs[2] /\ used' = used \cup {<<fs[3], fs[4]>>}
       /\ nvirt' = nvirt + 1 /\ tval' = SetVal(tval, V(nvirt), v)
       /\ last' = [ev |-> "ra", bits |-> bits, res |-> V(nvirt), ng |-> Len(fs[2]),
                   fresh |-> <<fs[3], fs[4]>> \notin used]
  /\ UNCHANGED <<c2t, cache, ecache, built, copies>>

\* add_gate(gate, []) of a gate that is not slotted: "noop", or "const" (a ConstantGate row: NC cells)
AddRow(kind) ==
  /\ ~built.done /\ kind \in {"noop", "const"}
  /\ rows' = Append(rows, [kind |-> kind, params |-> <<>>, cells |-> IF kind = "const" THEN NC ELSE 0])
  /\ last' = [ev |-> "row", kind |-> kind, ng |-> NumRows + 1]
  /\ UNCHANGED <<slots, used, nvirt, c2t, cache, ecache, tval, built, copies>>

\* ---- build ------------------------------------------------------------------------------------
RECURSIVE GenCells(_, _)
\* constant generators in creation order: for each row in order, its cells
GenCells(rs, r) == IF r > Len(rs) THEN <<>>
                   ELSE [j \in 1..rs[r].cells |-> <<r - 1, j - 1>>] \o GenCells(rs, r + 1)
RECURSIVE AddConstRows(_, _)
AddConstRows(rs, need) ==
  IF need <= Len(GenCells(rs, 1)) THEN rs
  ELSE AddConstRows(Append(rs, [kind |-> "const", params |-> <<>>, cells |-> NC]), need)
RECURSIVE PadRows(_)
IsPow2(n) == \E k \in 0..20 : n = 2 ^ k
PadRows(rs) == IF IsPow2(Len(rs)) THEN rs ELSE PadRows(Append(rs, [kind |-> "noop", params |-> <<>>, cells |-> 0]))
Rank(m, c) == Cardinality({d \in DOMAIN m : FLess(d, c)}) + 1

\* npi public inputs: ceil(npi / 8) Poseidon rows, then the PublicInputGate row
Build(npi) ==
  /\ ~built.done /\ NC >= 1
  /\ LET zs == ConstStep(c2t, nvirt, FZero)              \* hash_n_to_m_no_pad starts from self.zero()
         m1 == zs[1]
         hashRows == (npi + 7) \div 8
         rs1 == rows \o [k \in 1..hashRows |-> [kind |-> "poseidon", params |-> <<>>, cells |-> 0]]
                     \o <<[kind |-> "pi", params |-> <<>>, cells |-> 0]>>
         need == Cardinality(DOMAIN m1) + (IF Mutant = "one_const_cell_short" THEN -1 ELSE 0)
         rs2 == AddConstRows(rs1, need)
         gens == GenCells(rs2, 1)
         \* i-th smallest constant -> i-th generator cell (zip stops at the shorter list)
         assign == [c \in {d \in DOMAIN m1 : Rank(m1, d) <= Len(gens)} |-> gens[Rank(m1, c)]]
         rs3 == PadRows(rs2)
         \* generators kept for a partially filled row: the first `index` operations
         kept == [k \in DOMAIN slots |-> <<slots[k][1], slots[k][2]>>]
     IN /\ c2t' = m1 /\ nvirt' = zs[2] /\ rows' = rs3
        /\ built' = [done |-> TRUE, assign |-> assign, degree |-> Len(rs3), before_pad |-> Len(rs2), kept |-> kept,
                     nconst |-> Cardinality(DOMAIN m1)]
        /\ last' = [ev |-> "build", ng |-> Len(rs3)]
  /\ UNCHANGED <<slots, used, cache, ecache, tval, copies>>

\* ---- property level ---------------------------------------------------------------------------
KindOfBits(kind) == IF kind \in {"arith", "arithext", "mulext"} THEN 0 ELSE CHOOSE b \in 1..6 : RaKind(b) = kind
SlotsDistinct == last.ev \in {"arith", "arithext", "ra"} /\ "fresh" \in DOMAIN last => last.fresh
SlotsTyped ==
  \A k \in DOMAIN slots :
     LET r == slots[k][1]  i == slots[k][2] IN
       /\ r < NumRows /\ rows[r + 1].kind = k[1] /\ rows[r + 1].params = k[2]
       /\ i >= 1 /\ i < Capacity(k[1], KindOfBits(k[1]))
UsedTyped == \A u \in used : u[1] < NumRows /\ rows[u[1] + 1].kind \notin {"noop", "const", "pi", "poseidon"}
                             /\ u[2] < Capacity(rows[u[1] + 1].kind, KindOfBits(rows[u[1] + 1].kind))
OpenSlotsExact ==
  \A k \in DOMAIN slots :
     LET r == slots[k][1]  i == slots[k][2] IN
       /\ <<r, i>> \notin used
       /\ \A j \in 0..(i - 1) : <<r, j>> \in used
       /\ \A j \in i..(Capacity(k[1], KindOfBits(k[1])) - 1) : <<r, j>> \notin used
\* a row that is neither open nor untouched is completely used
FullRowsFull ==
  \A r \in 0..(NumRows - 1) :
     rows[r + 1].kind \notin {"noop", "const", "pi", "poseidon"} /\ ~(\E k \in DOMAIN slots : slots[k][1] = r)
       => \A j \in 0..(Capacity(rows[r + 1].kind, KindOfBits(rows[r + 1].kind)) - 1) : <<r, j>> \in used
MeaningKept == /\ (Sem /\ last.ev = "arith" => Val(tval, last.res) = last.expect)
               /\ (Sem /\ last.ev = "arithext" => ValE(tval, last.res) = last.expect)
ConstInjective == \A c, d \in DOMAIN c2t : c2t[c] = c2t[d] => c = d
ConstBelowVirt == \A c \in DOMAIN c2t : c2t[c] < nvirt
BuildOk ==
  built.done =>
    /\ DOMAIN built.assign = DOMAIN c2t                                   \* every constant has a generator
    /\ \A c, d \in DOMAIN built.assign : built.assign[c] = built.assign[d] => c = d
    /\ \A c \in DOMAIN built.assign :
          LET cell == built.assign[c] IN cell[1] < NumRows /\ cell[2] < rows[cell[1] + 1].cells
    /\ \A c, d \in DOMAIN built.assign : FLess(c, d) =>                   \* increasing constants, increasing cells
          LET a == built.assign[c]  b == built.assign[d] IN a[1] < b[1] \/ (a[1] = b[1] /\ a[2] < b[2])
    /\ IsPow2(built.degree) /\ built.degree >= built.before_pad
    /\ (built.degree = 1 \/ built.degree \div 2 < built.before_pad)       \* the least such power of two
    /\ \A k \in DOMAIN built.kept :                                        \* kept generators = used slots
          \A j \in 0..(Capacity(k[1], KindOfBits(k[1])) - 1) :
             (j < built.kept[k][2]) <=> (<<built.kept[k][1], j>> \in used)

\* the permutation argument ranges over the routed columns only: every recorded copy must lie there
CopiesCovered == \A c \in copies : \A k \in 1..2 : c[k][1] = "v" \/ c[k][3] < NR
Inv == CopiesCovered /\ SlotsDistinct /\ SlotsTyped /\ UsedTyped /\ OpenSlotsExact /\ FullRowsFull /\ MeaningKept
       /\ ConstInjective /\ ConstBelowVirt /\ BuildOk
=============================================================================
