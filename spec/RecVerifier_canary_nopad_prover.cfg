CONSTANT Instance = "vararith"
CONSTANT NL = 2
CONSTANT Disabled = {}
CONSTANT Mutant = "nopad_prover"
INIT Init
NEXT Next
INVARIANT VarOK
CHECK_DEADLOCK FALSE
