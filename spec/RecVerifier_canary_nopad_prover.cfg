CONSTANT Instance = "starkvar"
CONSTANT Disabled = {}
CONSTANT Mutant = "nopad_prover"
INIT Init
NEXT Next
INVARIANT Agree
CHECK_DEADLOCK FALSE
