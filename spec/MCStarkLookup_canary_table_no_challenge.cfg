CONSTANT P = 17
CONSTANT N = 2
CONSTANT MUT = "table_no_challenge"
CONSTANT DIDS = {1}
INIT Init
NEXT Next
INVARIANT Theorem
CHECK_DEADLOCK FALSE
