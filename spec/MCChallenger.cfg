CONSTANTS
  RATE = 2
  WIDTH = 3
  OUT = 1
  Atoms = {1, 2, 3}
  Bursts <- BurstsSmall
  MaxOps = 7
  EmitReplay = FALSE
  GetWeight = 1
  Mutant = "none"
INIT Init
NEXT Next
CHECK_DEADLOCK FALSE
INVARIANT DepInv
INVARIANT PLAgree
INVARIANT ISAgree
INVARIANT CompInv
INVARIANT BufInv
INVARIANT TaintInv
INVARIANT UniformInv
INVARIANT PendInv
INVARIANT HashInv
INVARIANT Emit
