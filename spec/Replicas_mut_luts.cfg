CONSTANT MaxOps = 6
CONSTANT EmitLen = 0
CONSTANT MaxReps = 4
CONSTANT MaxBlobs = 2
CONSTANT MaxProofs = 3
CONSTANT NInputs = 2
CONSTANT NoRepeat = FALSE
CONSTANT CheckRestore = FALSE
CONSTANT Nondegenerate = TRUE
CONSTANT Mutant = "luts"
INIT Init
NEXT Next
INVARIANT TypeOK
INVARIANT ObsEqual
VIEW AbsView
CHECK_DEADLOCK FALSE
