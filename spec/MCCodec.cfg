INIT Init
NEXT Next
INVARIANT GrammarAgrees
INVARIANT OnlyPathsAndPiCountRead
INVARIANT Sample
CHECK_DEADLOCK FALSE
