CONSTANT Widths = {"std", "wide", "narrow"}
CONSTANT DedupRule = "equal"
INIT Init
NEXT Next
INVARIANT LookupExact
INVARIANT HonestProvable
INVARIANT IndicesByEquality
INVARIANT MultTotal
INVARIANT RowsOrdered
INVARIANT TablesAdmissible
INVARIANT Emit
CHECK_DEADLOCK FALSE
