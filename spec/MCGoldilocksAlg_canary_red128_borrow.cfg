CONSTANT K = 3
CONSTANT Disabled = "red128_borrow"
INIT Init
NEXT Next
INVARIANT Correct
INVARIANT AssumesHold
INVARIANT NegCanonical
CHECK_DEADLOCK FALSE
