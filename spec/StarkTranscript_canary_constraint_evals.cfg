CONSTANTS
  RATE = 8
  WIDTH = 12
  Mutants = {{"constraint_evals"}}
  ConfigSet = "one"
INIT Init
NEXT Next
CHECK_DEADLOCK FALSE
INVARIANT FS1
