--------------------------- MODULE FriParamsTrace ---------------------------
(***************************************************************************)
(* Trace validation of schedules and derived parameters recorded from the  *)
(* real code (harness c05-params, c05-fri): every recorded event must      *)
(* satisfy the property-level predicates of FriParams.                     *)
(*   ev = "schedule": the output of FriReductionStrategy::reduction_arity_ *)
(*        bits and FriParams::{final_poly_len, lde_bits, total_arities},   *)
(*        fri::prover::final_poly_coeff_len on it; `adm` is the harness's  *)
(*        own copy of Admissible, validated here.                          *)
(*   ev = "proof": a real proof: schedule used, length of its final        *)
(*        polynomial, whether the honest prover/verifier pair succeeded.   *)
(*   ev = "pow": a verification whose only deviation is the proof-of-work  *)
(*        response: accepted iff it has the required leading zeros.        *)
(***************************************************************************)
EXTENDS FriParams, Json, IOUtils

Rec == ndJsonDeserialize(IOEnv.TRACE)
NEv == Len(Rec)
Chunk == 64
NChunks == (NEv + Chunk - 1) \div Chunk
VARIABLES c, l
vars == <<c, l>>

ScheduleEvOk(e) ==
  /\ e.adm = Admissible(e.db, e.rb, e.cap, e.bits)
  /\ e.sched_ok = ScheduleOk(e.db, e.bits)
  \* a schedule that promises the cap height keeps it
  /\ (e.kind = "Const") => (ScheduleOk(e.db, e.bits) /\ CapRespected(e.db, e.rb, e.cap, e.bits))
  /\ (e.kind = "MinSize") => ScheduleOk(e.db, e.bits)
  /\ ScheduleOk(e.db, e.bits) =>
        /\ e.final_len = FinalPolyLen(e.db, e.bits)
        /\ e.prover_final_len = FinalPolyLen(e.db, e.bits)
        /\ e.lde_bits = LdeBits(e.db, e.rb)
        /\ e.total = TotalArities(e.bits)
ProofEvOk(e) ==
  /\ e.adm = Admissible(e.db, e.rb, e.cap, e.bits)
  /\ e.adm => /\ e.accepted                                  \* an honest opening proof is accepted
              /\ e.final_len = FinalPolyLen(e.db, e.bits)    \* of the advertised length
              /\ e.final_len_params = FinalPolyLen(e.db, e.bits)
PowEvOk(e) == e.accepted = PowOk(e.zeros, e.bits)
EvOk(e) == CASE e.ev = "schedule" -> ScheduleEvOk(e)
             [] e.ev = "pow" -> PowEvOk(e)
             [] e.ev = "proof" -> ProofEvOk(e)
             [] OTHER -> FALSE

Init == c = 0 /\ l = 0
Next == \/ c = 0 /\ l = 0 /\ c' \in 1..NChunks /\ l' = 0
        \/ c > 0 /\ l = 0 /\ c' = c
           /\ l' \in ((c - 1) * Chunk + 1)..(IF c * Chunk > NEv THEN NEv ELSE c * Chunk)
EventOk == l > 0 => EvOk(Rec[l])
Accepted == TLCGet("distinct") = 1 + NChunks + NEv
=============================================================================
