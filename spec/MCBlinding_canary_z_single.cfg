CONSTANTS
  MaxN = 20000
  MaxBits = 24
  Qs = {28}
  Rbs = {3}
  Caps = {4}
  Mutant = "z_single"
  Strats <- StdStrats
INIT Init
NEXT Next
INVARIANT FitsInv
INVARIANT HidesInv
INVARIANT DegreeInv
INVARIANT TerminatesInv
CHECK_DEADLOCK FALSE
