CONSTANT P = 13
CONSTANT N = 2
CONSTANT MUT = "prover_challenge_major"
CONSTANT MAXL = 3
CONSTANT MAXC = 3
INIT Init
NEXT Next
INVARIANT Layout
CHECK_DEADLOCK FALSE
