CONSTANT P = 17
CONSTANT G = 3
CONSTANT LOGN = 2
CONSTANT MUT = "first_unfiltered"
CONSTANT MODE = "corrupt"
CONSTANT SIDS = {1}
CONSTANT FREEVALS = {1, 5}
CONSTANT DELTAS = {1, 16}
CONSTANT VALS = {0, 1, 2}
CONSTANT ALPHAS = {1, 3}
CONSTANT IDENTITY = FALSE
INIT Init
NEXT Next
INVARIANT Theorems
CHECK_DEADLOCK FALSE
