CONSTANTS
  RATE = 8
  WIDTH = 12
  Disabled = {"fri.rate_bits"}
  UseEnvConfigs = FALSE
INIT Init
NEXT Next
CHECK_DEADLOCK FALSE
INVARIANT FS1
