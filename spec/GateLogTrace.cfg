INIT Init
NEXT Next
INVARIANT EventOk
POSTCONDITION Accepted
CHECK_DEADLOCK FALSE
