------------------------------- MODULE Sponge -------------------------------
(***************************************************************************)
(* Property-level sponge over an uninterpreted permutation.                *)
(*                                                                         *)
(* The permutation is a FREE term constructor: lane i of Perm(s) is a new  *)
(* term for every distinct state s, so two computations agree as terms iff *)
(* they apply the permutation to the same states in the same way.  Terms   *)
(* are interned to integers through a table carried along (hash-consing):  *)
(*      0            the field element 0                                   *)
(*      1 .. 98      atoms (observed / hashed elements)                    *)
(*      99           the field element 1 (padding)                         *)
(*      100 + (n-1)*WIDTH + (i-1)   lane i of Perm(T.st[n])                *)
(* T = [st |-> <<states>>, dp |-> <<atom sets>>]; T.dp[n] is the set of    *)
(* atoms the n-th permutation call depends on (every output lane of a      *)
(* permutation depends on every input lane).  The same table format is the *)
(* `tbl` of the scenarios replayed on the real code.                       *)
(*                                                                         *)
(* Defined here: the overwrite-mode sponge hash (absorb RATE elements by   *)
(* OVERWRITING the first lanes, permute; squeeze the first RATE lanes,     *)
(* permute for more), two-to-one compression, hash_or_noop, pad10*1, and   *)
(* the ideal duplex object `Ideal*`: a function of the flat sequence of    *)
(* absorbed elements and squeeze requests (absorption on demand, unbounded *)
(* pending input) - the shape of the in-circuit RecursiveChallenger.       *)
(***************************************************************************)
EXTENDS Integers, Sequences, FiniteSets, TLC

CONSTANTS RATE, WIDTH, OUT        \* OUT = elements of a digest (NUM_HASH_OUT_ELTS)
ASSUME RATE \in 1..(WIDTH - 1) /\ OUT \in 1..RATE

ZERO == 0
ONE == 99
IsAtom(t) == t \in 1..98
IsOut(t) == t >= 100
CallOf(t) == ((t - 100) \div WIDTH) + 1
LaneOf(t) == ((t - 100) % WIDTH) + 1
OutTerm(n, i) == 100 + (n - 1) * WIDTH + (i - 1)

EmptyT == [st |-> <<>>, dp |-> <<>>]
ZeroState == [i \in 1..WIDTH |-> ZERO]

Deps(T, t) == IF IsOut(t) THEN T.dp[CallOf(t)] ELSE IF IsAtom(t) THEN {t} ELSE {}
StateDeps(T, s) == UNION {Deps(T, s[i]) : i \in 1..WIDTH}

Find(T, s) == IF \E n \in 1..Len(T.st) : T.st[n] = s
              THEN CHOOSE n \in 1..Len(T.st) : T.st[n] = s ELSE 0
Intern(T, s) == IF Find(T, s) # 0 THEN T
                ELSE [st |-> Append(T.st, s), dp |-> Append(T.dp, StateDeps(T, s))]
\* <<T', Perm(s)>>; CHOOSE over a singleton forces TLC to evaluate the new table once
Permute(T, s) == LET T2 == CHOOSE x \in {Intern(T, s)} : TRUE
                     n == Find(T2, s)
                 IN <<T2, [i \in 1..WIDTH |-> OutTerm(n, i)]>>

\* overwrite mode: the first Len(xs) lanes are REPLACED by xs (not added / xored)
Overwrite(s, xs) == [i \in 1..WIDTH |-> IF i <= Len(xs) THEN xs[i] ELSE s[i]]
Min(a, b) == IF a < b THEN a ELSE b

\* ---- hashing -------------------------------------------------------------
\* absorb xs chunk by chunk (the last chunk may be partial); no permutation for empty input
RECURSIVE Absorb(_, _, _)
Absorb(T, s, xs) ==
  IF xs = <<>> THEN <<T, s>>
  ELSE LET k == Min(RATE, Len(xs))
           r == CHOOSE x \in {Permute(T, Overwrite(s, SubSeq(xs, 1, k)))} : TRUE
       IN Absorb(r[1], r[2], SubSeq(xs, k + 1, Len(xs)))
\* squeeze m elements: lanes 1..RATE, permute, lanes 1..RATE, ...
RECURSIVE Squeeze(_, _, _)
Squeeze(T, s, m) ==
  IF m <= RATE THEN <<T, SubSeq(s, 1, m)>>
  ELSE LET r == CHOOSE x \in {Permute(T, s)} : TRUE
           rest == CHOOSE x \in {Squeeze(r[1], r[2], m - RATE)} : TRUE
       IN <<rest[1], SubSeq(s, 1, RATE) \o rest[2]>>
\* <<T', outputs>>
HashNToM(T, xs, m) == LET a == CHOOSE x \in {Absorb(T, ZeroState, xs)} : TRUE
                      IN Squeeze(a[1], a[2], m)
HashNoPad(T, xs) == HashNToM(T, xs, OUT)
\* compression of two digests: ONE permutation of l \o r \o 0...0 (needs 2*OUT <= RATE)
TwoToOne(T, l, r) == LET p == CHOOSE x \in {Permute(T, Overwrite(ZeroState, l \o r))} : TRUE
                     IN <<p[1], SubSeq(p[2], 1, OUT)>>
Zeros(n) == [i \in 1..n |-> ZERO]
HashOrNoop(T, xs) == IF Len(xs) <= OUT THEN <<T, xs \o Zeros(OUT - Len(xs))>> ELSE HashNoPad(T, xs)
\* pad10*1: append 1, then zeros until one slot is left in the block, then 1
Pad(xs) == LET n == Len(xs) + 1
               z == (RATE - ((n + 1) % RATE)) % RATE
           IN xs \o <<ONE>> \o Zeros(z) \o <<ONE>>
HashPad(T, xs) == HashNoPad(T, Pad(xs))

\* ---- the ideal duplex object ---------------------------------------------
\* I = [st, pend, avail]: state, pending (not yet absorbed) elements, outputs still deliverable.
\* Delivery order of the RATE lanes of one permutation: the last lane first (a fixed order is
\* part of the object's definition; WHICH order is an implementation-shaped detail).
IdealInit == [st |-> ZeroState, pend |-> <<>>, avail |-> <<>>]
Delivery(s) == [k \in 1..RATE |-> s[RATE + 1 - k]]
IdealAbsorb(I, x) == [I EXCEPT !.pend = Append(I.pend, x), !.avail = <<>>]
\* absorb everything pending; with nothing pending, permute once
IdealFlush(T, I) ==
  LET a == CHOOSE x \in {IF I.pend = <<>> THEN Permute(T, I.st) ELSE Absorb(T, I.st, I.pend)} : TRUE
  IN <<a[1], [st |-> a[2], pend |-> <<>>, avail |-> Delivery(a[2])]>>
\* <<T', I', output term>>
IdealSqueeze(T, I) ==
  LET f == CHOOSE x \in {IF I.pend # <<>> \/ I.avail = <<>> THEN IdealFlush(T, I) ELSE <<T, I>>} : TRUE
  IN <<f[1], [f[2] EXCEPT !.avail = Tail(f[2].avail)], Head(f[2].avail)>>
\* <<T', I', state>>: absorb what is pending (no permutation otherwise), drop deliverable outputs
IdealCompact(T, I) ==
  LET f == CHOOSE x \in {IF I.pend # <<>> THEN IdealFlush(T, I) ELSE <<T, I>>} : TRUE
  IN <<f[1], [f[2] EXCEPT !.avail = <<>>], f[2].st>>
=============================================================================
