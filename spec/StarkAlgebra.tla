---------------------------- MODULE StarkAlgebra ----------------------------
(***************************************************************************)
(* Algebra of the STARK constraint check (property C09) over a small prime *)
(* field F_P with a two-adic subgroup H of order N = 2^LOGN.               *)
(*                                                                         *)
(* Property tier:  RowSem  -  a trace satisfies a system iff every         *)
(*   `constraint` holds on every row (successor taken cyclically),         *)
(*   every `constraint_transition` on every row but the last, every        *)
(*   `constraint_first_row` on row 0, every `constraint_last_row` on row   *)
(*   N-1, for the given public inputs.                                     *)
(* Implementation tier (transcribed from starky/src/constraint_consumer.rs,*)
(*   vanishing_poly.rs `eval_l_0_and_l_last`, verifier.rs, prover.rs       *)
(*   `compute_quotient_polys`): the trace columns are the interpolants     *)
(*   over H, `next` is the column at g*x, the ConstraintConsumer folds     *)
(*   acc := acc*alpha + c  with  c*z_last (z_last = x - g^(N-1)),          *)
(*   c*L_0(x), c*L_last(x) where L_0(x) = (x^N-1)/(N (x-1)) and            *)
(*   L_last(x) = (x^N-1)/(N (g x-1)); the prover evaluates                 *)
(*   vanishing/Z_H on the coset G*<w_M> (M = N * 2^ceil(log2 qdf)) and     *)
(*   interpolates; the verifier checks vanishing(zeta) = Z_H(zeta) t(zeta).*)
(* Theorems checked by TLC (MCStarkAlgebra): Equiv, Complete, Sound,       *)
(*   SelectorsOk.                                                          *)
(* Polynomials are handled through exact evaluations at points of F_P      *)
(* (Lagrange bases are tabulated once).                                    *)
(***************************************************************************)
EXTENDS Integers, Sequences, FiniteSets, TLC

CONSTANTS P,       \* prime, N * 2^QDBMAX | P-1
          G,       \* generator of F_P^* (= coset shift)
          LOGN,    \* degree_bits
          MUT      \* "none" or the name of a mutant of the implementation tier

N == 2 ^ LOGN
Fp == 0..(P - 1)
Add(a, b) == (a + b) % P
Sub(a, b) == (a + P - b) % P
Mul(a, b) == (a * b) % P
Norm(c) == ((c % P) + P) % P              \* integer coefficient -> field element
RECURSIVE PowF(_, _)
PowF(a, e) == IF e = 0 THEN 1 ELSE Mul(a, PowF(a, e - 1))
InvTab == TLCEval([a \in 1..(P - 1) |-> CHOOSE b \in 1..(P - 1) : (a * b) % P = 1])
Inv(a) == InvTab[a]
Div(a, b) == Mul(a, InvTab[b])

W == TLCEval(PowF(G, (P - 1) \div N))       \* primitive_root_of_unity(LOGN)
HPt == TLCEval([i \in 0..(N - 1) |-> PowF(W, i)])
H == {HPt[i] : i \in 0..(N - 1)}

RECURSIVE SumTo(_, _)                      \* sum_{i<n} f[i]
SumTo(f, n) == IF n = 0 THEN 0 ELSE Add(f[n - 1], SumTo(f, n - 1))
RECURSIVE ProdSet(_, _)
ProdSet(f, S) == IF S = {} THEN 1 ELSE LET e == CHOOSE e \in S : TRUE IN Mul(f[e], ProdSet(f, S \ {e}))

(* Lagrange basis of H, tabulated on F_P: LagH[i][x] = prod_{j#i} (x - h_j)/(h_i - h_j) *)
LagH == TLCEval([i \in 0..(N - 1) |-> [x \in Fp |->
          ProdSet([j \in 0..(N - 1) |-> Div(Sub(x, HPt[j]), IF j = i THEN 1 ELSE Sub(HPt[i], HPt[j]))],
                  (0..(N - 1)) \ {i})]])

(* ---- systems -------------------------------------------------------- *)
(* a system: [cols, npi, deg, cons]; a constraint: [kind, terms]; a term: [c, vars];          *)
(* a variable: <<"L"|"N"|"P", index>>; rows / public inputs are 1-based sequences.            *)
VarVal(v, lv, nv, pis) == CASE v[1] = "L" -> lv[v[2] + 1]
                            [] v[1] = "N" -> nv[v[2] + 1]
                            [] v[1] = "P" -> pis[v[2] + 1]
RECURSIVE ProdVars(_, _, _, _, _)
ProdVars(vs, k, lv, nv, pis) == IF k > Len(vs) THEN 1 ELSE Mul(VarVal(vs[k], lv, nv, pis), ProdVars(vs, k + 1, lv, nv, pis))
RECURSIVE EvalTerms(_, _, _, _, _)
EvalTerms(ts, k, lv, nv, pis) ==
  IF k > Len(ts) THEN 0
  ELSE Add(Mul(Norm(ts[k].c), ProdVars(ts[k].vars, 1, lv, nv, pis)), EvalTerms(ts, k + 1, lv, nv, pis))
Eval(con, lv, nv, pis) == EvalTerms(con.terms, 1, lv, nv, pis)

(* ---- property tier: row-level semantics ---------------------------- *)
Active(kind, r) == CASE kind = "all"   -> TRUE
                     [] kind = "trans" -> r < N - 1
                     [] kind = "first" -> r = 0
                     [] kind = "last"  -> r = N - 1
\* tr: 1-based sequence of rows (row r of the code at r+1)
Failing(sys, tr, pis) ==
  {cr \in (1..Len(sys.cons)) \X (0..(N - 1)) :
     /\ Active(sys.cons[cr[1]].kind, cr[2])
     /\ Eval(sys.cons[cr[1]], tr[cr[2] + 1], tr[((cr[2] + 1) % N) + 1], pis) # 0}
RowSem(sys, tr, pis) == Failing(sys, tr, pis) = {}

(* ---- implementation tier ------------------------------------------- *)
ZH(x) == Sub(PowF(x, N), 1)
ZLast(x) == IF MUT = "zlast_first" THEN Sub(x, 1) ELSE Sub(x, PowF(W, N - 1))
\* the selectors as polynomials: (x^N-1)/(N(x-1)) = (1/N) sum_i x^i, (x^N-1)/(N(gx-1)) = (1/N) sum_i (g x)^i
L0Poly(x) == Div(SumTo([i \in 0..(N - 1) |-> PowF(x, i)], N), N % P)
LLastPoly(x) == LET gx == IF MUT = "llast_ginv" THEN Mul(PowF(W, N - 1), x) ELSE Mul(W, x)
                IN  Div(SumTo([i \in 0..(N - 1) |-> PowF(gx, i)], N), N % P)
\* the closed forms evaluated by the code (only defined where the denominators do not vanish)
L0Closed(x) == Div(ZH(x), Mul(N % P, Sub(x, 1)))
LLastClosed(x) == Div(ZH(x), Mul(N % P, Sub(Mul(W, x), 1)))

\* tables over F_P of the filters (constants of the model)
ZHT == TLCEval([x \in Fp |-> ZH(x)])
ZLT == TLCEval([x \in Fp |-> ZLast(x)])
L0T == TLCEval([x \in Fp |-> L0Poly(x)])
LLT == TLCEval([x \in Fp |-> LLastPoly(x)])
WX  == TLCEval([x \in Fp |-> Mul(W, x)])

\* column c (0-based) of the trace as the interpolant over H, at x
RECURSIVE ColAtR(_, _, _, _)
ColAtR(tr, c, x, i) == IF i = N THEN 0 ELSE Add(Mul(tr[i + 1][c + 1], LagH[i][x]), ColAtR(tr, c, x, i + 1))
ColAt(tr, c, x) == ColAtR(tr, c, x, 0)
\* all columns at all points of F_P (fully evaluated)
RowTab(sys, tr) == TLCEval([x \in Fp |-> [c \in 1..sys.cols |-> ColAtR(tr, c - 1, x, 0)]])

Filtered(kind, e, x) ==
  CASE kind = "all"   -> e
    [] kind = "trans" -> IF MUT = "no_zlast" THEN e ELSE Mul(e, ZLT[x])
    [] kind = "first" -> IF MUT = "first_unfiltered" THEN e
                         ELSE IF MUT = "drop_first" THEN 0 ELSE Mul(e, L0T[x])
    [] kind = "last"  -> IF MUT = "last_is_first" THEN Mul(e, L0T[x]) ELSE Mul(e, LLT[x])
\* the filtered constraint values at every x, in emission order; rt = RowTab(sys, tr) (a value);
\* `next` is the row at g*x
ConsTab(sys, rt, pis) ==
  TLCEval([x \in Fp |-> [j \in 1..Len(sys.cons) |->
             Filtered(sys.cons[j].kind, Eval(sys.cons[j], rt[x], rt[WX[x]], pis), x)]])
\* ConstraintConsumer::constraint: acc = acc*alpha + c, in order
RECURSIVE Fold(_, _, _)
Fold(cs, k, alpha) == IF k = 0 THEN 0 ELSE Add(Mul(Fold(cs, k - 1, alpha), alpha), cs[k])
Vanishing(cs, alpha) == Fold(cs, Len(cs), alpha)

QDF(sys) == IF sys.deg = 0 THEN 0 ELSE IF sys.deg - 1 > 1 THEN sys.deg - 1 ELSE 1
Log2Ceil(n) == CHOOSE k \in 0..8 : 2 ^ k >= n /\ (k = 0 \/ 2 ^ (k - 1) < n)
M(sys) == N * 2 ^ Log2Ceil(QDF(sys))                 \* size of the quotient evaluation domain
WM(sys) == PowF(G, (P - 1) \div M(sys))
KPt(sys) == [j \in 0..(M(sys) - 1) |-> Mul(G, PowF(WM(sys), j))]   \* the coset G*<w_M>
=============================================================================
