CONSTANT Widths = {"std"}
INIT Init
NEXT Next
INVARIANT RowsOrdered
INVARIANT CellsDistinct
INVARIANT MultTotal
INVARIANT TablesAdmissible
INVARIANT Emit
CHECK_DEADLOCK FALSE
