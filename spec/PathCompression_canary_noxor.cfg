CONSTANT MaxH = 3
CONSTANT MaxLen = 2
CONSTANT Mutant = "noxor"
INIT Init
NEXT Next
INVARIANT RoundTrip

CHECK_DEADLOCK FALSE
