CONSTANT P = 17
CONSTANT G = 3
CONSTANT LOGN = 2
CONSTANT MUT = "none"
CONSTANT MODE = "all"
CONSTANT SIDS = {1, 2, 3}
CONSTANT FREEVALS = {1}
CONSTANT DELTAS = {1}
CONSTANT VALS = {0, 1, 2}
CONSTANT ALPHAS = {1, 3}
CONSTANT IDENTITY = FALSE
INIT Init
NEXT Next
INVARIANT Theorems
INVARIANT Emit
CHECK_DEADLOCK FALSE
