INIT Init
NEXT Next
INVARIANT Check
INVARIANT Done
CHECK_DEADLOCK FALSE
