CONSTANT Instance = "vararith"
CONSTANT Disabled = {}
CONSTANT Mutant = "free_final_len"
INIT Init
NEXT Next
INVARIANT VarOK
CHECK_DEADLOCK FALSE
