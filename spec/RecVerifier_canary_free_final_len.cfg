CONSTANT Instance = "starkvar"
CONSTANT Disabled = {}
CONSTANT Mutant = "free_final_len"
INIT Init
NEXT Next
INVARIANT Agree
CHECK_DEADLOCK FALSE
