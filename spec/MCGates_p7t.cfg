CONSTANT P = 7
CONSTANT ALPHA = 5
CONSTANT GEN = 3
CONSTANT DropKind = "none"
CONSTANT DropIdx = 0
CONSTANT Cases <- Cases7T
CONSTANT Sel = {}
CONSTANT DegShift = 0
INIT InitRows
NEXT NextRows
INVARIANT Satisfied
INVARIANT PinnedInv
INVARIANT CountInv
INVARIANT LayoutInv
CHECK_DEADLOCK FALSE
