CONSTANT P = 7
CONSTANT ALPHA = 5
CONSTANT GEN = 3
CONSTANT DropKind = "none"
CONSTANT DropIdx = 0
CONSTANT Cases <- Cases7T
CONSTANT Sel = {}
INIT InitRows
NEXT NextRows
INVARIANT Satisfied
INVARIANT PinnedInv
INVARIANT CountInv
INVARIANT LayoutInv
INVARIANT UniqueInv
CHECK_DEADLOCK FALSE
