CONSTANTS
  MaxN = 300000
  MaxBits = 26
  Qs = {28}
  Rbs = {3}
  Caps = {4}
  Mutant = "none"
  Strats <- StdStrats
INIT Init
NEXT Next
INVARIANT FitsInv
INVARIANT HidesInv
INVARIANT DegreeInv
INVARIANT TerminatesInv
CHECK_DEADLOCK FALSE
