CONSTANT P = 5
CONSTANT ALPHA = 3
CONSTANT GEN = 2
CONSTANT DropKind = "coset"
CONSTANT DropIdx = 5
CONSTANT Cases <- CasesCoset
CONSTANT Sel = {}
CONSTANT DegShift = 0
INIT InitRows
NEXT NextRows
INVARIANT Satisfied
INVARIANT PinnedInv
CHECK_DEADLOCK FALSE
