CONSTANT MaxDb = 12
CONSTANT MaxRb = 4
CONSTANT MaxCap = 5
CONSTANT MaxQ = 4
CONSTANT Mutant = "minsize_nonstrict"
INIT Init
NEXT Next
INVARIANT ConstOk
INVARIANT ConstPanicOnlyWhenTooWide
INVARIANT MinOk
INVARIANT FinalLenOk
CHECK_DEADLOCK FALSE
