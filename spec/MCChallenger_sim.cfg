CONSTANTS
  RATE = 8
  WIDTH = 12
  OUT = 4
  Atoms = {1, 2, 3}
  Bursts <- BurstsReal
  MaxOps = 48
  EmitReplay = TRUE
  GetWeight = 5
  Mutant = "none"
INIT Init
NEXT Next
CHECK_DEADLOCK FALSE
INVARIANT DepInv
INVARIANT PLAgree
INVARIANT ISAgree
INVARIANT CompInv
INVARIANT BufInv
INVARIANT TaintInv
INVARIANT UniformInv
INVARIANT PendInv
INVARIANT HashInv
INVARIANT Emit
