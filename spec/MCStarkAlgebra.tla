--------------------------- MODULE MCStarkAlgebra ---------------------------
(***************************************************************************)
(* TLC wrapper of StarkAlgebra (C09): theorem check + case generator.      *)
(* One state per case (system, trace, public inputs):                      *)
(*   MODE "corrupt": every honest trace of the system template built from  *)
(*     free cells over FREEVALS, unmodified and with every single-cell     *)
(*     corruption (row, column, delta in DELTAS) and every public-input    *)
(*     corruption;                                                         *)
(*   MODE "all": every trace over VALS with every public input over VALS.  *)
(* Theorems (invariants):                                                  *)
(*   Equiv     RowSem  <=> the alpha-combined, filtered constraint         *)
(*             polynomial vanishes on H for every alpha (and when RowSem   *)
(*             fails it does so for at most #constraints-1 alphas);        *)
(*   Complete  RowSem => the verifier identity holds at every zeta outside *)
(*             H for the quotient the prover interpolates on the coset     *)
(*             (this is where `constraint_degree`/`quotient_degree_factor` *)
(*             enter);                                                     *)
(*   Sound     not RowSem => for every alpha outside the exceptional ones  *)
(*             the identity holds at no more than SoundBound zetas;        *)
(*   SelectorsOk  the closed forms of `eval_l_0_and_l_last` are the        *)
(*             Lagrange selectors of the first / last row.                 *)
(* Every case is printed as a REPLAY17 line (trace, public inputs, the set *)
(* of failing (constraint,row) pairs = the verdict of RowSem); the harness *)
(* evaluates its reference evaluator (modulus 17) on exactly these cases.  *)
(***************************************************************************)
EXTENDS StarkAlgebra, Json, SequencesExt

CONSTANTS MODE, SIDS, FREEVALS, DELTAS, VALS, ALPHAS, IDENTITY

VARIABLE s

T(c, vs) == [c |-> c, vars |-> vs]
L(i) == <<"L", i>>
Nx(i) == <<"N", i>>
Pi(i) == <<"P", i>>
RECURSIVE Rep(_, _)
Rep(v, k) == IF k = 0 THEN <<>> ELSE <<v>> \o Rep(v, k - 1)

(* template A of harness/src/c09c10_kit.rs (`template_a`) *)
TransA(k, cols) == [kind |-> "trans",
                    terms |-> <<T(1, <<Nx(0)>>), T(-1, Rep(L(0), k))>> \o (IF cols >= 2 THEN <<T(-1, <<L(1)>>)>> ELSE <<>>)]
FirstA(npi) == [kind |-> "first", terms |-> IF npi > 0 THEN <<T(1, <<L(0)>>), T(-1, <<Pi(0)>>)>>
                                            ELSE <<T(1, <<L(0)>>), T(-3, <<>>)>>]
LastA(npi) == [kind |-> "last", terms |-> IF npi > 1 THEN <<T(1, <<L(0)>>), T(-1, <<Pi(1)>>)>>
                                          ELSE <<T(1, <<L(1)>>), T(-7, <<>>)>>]
All2 == [kind |-> "all", terms |-> <<T(1, <<L(2)>>), T(-1, <<L(1)>>), T(-3, <<L(0)>>)>>]
Lin1(npi) == [kind |-> "all", terms |-> <<T(1, <<L(1)>>), T(-2, <<L(0)>>)>> \o
                                        (IF npi > 0 THEN <<T(-1, <<Pi(0)>>)>> ELSE <<T(-5, <<>>)>>)]
TemplateA(cols, npi, deg) ==
  [cols |-> cols, npi |-> npi, deg |-> deg,
   cons |-> IF deg = 0 THEN <<>>
            ELSE IF deg = 1 THEN <<Lin1(npi)>> \o (IF cols >= 3 THEN <<All2>> ELSE <<>>)
            ELSE <<FirstA(npi), LastA(npi), TransA(deg, cols)>> \o (IF cols >= 3 THEN <<All2>> ELSE <<>>)]

SYSTEMS == TLCEval(<<TemplateA(2, 2, 2), TemplateA(2, 0, 2), TemplateA(2, 2, 1), TemplateA(2, 2, 3),
                     TemplateA(3, 0, 2), TemplateA(2, 0, 0), TemplateA(3, 2, 3),
                     TemplateA(2, 3, 2)>>)       \* 8: the third public input is referenced by no constraint (context tag)

(* ---- honest traces of template A from free cells ------------------- *)
RECURSIVE StateA(_, _, _, _)        \* value of column 0 at row i
StateA(k, x0, c1, i) == IF i = 0 THEN x0 ELSE Add(PowF(StateA(k, x0, c1, i - 1), k), c1[i])
Honest(sys, x0, fr) ==
  IF sys.deg = 0 THEN
     [tr |-> [i \in 1..N |-> [c \in 1..sys.cols |-> IF c = 1 THEN fr[i] ELSE x0]], pis |-> [j \in 1..sys.npi |-> x0]]
  ELSE IF sys.deg = 1 THEN
     LET k0 == IF sys.npi > 0 THEN x0 ELSE 5
         c1 == [i \in 1..N |-> Add(Mul(2, fr[i]), k0)]
     IN  [tr |-> [i \in 1..N |-> [c \in 1..sys.cols |->
                    IF c = 1 THEN fr[i] ELSE IF c = 2 THEN c1[i] ELSE Add(c1[i], Mul(3, fr[i]))]],
          pis |-> [j \in 1..sys.npi |-> IF j = 1 THEN x0 ELSE 0]]
  ELSE
     LET a0 == IF sys.npi > 0 THEN x0 ELSE 3
         c1 == [i \in 1..N |-> IF i = N /\ sys.npi < 2 THEN 7 ELSE fr[i]]
         st == [i \in 0..(N - 1) |-> StateA(sys.deg, a0, c1, i)]
     IN  [tr |-> [i \in 1..N |-> [c \in 1..sys.cols |->
                    IF c = 1 THEN st[i - 1] ELSE IF c = 2 THEN c1[i] ELSE Add(c1[i], Mul(3, st[i - 1]))]],
          pis |-> [j \in 1..sys.npi |-> IF j = 1 THEN a0 ELSE st[N - 1]]]

(* ---- cases ----------------------------------------------------------- *)
\* free input cells: every assignment for N <= 4; for longer traces alternating and half/half patterns
FrSet == IF N <= 4 THEN [1..N -> FREEVALS]
         ELSE {[i \in 1..N |-> IF i % 2 = 1 THEN ab[1] ELSE ab[2]] : ab \in FREEVALS \X FREEVALS}
              \cup {[i \in 1..N |-> IF i <= N \div 2 THEN ab[1] ELSE ab[2]] : ab \in FREEVALS \X FREEVALS}
Groups ==
  IF MODE = "corrupt"
  THEN UNION {{[sid |-> sid, kind |-> "group", x0 |-> x0, fr |-> fr, row |-> 0, col |-> 0, delta |-> 0] :
                 x0 \in FREEVALS, fr \in FrSet} : sid \in SIDS}
  ELSE UNION {{[sid |-> sid, kind |-> "group", x0 |-> 0, fr |-> pis, row |-> 0, col |-> 0, delta |-> 0] :
                 pis \in [1..SYSTEMS[sid].npi -> VALS]} : sid \in SIDS}
CasesOf(g) ==
  IF MODE = "corrupt"
  THEN {[g EXCEPT !.kind = "none"]}
       \cup {[g EXCEPT !.kind = "cell", !.row = r, !.col = c, !.delta = d] :
               r \in 0..(N - 1), c \in 0..(SYSTEMS[g.sid].cols - 1), d \in DELTAS}
       \cup {[g EXCEPT !.kind = "pi", !.col = c, !.delta = d] : c \in 0..(SYSTEMS[g.sid].npi - 1), d \in DELTAS}
  ELSE {[g EXCEPT !.kind = "trace", !.x0 = tr] : tr \in [1..N -> [1..SYSTEMS[g.sid].cols -> VALS]]}

Instance(sc) ==
  LET sys == SYSTEMS[sc.sid] IN
  IF MODE = "corrupt"
  THEN LET h == Honest(sys, sc.x0, sc.fr) IN
       CASE sc.kind = "cell" -> [h EXCEPT !.tr[sc.row + 1][sc.col + 1] = Add(@, sc.delta)]
         [] sc.kind = "pi"   -> [h EXCEPT !.pis[sc.col + 1] = Add(@, sc.delta)]
         [] OTHER            -> h
  ELSE [tr |-> sc.x0, pis |-> sc.fr]

Init == s \in Groups
Next == s.kind = "group" /\ s' \in CasesOf(s)

(* ---- theorems ---------------------------------------------------------- *)
LagK(sys) == LET m == M(sys) kp == KPt(sys) IN
  [j \in 0..(m - 1) |-> [x \in Fp |->
     ProdSet([i \in 0..(m - 1) |-> Div(Sub(x, kp[i]), IF i = j THEN 1 ELSE Sub(kp[j], kp[i]))], (0..(m - 1)) \ {j})]]
LagKTab == TLCEval([sid \in SIDS |-> IF QDF(SYSTEMS[sid]) = 0 THEN <<>> ELSE LagK(SYSTEMS[sid])])
MTab == TLCEval([sid \in SIDS |-> M(SYSTEMS[sid])])
KTab == TLCEval([sid \in SIDS |-> IF QDF(SYSTEMS[sid]) = 0 THEN <<>> ELSE KPt(SYSTEMS[sid])])
Max2(a, b) == IF a > b THEN a ELSE b
SoundBound(sys) == Max2(sys.deg * N - 1, N + M(sys) - 1)

RECURSIVE TAt(_, _, _, _, _)     \* the interpolated quotient at z: sum_j q[j] * LagK_j(z)
TAt(q, lag, z, j, m) == IF j = m THEN 0 ELSE Add(Mul(q[j], lag[j][z]), TAt(q, lag, z, j + 1, m))

\* Equiv, Complete and Sound on one evaluation of the constraint table (bound variables over
\* singleton sets hold evaluated values)
Theorems ==
  s.kind # "group" =>
    LET sys == SYSTEMS[s.sid] IN
    \A inst \in {TLCEval(Instance(s))} :
    \A ok \in {RowSem(sys, inst.tr, inst.pis)} :
    \A rt \in {RowTab(sys, inst.tr)} :
    \A ct \in {ConsTab(sys, rt, inst.pis)} :
      LET DivAll(alpha) == \A i \in 0..(N - 1) : Vanishing(ct[HPt[i]], alpha) = 0
          nDiv == Cardinality({alpha \in Fp : DivAll(alpha)})
          m    == MTab[s.sid]
          kp   == KTab[s.sid]
          lag  == LagKTab[s.sid]
          NAcc(alpha) ==
            CHOOSE n \in 0..P : \E q \in {TLCEval([j \in 0..(m - 1) |-> Div(Vanishing(ct[kp[j]], alpha), ZHT[kp[j]])])} :
              n = Cardinality({z \in Fp \ H : Vanishing(ct[z], alpha) = Mul(ZHT[z], TAt(q, lag, z, 0, m))})
      IN  /\ IF ok THEN nDiv = P ELSE nDiv <= Max2(Len(sys.cons) - 1, 0)              \* Equiv
          /\ (IDENTITY /\ QDF(sys) > 0) =>
                \A alpha \in ALPHAS :
                   IF ok THEN NAcc(alpha) = P - N                                      \* Complete
                   ELSE DivAll(alpha) \/ NAcc(alpha) <= SoundBound(sys)                \* Sound

SelectorsOk ==
  /\ \A x \in Fp \ {1} : L0Closed(x) = L0Poly(x)
  /\ \A x \in Fp \ {PowF(W, N - 1)} : LLastClosed(x) = LLastPoly(x)
  /\ \A i \in 0..(N - 1) : L0Poly(HPt[i]) = (IF i = 0 THEN 1 ELSE 0) /\ LLastPoly(HPt[i]) = (IF i = N - 1 THEN 1 ELSE 0)
  /\ \A i \in 0..(N - 1) : (ZLast(HPt[i]) = 0) <=> (i = N - 1)
ASSUME MUT # "none" \/ SelectorsOk

(* ---- emission ------------------------------------------------------------ *)
VarName(v) == v[1] \o ToString(v[2])
JsonSys(sys) == [cols |-> sys.cols, npi |-> sys.npi, deg |-> sys.deg,
                 cons |-> [j \in 1..Len(sys.cons) |->
                   [kind |-> sys.cons[j].kind,
                    terms |-> [k \in 1..Len(sys.cons[j].terms) |->
                       [c |-> sys.cons[j].terms[k].c,
                        vars |-> [q \in 1..Len(sys.cons[j].terms[k].vars) |-> VarName(sys.cons[j].terms[k].vars[q])]]]]]]
ASSUME \A sid \in SIDS : PrintT("SYS " \o ToJson([sid |-> sid, n |-> N, p |-> P, sys |-> JsonSys(SYSTEMS[sid])]))

Emit ==
  s.kind # "group" =>
    LET sys  == SYSTEMS[s.sid]
        inst == TLCEval(Instance(s))
        fail == TLCEval(Failing(sys, inst.tr, inst.pis))
    IN  PrintT("REPLAY17 " \o ToJson([sid |-> s.sid, kind |-> s.kind, row |-> s.row, col |-> s.col,
                                     trace |-> inst.tr, pis |-> inst.pis,
                                     failing |-> SetToSeq({<<cr[1] - 1, cr[2]>> : cr \in fail}),
                                     ok |-> fail = {}]))
=============================================================================
