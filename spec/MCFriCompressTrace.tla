------------------------- MODULE MCFriCompressTrace -------------------------
(***************************************************************************)
(* Trace validation for FriCompress (C16, binding C): each record of the   *)
(* ndjson file IOEnv.TRACE describes one REAL accepted proof - LDE bits,   *)
(* arity schedule, cap height, the Fiat-Shamir query indices - and the     *)
(* observed shape of its real compression: the keys of the de-duplicated   *)
(* maps and, per kept coset, the positions whose removal from the opened   *)
(* coset gives the stored evals.  The model is run on the recorded query   *)
(* tuple (all behaviours in one TLC start, the record number is part of    *)
(* `sc`): RoundTrip / NoMiss / Agree must hold for these real-length       *)
(* tuples, and the model's compressed shape must be the observed one       *)
(* (ShapeOk; a mismatch is implementation-shape DRIFT).                    *)
(***************************************************************************)
EXTENDS FriCompress, IOUtils

Rec == ndJsonDeserialize(IOEnv.TRACE)

InitT == \E i \in 1..Len(Rec) :
           StartFrom([n |-> Rec[i].n, ar |-> Rec[i].ar, capH |-> Rec[i].capH, q |-> Rec[i].q, id |-> i])
NextT == Step

ShapeOk == pc = "done" =>
  LET o == Rec[sc.id]
  IN  /\ DOMAIN mI = ToSet(o.init_keys)
      /\ \A j \in 1..R :
           /\ DOMAIN mS[j] = {o.steps[j][a].c : a \in 1..Len(o.steps[j])}
           /\ \A a \in 1..Len(o.steps[j]) :
                LET c == o.steps[j][a].c
                IN  c \in DOMAIN mS[j] => Within(sc.q[mS[j][c].src], j) \in ToSet(o.steps[j][a].cands)

RECURSIVE Expected(_)
Expected(i) == IF i = 0 THEN 0 ELSE 4 * Len(Rec[i].q) + 2 + Expected(i - 1)
AllConsumed == TLCGet("distinct") = Expected(Len(Rec))
=============================================================================
