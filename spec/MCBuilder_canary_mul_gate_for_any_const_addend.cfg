SPECIFICATION MCSpec
CONSTANTS
  FZero = 0
  FOne = 1
  FAdd <- AddM
  FMul <- MulM
  FLess <- LessM
  FW = 2
  WithExt = TRUE
  ExtConsts <- ExtConstsSmall
  NW = 16
  NR = 13
  NC = 2
  Mutant = "mul_gate_for_any_const_addend"
  Sem = TRUE
  InputVals = {2}
  P = 5
  MaxCalls = 3
  Consts = {0, 1, 3}
  MaxBits = 2
  MaxPi = 0
INVARIANT Inv
CHECK_DEADLOCK FALSE
