CONSTANTS
  RATE = 8
  WIDTH = 12
  Disabled = {"public_input"}
  UseEnvConfigs = FALSE
INIT Init
NEXT Next
CHECK_DEADLOCK FALSE
INVARIANT FS1
