CONSTANT Mutant = "element_not_selected"
INIT Init
NEXT Next
INVARIANT SelectedOnly
CHECK_DEADLOCK FALSE
