------------------------------- MODULE BitRev -------------------------------
(***************************************************************************)
(* Implementation-shaped model of the index permutations of                *)
(* /repo/util/src/lib.rs and transpose_util.rs:                            *)
(*   reverse_index_bits (small / large variant, 6-bit lookup table),       *)
(*   reverse_index_bits_in_place (small swap loop; chunked variant: bit    *)
(*   reversal of the rows, one or two in-place square transposes, bit      *)
(*   reversal of the rows), transpose_in_place_square with its recursive   *)
(*   block decomposition, and plonky2::util::transpose (rectangular).      *)
(* Arrays are functions on 0..n-1 holding tags (the original index); an    *)
(* in-place phase is the list of element swaps the code performs, applied  *)
(* in order.  Size thresholds and the table width are constants so that    *)
(* both strategies and odd/even lb_n occur below 2^MaxLb.                  *)
(* Property level: out[i] = in[Rev(i, lb_n)];  T[i][j] = M[j][i].          *)
(***************************************************************************)
EXTENDS Integers, Sequences, SequencesExt, TLC

CONSTANTS TB,        \* width of the lookup table of bit reversals (6 in the code)
          WB,        \* word size used for usize::reverse_bits (64 in the code; any WB >= MaxLb)
          SMALL,     \* SMALL_ARR_SIZE (2^16 in the code)
          BIGT,      \* BIG_T_SIZE (2^14 in the code)
          LBBLOCK,   \* LB_BLOCK_SIZE of transpose_util (3 in the code)
          MaxLb,     \* largest lb_n explored
          ESizes,    \* element sizes size_of::<T>() explored
          Mutant

Pow2(k) == 2 ^ k
RECURSIVE Rev(_, _)
Rev(i, bits) == IF bits = 0 THEN 0 ELSE (i % 2) * Pow2(bits - 1) + Rev(i \div 2, bits - 1)

\* BIT_REVERSE_6BIT, transcribed (octal in the source)
Table6 == << 0, 32, 16, 48, 8, 40, 24, 56, 4, 36, 20, 52, 12, 44, 28, 60,
             2, 34, 18, 50, 10, 42, 26, 58, 6, 38, 22, 54, 14, 46, 30, 62,
             1, 33, 17, 49, 9, 41, 25, 57, 5, 37, 21, 53, 13, 45, 29, 61,
             3, 35, 19, 51, 11, 43, 27, 59, 7, 39, 23, 55, 15, 47, 31, 63 >>
ASSUME Len(Table6) = 64 /\ \A i \in 0..63 : Table6[i + 1] = Rev(i, 6)
T(i) == IF TB = 6 THEN Table6[i + 1] ELSE Rev(i, TB)

Shr(x, s) == x \div Pow2(s)
Shl(x, s) == x * Pow2(s)
RevW(x) == Rev(x, WB)                       \* usize::reverse_bits
WrapShr(x, s) == Shr(x, s % WB)             \* usize::wrapping_shr

\* ---- reverse_index_bits: result[i] = arr[Src(i)] ------------------------------------------
SrcSmall(i, npow) == Shr(T(i), TB - npow)
SrcLarge(i, npow) ==
  LET ichunk == Shr(i, TB)  ilo == i % Pow2(TB)
      srclo == Shr(RevW(ichunk), WB - (npow - TB) + (IF Mutant = "large_shift" THEN 1 ELSE 0))
      srchi == Shl(T(ilo), npow - TB)
  IN srchi + srclo
Src(i, npow) == IF npow <= TB THEN SrcSmall(i, npow) ELSE SrcLarge(i, npow)

\* ---- swap lists ------------------------------------------------------------------------------
\* reverse_index_bits_in_place_small
DstSmall(src, lbn) ==
  IF lbn <= TB THEN WrapShr(T(src), TB - lbn)
  ELSE LET chunk == Shr(src, TB)  lo == src % Pow2(TB)
           dstlo == WrapShr(RevW(chunk), WB - (lbn - TB))
           dsthi == Shl(T(lo), lbn - TB)
       IN dsthi + dstlo
SwapIf(src, dst) == IF (IF Mutant = "swap_always" THEN src # dst ELSE src < dst) THEN << <<src, dst>> >> ELSE <<>>
SwapsSmall(lbn) == FlattenSeq([s \in 1..Pow2(lbn) |-> SwapIf(s - 1, DstSmall(s - 1, lbn))])

\* reverse_index_bits_in_place_chunks: swap_nonoverlapping of whole chunks, element by element
SwapsChunks(lbnum, lbsize) ==
  FlattenSeq([ii \in 1..Pow2(lbnum) |->
     LET i == ii - 1
         j == WrapShr(RevW(i), WB - lbnum)
     IN IF i < j THEN [t \in 1..Pow2(lbsize) |-> <<Shl(i, lbsize) + t - 1, Shl(j, lbsize) + t - 1>>]
        ELSE <<>>])

\* transpose_in_place_square_small(arr, lb_stride, lb_size, x)
TInSmall(st, sz, x) ==
  FlattenSeq([ii \in 1..(Pow2(sz) - 1) |->
     LET i == x + ii
     IN [jj \in 1..(i - x) |-> LET j == x + jj - 1 IN <<i + Shl(j, st), Shl(i, st) + j>>]])
\* transpose_swap_square_small(arr, lb_stride, lb_size, x, y)
TSwSmall(st, sz, x, y) ==
  FlattenSeq([ii \in 1..Pow2(sz) |->
     LET i == x + ii - 1
     IN [jj \in 1..Pow2(sz) |-> LET j == y + jj - 1 IN <<i + Shl(j, st), Shl(i, st) + j>>]])
RECURSIVE TSw(_, _, _, _)
TSw(st, sz, x, y) ==
  IF sz <= LBBLOCK THEN TSwSmall(st, sz, x, y)
  ELSE LET b == sz - 1  bs == Pow2(sz - 1)
       IN TSw(st, b, x, y) \o TSw(st, b, x + bs, y) \o TSw(st, b, x, y + bs)
          \o (IF Mutant = "swap_quadrant" THEN <<>> ELSE TSw(st, b, x + bs, y + bs))
RECURSIVE TIn(_, _, _)
TIn(st, sz, x) ==
  IF sz <= LBBLOCK THEN TInSmall(st, sz, x)
  ELSE LET b == sz - 1  bs == Pow2(sz - 1)
       IN TIn(st, b, x) \o TSw(st, b, x, x + bs) \o TIn(st, b, x + bs)
Offset(sw, off) == [t \in 1..Len(sw) |-> <<sw[t][1] + off, sw[t][2] + off>>]

\* strategy of reverse_index_bits_in_place
UsesSmall(es, lbn) == es * Pow2(lbn) <= SMALL \/ es >= BIGT
\* the phases (each a swap list) of reverse_index_bits_in_place
Phases(es, lbn) ==
  IF UsesSmall(es, lbn) THEN << SwapsSmall(lbn) >>
  ELSE LET nc == Shr(lbn, 1)                  \* lb_num_chunks
           cs == lbn - nc                     \* lb_chunk_size
           rows == IF Mutant = "chunks_args" THEN SwapsChunks(cs, nc) ELSE SwapsChunks(nc, cs)
           second == IF nc # cs /\ Mutant # "no_second_transpose"
                     THEN << Offset(TIn(cs, nc, 0), Pow2(nc)) >> ELSE <<>>
       IN << rows, TIn(cs, nc, 0) >> \o second \o << rows >>

\* apply a swap list in order (TLCEval: operator arguments are otherwise re-evaluated lazily)
RECURSIVE ApplySwaps(_, _, _)
ApplySwaps(a, sw, t) ==
  IF t > Len(sw) THEN a
  ELSE ApplySwaps(TLCEval([a EXCEPT ![sw[t][1]] = a[sw[t][2]], ![sw[t][2]] = a[sw[t][1]]]), sw, t + 1)

\* ---- state machine ---------------------------------------------------------------------------
VARIABLES kind, lb, es, par, arr, todo, pc
vars == <<kind, lb, es, par, arr, todo, pc>>

Ident(n) == [i \in 0..(n - 1) |-> i]
\* standalone square transposes: <<lb_stride, lb_size, x>> with x + 2^size <= 2^stride
TsqParams == {p \in (0..4) \X (0..4) \X (0..3) : p[2] <= p[1] /\ p[3] + Pow2(p[2]) <= Pow2(p[1])}
\* rectangular transposes: <<rows, cols>>
RectParams == (1..5) \X (0..5)

Init ==
  \/ /\ kind = "copy" /\ lb \in 0..MaxLb /\ es = 0 /\ par = <<>>
     /\ arr = Ident(Pow2(lb)) /\ todo = <<>> /\ pc = "run"
  \/ /\ kind = "inplace" /\ lb \in 0..MaxLb /\ es \in ESizes /\ par = <<>>
     /\ arr = Ident(Pow2(lb)) /\ todo = Phases(es, lb) /\ pc = "run"
  \/ /\ kind = "tsq" /\ par \in TsqParams /\ lb = 2 * par[1] /\ es = 0
     /\ arr = Ident(Pow2(lb)) /\ todo = << TIn(par[1], par[2], par[3]) >> /\ pc = "run"
  \/ /\ kind = "rect" /\ par \in RectParams /\ lb = 0 /\ es = 0
     \* matrix[r][c] = r * cols + c as a sequence of rows
     /\ arr = [rr \in 1..par[1] |-> [cc \in 1..par[2] |-> (rr - 1) * par[2] + cc - 1]]
     /\ todo = <<>> /\ pc = "run"

Step ==
  /\ pc = "run"
  /\ CASE kind = "copy" ->
            /\ arr' = [i \in 0..(Pow2(lb) - 1) |-> arr[Src(i, lb)]]
            /\ pc' = "done" /\ UNCHANGED todo
       [] kind = "rect" ->
            \* (0..len).map(|i| matrix.iter().map(|row| row[i]).collect()), len = matrix[0].len()
            /\ arr' = [i \in 1..Len(arr[1]) |-> [rr \in 1..Len(arr) |-> arr[rr][i]]]
            /\ pc' = "done" /\ UNCHANGED todo
       [] OTHER ->
            IF Len(todo) = 0 THEN pc' = "done" /\ UNCHANGED <<arr, todo>>
            ELSE /\ arr' = ApplySwaps(arr, Head(todo), 1)
                 /\ todo' = Tail(todo)
                 /\ pc' = "run"
  /\ UNCHANGED <<kind, lb, es, par>>
Next == Step
Spec == Init /\ [][Next]_vars

\* ---- property level --------------------------------------------------------------------------
Correct ==
  pc = "done" =>
    CASE kind \in {"copy", "inplace"} -> \A i \in 0..(Pow2(lb) - 1) : arr[i] = Rev(i, lb)
      [] kind = "tsq" ->
           LET st == par[1]  sz == par[2]  x == par[3]
               In(i) == i >= x /\ i < x + Pow2(sz)
           IN \A i \in 0..(Pow2(st) - 1) : \A j \in 0..(Pow2(st) - 1) :
                 arr[Shl(i, st) + j] = IF In(i) /\ In(j) THEN Shl(j, st) + i ELSE Shl(i, st) + j
      [] kind = "rect" ->
           /\ Len(arr) = par[2]
           /\ \A i \in 1..par[2] : /\ Len(arr[i]) = par[1]
                                   /\ \A j \in 1..par[1] : arr[i][j] = (j - 1) * par[2] + i - 1
\* every swap stays inside the array (the code uses get_unchecked_mut)
InBounds == \A ph \in 1..Len(todo) : \A t \in 1..Len(todo[ph]) :
               /\ todo[ph][t][1] \in 0..(Pow2(lb) - 1)
               /\ todo[ph][t][2] \in 0..(Pow2(lb) - 1)
\* the chunked variant is only entered with at least 4 elements (the code's debug_assert; follows from
\* SMALL_ARR_SIZE >= 4 * BIG_T_SIZE), also for elements of several KiB where it starts at 8 elements
ChunkedSize == kind = "inplace" /\ ~UsesSmall(es, lb) => Pow2(lb) >= 4 /\ Len(todo) <= (IF lb % 2 = 0 THEN 3 ELSE 4)
\* reverse_bits(n, num_bits) of plonky2/src/util/mod.rs: n.reverse_bits() >> (BITS - num_bits), shift wrapping
ASSUME \A nb \in 0..MaxLb : \A i \in 0..(Pow2(nb) - 1) : WrapShr(RevW(i), WB - nb) = Rev(i, nb)
=============================================================================
