-------------------------------- MODULE Ctl --------------------------------
(***************************************************************************)
(* Cross-table lookups of starky (property C10) over a small prime field.  *)
(*                                                                         *)
(* Property tier: CtlOk - the filter-weighted multiset of the tuples of    *)
(*   all looking sides, plus the extra tuples, equals the filter-weighted  *)
(*   multiset of the tuples of the looked side.                            *)
(* Implementation tier (starky/src/cross_table_lookup.rs                   *)
(*   `eval_cross_table_lookup_checks`, `partial_sums`,                     *)
(*   `verify_cross_table_lookups`): for a challenge (beta, gamma),         *)
(*   combine(t) = sum_i t_i beta^i + gamma.  The looking sides are grouped *)
(*   by table (consecutive sides of one table form one group = one Z       *)
(*   column).  A group with one side has no helper column:                 *)
(*     last row   combine * Z - filter = 0                                 *)
(*     other rows combine * (Z - Z') - filter = 0                          *)
(*   a group with several sides has one helper column per batch of DEG-1   *)
(*   sides (same constraints as the logUp helpers) and                     *)
(*     last row   Z - sum h = 0,     other rows  Z - Z' - sum h = 0        *)
(*   (partial sums upside down: the total is on the first row).  The       *)
(*   looked side is a group with one side.  The verifier checks            *)
(*     sum over the DISTINCT looking tables of Z(first row)                *)
(*        + sum_e 1/combine(extra_e)  =  Z_looked(first row).              *)
(*   Accepts = such Z / helper columns exist (backward propagation of the  *)
(*   set of possible Z values).                                            *)
(***************************************************************************)
EXTENDS Integers, Sequences, FiniteSets, TLC

CONSTANTS P, N, MUT

Fp == 0..(P - 1)
Add(a, b) == (a + b) % P
Sub(a, b) == (a + P - b) % P
Mul(a, b) == (a * b) % P
Norm(c) == ((c % P) + P) % P
InvTab == TLCEval([a \in 1..(P - 1) |-> CHOOSE b \in 1..(P - 1) : (a * b) % P = 1])

RECURSIVE LinSum(_, _, _)
LinSum(ps, row, i) == IF i > Len(ps) THEN 0 ELSE Add(Mul(Norm(ps[i][2]), row[ps[i][1] + 1]), LinSum(ps, row, i + 1))
ColVal(ce, tr, r) == Add(Add(LinSum(ce.lin, tr[r + 1], 1), LinSum(ce.next, tr[((r + 1) % N) + 1], 1)), Norm(ce.k))

TupleAt(side, trs, r) == [i \in 1..Len(side.cols) |-> ColVal(side.cols[i], trs[side.table + 1], r)]
FiltAt(side, trs, r) == ColVal(side.filter, trs[side.table + 1], r)

(* ---- property tier -------------------------------------------------- *)
RECURSIVE SumOver(_, _)
SumOver(f, S) == IF S = {} THEN 0 ELSE LET e == CHOOSE e \in S : TRUE IN Add(f[e], SumOver(f, S \ {e}))
LookEntries(d) == (1..Len(d.looking)) \X (0..(N - 1))
Occurring(d, trs) == {TupleAt(d.looking[e[1]], trs, e[2]) : e \in LookEntries(d)}
                     \cup {TupleAt(d.looked, trs, r) : r \in 0..(N - 1)} \cup {d.extra[j] : j \in 1..Len(d.extra)}
LookW(d, trs, t) == Add(SumOver([e \in LookEntries(d) |-> FiltAt(d.looking[e[1]], trs, e[2])],
                                {e \in LookEntries(d) : TupleAt(d.looking[e[1]], trs, e[2]) = t}),
                        Cardinality({j \in 1..Len(d.extra) : d.extra[j] = t}) % P)
LookedW(d, trs, t) == SumOver([r \in 0..(N - 1) |-> FiltAt(d.looked, trs, r)], {r \in 0..(N - 1) : TupleAt(d.looked, trs, r) = t})
CtlOk(d, trs) == \A t \in Occurring(d, trs) : LookW(d, trs, t) = LookedW(d, trs, t)

(* ---- implementation tier -------------------------------------------- *)
RECURSIVE Comb(_, _, _)            \* reduce_with_powers: t_1 + beta (t_2 + beta (...))
Comb(t, i, beta) == IF i > Len(t) THEN 0 ELSE Add(t[i], Mul(beta, Comb(t, i + 1, beta)))
Combine(t, beta, gamma) == Add(Comb(t, 1, beta), gamma)

\* groups of consecutive looking sides of the same table: a sequence of sequences of side indices
RECURSIVE GroupsFrom(_, _)
GroupsFrom(d, i) ==
  IF i > Len(d.looking) THEN <<>>
  ELSE LET same == {j \in i..Len(d.looking) : \A q \in i..j : d.looking[q].table = d.looking[i].table}
           last == CHOOSE j \in same : \A q \in same : q <= j
       IN  <<[q \in 1..(last - i + 1) |-> i + q - 1]>> \o GroupsFrom(d, last + 1)
Groups(d) == GroupsFrom(d, 1)

\* per case: combined values and filters of every side and row (sides: looking 1..L, looked = L+1)
SideOf(d, k) == IF k <= Len(d.looking) THEN d.looking[k] ELSE d.looked
Tab(d, trs, beta, gamma) ==
  TLCEval([c |-> [k \in 1..(Len(d.looking) + 1) |-> [r \in 0..(N - 1) |-> Combine(TupleAt(SideOf(d, k), trs, r), beta, gamma)]],
           f |-> [k \in 1..(Len(d.looking) + 1) |-> [r \in 0..(N - 1) |->
                    IF MUT = "looked_filter_ignored" /\ k = Len(d.looking) + 1 THEN 1 ELSE FiltAt(SideOf(d, k), trs, r)]]])

Chunk(d) == IF d.deg >= 2 THEN d.deg - 1 ELSE 1
\* helper solutions of one batch (one or two sides) on row r
HSols(tb, r, k0, two) ==
  {h \in Fp : IF two THEN Sub(Sub(Mul(Mul(tb.c[k0 + 1][r], tb.c[k0][r]), h), Mul(tb.f[k0][r], tb.c[k0 + 1][r])),
                              Mul(tb.f[k0 + 1][r], tb.c[k0][r])) = 0
                     ELSE Sub(Mul(tb.c[k0][r], h), tb.f[k0][r]) = 0}
RECURSIVE HSums(_, _, _, _, _)      \* possible sums of the helper columns of group g on row r, batches from position i
HSums(d, tb, g, r, i) ==
  IF i > Len(g) THEN {0}
  ELSE LET two == Chunk(d) = 2 /\ i + 1 <= Len(g)
       IN  {Add(h, a) : h \in HSols(tb, r, g[i], two), a \in HSums(d, tb, g, r, IF two THEN i + 2 ELSE i + 1)}
\* possible values of Z on the last row / on row r given the possible values on row r+1
ZLast(d, tb, g) ==
  IF MUT = "no_last_row" THEN Fp
  ELSE IF Len(g) = 1 THEN {z \in Fp : Sub(Mul(tb.c[g[1]][N - 1], z), tb.f[g[1]][N - 1]) = 0}
  ELSE HSums(d, tb, g, N - 1, 1)
ZPrev(d, tb, g, r, nxt) ==
  IF Len(g) = 1 THEN {z \in Fp : \E z2 \in nxt : Sub(Mul(tb.c[g[1]][r], Sub(z, z2)), tb.f[g[1]][r]) = 0}
  ELSE {z \in Fp : \E z2 \in nxt, s \in HSums(d, tb, g, r, 1) : Sub(Sub(z, z2), s) = 0}
RECURSIVE ZAt(_, _, _, _)
ZAt(d, tb, g, r) == IF r = N - 1 THEN ZLast(d, tb, g) ELSE ZPrev(d, tb, g, r, ZAt(d, tb, g, r + 1))
ZFirst(d, tb, g) == ZAt(d, tb, g, 0)

RECURSIVE LookingSums(_, _, _, _)   \* possible values of the sum of the first-row openings of the looking groups
LookingSums(d, tb, gs, i) ==
  IF i > Len(gs) THEN {0}
  ELSE IF MUT = "first_group_only" /\ i > 1 THEN {0}
  ELSE {Add(z, a) : z \in ZFirst(d, tb, gs[i]), a \in LookingSums(d, tb, gs, i + 1)}
ExtraSum(d, beta, gamma) ==
  IF MUT = "extra_ignored" THEN 0
  ELSE SumOver([j \in 1..Len(d.extra) |-> InvTab[Combine(d.extra[j], beta, gamma)]], 1..Len(d.extra))
Accepts(d, tb, beta, gamma) ==
  \E s \in LookingSums(d, tb, Groups(d), 1), zl \in ZFirst(d, tb, <<Len(d.looking) + 1>>) :
     Add(s, ExtraSum(d, beta, gamma)) = zl

Degenerate(d, trs, beta, gamma) == \E t \in Occurring(d, trs) : Combine(t, beta, gamma) = 0
Separating(d, trs, beta) == \A t1, t2 \in Occurring(d, trs) : Comb(t1, 1, beta) = Comb(t2, 1, beta) => t1 = t2
NumEntries(d) == N * (Len(d.looking) + 1) + Len(d.extra)
=============================================================================
