CONSTANT MaxOps = 6
CONSTANT EmitLen = 6
CONSTANT MaxReps = 4
CONSTANT MaxBlobs = 2
CONSTANT MaxProofs = 3
CONSTANT NInputs = 2
CONSTANT NoRepeat = TRUE
CONSTANT CheckRestore = TRUE
CONSTANT Nondegenerate = TRUE
CONSTANT Mutant = "none"
INIT Init
NEXT Next
INVARIANT TypeOK
INVARIANT ObsEqual
INVARIANT AllIntact
INVARIANT AllGood
INVARIANT Emit
CHECK_DEADLOCK FALSE
