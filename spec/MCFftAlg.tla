------------------------------ MODULE MCFftAlg ------------------------------
(***************************************************************************)
(* State machine over FftAlg: one action per phase of the real code        *)
(*   coset pre-scaling -> table length check -> bit reversal -> zero-tail  *)
(*   copy -> butterfly round lg_half_m = r .. lg_n - 1 -> ifft epilogue    *)
(*   -> coset post-scaling -> done                                         *)
(* for every size n = 2^lg (lg <= MaxLg), every admissible zero-tail       *)
(* factor r, every transform kind, every shift, a root table built for     *)
(* any size 2^tlg (fft_classic panics iff tlg # lg), on all basis vectors  *)
(* with the admissible zero tail (the transform is linear) and a few       *)
(* dense vectors.  Correct: at termination the vector equals the naive     *)
(* DFT / is inverted by it.                                                *)
(***************************************************************************)
EXTENDS FftAlg, TLC

CONSTANT Shifts        \* shifts used for the coset variants

VARIABLES lg, r, tlg, mode, shift, inp, v, pc, k
vars == <<lg, r, tlg, mode, shift, inp, v, pc, k>>

Modes == {"fft", "ifft", "cfft", "cifft"}
IsCoset(m) == m \in {"cfft", "cifft"}
IsInv(m) == m \in {"ifft", "cifft"}

\* admissible inputs: only the first n / 2^r entries may be non-zero
Basis(n, j) == [i \in 0..(n - 1) |-> IF i = j THEN 1 ELSE 0]
Dense(n, m, kind) == [i \in 0..(n - 1) |->
                        IF i >= m THEN 0
                        ELSE CASE kind = 1 -> 1
                               [] kind = 2 -> Mod(i + 1)
                               [] OTHER    -> Mod(3 * i * i + 5 * i + 7)]
Inputs(lgn, rr) == LET n == Pow2(lgn)  m == Pow2(lgn - rr)
                   IN {Basis(n, j) : j \in 0..(m - 1)} \cup {Dense(n, m, kind) : kind \in 1..3}

Init ==
  /\ lg \in 0..MaxLg
  /\ r \in 0..lg
  /\ tlg \in 0..MaxLg
  /\ mode \in Modes
  /\ shift \in (IF IsCoset(mode) THEN Shifts ELSE {1})
  /\ inp \in Inputs(lg, r)
  /\ v = inp
  /\ k = 0
  /\ pc = IF mode = "cfft" THEN "pre" ELSE "rev"

Tbl == RootTable(tlg)

Pre == /\ pc = "pre"
       /\ v' = CosetPre(v, lg, shift)
       /\ pc' = "rev"
       /\ UNCHANGED <<lg, r, tlg, mode, shift, inp, k>>
\* reverse_index_bits_in_place, then the root-table length check
RevStep == /\ pc = "rev"
           /\ v' = BitRevVec(v, lg)
           /\ pc' = IF tlg # lg THEN "panic" ELSE "copy"
           /\ UNCHANGED <<lg, r, tlg, mode, shift, inp, k>>
CopyStep == /\ pc = "copy"
            /\ v' = CopyVec(v, lg, r)
            /\ k' = FirstRound(lg, r)
            /\ pc' = "round"
            /\ UNCHANGED <<lg, r, tlg, mode, shift, inp>>
RoundStep == /\ pc = "round"
             /\ IF k < lg
                THEN /\ v' = Round(v, lg, Tbl, k)
                     /\ k' = k + 1
                     /\ pc' = "round"
                ELSE /\ UNCHANGED <<v, k>>
                     /\ pc' = IF IsInv(mode) THEN "post" ELSE "done"
             /\ UNCHANGED <<lg, r, tlg, mode, shift, inp>>
PostStep == /\ pc = "post"
            /\ v' = IfftPost(v, lg)
            /\ pc' = IF mode = "cifft" THEN "cpost" ELSE "done"
            /\ UNCHANGED <<lg, r, tlg, mode, shift, inp, k>>
CPostStep == /\ pc = "cpost"
             /\ v' = CosetPost(v, lg, shift)
             /\ pc' = "done"
             /\ UNCHANGED <<lg, r, tlg, mode, shift, inp, k>>

Next == Pre \/ RevStep \/ CopyStep \/ RoundStep \/ PostStep \/ CPostStep
Spec == Init /\ [][Next]_vars

N == Pow2(lg)
Idx == 0..(N - 1)
\* ---- property level ----------------------------------------------------------------------
Correct ==
  pc = "done" =>
    CASE mode = "fft"   -> \A i \in Idx : v[i] = DftAt(inp, lg, i)
      [] mode = "cfft"  -> \A i \in Idx : v[i] = CosetDftAt(inp, lg, shift, i)
      \* the inverse transforms return the coefficients whose (coset) evaluations are the input
      [] mode = "ifft"  -> \A i \in Idx : DftAt(v, lg, i) = inp[i]
      [] mode = "cifft" -> \A i \in Idx : CosetDftAt(v, lg, shift, i) = inp[i]
InRange == \A i \in Idx : v[i] \in 0..(P - 1)
\* fft_classic panics exactly when the supplied table was built for another size
PanicByContract == /\ pc = "panic" => tlg # lg
                   /\ pc \in {"copy", "round", "post", "cpost", "done"} => tlg = lg
\* the root table is what the definition says: row lg_half_m holds w_m^j, w_m of order 2^(lg_half_m+1)
TableOk ==
  \A lgn \in 0..MaxLg :
     /\ Len(RootTable(lgn)) = lgn
     /\ \A lgm \in 1..lgn :
          LET row == RootTable(lgn)[lgm]
              wm == PowM(G, Pow2(MaxLg - lgm))
          IN /\ Len(row) = Max(Pow2(lgm - 1), 2)
             /\ \A j \in 1..Len(row) : row[j] = PowM(wm, j - 1)
\* G has order exactly 2^MaxLg
ASSUME PowM(G, Pow2(MaxLg)) = 1 /\ (MaxLg > 0 => PowM(G, Pow2(MaxLg - 1)) = P - 1)
ASSUME TableOk
=============================================================================
