----------------------------- MODULE BatchMerkle -----------------------------
(***************************************************************************)
(* Batch Merkle trees (batch_merkle_tree.rs, verify_batch_merkle_proof_to_ *)
(* cap), C12: several leaf matrices of strictly decreasing heights         *)
(* hs[1] > hs[2] > ... >= capH are committed in one tree; the rows of the  *)
(* shorter matrices are mixed in at the level of their height:             *)
(*     digest' = hash_or_noop(digest ++ row).                              *)
(*                                                                         *)
(* Property level: BNode / BCap / BPath and the verifier's walk with        *)
(* `leaf_heights` (BVerify): the honest batch opening verifies and every   *)
(* single change of one matrix row, the position, one sibling or the cap   *)
(* entry does not.  Implementation level: BatchMerkleTree::new fills one   *)
(* section of `digests` per matrix with fill_digests_buf (layout proved in *)
(* MerkleFill: Merkle!StoredGlobal) and open_batch reads the sections with *)
(* merkle_tree_prove's formula: OpenBatchRead = BPath (OpenRight).         *)
(* One state per scenario; scenarios are printed as REPLAY lines.          *)
(***************************************************************************)
EXTENDS Merkle, Json

CONSTANTS MaxH,     \* height of the tallest matrix: 1..MaxH
          W0s,      \* width classes of the tallest matrix' rows (e.g. {1, 5})
          Mutant    \* "none" | "nomix" (verifier forgets to mix in the shorter matrices)

VARIABLE s

MixW == 2   \* width of the rows of the shorter matrices (digest ++ row is always hashed)
Row(m, j) == <<"v", m, j>>
Cat(d, r) == <<"cat", d, r>>

\* strictly decreasing height sequences starting at h0, at most 3 matrices
HeightSeqs(h0) ==
  {<<h0>>} \cup {<<h0, a>> : a \in 0..(h0 - 1)}
  \cup UNION {{<<h0, a, b>> : b \in 0..(a - 1)} : a \in 0..(h0 - 1)}
Last(q) == q[Len(q)]
MatrixAt(hs, height) == IF \E m \in 2..Len(hs) : hs[m] = height
                        THEN CHOOSE m \in 2..Len(hs) : hs[m] = height ELSE 0

\* level k (0 = rows of the tallest matrix) has height hs[1]-k; after mixing
RECURSIVE BNode(_, _, _, _)
BNode(hs, w0, k, j) ==
  LET base == IF k = 0 THEN HashOrNoop(w0, Row(1, j))
              ELSE H2(BNode(hs, w0, k - 1, 2 * j), BNode(hs, w0, k - 1, 2 * j + 1))
      m == IF k = 0 THEN 0 ELSE MatrixAt(hs, hs[1] - k)
  IN  IF m = 0 THEN base ELSE HashOrNoop(DIGEST + MixW, Cat(base, Row(m, j)))

BCap(hs, w0, capH) == [c \in 0..(Pow2(capH) - 1) |-> BNode(hs, w0, hs[1] - capH, c)]
BPath(hs, w0, capH, i) == [k \in 1..(hs[1] - capH) |-> BNode(hs, w0, k - 1, Xor1(Shr(i, k - 1)))]
\* BatchMerkleTree::values
BValues(hs, i) == [m \in 1..Len(hs) |-> Row(m, Shr(i, hs[1] - hs[m]))]

\* verify_batch_merkle_proof_to_cap: <<digest, index, leaf_data_index>> after the walk
RECURSIVE BWalk(_, _, _, _, _, _, _, _)
BWalk(cur, idx, curh, ldi, data, hs, path, k) ==
  IF k > Len(path) THEN <<cur, idx, ldi>>
  ELSE LET d == IF idx % 2 = 1 THEN H2(path[k], cur) ELSE H2(cur, path[k])
           mix == Mutant # "nomix" /\ ldi <= Len(hs) /\ curh - 1 = hs[ldi]
       IN  BWalk(IF mix THEN HashOrNoop(DIGEST + MixW, Cat(d, data[ldi])) ELSE d,
                 idx \div 2, curh - 1, IF mix THEN ldi + 1 ELSE ldi, data, hs, path, k + 1)

\* "ok" | "reject" | "panic" (assert_eq!(leaf_data_index, leaf_data.len()) or cap index out of range)
BVerify(w0, data, hs, i, path, cap) ==
  LET r == BWalk(HashOrNoop(w0, data[1]), i, hs[1], 2, data, hs, path, 1)
  IN  IF r[3] # Len(data) + 1 /\ Mutant # "nomix" THEN "panic"
      ELSE IF r[2] \notin DOMAIN cap THEN "panic"
      ELSE IF r[1] = cap[r[2]] THEN "ok" ELSE "reject"

(***************************************************************************)
(* Implementation shape: sections of `digests` and open_batch.             *)
(***************************************************************************)
\* cap heights of the sections: hs \o <<capH>>; section m spans leaves of height hs[m] with cap
\* height nxt(m); its slots hold levels (hs[1]-hs[m]) .. of the batch tree
NextH(hs, capH, m) == IF m < Len(hs) THEN hs[m + 1] ELSE capH
SecLen(hs, capH, m) == 2 * (Pow2(hs[m]) - Pow2(NextH(hs, capH, m)))
RECURSIVE SecPos(_, _, _)
SecPos(hs, capH, m) == IF m = 1 THEN 0 ELSE SecPos(hs, capH, m - 1) + SecLen(hs, capH, m - 1)
\* the term stored in slot p (relative to its section m)
SecStored(hs, w0, capH, m, p) ==
  LET g == StoredGlobal(hs[m], NextH(hs, capH, m), p)
  IN  BNode(hs, w0, hs[1] - hs[m] + g[1], g[2])
RECURSIVE OpenFrom(_, _, _, _, _)
OpenFrom(hs, w0, capH, i, m) ==
  IF m > Len(hs) THEN <<>>
  ELSE LET slots == ProveSlots(Shr(i, hs[1] - hs[m]), hs[m], NextH(hs, capH, m), "none")
       IN  [k \in 1..Len(slots) |->
              IF slots[k] < SecLen(hs, capH, m) THEN SecStored(hs, w0, capH, m, slots[k])
              ELSE <<"oob", m, slots[k]>>]
           \o OpenFrom(hs, w0, capH, i, m + 1)
OpenBatchRead(hs, w0, capH, i) == OpenFrom(hs, w0, capH, i, 1)

(***************************************************************************)
(* Scenarios                                                               *)
(***************************************************************************)
Tampers(hs, capH, i) ==
  {[kind |-> "none", pos |-> 0]}
  \cup {[kind |-> "row", pos |-> m] : m \in 1..Len(hs)}
  \cup {[kind |-> "index", pos |-> j] : j \in (0..(Pow2(hs[1]) - 1)) \ {i}}
  \cup {[kind |-> "sibling", pos |-> k] : k \in 1..(hs[1] - capH)}
  \cup {[kind |-> "cap", pos |-> Shr(i, hs[1] - capH)]}

Groups ==
  UNION {UNION {UNION {
    {[hs |-> q, capH |-> c, w0 |-> w, i |-> 0, kind |-> "group", pos |-> 0] : c \in 0..Last(q)}
    : q \in HeightSeqs(h0)} : w \in W0s} : h0 \in 1..MaxH}
ScenariosOf(g) ==
  UNION {{[hs |-> g.hs, capH |-> g.capH, w0 |-> g.w0, i |-> i, kind |-> t.kind, pos |-> t.pos] :
          t \in Tampers(g.hs, g.capH, i)} : i \in 0..(Pow2(g.hs[1]) - 1)}

Expect(sc) == IF sc.kind = "none" THEN "ok" ELSE "reject"

Verdict(sc) ==
  LET path0 == BPath(sc.hs, sc.w0, sc.capH, sc.i)
      cap0  == BCap(sc.hs, sc.w0, sc.capH)
      data0 == BValues(sc.hs, sc.i)
      data  == IF sc.kind = "row" THEN [data0 EXCEPT ![sc.pos] = <<"v", sc.pos, 1000>>] ELSE data0
      idx   == IF sc.kind = "index" THEN sc.pos ELSE sc.i
      path  == IF sc.kind = "sibling" THEN [path0 EXCEPT ![sc.pos] = <<"x", sc.pos>>] ELSE path0
      cap   == IF sc.kind = "cap" THEN [cap0 EXCEPT ![sc.pos] = <<"x", 99>>] ELSE cap0
  IN  BVerify(sc.w0, data, sc.hs, idx, path, cap)

Init == s \in Groups
Next == s.kind = "group" /\ s' \in ScenariosOf(s)

Correct == s.kind # "group" => Verdict(s) = Expect(s)
\* open_batch reads exactly the batch path (checked once per position: on the honest scenario)
OpenRight == s.kind = "none" => OpenBatchRead(s.hs, s.w0, s.capH, s.i) = BPath(s.hs, s.w0, s.capH, s.i)
\* with a single matrix the batch tree is the plain tree of Merkle
PlainAgree == (s.kind = "none" /\ Len(s.hs) = 1) =>
   LET lv == [j \in 0..(Pow2(s.hs[1]) - 1) |-> Row(1, j)]
   IN  /\ BCap(s.hs, s.w0, s.capH) = CapOf(lv, s.w0, s.hs[1], s.capH)
       /\ BPath(s.hs, s.w0, s.capH, s.i) = Path(lv, s.w0, s.hs[1], s.capH, s.i)
Emit == s.kind # "group" =>
  PrintT("REPLAY " \o ToJson([hs |-> s.hs, capH |-> s.capH, w0 |-> s.w0, i |-> s.i, kind |-> s.kind,
                              pos |-> s.pos, expect |-> Expect(s)]))
=============================================================================
