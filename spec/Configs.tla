------------------------------ MODULE Configs ------------------------------
(***************************************************************************)
(* The configuration lattice and the input-class vectors over which C01    *)
(* (and the properties that reuse its circuits) quantify, with the static  *)
(* part of Admissible (DESIGN Appendix B).  The degree-dependent part      *)
(* (FRI schedule vs. degree bits and cap height) is FriAdmissible below;   *)
(* harness/src/cfgs.rs evaluates the same predicate once the degree of the *)
(* built circuit is known.  TLC enumerates the lattice and prints it; the  *)
(* driver pairs programs with configurations from this list only.          *)
(***************************************************************************)
EXTENDS Integers, Sequences, FiniteSets, TLC, Json

Strategies == { [strat |-> "fixed", arities |-> <<>>], [strat |-> "fixed", arities |-> <<1>>],
                [strat |-> "fixed", arities |-> <<2, 1>>], [strat |-> "fixed", arities |-> <<3>>],
                [strat |-> "const", arities |-> <<4, 5>>], [strat |-> "const", arities |-> <<3, 4>>],
                [strat |-> "const", arities |-> <<2, 2>>], [strat |-> "const", arities |-> <<1, 0>>],
                [strat |-> "minsize", arities |-> <<0>>], [strat |-> "minsize", arities |-> <<3>>] }
Grind == { [q |-> 28, pow |-> 16], [q |-> 12, pow |-> 16], [q |-> 14, pow |-> 10], [q |-> 3, pow |-> 1] }

\* row shapes (num_wires / num_routed_wires): "std" 135/80, "wide" 234/120, "narrow" 68/30 (no Poseidon gate:
\* no hashing and no public inputs), "r60" 135/60 and "r37" 135/37 (fewer routed wires: other slot counts
\* per gate, other chunking of the partial products and of the lookup polynomials)
Widths == {"std", "wide", "narrow"}
ExtraWidths == {"r60", "r37"}
CfgsOver(W) == { [zk |-> z, strat |-> s.strat, arities |-> s.arities, rate |-> r, cap |-> c, nch |-> n,
           width |-> w, q |-> g.q, pow |-> g.pow, keccak |-> k] :
          z \in BOOLEAN, s \in Strategies, r \in {3, 4}, c \in 0..4, n \in 1..3,
          w \in W, g \in Grind, k \in BOOLEAN }
Cfgs == CfgsOver(Widths)

\* static admissibility: the quotient degree factor is 8, so rate_bits >= 3; at least one challenge.
\* Zero-knowledge needs a schedule whose final polynomial does not grow with the degree: every
\* final coefficient is revealed and must be blinded, so with a Fixed schedule the blinding fixed
\* point (circuit_builder.rs blinding_counts) has no solution once 6 * q >= product of arities
\* and the builder doubles its degree estimate forever (observed: memory exhaustion; recorded in
\* DESIGN section 8 as an observation about an inadmissible configuration).
StaticAdmissible(c) == c.rate >= 3 /\ c.nch >= 1 /\ c.q >= 1 /\ (c.zk => c.strat # "fixed")
Binding(c) == c.q * c.rate + c.pow                 \* bits behind "must be rejected" statements

\* degree-dependent admissibility of the FRI schedule for a circuit of d degree bits
RECURSIVE FixedOk(_, _, _)
FixedOk(ar, lde, cap) == IF Len(ar) = 0 THEN TRUE
                         ELSE Head(ar) > 0 /\ lde - Head(ar) >= cap /\ FixedOk(Tail(ar), lde - Head(ar), cap)
RECURSIVE Sum(_)
Sum(s) == IF Len(s) = 0 THEN 0 ELSE Head(s) + Sum(Tail(s))
RECURSIVE ConstOk(_, _, _, _, _)
ConstOk(d, a, f, rate, cap) == IF d > f /\ d + rate >= a + cap
                               THEN d >= a /\ ConstOk(d - a, a, f, rate, cap) ELSE TRUE
FriAdmissible(c, d) ==
  /\ c.cap <= d + c.rate
  /\ c.strat = "fixed" => Sum(c.arities) <= d /\ FixedOk(c.arities, d + c.rate, c.cap)
  /\ c.strat = "const" => c.arities[1] > 0 /\ ConstOk(d, c.arities[1], c.arities[2], c.rate, c.cap)

\* input classes: boundary values of the field and of the word
Classes == {"zero", "one", "two", "pm1", "pm2", "eps", "pow2:31", "pow2:32", "pow2:63", "pow2m1:16",
            "pow2m1:32", "pow2m1:63", "small:16", "small:4", "rand"}
ClassVectors == { <<a, b, c>> : a \in Classes, b \in {"zero", "one", "pm1", "small:16", "rand", "pow2m1:32"},
                                c \in {"rand", "small:4", "one", "pow2:32"} }

Admissibles == {c \in Cfgs : StaticAdmissible(c)}
\* sanity: the standard recursion configuration is in the lattice and admissible for degrees >= 2
Std == [zk |-> FALSE, strat |-> "const", arities |-> <<4, 5>>, rate |-> 3, cap |-> 4, nch |-> 2,
        width |-> "std", q |-> 28, pow |-> 16, keccak |-> FALSE]
ASSUME Std \in Admissibles /\ \A d \in 2..20 : FriAdmissible(Std, d)
\* the FriAdmissible table the harness is compared with (degree bits 2..14)
FriTable == { [cfg |-> c, d |-> d, ok |-> FriAdmissible(c, d)] :
              c \in {x \in Admissibles : x.zk = FALSE /\ x.nch = 1 /\ x.width = "std" /\ x.keccak = FALSE /\ x.q = 28}, d \in 2..14 }
ASSUME PrintT("CFGS " \o ToJson(Admissibles))
\* the same lattice over the extra row shapes (used by C01 / C02 only)
ASSUME PrintT("CFGSX " \o ToJson({c \in CfgsOver(ExtraWidths) : StaticAdmissible(c) /\ ~c.zk /\ ~c.keccak}))
ASSUME PrintT("CLASSES " \o ToJson(ClassVectors))
ASSUME PrintT("FRITABLE " \o ToJson(FriTable))
=============================================================================
