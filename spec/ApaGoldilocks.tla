---------------------------- MODULE ApaGoldilocks ----------------------------
(* Apalache wrapper: GoldilocksAlg at the real word size K = 32, all operands *)
(* symbolic (SMT integers).  Each invariant is checked at length 0.            *)
EXTENDS GoldilocksAlg

VARIABLES
  \* @type: Int;
  x,
  \* @type: Int;
  y,
  \* @type: Int;
  z

ConstInit == K = 32

Init == /\ x \in Nat /\ y \in Nat /\ z \in Nat
        /\ x < W /\ y < W /\ z < H
Next == UNCHANGED <<x, y, z>>

InvAdd == LET o == AddAlg(x, y) IN o.r >= 0 /\ o.r < W /\ o.ok /\ Cong(o.r, x + y, -2, 2)
InvSub == LET o == SubAlg(x, y) IN o.r >= 0 /\ o.r < W /\ o.ok /\ Cong(o.r, x - y, -2, 2)
InvNeg == LET o == NegAlg(x) IN o.r >= 0 /\ o.r < P /\ Cong(o.r, 0 - x, -2, 2)
\* cores over all split parts: x = x_lo, (y, z) = (x_hi_hi, x_hi_lo) resp. (top, mid)
InvRed128 == y < H => LET o == Reduce128Core(x, y, z) IN
                 o.r >= 0 /\ o.r < W /\ o.ok /\ Cong(o.r, x + z * EPS - y, -3, 3)
InvRed96 == LET o == Reduce96(x, z) IN o.r >= 0 /\ o.r < W /\ o.ok /\ Cong(o.r, x + z * EPS, -2, 2)
InvRed160 == y < P => LET o == Reduce160Core(x, z, y) IN
                 o.r >= 0 /\ o.r < W /\ o.ok /\ Cong(o.r, x + z * EPS - y, -3, 3)
InvI64 == LET o == FromI64(x - W \div 2) IN o.r >= 0 /\ o.r < P /\ o.ok /\ Cong(o.r, x - W \div 2, -1, 1)
InvAddC == y < P => LET o == AddCanon(x, y) IN o.r >= 0 /\ o.r < W /\ o.ok /\ Cong(o.r, x + y, -2, 2)
InvSubC == y < P => LET o == SubCanon(x, y) IN o.r >= 0 /\ o.r < W /\ o.ok /\ Cong(o.r, x - y, -2, 2)
InvCanon == Canon(x) < P /\ Cong(Canon(x), x, -1, 1)
\* accumulator helpers keep the 160-bit value (z * W2 must stay below 2^K words: hi < 2^K / 8)
InvT7 == z < H \div 8 => LET t == Times7(x * W + y, z) IN
            t.lo >= 0 /\ t.lo < W2 /\ t.hi >= 0 /\ t.lo + t.hi * W2 = 7 * (x * W + y + z * W2)
InvT3 == z < H \div 4 => LET t == Times3(x * W + y, z) IN
            t.lo >= 0 /\ t.lo < W2 /\ t.hi >= 0 /\ t.lo + t.hi * W2 = 3 * (x * W + y + z * W2)

\* canary: Add without the second correction must have a 64-bit counterexample
AddNoSecond(p, q) == LET s1 == OAdd(p, q)  s2 == OAdd(s1.v, IF s1.c THEN EPS ELSE 0) IN s2.v
InvAddCanary == Cong(AddNoSecond(x, y), x + y, -2, 2)
\* path witnesses: negations of reachability (a violation is a concrete 64-bit witness)
NoAddPath2 == AddAlg(x, y).path # 2
NoSubPath2 == SubAlg(x, y).path # 2
NoRed128Path3 == y < H => Reduce128Core(x, y, z).path # 3
=============================================================================
