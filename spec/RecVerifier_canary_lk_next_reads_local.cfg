CONSTANT Instance = "starklk"
CONSTANT NL = 2
CONSTANT Disabled = {}
CONSTANT Mutant = "circuit_next_reads_local"
INIT Init
NEXT Next
INVARIANT Agree
CHECK_DEADLOCK FALSE
