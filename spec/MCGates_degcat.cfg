CONSTANT P = 17
CONSTANT ALPHA = 3
CONSTANT GEN = 3
CONSTANT DropKind = "none"
CONSTANT DropIdx = 0
CONSTANT Cases <- CasesDeg
CONSTANT Sel = {}
CONSTANT DegShift = 0
INIT InitDegCat
NEXT NextDeg
INVARIANT DegreeInv
INVARIANT DegreeExactInv
INVARIANT CatLayoutInv
INVARIANT Emit
CHECK_DEADLOCK FALSE
