CONSTANT P = 17
CONSTANT N = 2
CONSTANT MUT = "no_freq"
CONSTANT DIDS = {1}
INIT Init
NEXT Next
INVARIANT Theorem
CHECK_DEADLOCK FALSE
