CONSTANT MaxH = 4
CONSTANT MaxLen = 3
CONSTANT Mutant = "none"
INIT Init
NEXT Next
INVARIANT RoundTrip
INVARIANT NoMiss
INVARIANT Tight
INVARIANT NoWaste
INVARIANT Emit
CHECK_DEADLOCK FALSE
