CONSTANT Vals = {0, 1}
CONSTANT Disabled = "none"
CONSTANT ChunkSize = 2
INIT Init
NEXT Next
INVARIANT Complete
INVARIANT Sound
INVARIANT ZeroZPassesTransitions
CHECK_DEADLOCK FALSE
