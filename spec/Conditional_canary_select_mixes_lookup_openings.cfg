CONSTANT Mutant = "select_mixes_lookup_openings"
INIT Init
NEXT Next
INVARIANT SelectedOnly
CHECK_DEADLOCK FALSE
