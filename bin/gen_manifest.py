#!/usr/bin/env python3
"""Regenerates MANIFEST.json from the table below (one source of truth for claims)."""
import json, os
ROOT = os.path.dirname(os.path.dirname(os.path.abspath(__file__)))
TRUST = "TLC 1.8 / Apalache 0.58 and the Json/IOUtils community modules; the Rust harness under /verif/harness (its reference arithmetic is itself validated by TLC); results hold for the explored scope only"
CHECKS = {}
for f in sorted(os.listdir(os.path.join(ROOT, "claims"))):
    if f.endswith(".json"):
        c = json.load(open(os.path.join(ROOT, "claims", f)))
        CHECKS[f[:-5]] = dict(cat=c["category"], tech=c["technique"], text=c["text"], ref=c.get("design_ref", "6"),
                              **({"note": c["level_note"]} if "level_note" in c else {}))
NA = {}
if os.path.exists(os.path.join(ROOT, "claims", "not_applicable.json")):
    NA = json.load(open(os.path.join(ROOT, "claims", "not_applicable.json")))
NA_REASON = "check not built yet in this snapshot; planned with the specification modules listed in DESIGN.md section 6"
props = [json.loads(l)["id"] for l in open(os.path.join(ROOT, "properties.jsonl"))]
checks = []
for p in props:
    if p not in CHECKS:
        continue
    c = CHECKS[p]
    checks.append({
        "property_id": p,
        "quick_cmd": "bin/vcheck %s --tier quick" % p,
        "thorough_cmd": "bin/vcheck %s --tier thorough" % p,
        "evidence_file": "evidence/%s.json" % p,
        "replay_cmd_template": "bin/vcheck %s --replay {path}" % p,
        "engine": "vcheck",
        "level_claimed": {"category": c["cat"], "text": c["text"], "design_ref": "DESIGN.md section " + c["ref"]},
        "level_note": c.get("note", TRUST),
        "technique": c["tech"],
    })
man = {
    "version": 1,
    "setup_cmd": "bin/setup",
    "hooks": {
        "guard": "plonky2_verif",
        "enable": "RUSTFLAGS='--cfg plonky2_verif --check-cfg cfg(plonky2_verif)' (set in harness/.cargo/config.toml; the harness depends on /repo by path, so every check rebuilds /repo's working tree with the hooks on)",
        "baseline_off_cmd": "cd /repo && cargo test --workspace --no-fail-fast --offline",
        "source_commits": [l.split()[0] for l in os.popen("git -C /repo log --format='%h %s' | grep -i 'verif hook'").read().splitlines()],
        "add_only": True,
    },
    "engines": [{"name": "vcheck", "path": "bin/vcheck", "serves_properties": [c["property_id"] for c in checks],
                 "kind_free_text": "python driver: TLC / Apalache runs of spec/*.tla, scenario replay and trace validation through the Rust harness harness/ (binary vh) built against /repo"}],
    "checks": checks,
    "not_applicable": [{"property_id": p, "reason": NA.get(p, NA_REASON)} for p in props if p not in CHECKS],
    "notes": "Specifications: spec/*.tla. DESIGN.md explains the two-tier specification, the verdict policy (VIOLATION only for property-level mismatches) and the bindings. known_findings.jsonl lists confirmed defects.",
}
json.dump(man, open(os.path.join(ROOT, "MANIFEST.json"), "w"), indent=1)
print("MANIFEST.json:", len(checks), "checks,", len(man["not_applicable"]), "not applicable")
