#!/bin/bash
# Zero-knowledge blinding schedule (spec/Blinding.tla): model check + trace validation of real circuits.
# Not a registered property check (zero knowledge is not one of the listed properties); exit 0 = the
# specification's transcription explains every real circuit and the standard zk config keeps Hides.
set -e
cd "$(dirname "$0")/.."
CP=/opt/veriftools/tla/tla2tools.jar:/opt/veriftools/tla/CommunityModules-deps.jar
mkdir -p out
(cd harness && cargo build --release --offline --bin blinding 2>&1 | tail -1)
harness/target/release/blinding ${1:---prove} > out/blinding.ndjson
harness/target/release/blinding --dense > out/blinding_dense.ndjson
cd spec
timeout 600 java -Xss1g -Xmx6g -cp $CP tlc2.TLC -workers 8 -metadir ../out/tlc-mcbl -cleanup -noGenerateSpecTE \
  -config MCBlinding_std.cfg MCBlinding.tla | tail -4
TRACE=../out/blinding.ndjson timeout 600 java -Xss1g -Xmx4g -cp $CP tlc2.TLC -workers 1 -metadir ../out/tlc-mcbt \
  -cleanup -noGenerateSpecTE -config BlindingTrace.cfg BlindingTrace.tla | grep -A8 BLINDING
# dense sweep: 820 builds whose gate counts cross every boundary of the fixed point at degrees 2^7..2^10
TRACE=../out/blinding_dense.ndjson timeout 600 java -Xss1g -Xmx4g -cp $CP tlc2.TLC -workers 1 -metadir ../out/tlc-mcbt \
  -cleanup -noGenerateSpecTE -config BlindingTrace.cfg BlindingTrace.tla > ../out/blinding_dense.log
grep -q 'Assumption.*is false' ../out/blinding_dense.log && { echo "dense trace rejected, see out/blinding_dense.log"; exit 1; }
grep -q 'No error has been found' ../out/blinding_dense.log || { echo "dense trace: TLC did not finish"; exit 2; }
echo "dense trace accepted"
# canaries: blinding that forgets the final polynomial / treats Z like a wire polynomial must violate Hides
for m in no_final_poly z_single; do
  timeout 300 java -Xss1g -Xmx4g -cp $CP tlc2.TLC -workers 4 -metadir ../out/tlc-mcbc -cleanup -noGenerateSpecTE \
    -config MCBlinding_canary_$m.cfg MCBlinding.tla | grep -q 'Invariant HidesInv is violated' \
    || { echo "canary $m not caught"; exit 2; }
done
# binding demonstration: one recorded degree changed by one must be rejected by the trace specification
python3 - <<'PY'
import json
rows = [json.loads(l) for l in open('../out/blinding.ndjson')]
rows[len(rows) // 2]['deg_bits'] += 1
open('../out/blinding_corrupt.ndjson', 'w').write(''.join(json.dumps(r) + '\n' for r in rows))
PY
if TRACE=../out/blinding_corrupt.ndjson timeout 600 java -Xss1g -Xmx4g -cp $CP tlc2.TLC -workers 1 -metadir ../out/tlc-mcbt \
  -cleanup -noGenerateSpecTE -config BlindingTrace.cfg BlindingTrace.tla | grep -q 'Assumption.*is false'; then
  echo "corrupted trace rejected (binding demonstrated)"
else
  echo "corrupted trace NOT rejected"; exit 2
fi
echo "blinding_check: ok"
