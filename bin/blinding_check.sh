#!/bin/bash
# Zero-knowledge blinding schedule (spec/Blinding.tla): model check + trace validation of real circuits.
# Not a registered property check (zero knowledge is not one of the listed properties); exit 0 = the
# specification's transcription explains every real circuit and the standard zk config keeps Hides.
set -e
cd "$(dirname "$0")/.."
CP=/opt/veriftools/tla/tla2tools.jar:/opt/veriftools/tla/CommunityModules-deps.jar
mkdir -p out
(cd harness && cargo build --release --offline --bin blinding 2>&1 | tail -1)
harness/target/release/blinding ${1:---prove} > out/blinding.ndjson
cd spec
timeout 600 java -Xss1g -Xmx6g -cp $CP tlc2.TLC -workers 8 -metadir ../out/tlc-mcbl -cleanup -noGenerateSpecTE \
  -config MCBlinding_std.cfg MCBlinding.tla | tail -4
TRACE=../out/blinding.ndjson timeout 600 java -Xss1g -Xmx4g -cp $CP tlc2.TLC -workers 1 -metadir ../out/tlc-mcbt \
  -cleanup -noGenerateSpecTE -config BlindingTrace.cfg BlindingTrace.tla | grep -A8 BLINDING
