#!/usr/bin/env python3
"""Prints the markdown table of seeded changes (seeded/<id>/meta.json + detection.json) for DESIGN.md section 11.5."""
import json, os
ROOT = os.path.dirname(os.path.dirname(os.path.abspath(__file__)))
S = os.path.join(ROOT, "seeded")
print("| id | breaks | change | needs | caught by (quick tier) |")
print("|---|---|---|---|---|")
for sid in sorted(os.listdir(S)):
    d = os.path.join(S, sid)
    if not os.path.exists(os.path.join(d, "meta.json")):
        continue
    m = json.load(open(os.path.join(d, "meta.json")))
    det = None
    if os.path.exists(os.path.join(d, "detection.json")):
        det = json.load(open(os.path.join(d, "detection.json")))
    if m.get("obsolete"):
        caught = "not evaluated: " + m["obsolete"]
    elif det is None:
        caught = "(not evaluated yet)"
    else:
        parts = []
        for p, r in det["results"].items():
            if r["exit"] == 1:
                keys = sorted({l.split("|")[0].replace("detail:", "").strip() for l in r["violation_lines"] if "detail:" in l})
                parts.append("**%s** (%s)" % (p, "; ".join(k[:70] for k in keys[:2])))
            else:
                parts.append("%s: MISSED (exit %d)" % (p, r["exit"]))
        caught = ", ".join(parts)
        if m.get("history"):
            caught += " — " + m["history"]
    print("| %s | %s | %s | %s | %s |" % (sid, m["property"], m["what"].replace("|", "/"), m["needs"].replace("|", "/")[:260], caught))
