#!/bin/sh
# confirm_batch.sh <worktree>: (a) clean tree: all demos pass; (b) all patches applied: whole suite passes, all demos fail.
# out/<id>/{patch.diff, DEST, PKG, [PROFILE]}; release-profile demos get an extra --release pass (clean and patched).
W=$1; cd $W; git checkout -q -- .; LOG=$W/out/confirm.log; : > $LOG
TESTS=""; RTESTS=""; PKGS=""
for d in out/*/; do [ -f $d/DEST ] || continue; dest=$(cat $d/DEST); mkdir -p $(dirname $dest); cp $d/$(basename $dest) $dest
  t="--test $(basename $dest .rs)"; p="-p $(cat $d/PKG)"; case "$PKGS" in *"$p"*) ;; *) PKGS="$PKGS $p";; esac
  if [ "$(cat $d/PROFILE 2>/dev/null)" = "release" ]; then RTESTS="$RTESTS $t"; else TESTS="$TESTS $t"; fi; done
echo "demos dev: $TESTS | release: $RTESTS | pkgs: $PKGS" >> $LOG
[ -n "$TESTS" ] && { RAYON_NUM_THREADS=8 timeout 10000 cargo test $PKGS --offline --no-fail-fast $TESTS > out/demos_clean.log 2>&1; echo "clean dev demos rc=$?" >> $LOG; grep -E "^test result|Running" out/demos_clean.log >> $LOG; }
[ -n "$RTESTS" ] && { RAYON_NUM_THREADS=8 timeout 10000 cargo test --release $PKGS --offline --no-fail-fast $RTESTS > out/demos_clean_rel.log 2>&1; echo "clean release demos rc=$?" >> $LOG; grep -E "^test result|Running" out/demos_clean_rel.log >> $LOG; }
for d in out/*/; do [ -f $d/patch.diff ] && (git apply --whitespace=nowarn $d/patch.diff || echo "apply $d failed" >> $LOG); done
[ -n "$RTESTS" ] && { RAYON_NUM_THREADS=8 timeout 10000 cargo test --release $PKGS --offline --no-fail-fast $RTESTS > out/demos_patched_rel.log 2>&1; echo "patched release demos rc=$?" >> $LOG; grep -E "^test result|Running|FAILED" out/demos_patched_rel.log | head -30 >> $LOG; }
RAYON_NUM_THREADS=8 timeout 20000 cargo test --workspace --no-fail-fast --offline > out/suite_patched.log 2>&1; echo "patched suite+demos rc=$?" >> $LOG
grep -E "^test result|Running|FAILED|failed" out/suite_patched.log | head -100 >> $LOG
git checkout -q -- .
for d in out/*/; do [ -f $d/DEST ] && rm -f $(cat $d/DEST); done
echo done >> $LOG
