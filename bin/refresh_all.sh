#!/bin/sh
# Runs every claimed check's quick command once against /repo (three lanes in parallel); evidence/Cxx.json is rewritten.
cd "$(dirname "$0")/.."
: > out/refresh.log
lane() {
  for c in "$@"; do
    t0=$(date +%s)
    bin/vcheck $c --tier quick > out/refresh_$c.log 2>&1; rc=$?
    echo "$c rc=$rc wall=$(( $(date +%s) - t0 ))s $(grep -c '^VIOLATION' out/refresh_$c.log) violations $(grep -c '^KNOWN-FINDING' out/refresh_$c.log) known" >> out/refresh.log
  done
}
lane C01 C03 C09 C17 C20 C04 C13 &
lane C15 C05 C16 C08 C11 C07 C14 &
lane C18 C19 C02 C12 C06 C10 &
wait
echo done >> out/refresh.log
