#!/bin/sh
# Runs every claimed check's quick command once, in sequence, against /repo; evidence/Cxx.json is rewritten.
cd "$(dirname "$0")/.."
: > out/refresh.log
for c in $(ls claims | grep -E '^C[0-9]+\.json$' | sed 's/\.json//'); do
  t0=$(date +%s)
  bin/vcheck $c --tier quick > out/refresh_$c.log 2>&1; rc=$?
  echo "$c rc=$rc wall=$(( $(date +%s) - t0 ))s $(grep -c '^VIOLATION' out/refresh_$c.log) violations $(grep -c '^KNOWN-FINDING' out/refresh_$c.log) known" >> out/refresh.log
done
echo done >> out/refresh.log
