#!/usr/bin/env python3
"""eval_seeded.py [id ...] [--tier quick|thorough] [--checks C01,C02]
For each seeded change under /verif/seeded/<id>/ (patch.diff + meta.json): apply it to /repo's working
tree (git apply), run the quick command of the property it breaks (plus any --checks), record exit
code and VIOLATION lines in seeded/<id>/detection.json, and ALWAYS restore /repo (git checkout -- .).
Nothing is ever committed to /repo.  Run only while no other process builds against /repo."""
import json
import os
import subprocess
import sys
import time

ROOT = os.path.dirname(os.path.dirname(os.path.abspath(__file__)))
# /repo by default; a scratch worktree of /repo when evaluating from a scratch copy of /verif whose harness
# points at that worktree (keeps /repo untouched while other builds use it)
REPO = os.environ.get("SEEDED_REPO", "/repo")
SEEDED = os.path.join(ROOT, "seeded")


def sh(cmd, **kw):
    return subprocess.run(cmd, shell=True, text=True, stdout=subprocess.PIPE, stderr=subprocess.STDOUT, **kw)


def main():
    args = sys.argv[1:]
    tier = "quick"
    extra = []
    ids = []
    i = 0
    while i < len(args):
        if args[i] == "--tier":
            tier = args[i + 1]; i += 2
        elif args[i] == "--checks":
            extra = args[i + 1].split(","); i += 2
        else:
            ids.append(args[i]); i += 1
    if not ids:
        ids = sorted(d for d in os.listdir(SEEDED) if os.path.isdir(os.path.join(SEEDED, d)))
    st = sh("git -C %s status --porcelain --untracked-files=no" % REPO).stdout.strip()
    if st:
        print("refusing: %s has local modifications:\n" % REPO + st)
        return 2
    summary = []
    for sid in ids:
        d = os.path.join(SEEDED, sid)
        meta = json.load(open(os.path.join(d, "meta.json")))
        props = [meta["property"]] + [c for c in extra if c != meta["property"]]
        ap = sh("git -C %s apply --whitespace=nowarn %s" % (REPO, os.path.join(d, "patch.diff")))
        if ap.returncode != 0:
            print(sid, "patch does not apply:", ap.stdout[-500:])
            summary.append((sid, "patch-failed", []))
            continue
        res = {}
        try:
            for p in props:
                t0 = time.time()
                r = sh("cd %s && bin/vcheck %s --tier %s" % (ROOT, p, tier), timeout=7200)
                viol = [l for l in r.stdout.splitlines() if l.startswith("VIOLATION") or l.startswith("  detail:")]
                res[p] = {"exit": r.returncode, "wall_s": round(time.time() - t0, 1), "violation_lines": viol[:12],
                          "tail": r.stdout.splitlines()[-6:]}
                print(sid, p, "exit", r.returncode, "violations", sum(1 for l in viol if l.startswith("VIOLATION")), flush=True)
        finally:
            sh("git -C %s checkout -- ." % REPO)
        det = {"id": sid, "tier": tier, "results": res, "detected_by": [p for p, v in res.items() if v["exit"] == 1],
               "repo": REPO, "repo_head": sh("git -C %s rev-parse --short HEAD" % REPO).stdout.strip(), "when": time.strftime("%Y-%m-%d %H:%M")}
        json.dump(det, open(os.path.join(d, "detection.json"), "w"), indent=1)
        summary.append((sid, "detected" if det["detected_by"] else "MISSED", det["detected_by"]))
    print("\n== summary")
    for s in summary:
        print("%-14s %-10s %s" % s)
    return 0


if __name__ == "__main__":
    sys.exit(main())
