"""Shared machinery of /verif/bin/vcheck: TLC / Apalache runners, harness build and
invocation, findings filter, evidence writer.  Exit codes: 0 held, 1 violation, 2 tool error."""
import fcntl
import json
import os
import re
import shutil
import subprocess
import sys
import time

ROOT = os.path.dirname(os.path.dirname(os.path.dirname(os.path.abspath(__file__))))
SPEC = os.path.join(ROOT, "spec")
OUT = os.path.join(ROOT, "out")
HARNESS = os.path.join(ROOT, "harness")
EVID = os.path.join(ROOT, "evidence")
REPO = os.environ.get("VERIF_REPO", "/repo")
TLA_CP = "/opt/veriftools/tla/tla2tools.jar:/opt/veriftools/tla/CommunityModules-deps.jar"


class ToolError(Exception):
    pass


def seed():
    try:
        return int(os.environ.get("VERIF_SEED", "1"))
    except ValueError:
        return 1


def tier_default():
    t = os.environ.get("VERIF_TIER", "quick")
    return t if t in ("quick", "thorough") else "quick"


def log(*a):
    print(*a, flush=True)


# --------------------------------------------------------------------------------------
# TLC
# --------------------------------------------------------------------------------------
_STATES_RE = re.compile(r"(\d+) states generated, (\d+) distinct states found")


class TlcResult:
    def __init__(self):
        self.generated = 0
        self.distinct = 0
        self.ok = False            # finished without error
        self.violated = None       # name of violated invariant/property/assumption
        self.prints = []           # decoded PrintT string payloads
        self.raw = ""
        self.wall = 0.0
        self.rc = None
        self.cmd = ""


def tlc(module, cfg=None, workers=8, timeout=600, env=None, simulate=None, depth=None,
        heap="4g", deque=False, extra=None, tag=None, coverage=False):
    """Run TLC on spec/<module>.tla with spec/<cfg>.cfg.  PrintT("TAG " \\o json) lines are
    collected into .prints.  A safety violation is returned (violated != None), not raised;
    anything else that is not a clean finish raises ToolError."""
    os.makedirs(OUT, exist_ok=True)
    cfg = cfg or module
    meta = os.path.join(OUT, "tlc-" + (tag or cfg) + "-%d" % os.getpid())
    shutil.rmtree(meta, ignore_errors=True)
    cmd = ["java", "-Xss1g", "-Xmx" + heap, "-XX:+UseParallelGC"]
    if deque:
        cmd.append("-Dtlc2.tool.queue.IStateQueue=StateDeque")
    cmd += ["-cp", TLA_CP, "tlc2.TLC", "-workers", str(workers), "-metadir", meta,
            "-cleanup", "-noGenerateSpecTE", "-config", cfg + ".cfg"]
    if coverage:
        cmd += ["-coverage", "1"]
    if simulate is not None:
        cmd += ["-simulate", "num=%d" % simulate, "-seed", str(seed())]
        if depth:
            cmd += ["-depth", str(depth)]
    if extra:
        cmd += extra
    cmd.append(module + ".tla")
    e = dict(os.environ)
    if env:
        e.update({k: str(v) for k, v in env.items()})
    t0 = time.time()
    r = TlcResult()
    r.cmd = " ".join(cmd)
    try:
        p = subprocess.run(cmd, cwd=SPEC, env=e, stdout=subprocess.PIPE, stderr=subprocess.STDOUT,
                           timeout=timeout, text=True, errors="replace")
    except subprocess.TimeoutExpired as ex:
        shutil.rmtree(meta, ignore_errors=True)
        raise ToolError("TLC timeout after %ds: %s" % (timeout, r.cmd)) from ex
    finally:
        pass
    shutil.rmtree(meta, ignore_errors=True)
    r.wall = time.time() - t0
    r.raw = p.stdout
    r.rc = p.returncode
    for line in p.stdout.splitlines():
        m = _STATES_RE.search(line)
        if m:
            r.generated = int(m.group(1))
            r.distinct = int(m.group(2))
        if line.startswith('"') and line.endswith('"'):
            try:
                s = json.loads(line)
            except Exception:
                continue
            r.prints.append(s)
        m = re.search(r"Invariant (\S+) is violated", line)
        if m:
            r.violated = m.group(1)
        m = re.search(r"Action property (\S+) is violated", line)
        if m:
            r.violated = m.group(1)
        if "Temporal properties were violated" in line:
            r.violated = r.violated or "temporal"
        m = re.search(r"Assumption line (\d+).* is false", line)
        if m:
            r.violated = "ASSUME@" + m.group(1)
        if "The postcondition has failed" in line or "POSTCONDITION" in line and "violated" in line:
            r.violated = r.violated or "postcondition"
        if "Deadlock reached" in line:
            r.violated = r.violated or "deadlock"
    if simulate is not None and r.generated == 0:
        m = re.search(r"The number of states generated: (\d+)", p.stdout)
        if m:
            r.generated = int(m.group(1))
            r.distinct = r.generated
    finished = ("Model checking completed. No error has been found." in p.stdout
                or (simulate is not None and p.returncode == 0))
    r.ok = finished and r.violated is None
    if not r.ok and r.violated is None:
        tail = "\n".join(p.stdout.splitlines()[-40:])
        raise ToolError("TLC failed (rc=%s) on %s/%s:\n%s" % (p.returncode, module, cfg, tail))
    return r


def tagged(prints, tag):
    """JSON payloads of PrintT lines of the form "<tag> <json>"."""
    out = []
    pre = tag + " "
    for s in prints:
        if isinstance(s, str) and s.startswith(pre):
            out.append(json.loads(s[len(pre):]))
    return out


def apalache(module, inv, length=0, cinit=None, init=None, timeout=600, extra=None):
    """apalache-mc check; returns (ok, counterexample_text_or_None, wall)."""
    outdir = os.path.join(OUT, "apalache-%s-%s-%d" % (module, inv, os.getpid()))
    shutil.rmtree(outdir, ignore_errors=True)
    cmd = ["apalache-mc", "check", "--out-dir=" + outdir, "--inv=" + inv, "--length=%d" % length]
    if cinit:
        cmd.append("--cinit=" + cinit)
    if init:
        cmd.append("--init=" + init)
    if extra:
        cmd += extra
    cmd.append(module + ".tla")
    t0 = time.time()
    try:
        p = subprocess.run(cmd, cwd=SPEC, stdout=subprocess.PIPE, stderr=subprocess.STDOUT,
                           timeout=timeout, text=True, errors="replace")
    except subprocess.TimeoutExpired as ex:
        shutil.rmtree(outdir, ignore_errors=True)
        raise ToolError("apalache timeout: " + " ".join(cmd)) from ex
    wall = time.time() - t0
    out = p.stdout
    if "The outcome is: NoError" in out:
        shutil.rmtree(outdir, ignore_errors=True)
        return True, None, wall
    if "The outcome is: Error" in out or "Found a violation" in out or "violation" in out.lower():
        cex = None
        for dp, _, fs in os.walk(outdir):
            for f in fs:
                if f == "violation1.tla" or f == "violation.tla":
                    cex = open(os.path.join(dp, f)).read()
        shutil.rmtree(outdir, ignore_errors=True)
        if cex is not None:
            return False, cex, wall
    shutil.rmtree(outdir, ignore_errors=True)
    raise ToolError("apalache failed: %s\n%s" % (" ".join(cmd), "\n".join(out.splitlines()[-30:])))


# --------------------------------------------------------------------------------------
# harness
# --------------------------------------------------------------------------------------
_built = {}


def build_harness(flavour="release", binname="c14"):
    """cargo build of the harness against /repo's working tree (hooks on).  flavour selects a
    target dir + flags; serialised by a file lock."""
    if (flavour, binname) in _built:
        return _built[(flavour, binname)]
    os.makedirs(OUT, exist_ok=True)
    lock = open(os.path.join(OUT, ".build.lock"), "w")
    fcntl.flock(lock, fcntl.LOCK_EX)
    try:
        env = dict(os.environ)
        env["CARGO_NET_OFFLINE"] = "true"
        tdir = "target"
        rustflags = None
        if flavour == "avx2":
            tdir = "target-avx2"
            rustflags = "--cfg plonky2_verif --check-cfg cfg(plonky2_verif) -C target-feature=+avx2"
        elif flavour == "avx512":
            tdir = "target-avx512"
            rustflags = ("--cfg plonky2_verif --check-cfg cfg(plonky2_verif) -C target-feature="
                         "+avx2,+avx512f,+avx512bw,+avx512cd,+avx512dq,+avx512vl")
        elif flavour == "seed2":
            tdir = "target-seed2"
            env["CONST_RANDOM_SEED"] = "987654321"
        elif flavour != "release":
            raise ToolError("unknown flavour " + flavour)
        if rustflags:
            env["RUSTFLAGS"] = rustflags
        cmd = ["cargo", "build", "--release", "--offline", "--target-dir", tdir, "--bin", binname]
        t0 = time.time()
        p = subprocess.run(cmd, cwd=HARNESS, env=env, stdout=subprocess.PIPE,
                           stderr=subprocess.STDOUT, text=True, errors="replace")
        if p.returncode != 0:
            raise ToolError("harness build failed (%s):\n%s" % (flavour, "\n".join(p.stdout.splitlines()[-60:])))
        binp = os.path.join(HARNESS, tdir, "release", binname)
        _built[(flavour, binname)] = binp
        log("[build] harness %s/%s built in %.1fs" % (binname, flavour, time.time() - t0))
        return binp
    finally:
        fcntl.flock(lock, fcntl.LOCK_UN)
        lock.close()


def vh(args, flavour="release", timeout=1800, env=None, stdin=None, check=True, binname="c14"):
    """Run harness binary `binname` (harness/src/bin/<binname>.rs); returns the list of JSON result
    lines (stdout lines starting with '{')."""
    binp = build_harness(flavour, binname)
    e = dict(os.environ)
    e["VERIF_SEED"] = str(seed())
    if env:
        e.update({k: str(v) for k, v in env.items()})
    def _limit():
        # safety net: a runaway scenario must end as a tool error, not exhaust the machine
        import resource
        cap = int(os.environ.get("VERIF_MEM_GB", "12")) << 30
        resource.setrlimit(resource.RLIMIT_AS, (cap, cap))

    try:
        p = subprocess.run([binp] + [str(a) for a in args], cwd=ROOT, env=e, input=stdin,
                           stdout=subprocess.PIPE, stderr=subprocess.PIPE, timeout=timeout,
                           text=True, errors="replace", preexec_fn=_limit)
    except subprocess.TimeoutExpired as ex:
        raise ToolError("harness timeout: vh " + " ".join(map(str, args))) from ex
    if check and p.returncode != 0:
        raise ToolError("harness failed rc=%d: vh %s\n%s\n%s" % (
            p.returncode, " ".join(map(str, args)), "\n".join(p.stdout.splitlines()[-15:]),
            "\n".join(p.stderr.splitlines()[-30:])))
    res = []
    for line in p.stdout.splitlines():
        if line.startswith("{"):
            try:
                res.append(json.loads(line))
            except Exception:
                pass
    return res


# --------------------------------------------------------------------------------------
# findings, verdicts, evidence
# --------------------------------------------------------------------------------------
def load_findings():
    path = os.path.join(ROOT, "known_findings.jsonl")
    out = []
    if os.path.exists(path):
        for line in open(path):
            line = line.strip()
            if line and not line.startswith("#"):
                out.append(json.loads(line))
    return out


class Check:
    """Collects what one property check covered, and its verdicts."""

    def __init__(self, prop, tier, level="model_checking"):
        self.prop = prop
        self.tier = tier
        self.level = level
        self.t0 = time.time()
        self.states = 0
        self.transitions = 0
        self.traces = 0
        self.evaluations = 0
        self.nontrivial = 0
        self.samples = []
        self.violations = []      # (key, detail, replay)
        self.known_seen = []
        self.drift = []
        self.canaries = {}
        self.tlc_runs = []
        self.extra = {}
        self.rule = ""
        self.assumptions = []
        self.exhaustive = None
        self.findings = [f for f in load_findings() if f.get("property") == prop and f.get("status") == "known"]
        self._replay_n = 0

    # ---- accounting
    def add_tlc(self, name, r, exhaustive=True):
        self.states += r.distinct
        self.transitions += r.generated
        self.tlc_runs.append({"name": name, "distinct": r.distinct, "generated": r.generated,
                              "wall_s": round(r.wall, 2), "exhaustive": exhaustive})
        log("[tlc] %s: %d generated, %d distinct, %.1fs" % (name, r.generated, r.distinct, r.wall))

    def sample(self, s, cap=6):
        if len(self.samples) < cap:
            self.samples.append(s)

    def canary(self, name, passed):
        self.canaries[name] = bool(passed)
        if not passed:
            raise ToolError("canary %s failed for %s: the machinery lost its ability to detect" % (name, self.prop))

    # ---- verdicts
    def replay_path(self, payload):
        d = os.path.join(OUT, "replays")
        os.makedirs(d, exist_ok=True)
        self._replay_n += 1
        path = os.path.join(d, "%s-%d.json" % (self.prop, self._replay_n))
        payload = dict(payload)
        payload.setdefault("property", self.prop)
        payload.setdefault("seed", seed())
        with open(path, "w") as f:
            json.dump(payload, f, indent=1)
        return path

    def violation(self, key, detail, payload=None):
        """key: stable identifier of the specific failing input / call site (matched against
        known_findings.jsonl by prefix)."""
        for f in self.findings:
            if key == f["key"] or key.startswith(f["key"] + "/"):
                if f["key"] not in self.known_seen:
                    self.known_seen.append(f["key"])
                    log("KNOWN-FINDING: property=%s %s" % (self.prop, f.get("what", f["key"])))
                return
        path = self.replay_path(dict(payload or {}, key=key, detail=detail))
        self.violations.append((key, detail, path))
        if len(self.violations) <= 20:
            log("VIOLATION property=%s replay=%s" % (self.prop, path))
            log("  detail: %s | %s" % (key, str(detail)[:400]))

    def note_drift(self, what):
        if len(self.drift) < 50:
            self.drift.append(what)
        log("DRIFT property=%s %s" % (self.prop, str(what)[:300]))

    # ---- evidence
    def finish(self):
        os.makedirs(EVID, exist_ok=True)
        cov = {
            "states": int(self.states),
            "transitions": int(self.transitions),
            "traces_validated_against_impl": int(self.traces),
            "samples": self.samples if self.samples else ["(no sample recorded)"],
            "evaluations": int(self.evaluations),
            "distinct_nontrivial": int(self.nontrivial),
            "rule": self.rule,
            "tlc_runs": self.tlc_runs,
            "canaries": self.canaries,
            "drift": self.drift,
            "known_findings_seen": self.known_seen,
        }
        if self.exhaustive is not None:
            cov["exhaustive"] = bool(self.exhaustive)
        cov.update(self.extra)
        ev = {
            "property_id": self.prop,
            "tier": self.tier,
            "seed": seed(),
            "level": self.level,
            "coverage": cov,
            "assumptions": self.assumptions,
            "wall_s": round(time.time() - self.t0, 2),
            "violations": len(self.violations),
        }
        with open(os.path.join(EVID, self.prop + ".json"), "w") as f:
            json.dump(ev, f, indent=1, sort_keys=True)
            f.write("\n")
        log("[%s] tier=%s states=%d transitions=%d traces=%d evaluations=%d nontrivial=%d violations=%d wall=%.1fs" % (
            self.prop, self.tier, self.states, self.transitions, self.traces, self.evaluations,
            self.nontrivial, len(self.violations), time.time() - self.t0))
        return 1 if self.violations else 0


def write_ndjson(path, rows):
    os.makedirs(os.path.dirname(path), exist_ok=True)
    with open(path, "w") as f:
        for r in rows:
            f.write(json.dumps(r, separators=(",", ":")))
            f.write("\n")


def read_ndjson(path):
    out = []
    with open(path) as f:
        for line in f:
            line = line.strip()
            if line:
                out.append(json.loads(line))
    return out
