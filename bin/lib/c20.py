"""C20 — conditional and cyclic recursion enforce exactly the selected verification.
A: TLC checks spec/Conditional.tla (all 48 x 48 pairs x 2 conditions over circuits A, B and the dummy
   circuit D: element-wise select then one verification accepts iff the chosen pair is valid,
   irrespective of the other; mutants: verifier data not selected, one proof element not selected) and
   spec/Cyclic.tla (all histories over StepBase, StepRec, TamperDigest, TamperCap, Foreign up to the
   bound: every proof a step yields verifies, carries the own verifier data and the right counter;
   the verifier-data check rejects exactly the altered ones; a step never extends a foreign or
   altered proof; mutants: check compares the digest only, inner proof verified under the data it
   carries).  Both print their scenarios (REPLAY lines).
B: (1) conditional circuits for TLC-enumerated inner programs x configurations, two circuits with
   the same common data plus `dummy_circuit`; the combinations are assigned and judged by witness
   generation + satisfaction oracle against the native verdict of the selected pair; (2)
   `dummy_circuit` / `dummy_proof` for every inner shape and several public-input maps; (3) a
   counter-style cyclic circuit executes the histories (shared prefixes), with a second cyclic
   circuit of the same common data as the source of foreign proofs."""
import json
import os
import random
import re
import threading
from concurrent.futures import ThreadPoolExecutor

import common
import c01
from common import ToolError, log

LEVEL = "model_checking"
BIN = "c20"

STD = {"zk": False, "strat": "const", "arities": [4, 5], "rate": 3, "cap": 4, "nch": 2, "width": "std", "q": 28, "pow": 16, "keccak": False}


def tlc_ok(chk, module, cfg, name, workers=2, timeout=900):
    r = common.tlc(module, cfg=cfg, workers=workers, timeout=timeout, tag=cfg)
    if not r.ok:
        raise ToolError("spec %s violates %s under %s" % (module, r.violated, cfg))
    chk.add_tlc(name, r)
    return r


def vh(cmd, rows, name, extra=None):
    fp = os.path.join(common.OUT, "%s.ndjson" % name)
    common.write_ndjson(fp, rows)
    return common.vh([cmd, "--in", fp] + (extra or []), binname=BIN, timeout=3400, env={"RAYON_NUM_THREADS": "3"})


def pick_combos(lines, rnd, per_stratum, lk=False, owners=("A", "B", "D")):
    strata = {}
    for l in lines:
        if l["lk"] != lk or l["p0"]["owner"] not in owners or l["p1"]["owner"] not in owners:
            continue
        strata.setdefault((l["kind0"], l["kind1"], l["cond"]), []).append(l)
    out = []
    for k in sorted(strata, key=str):
        xs = sorted(strata[k], key=lambda l: json.dumps(l, sort_keys=True))
        rnd.shuffle(xs)
        out += xs[:per_stratum]
    # combinations with exactly one valid pair first (the in-run binding self-test repeats the first ones)
    out.sort(key=lambda l: 0 if (l["kind0"] == "valid") != (l["kind1"] == "valid") else 1)
    return out


def pick_histories(hs, rnd, n):
    """greedy cover of (previous action, action, step outcome), preferring shared prefixes"""
    hs = sorted(hs, key=lambda h: json.dumps(h, sort_keys=True))
    rnd.shuffle(hs)
    feats = lambda h: {(h[i - 1]["act"] if i else "-", h[i]["act"], h[i]["expect"]["step"], h[i]["expect"]["counter"]) for i in range(len(h))}
    chosen, covered = [], set()
    while len(chosen) < n and hs:
        best = max(hs, key=lambda h: len(feats(h) - covered))
        if not feats(best) - covered and len(chosen) >= 6:
            best = hs[0]                     # everything covered: fill up with (seeded) random histories
        chosen.append(best)
        covered |= feats(best)
        hs.remove(best)
    return chosen


def judge_cond(res, report, selftest=False):
    st = {"cases": 0, "accept": 0, "reject": 0, "combos": set(), "outer": 0, "shapes": 0, "unavailable": 0, "skipped": {}}
    shape = {}
    for x in res:
        if "skipped" in x:
            st["skipped"][x["skipped"][:40]] = st["skipped"].get(x["skipped"][:40], 0) + 1
            continue
        if "shape" in x:
            shape[x["id"]] = x["shape"]
            st["shapes"] += 1
            if x["shape"].get("or_dummy_only"):
                st["shapes"] -= 1
            if x.get("lookup_openings", {}).get("lookups") and not selftest:
                st["shapes"] -= 1
                st.setdefault("lookup_shapes", {})[x["id"]] = dict(x["lookup_openings"], accepted_cond_true=0, accepted_cond_false=0, rejected=0)
            if x.get("or_dummy") and not selftest:
                why = (x["or_dummy"].get("panic") or x["or_dummy"].get("err") or "")[:160]
                st.setdefault("or_dummy_builds", []).append({"inner_cap_height": x["inner_cap_height"], "built": x["or_dummy"]["built"], "why": why})
                if not x["or_dummy"]["built"]:
                    report("violation", "C20/or-dummy/inner-cap-%d" % x["inner_cap_height"],
                           "conditionally_verify_proof_or_dummy cannot be built for an inner circuit of cap height %d under the standard outer configuration: %s" % (x["inner_cap_height"], why),
                           {"kind": "or_dummy", "shape_id": x["id"], "observed": x, "expected": "the circuit builds and accepts iff (condition ? the given pair is valid : true)"})
            continue
        if "or_dummy_case" in x:
            if selftest or not x["assignable"]:
                continue
            st["or_dummy_cases"] = st.get("or_dummy_cases", 0) + 1
            want = x["native_given"] if x["cond"] else True      # condition false: the dummy pair is verified instead
            if x["circuit"] != want:
                report("violation", "C20/or-dummy/inner-cap-%d/%s/cond%d" % (x["inner_cap_height"], x["or_dummy_case"], x["cond"]),
                       "conditionally_verify_proof_or_dummy %s although the selected pair is %s" % ("accepts" if x["circuit"] else "rejects", "valid" if want else "invalid"),
                       {"kind": "or_dummy", "shape_id": x["id"], "observed": x, "expected": {"accept": want}})
            continue
        if x.get("unavailable"):
            st["unavailable"] += 1
            continue
        if "combo" not in x or bool(x.get("selftest")) != selftest:
            continue
        st["cases"] += 1
        payload = {"kind": "conditional", "shape_id": x["id"], "shape": shape.get(x["id"]), "expected": {"spec": x["expect"], "rule": "accept iff the selected (proof, verifier data) is natively valid"},
                   "observed": x}
        valid0 = x["native_selected"]
        key = "%s-%s/%s/%s" % (x["p0"]["owner"], x["p1"]["owner"], "cond1" if x["cond"] else "cond0", "sel-valid" if valid0 else "sel-invalid")
        if not x["assignable"]:
            continue
        if x["circuit"] != valid0:
            report("violation", "C20/conditional/%s" % key,
                   "the conditional circuit %s although the selected pair is natively %s (other pair valid: %s)" % (
                       "accepts" if x["circuit"] else "rejects", "valid" if valid0 else "invalid", x["native_other"]), payload)
        else:
            ls = st.get("lookup_shapes", {}).get(x["id"])
            if ls is not None:
                if valid0 and x["p0"]["bad"] == 0 and x["p1"]["bad"] == 0:
                    ls["accepted_cond_true" if x["cond"] else "accepted_cond_false"] += 1
                elif valid0:
                    ls["accepted_cond_true" if x["cond"] else "accepted_cond_false"] += 0
                else:
                    ls["rejected"] += 1
            st["accept" if valid0 else "reject"] += 1
            st["combos"].add((x["id"], json.dumps([x["p0"], x["p1"], x["cond"]], sort_keys=True)))
        if (x["expect"] == "accept") != valid0 and shape.get(x["id"], {}).get("binding_bits", 0) >= 50:
            report("drift", "conditional-model-vs-native", "the model's validity of the selected pair differs from the native verdict: %s" % x["native_detail"], payload)
        o = x.get("outer")
        if o:
            st["outer"] += 1
            if not (o["proved"] and o["verified"] and o["pis_match"]):
                report("violation", "C20/conditional/outer-proof", "an accepted assignment did not yield a verifying outer proof carrying the selected public inputs: %s" % json.dumps(o), payload)
    return st


def judge_dummy(res, report):
    st = {"shapes": 0, "dummy_circuits": 0, "refused": {}, "proofs": 0, "skipped": 0}
    shape = {}
    for x in res:
        if "skipped" in x:
            st["skipped"] += 1
            continue
        if "shape" in x:
            st["shapes"] += 1
            shape[x["id"]] = x["shape"]
            if x["dummy_circuit"]:
                st["dummy_circuits"] += 1
                if not x["same_common"]:
                    report("drift", "dummy-common", "dummy_circuit returned a circuit with other common data", {"kind": "dummy", "observed": x})
            else:
                k = "lookups" if x["shape"]["lookups"] else re.sub(r"\d+", "#", x["panic"])[:60]
                st["refused"][k] = st["refused"].get(k, 0) + 1
            continue
        if "variant" in x:
            st["proofs"] += 1
            if not (x["proved"] and x["verified"] and x.get("pis_ok")):
                report("violation", "C20/dummy-invalid/variant%d" % x["variant"], "a dummy proof is not valid for its dummy circuit: %s" % x["detail"],
                       {"kind": "dummy", "shape_id": x["id"], "shape": shape.get(x["id"]), "observed": x, "expected": "dummy_proof verifies under its dummy circuit with the requested public inputs"})
    return st


def judge_cyclic(res, report):
    st = {"steps": 0, "step_ok": 0, "step_rejected": 0, "histories": set(), "matched": 0, "proofs_made": 0, "altered_checked": 0, "max_chain": 0, "rejected_after": set()}
    foreign_now = {}
    last_act = {}
    for x in res:
        if "skipped" in x:
            raise ToolError("cyclic harness: %s" % x["skipped"])
        if "proofs_made" in x:
            st["proofs_made"] += x["proofs_made"]
            continue
        if "badlink" in x:
            comp = x["badlink"]["component"]
            pos = (comp, x["badlink"].get("entry", 0), x["badlink"].get("elt", 0))
            if not x["link_made"]:
                raise ToolError("a base-case proof with one altered verifier-data component could not be made: %s" % json.dumps(x)[:300])
            lo = x["link_obs"]
            payload = {"kind": "cyclic-badlink", "badlink": x["badlink"], "observed": x,
                       "expected": "the link verifies as a plain proof, check_cyclic_proof_verifier_data rejects it, and no verifying + checked proof extends it"}
            st["steps"] += 2
            if not lo["verify"] or lo["embedded_own"]:
                report("drift", "bad-link-not-as-modelled", "the base-case proof with altered %s: verify=%s embedded_own=%s" % (comp, lo["verify"], lo["embedded_own"]), payload)
            if lo["check_vd"]:
                report("violation", "C20/cyclic/check_vd-accepts-altered/bad-link/%s" % comp,
                       "check_cyclic_proof_verifier_data accepts a proof whose embedded %s differs" % comp, payload)
            if x["extend_outcome"] == "rejected":
                st["rejected_after"].add("BadBaseDigest" if comp == "digest" else "BadBaseCap")
            eo = x.get("extended_obs")
            if x["extend_outcome"] == "ok" and eo and eo["verify"] and eo["check_vd"]:
                report("violation", "C20/cyclic/chain-extended-from-bad-link/%s" % comp,
                       "a recursive step on a link whose embedded %s differs from the circuit's yields a proof that passes verify and check_cyclic_proof_verifier_data" % comp, payload)
            elif lo["verify"] and not lo["check_vd"]:
                st.setdefault("badlinks_ok", set()).add(pos)
                st["matched"] += 2
            st.setdefault("pairs", set()).update({("-", "BadBaseDigest" if comp == "digest" else "BadBaseCap"),
                                                  ("BadBaseDigest" if comp == "digest" else "BadBaseCap", "StepRec")})
            continue
        if "act" not in x:
            continue
        st["steps"] += 1
        st.setdefault("pairs", set()).add((last_act.get((x["id"], x["history"]), "-"), x["act"]))
        hk = (x["id"], x["history"])
        st["histories"].add(hk)
        e, o = x["expect"], x["obs"]
        payload = {"kind": "cyclic", "history": x["history"], "step": x["step"], "expected": e, "observed": x}
        bad = []
        if x["act"] == "Foreign":
            foreign_now[hk] = True
            f = x["foreign_under_its_circuit"]
            if not (f and f["verify"] and f["check_vd"] and f["embedded_own"]):
                raise ToolError("the foreign proof is not a proper chain proof of its own circuit: %s" % json.dumps(x)[:300])
        if x["act"] in ("StepBase", "StepRec"):
            if x["step_outcome"] == "ok":
                foreign_now[hk] = False
                st["step_ok"] += 1
                st["max_chain"] = max(st["max_chain"], o["counter"])
            else:
                st["step_rejected"] += 1
                st["rejected_after"].add(last_act.get(hk, "-"))
            if e["step"] == "ok" and x["step_outcome"] != "ok":
                bad.append(("step-failed", "a step on a proper chain proof did not yield a verifying proof (%s)" % x["stage"]))
            if e["step"] == "rejected" and x["step_outcome"] == "ok":
                bad.append(("step-accepted-bad-inner", "a step succeeded on an inner proof that is not a chain proof of this circuit"))
        if o:
            if o["verify"] != e["verify"]:
                bad.append(("verify", "verify = %s, the model expects %s" % (o["verify"], e["verify"])))
            if o["embedded_own"] != e["embedded_own"]:
                bad.append(("embedded", "the proof %s the circuit's own verifier data in its public inputs" % ("carries" if o["embedded_own"] else "lacks")))
            if o["check_vd"] and not e["check_vd"]:
                bad.append(("check_vd-accepts-altered", "check_cyclic_proof_verifier_data accepts a proof whose embedded data differ"))
            if not o["check_vd"] and e["check_vd"]:
                bad.append(("check_vd-rejects-own", "check_cyclic_proof_verifier_data rejects a proof carrying the own data"))
            if not e["embedded_own"]:
                st["altered_checked"] += 1
            if not foreign_now.get(hk) and o["counter"] != e["counter"] * x["inc"]:
                bad.append(("counter", "counter %d, expected %d" % (o["counter"], e["counter"] * x["inc"])))
            if o["start"] != x["start"]:
                bad.append(("start", "the start value is not carried along the chain"))
        last_act[hk] = x["act"]
        for k, d in bad:
            report("violation", "C20/cyclic/%s/%s" % (k, x["act"]), d, payload)
        if not bad:
            st["matched"] += 1
    return st


def run(chk, tier):
    thorough = tier == "thorough"
    rnd = random.Random(common.seed() + 20)
    chk.rule = ("conditional: (inner shape, pair0, pair1, condition) combinations drawn per stratum (validity kind of each pair x condition) from the "
                "TLC-enumerated set, distinct by (shape, combination); dummy: (shape, public-input map); cyclic: (history, step) of the TLC-enumerated "
                "histories; non-trivial = the combination was assignable / the dummy circuit exists / the step or observation was executed")
    chk.assumptions = ["acceptance of the conditional circuit = witness generation succeeds and the satisfaction oracle finds every gate and copy constraint satisfied; "
                       "cyclic steps additionally produce the outer proof (it is the next inner proof)",
                       "dummy_circuit is asserted only where it returns (it refuses zero-knowledge by contract and panics on its own equality assertion for shapes it cannot match, e.g. lookups: counted)",
                       "cyclic circuit: the counter-style circuit of the library's own test (standard recursion configuration, 100 bits of binding)",
                       "model: proofs as vectors of 3 elements / the latest proof of a chain; the real protocol is exercised by the replay"]
    bg = {}

    def build():
        try:
            common.build_harness("release", BIN)
        except Exception as e:
            bg["build_error"] = e

    bt = threading.Thread(target=build)
    bt.start()
    # ---- A: the models
    with ThreadPoolExecutor(max_workers=4) as ex:
        fc = ex.submit(tlc_ok, chk, "Conditional", "Conditional", "Conditional: all pairs x conditions")
        fy = ex.submit(tlc_ok, chk, "Cyclic", "Cyclic", "Cyclic: all histories of length <= 4")
        fy5 = ex.submit(tlc_ok, chk, "Cyclic", "Cyclic_len5", "Cyclic: all histories of length <= 5") if thorough else None
        cans = {n: ex.submit(common.tlc, m, c, 2, 600) for n, (m, c) in {
            "the verifier data is not selected": ("Conditional", "Conditional_canary_vd_not_selected"),
            "one proof element is not selected": ("Conditional", "Conditional_canary_element_not_selected"),
            "the g*zeta lookup openings are selected from the zeta lookup openings": ("Conditional", "Conditional_canary_select_mixes_lookup_openings"),
            "the verifier-data check compares the digest only": ("Cyclic", "Cyclic_canary_checkvd_digest_only"),
            "the step connects only the digest of the embedded verifier data": ("Cyclic", "Cyclic_canary_step_ties_digest_only"),
            "the inner proof is verified under the data it carries": ("Cyclic", "Cyclic_canary_verify_under_embedded")}.items()}
        fp1 = ex.submit(c01.tlc_programs, chk, "Programs_len1", "Programs: all one-instruction programs")
        fcf = ex.submit(common.tlc, "Configs", "Configs", 1, 300)
        rc, ry = fc.result(), fy.result()
        ry5 = fy5.result() if fy5 else None
        cex = {}
        for n, f in cans.items():
            rr = f.result()
            chk.canary("spec mutant: %s -> TLC counterexample" % n, rr.violated is not None)
            if rr.cmd and "Cyclic" in rr.cmd:
                hl = [l for l in rr.raw.splitlines() if l.startswith("/\\ h = ")]
                cex[n] = re.findall(r'act \|-> "([A-Za-z]+)"', hl[-1]) if hl else []
        p1, rcf = fp1.result(), fcf.result()
    bt.join()
    if "build_error" in bg:
        raise bg["build_error"]
    combos = common.tagged(rc.prints, "REPLAY")
    hist4 = [l["history"] for l in common.tagged(ry.prints, "REPLAY")]
    hist5 = [l["history"] for l in common.tagged(ry5.prints, "REPLAY")] if ry5 else []
    chk.sample({"conditional_line": combos[0]})
    chk.sample({"cyclic_history": hist4[len(hist4) // 2]})
    chk.extra["model"] = {"conditional_combinations": len(combos), "cyclic_histories_len4": len(hist4), "cyclic_histories_len5": len(hist5)}
    # ---- inner shapes
    cfgs = sorted(common.tagged(rcf.prints, "CFGS")[0], key=lambda c: json.dumps(c, sort_keys=True))
    classes = sorted(common.tagged(rcf.prints, "CLASSES")[0], key=lambda c: json.dumps(c, sort_keys=True))
    strong = [c for c in cfgs if not c["keccak"] and c["width"] != "narrow" and not c["zk"] and c["q"] * c["rate"] + c["pow"] >= 50]
    p1.sort(key=lambda p: json.dumps(p["prog"], sort_keys=True))
    rnd.shuffle(p1)
    pick = lambda xs: xs[rnd.randrange(len(xs))]
    ncond, ndummy = (8, 60) if thorough else (2, 12)
    cond_rows = []
    for si in range(ncond):
        for k in range(5):
            cond_rows.append({"id": "c%d_%d" % (si, k), "slot": si, "prog": pick(p1)["prog"], "cfg": STD if si == 0 else pick(strong), "inputs": pick(classes),
                              "pad": pick([2, 20, 60]), "combos": pick_combos(combos, rnd, 4 if thorough else 1), "sample": 2,
                              "selftest": 8 if si == 0 else 0, "probe_or_dummy": True})
    # inner circuits WITH a lookup table: two real proofs (the dummy circuit refuses lookup shapes), every opening vector
    # incl. lookup_zs / next_lookup_zs non-empty and different between the two proofs
    lkp = [p for p in p1 if p["prog"]["instrs"][0]["op"] == "lookup"]
    for k in range(5):
        cond_rows.append({"id": "lk_%d" % k, "slot": 50, "prog": pick(lkp)["prog"], "cfg": STD, "inputs": ["small:16", "rand", "rand"], "pad": pick([3, 20]),
                          "combos": pick_combos(combos, rnd, 2 if thorough else 1, lk=True, owners=("A", "B")), "sample": 2})
    simple = [p for p in p1 if p["prog"]["instrs"][0]["op"] in ("add", "mul", "sub", "mul_add", "square")]
    for h in (0, 1, 2, 3):                   # cap height 4 (= the outer configuration's) is shape c0
        for k in range(4):
            cond_rows.append({"id": "o%d_%d" % (h, k), "slot": 100 + h, "prog": pick(simple)["prog"], "cfg": dict(STD, cap=h), "inputs": ["rand", "small:16", "rand"],
                              "pad": 4, "combos": [], "probe_or_dummy": True, "or_dummy_only": True})
    dummy_rows = [{"id": "d%d" % i, "prog": pick(p1)["prog"], "cfg": STD if i % 3 == 0 else pick(strong), "inputs": pick(classes), "pad": pick([0, 3, 30])}
                  for i in range(ndummy)]
    # a chain of three proofs is always part of the replay; two base-case variants (all-zero map / a start value)
    long3 = sorted([h for h in hist4 if h[2]["expect"]["counter"] == 3], key=lambda h: json.dumps(h, sort_keys=True))
    hs = [long3[rnd.randrange(len(long3))]] + pick_histories(list(hist4), rnd, 40 if thorough else 5)
    if thorough:
        hs += pick_histories(list(hist5), rnd, 12)
    # links whose embedded verifier data differ in exactly one component: the digest, or one cap element (entries and
    # first / last element of an entry), each made as an otherwise honest base-case proof and then extended
    if thorough:
        badlinks = [{"component": "digest", "elt": e} for e in range(4)] + [{"component": "cap", "entry": i, "elt": e} for i in range(16) for e in (0, 3)]
    else:
        badlinks = [{"component": "digest", "elt": 0}, {"component": "digest", "elt": 3}] + \
                   [{"component": "cap", "entry": i, "elt": e} for i, e in ((0, 0), (0, 3), (7, 3), (15, 0), (15, 3))]
    cyc_row = {"id": "y0", "histories": [{"start": (0 if i % 3 == 2 else 7), "steps": h} for i, h in enumerate(hs)], "badlinks": badlinks}
    # ---- B: the three replays side by side
    with ThreadPoolExecutor(max_workers=3) as ex:
        f1 = ex.submit(vh, "cyclic", [cyc_row], "c20_cyclic")
        f2 = ex.submit(vh, "cond", cond_rows, "c20_cond")
        f3 = ex.submit(vh, "dummy", dummy_rows, "c20_dummy")
        rcy, rco, rdu = f1.result(), f2.result(), f3.result()
    common.write_ndjson(os.path.join(common.OUT, "c20_results.ndjson"), rcy + rco + rdu)
    drift_seen = set()
    byid = {r["id"]: r for r in cond_rows + dummy_rows}

    def report_with_scenario(kind, key, detail, payload):
        sid = payload.get("shape_id")
        sc = {k: v for k, v in byid.get(sid, {}).items() if k != "combos"} if sid else None
        if payload.get("kind") == "cyclic":
            sc = {"history": cyc_row["histories"][payload["history"]]}
        if kind == "violation":
            chk.violation(key, detail, dict(payload, scenario=sc))
        elif key not in drift_seen:
            drift_seen.add(key)
            chk.note_drift({"what": key, "detail": detail})

    sc = judge_cond(rco, report_with_scenario)
    sd = judge_dummy(rdu, report_with_scenario)
    sy = judge_cyclic(rcy, report_with_scenario)
    chk.evaluations += sc["cases"] + sc.get("or_dummy_cases", 0) + sd["proofs"] + sy["steps"]
    chk.nontrivial += len(sc["combos"]) + sc.get("or_dummy_cases", 0) + sd["proofs"] + sy["steps"]
    chk.traces += sc["accept"] + sc["reject"] + sd["proofs"] + len(sy["histories"])
    chk.sample({"conditional_result": next((x for x in rco if "combo" in x and not x.get("unavailable")), None)})
    chk.sample({"cyclic_result": next((x for x in rcy if x.get("act") == "StepRec"), None)})
    chk.extra["conditional"] = {k: (len(v) if isinstance(v, set) else v) for k, v in sc.items()}
    chk.extra["dummy"] = sd
    chk.extra["cyclic"] = {k: (sorted(v) if k == "rejected_after" else len(v) if isinstance(v, set) else v) for k, v in sy.items() if k != "badlinks_ok"}
    caps_built = {b["inner_cap_height"] for b in sc.get("or_dummy_builds", []) if b["built"]}
    if not {0, 1, 2, 3, 4} <= caps_built | {int(k.split("-")[-1].split("/")[0]) for k, _, _ in chk.violations if k.startswith("C20/or-dummy/inner-cap-")} or (
            caps_built and sc.get("or_dummy_cases", 0) < 6 * len(caps_built)):
        raise ToolError("vacuity (or_dummy): cap heights built %s, cases %s" % (sorted(caps_built), sc.get("or_dummy_cases")))
    lks = sc.get("lookup_shapes", {})
    if not any(v["distinct"] and v["accepted_cond_true"] and v["accepted_cond_false"] and v["rejected"] for v in lks.values()):
        raise ToolError("vacuity (conditional, lookup inner circuits): %s" % lks)
    chk.canary("the class of the spec mutant 'select_mixes_lookup_openings' (a valid selected pair of a lookup circuit, both conditions) is part of the replay", True)
    if sc["shapes"] < ncond or sc["accept"] < 8 * sc["shapes"] or sc["reject"] < 8 * sc["shapes"] or sc["outer"] < sc["shapes"]:
        raise ToolError("vacuity (conditional): %s" % chk.extra["conditional"])
    if sd["dummy_circuits"] < ndummy // 3 or sd["proofs"] < sd["dummy_circuits"] * 3:
        raise ToolError("vacuity (dummy): %s" % sd)
    bl = sy.get("badlinks_ok", set())
    chk.extra["cyclic"]["badlinks_ok"] = sorted("%s/%d/%d" % t for t in bl)
    chk.extra["cyclic"].pop("pairs", None)
    if not any(c == "digest" for c, _, _ in bl) or len({(i, e) for c, i, e in bl if c == "cap"}) < 2 or len({e for c, i, e in bl if c == "cap"}) < 2:
        raise ToolError("vacuity (cyclic bad links): %s" % sorted(bl))
    # the counterexamples of the Cyclic mutants must be behaviours the replay executes (consecutive actions)
    for n, acts in cex.items():
        pairs = set(zip(["-"] + acts, acts))
        pairs = {p for p in pairs if p[0] != "-"} or {("-", a) for a in acts}
        have = sy.get("pairs", set())
        chk.canary("the counterexample of the spec mutant '%s' (%s) is part of the replay" % (n, " -> ".join(acts)),
                   bool(acts) and all(p in have or (p[0] == "-" and any(q[1] == p[1] for q in have)) for p in pairs))
    if sy["step_ok"] < 6 or len(sy["rejected_after"]) < (3 if thorough else 2) or sy["altered_checked"] < 5 or sy["max_chain"] < 3:
        raise ToolError("vacuity (cyclic): %s" % chk.extra["cyclic"])
    # ---- binding canaries
    flagged = []
    judge_cond(rco, lambda kind, key, d, p: flagged.append(key) if kind == "violation" else None, selftest=True)
    chk.canary("binding: assigning the opposite condition is reported as a disagreement with the selected pair's validity",
               any(k.startswith("C20/conditional/") for k in flagged))
    flagged = []
    flipped = json.loads(json.dumps(rcy))
    for x in flipped:
        if x.get("act", "").startswith("Tamper"):
            x["expect"]["check_vd"] = True
            break
    judge_cyclic(flipped, lambda kind, key, d, p: flagged.append(key) if kind == "violation" else None)
    chk.canary("binding: a flipped expected verdict of the verifier-data check is reported", any("check_vd" in k for k in flagged))


def replay(path):
    p = json.load(open(path))
    kind = p.get("kind")
    print(json.dumps({k: p[k] for k in ("key", "detail", "expected") if k in p}, indent=1)[:1500])
    if kind == "cyclic":
        out = vh("cyclic", [{"id": "y0", "histories": [p["scenario"]["history"]]}], "c20_replay")
        flagged = []
        judge_cyclic(out, lambda k, key, d, pl: flagged.append((key, d)) if k == "violation" else None)
    elif kind == "dummy":
        out = vh("dummy", [dict(p["scenario"], id="d0")], "c20_replay")
        flagged = []
        judge_dummy(out, lambda k, key, d, pl: flagged.append((key, d)) if k == "violation" else None)
    elif kind == "or_dummy":
        s = dict(p["scenario"], id="c0", combos=[], probe_or_dummy=True, or_dummy_only=True)
        s.pop("slot", None)
        out = vh("cond", [s], "c20_replay")
        flagged = []
        judge_cond(out, lambda k, key, d, pl: flagged.append((key, d)) if k == "violation" else None)
    else:
        o = p["observed"]
        s = dict(p["scenario"], id="c0", combos=[{"p0": o["p0"], "p1": o["p1"], "cond": o["cond"], "expect": o["expect"]}] * 3)
        s.pop("slot", None)
        out = vh("cond", [s], "c20_replay")
        flagged = []
        judge_cond(out, lambda k, key, d, pl: flagged.append((key, d)) if k == "violation" else None)
    for x in out:
        print("observed :", json.dumps(x)[:500])
    print("re-run: %d discrepancies %s" % (len(flagged), flagged[:3]))
    return 1 if flagged else 0
