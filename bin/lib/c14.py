"""C14 — field arithmetic is exact modular arithmetic on every representation.
A: TLC exhaustive on GoldilocksAlg (K=2..4[,5]) + canaries; Apalache at K=32 over all operands.
C: operation logs of the real operators validated by TLC against GF (OpLogTrace)."""
import json
import os
import re
from concurrent.futures import ThreadPoolExecutor

import common
from common import ToolError, log

LEVEL = "model_checking"

APA_INVS_QUICK = ["InvAdd", "InvSub", "InvRed128", "InvRed160", "InvNeg", "InvRed96"]
APA_INVS_MORE = ["InvI64", "InvAddC", "InvSubC", "InvCanon", "InvT7", "InvT3"]
APA_WITNESS = ["NoAddPath2", "NoSubPath2", "NoRed128Path3"]


def _apa(inv):
    return inv, common.apalache("ApaGoldilocks", inv, length=0, cinit="ConstInit", timeout=300)


def _cex_xyz(cex):
    vals = {}
    for v in ("x", "y", "z"):
        m = re.search(r"\b%s = (-?\d+)" % v, cex)
        if m:
            vals[v] = int(m.group(1))
    return vals


def validate_log(chk, path, name, workers=8, timeout=900):
    """TLC-validate an operation log; returns (ok, failing_index or None, result)."""
    r = common.tlc("OpLogTrace", cfg="OpLogTrace", workers=workers, timeout=timeout,
                   env={"TRACE": path}, tag=name)
    chk.add_tlc(name, r, exhaustive=True)
    if r.ok:
        return True, None, r
    idx = None
    for m in re.finditer(r"/\\ l = (\d+)", r.raw):
        idx = int(m.group(1))
    return False, idx, r


def run(chk, tier):
    thorough = tier == "thorough"
    chk.rule = ("model: every operand pair / reduction input of GoldilocksAlg at half-word size K (exhaustive), "
                "all 64-bit operands symbolically (Apalache); implementation: one event per executed operation of "
                "the real field code on Apalache path witnesses, the K=4 lifting, the boundary lattice and random "
                "words; an event is non-trivial if its operand tuple is distinct; each is validated by TLC against "
                "the mathematical definition in spec/GF.tla")
    chk.assumptions = ["TLC/Apalache and the Json community module are correct",
                       "inline assembly and SIMD intrinsics are observed only through the recorded executions"]
    # ---- A1: exhaustive small word sizes
    ks = [2, 3, 4]
    for k in ks:
        r = common.tlc("MCGoldilocksAlg", cfg="MCGoldilocksAlg_K%d" % k, workers=8, timeout=600)
        chk.add_tlc("GoldilocksAlg K=%d exhaustive" % k, r)
        if not r.ok:
            raise ToolError("specification GoldilocksAlg violates %s at K=%d (spec-level inconsistency)" % (r.violated, k))
    for can in ("add_second", "sub_second", "red128_borrow"):
        r = common.tlc("MCGoldilocksAlg", cfg="MCGoldilocksAlg_canary_" + can, workers=4, timeout=300)
        chk.canary("spec-mutant " + can + " rejected by TLC", r.violated is not None)
    # ---- A2: Apalache at the real word size
    invs = APA_INVS_QUICK + (APA_INVS_MORE if thorough else [])
    witnesses = []
    with ThreadPoolExecutor(max_workers=4) as ex:
        results = list(ex.map(_apa, invs + ["InvAddCanary"] + APA_WITNESS))
    apa = {}
    for inv, (ok, cex, wall) in results:
        apa[inv] = {"holds": ok, "wall_s": round(wall, 1)}
        if inv in invs and not ok:
            raise ToolError("Apalache: %s fails at K=32 (spec-level): %s" % (inv, _cex_xyz(cex or "")))
        if inv == "InvAddCanary":
            chk.canary("Apalache finds 64-bit counterexample for Add without second correction", not ok)
        if inv in APA_WITNESS:
            chk.canary("Apalache path witness " + inv, not ok)
            w = _cex_xyz(cex or "")
            if len(w) == 3:
                witnesses.append((w["x"], w["y"], w["z"]))
    chk.extra["apalache"] = apa
    chk.extra["apalache_path_witnesses"] = witnesses
    # ---- C: record the real operators, validate with TLC
    budget = 60000 if thorough else 12000
    logp = os.path.join(common.OUT, "c14.ndjson")
    wit = ";".join("%d,%d,%d" % w for w in witnesses)
    res = common.vh(["c14-record", "--out", logp, "--budget", budget, "--witness", wit])
    events = res[-1]["events"]
    rows = common.read_ndjson(logp)
    chk.sample({"oplog_event": rows[0]})
    chk.sample({"oplog_event": rows[len(rows) // 2]})
    for rep in range(6):
        panics = [(i, e) for i, e in enumerate(rows) if e.get("op") == "panic"]
        for i, e in panics:
            chk.violation("C14/panic/" + e.get("in", "?"), "unchecked assumption violated / panic: %s" % e.get("msg"),
                          {"event": e})
        rows = [e for e in rows if e.get("op") != "panic"]
        common.write_ndjson(logp, rows)
        ok, idx, r = validate_log(chk, logp, "oplog real code (%d events)" % len(rows))
        if ok:
            chk.traces += 1
            break
        if idx is None or idx < 1 or idx > len(rows):
            raise ToolError("TLC rejected the oplog but no event index was found:\n" + r.raw[-2000:])
        bad = rows[idx - 1]
        chk.violation("C14/op/" + bad["op"], "recorded result is not the mathematical value", {"event": bad,
                      "spec": "spec/GF.tla via spec/OpLogTrace.tla", "how": "vh c14-record; TLC EventOk"})
        rows = [e for e in rows if e["op"] != bad["op"]]
    chk.evaluations += events
    chk.nontrivial += len({json.dumps({k: v for k, v in e.items() if k != "r"}, sort_keys=True) for e in rows})
    # ---- bulk comparison with the u128 reference; the reference's own log is validated by TLC
    flavours = ["release", "avx2"] + (["avx512"] if thorough else [])
    refp = os.path.join(common.OUT, "c14ref.ndjson")
    for fl in flavours:
        n = 2000000 if thorough else 200000
        args = ["c14-bulk", "--n", n]
        if fl == "release":
            args += ["--reflog", refp]
        out = common.vh(args, flavour=fl)[-1]
        chk.evaluations += out["cases"] + out["packed_cases"]
        chk.nontrivial += out["nontrivial"]
        chk.extra.setdefault("bulk", {})[fl] = {k: out[k] for k in ("cases", "packed_width", "packed_cases")}
        for m in out["mismatches"]:
            what = "packed" if "packed_lane" in m else ("ext" if "d" in m else "scalar")
            chk.violation("C14/bulk/%s/%s" % (fl, what), "real operator differs from u128 reference", {"case": m, "flavour": fl})
    ok, idx, r = validate_log(chk, refp, "oplog of the harness reference", workers=4)
    if not ok:
        raise ToolError("the harness's own reference arithmetic is rejected by TLC at event %s" % idx)
    chk.traces += 1
    # ---- canary: a corrupted event must be rejected
    rows = common.read_ndjson(logp)
    k = next(i for i, e in enumerate(rows) if e["op"] == "mul")
    bad = json.loads(json.dumps(rows[k]))
    bad["r"][3] ^= 1
    canp = os.path.join(common.OUT, "c14canary.ndjson")
    common.write_ndjson(canp, rows[:k] + [bad] + rows[k + 1:k + 50])
    r = common.tlc("OpLogTrace", cfg="OpLogTrace", workers=2, timeout=300, env={"TRACE": canp}, tag="c14canary")
    chk.canary("one flipped result bit in a mul event is rejected by TLC", r.violated is not None)


def replay(path):
    p = json.load(open(path))
    print(json.dumps(p, indent=1)[:3000])
    if "event" in p and p["event"].get("op") != "panic":
        one = os.path.join(common.OUT, "c14replay.ndjson")
        common.write_ndjson(one, [p["event"]])
        r = common.tlc("OpLogTrace", cfg="OpLogTrace", workers=1, timeout=300, env={"TRACE": one}, tag="c14replay")
        print("TLC verdict on the recorded event:", "accepted" if r.ok else "REJECTED (%s)" % r.violated)
        return 0 if r.ok else 1
    return 1
