"""C16 — proof compression is lossless and verification-equivalent.
A: TLC on spec/MCFriCompress (implementation-shaped, index-level model of FriProof::compress,
   get_inferred_elements, CompressedFriProof::decompress): all query tuples of length <= 3 over LDE
   size <= 16, six arity schedules, capH <= 2: RoundTrip, NoMiss, Agree; spec mutants as canaries.
   (spec/PathCompression - the Merkle-path layer including the re-expansion of de-duplicated
   proofs - is checked and replayed under C12; its small configuration is re-checked here.)
B: every enumerated tuple is replayed on the real FriProof::compress with honestly committed
   synthetic FRI proofs (shape of the compressed proof: DRIFT level); real circuits engineered for
   collisions: decompress(compress(p)) == p and verify_compressed == verify for honest and for
   shape-preserving tampered proofs.
C: the compressed shape of every real accepted proof is validated by TLC against FriCompress run
   on the recorded Fiat-Shamir query tuple (spec/MCFriCompressTrace)."""
import json
import os
import re
from concurrent.futures import ThreadPoolExecutor

import common
from common import ToolError, log

LEVEL = "model_checking"
BIN = "c16"


def _canary(chk, name, passed):
    """A canary demonstrates that the machinery can detect.  Once property-level violations (or layout drift)
    were observed, the code under test is not the code the canary was calibrated on: a canary that then fails is
    recorded as not evaluated instead of turning a decided run into a tool error."""
    if passed or not (chk.violations or chk.drift or chk.known_seen):
        chk.canary(name, passed)
    else:
        chk.extra.setdefault("canaries_not_evaluated", []).append(name)
        log("[canary] not evaluated (violations/drift present): " + name)


def _tlc(job):
    name, module, cfg, workers, timeout = job
    return name, common.tlc(module, cfg=cfg, workers=workers, timeout=timeout, tag="c16-" + cfg)


def run(chk, tier):
    thorough = tier == "thorough"
    chk.rule = ("model: one state per step (transpose, de-dup, producer, consumer, reassembly) of each query tuple "
                "x arity schedule x cap height of FriCompress; implementation: one evaluation per real proof and check "
                "(round trip; verdict pair honest; verdict pair per tamper kind), per enumerated tuple replayed on "
                "FriProof::compress, per recorded trace validated by TLC; non-trivial = distinct (configuration, "
                "proof number, check) or distinct tuple - all are distinct by construction (fresh witness per proof)")
    chk.assumptions = ["TLC and the community modules are correct",
                       "Merkle-path compression inside FriCompress is abstracted by the round-trip specification "
                       "proved in spec/PathCompression (C12) for all index sequences incl. re-expanded duplicates",
                       "circuits need rate_bits >= 3 (PoseidonGate for the public-input hash): LDE sizes 2^5..2^9 with "
                       "10..40 queries; configurations the builder refuses or whose schedule exceeds degree_bits are skipped",
                       "a panic of verify_compressed on a tampered proof counts as 'not accepted' (C18's business)",
                       "the prover draws blinding values from OS randomness: proofs of zero-knowledge configurations (and "
                       "hence their query indices and the count of duplicate-index tampers) are not reproducible from "
                       "VERIF_SEED; everything else is"]
    o = lambda n: os.path.join(common.OUT, n)

    # ---- A: model checking
    jobs = [("FriCompress n=3, tuples<=3", "MCFriCompress", "MCFriCompress_n3", 8, 900),
            ("FriCompress n=4, tuples<=%d" % (3 if thorough else 2), "MCFriCompress",
             "MCFriCompress_n4" if thorough else "MCFriCompress_n4l2", 8, 1700),
            ("PathCompression (re-check, h<=3, len<=2)", "PathCompression", "PathCompression_c16", 2, 600)]
    canaries = [("MCFriCompress_canary_dedup_last", "de-duplication keeps the last entry instead of the first"),
                ("MCFriCompress_canary_producer_noseen", "producer emits an inferred element for every query and layer"),
                ("MCFriCompress_canary_noremove", "compress keeps the inferable coset element")]
    cjobs = [("canary " + cfg, "MCFriCompress", cfg, 2, 300) for cfg, _ in canaries]
    with ThreadPoolExecutor(max_workers=3) as ex:
        fut = ex.map(_tlc, jobs + cjobs)
        # the real proofs run meanwhile
        # every library call on a real proof has a deadline (honest calls take milliseconds): a call that does
        # not return is recorded as <call>-does-not-terminate, its thread abandoned; the harness timeout is
        # only the last resort
        real = common.vh(["real", "--proofs", 6 if thorough else 2, "--traces", o("c16-traces.ndjson"),
                          "--deadline-ms", 60000 if thorough else 20000]
                         + (["--thorough"] if thorough else []), binname=BIN, timeout=1700)[-1]
        results = dict(fut)
    for name, _, _, _, _ in jobs:
        r = results[name]
        chk.add_tlc(name, r)
        if not r.ok:
            raise ToolError("specification %s violates %s (spec-level inconsistency)" % (name, r.violated))
    for cfg, what in canaries:
        chk.canary("spec-mutant rejected by TLC: %s (%s)" % (what, cfg), results["canary " + cfg].violated is not None)
    chk.exhaustive = True

    # ---- B2 (first: the property-level verdicts): real proofs - round trips both ways, verdict equivalence
    for s in real["samples"]:
        chk.sample(s)
    for d in real["drift"]:
        chk.note_drift(d)
    for v in real["violations"]:
        # key = C16/roundtrip/<schedule>/<what>/<configuration>
        chk.violation(v["key"] + "/" + v.get("ctx", {}).get("cfg", "?"), v,
                      {"violation": v, "how": "vh c16 real (VERIF_SEED=%d); configuration id in ctx.cfg" % common.seed()})
    n_eval = (real["roundtrips"] + real["recompressions"] + real["verdict_pairs"] + real["tampered"]
              + real["redundant_tampers"])
    chk.evaluations += n_eval
    chk.nontrivial += n_eval
    chk.traces += real["roundtrips"]
    keep = ("configs", "skipped_configs", "skip_reasons", "proofs", "roundtrips", "recompressions",
            "roundtrips_by_schedule", "threads_abandoned", "abandoned_by_schedule",
            "configs_skipped_after_nontermination", "violations_per_key", "verdict_pairs", "tampered",
            "tampered_both_accept", "tampered_compress_panics", "redundant_tampers", "redundant_rejected_plain",
            "redundant_accepted_compressed", "classes", "lde_bits", "schedules", "traces", "honest_rejected")
    chk.extra["real"] = {k: real[k] for k in keep}
    chk.extra["note_redundant"] = ("compression discards redundant data (a repeated query's leaves, the inferable coset "
                                   "element): a proof altered ONLY there is rejected by verify while its compression equals "
                                   "the honest one and is accepted - outside the property's domain (accepted proofs), "
                                   "predicted by spec/FriCompress, reported here as information")
    if real["proofs"] < 100:
        raise ToolError("only %d real proofs" % real["proofs"])
    cls = real["classes"]
    nonconst = sorted(k for k, n in real["roundtrips_by_schedule"].items()
                      if n > 0 and len(set(json.loads(k))) > 1)
    chk.extra["nonconstant_schedules_roundtripped"] = nonconst
    _canary(chk, "real proofs under at least two distinct non-constant arity schedules were round-tripped: %s" % nonconst,
            len(nonconst) >= 2)
    _canary(chk, "real proofs were round-tripped (decompress o compress and compress o decompress)",
            real["roundtrips"] >= 100 and real["recompressions"] >= 100)
    _canary(chk, "real proofs with a repeated query index occurred", cls["repeated_index"] > 0)
    _canary(chk, "real proofs with a shared coset at layer 0 occurred", cls["shared_coset_per_layer"][0] > 0)
    _canary(chk, "real proofs with a shared coset at a deeper layer occurred", sum(cls["shared_coset_per_layer"][1:]) > 0)
    _canary(chk, "shape-preserving tampers were rejected through both paths",
            real["tampered"] > 0 and real["tampered_both_accept"] < real["tampered"])
    can = common.vh(["real", "--proofs", 1, "--limit", 40, "--canary-flip"], binname=BIN)[-1]
    hits = sum(n for key, n in can["violations_per_key"].items()
               if key.startswith("C16/roundtrip/") and key.endswith("/decompress-compress-not-identity"))
    _canary(chk, "one flipped element of a decompressed proof is reported (for every proof of the canary run)",
            can["proofs"] > 0 and hits >= can["proofs"] - 2 and len(can["violations"]) > 0)

    # ---- B1: enumerated tuples on the real FriProof::compress: data must not be lost (property level),
    #      the layout is the model's (DRIFT level)
    scen = (common.tagged(results[jobs[0][0]].prints, "REPLAY") + common.tagged(results[jobs[1][0]].prints, "REPLAY"))
    if len(scen) < 9000:
        raise ToolError("MCFriCompress printed only %d scenarios" % len(scen))
    common.write_ndjson(o("c16-fri-scen.ndjson"), scen)
    out = common.vh(["replay-fricompress", "--scen", o("c16-fri-scen.ndjson")], binname=BIN)[-1]
    chk.evaluations += out["replayed"] + out["lossless_checked"]
    chk.nontrivial += out["replayed"] + out["lossless_checked"]
    chk.traces += out["replayed"]
    for s in out["samples"]:
        chk.sample(s)
    for d in out["drift"]:
        chk.note_drift(d)
    for v in out["violations"]:
        chk.violation(v["key"], v, {"violation": v, "how": "vh c16 replay-fricompress"})
    drifted = set(out["drift_scenario_ids"])
    chk.extra["fricompress_replay"] = {"scenarios": len(scen), "replayed": out["replayed"],
                                       "lossless_checked": out["lossless_checked"],
                                       "scenarios_with_layout_drift": len(drifted), "classes": out["classes"]}
    for cls_name in ("repeated_index", "shared_layer0", "shared_deeper", "distinct"):
        _canary(chk, "enumerated tuples contain class " + cls_name, out["classes"][cls_name] > 0)
    # binding canary, evaluated on a scenario whose layout comparison is clean
    k = next((i for i, s in enumerate(scen) if s["rep"] is False and s["share"][0] and len(s["q"]) == 2
              and len(s["ar"]) == 1 and i not in drifted), None)
    if k is None:
        chk.extra.setdefault("canaries_not_evaluated", []).append(
            "a wrong predicted removed position is noticed by the replay (every candidate scenario already drifts)")
    else:
        can = common.vh(["replay-fricompress", "--scen", o("c16-fri-scen.ndjson"), "--corrupt", k], binname=BIN)[-1]
        _canary(chk, "a wrong predicted removed position is noticed by the replay",
                set(can["drift_scenario_ids"]) - drifted == {k})

    # ---- C: traces of the real compressions against FriCompress (DRIFT level; skipped once a violation decides)
    rows = common.read_ndjson(o("c16-traces.ndjson"))
    if chk.violations:
        chk.extra.setdefault("canaries_not_evaluated", []).append("trace validation skipped: violations already decide")
        return
    if len(rows) < 100:
        raise ToolError("only %d traces recorded" % len(rows))
    # records under non-constant arity schedules first, then the rest
    nc = [t for t in rows if len(set(t["ar"])) > 1]
    rest = [t for t in rows if len(set(t["ar"])) <= 1]
    limit = 400 if thorough else 250
    rows = nc[:limit // 2] + rest[:limit - min(len(nc), limit // 2)]
    chk.extra["traces_nonconstant_schedules"] = min(len(nc), limit // 2)
    clean = False
    for rep in range(3):
        common.write_ndjson(o("c16-traces-use.ndjson"), rows)
        r = common.tlc("MCFriCompressTrace", cfg="MCFriCompressTrace", workers=8, timeout=1200,
                       env={"TRACE": o("c16-traces-use.ndjson")}, tag="c16-trace")
        chk.add_tlc("traces of %d real compressed proofs" % len(rows), r)
        if r.ok:
            chk.traces += len(rows)
            clean = True
            break
        bad = None
        for line in r.raw.splitlines():
            m = re.search(r"id \|-> (\d+)", line)
            if m:
                bad = int(m.group(1))
        if bad is None or not (1 <= bad <= len(rows)):
            raise ToolError("TLC rejected the traces but no record was identified:\n" + r.raw[-1500:])
        rec = rows[bad - 1]
        if r.violated == "ShapeOk":
            chk.note_drift({"what": "real compressed proof has another shape than spec/FriCompress", "record": rec})
        else:
            raise ToolError("specification FriCompress violates %s on the real query tuple %s" % (r.violated, rec["q"]))
        # drop all records of that configuration and try the rest once more
        rows = [t for t in rows if t.get("cfg") != rec.get("cfg")]
        if not rows:
            break
    # binding canary: corrupt one record (only meaningful when the records themselves are accepted)
    if clean:
        bad = json.loads(json.dumps(rows[:20]))
        k = next(i for i, t in enumerate(bad) if t["steps"] and t["steps"][0])
        bad[k]["steps"][0][0]["cands"] = [c ^ 1 for c in bad[k]["steps"][0][0]["cands"]]
        common.write_ndjson(o("c16-traces-canary.ndjson"), bad)
        r = common.tlc("MCFriCompressTrace", cfg="MCFriCompressTrace", workers=2, timeout=300,
                       env={"TRACE": o("c16-traces-canary.ndjson")}, tag="c16-trace-canary")
        _canary(chk, "a corrupted removed position in one recorded trace is rejected by TLC", r.violated == "ShapeOk")
    else:
        chk.extra.setdefault("canaries_not_evaluated", []).append(
            "a corrupted removed position in one recorded trace is rejected by TLC (records drift)")


def replay(path):
    p = json.load(open(path))
    print(json.dumps(p, indent=1)[:4000])
    print("re-run with the recorded seed: VERIF_SEED=%s bin/vcheck C16" % p.get("seed"))
    out = common.vh(["real", "--proofs", 2], binname=BIN, timeout=1700)[-1]
    cfg = p.get("violation", {}).get("ctx", {}).get("cfg")
    hits = [v for v in out["violations"] if v.get("ctx", {}).get("cfg") == cfg]
    print(json.dumps(hits, indent=1)[:4000])
    return 1 if hits else 0
