"""C05 — FRI attests only true evaluations of low-degree polynomials.

A  TLC: spec/FriParams (all schedules, degree_bits<=12, rate<=4, cap<=5, q<=4), spec/FriAlgebra +
   FriVerifier over F_17 (thorough: also F_97, arity 4, 32-point coset) incl. the batched variant:
   every challenge tuple x every query position, acceptance counted per deviation; one Disabled run
   per verifier check (canaries).
B  the catalogue printed by TLC (deviation -> class accept/reject/partial, which positions read the
   element, first failing check) is the oracle for the harness's spec prover (harness/src/bin/c05.rs),
   which drives the real prover/verifier through the same deviations (fixed-challenge edits, re-commitments,
   Fiat-Shamir consistent deviations through knobs and fri_proof).
C  schedules / proof parameters / pow verdicts recorded from the real code are validated by TLC
   against the property-level predicates (spec/FriParamsTrace)."""
import json
import os
import re
from concurrent.futures import ThreadPoolExecutor

import common
from common import ToolError, log

LEVEL = "model_checking"

CHECKS = ["Shape", "Pow", "NumRounds", "InitMerkle1", "InitMerkle2", "Consistency0", "Consistency1",
          "LayerMerkle0", "LayerMerkle1", "Final"]
LAYER_KINDS = {"coset_edit", "coset_recommit", "layer_path", "layer_delta", "layer_replace", "layer_cap", "coset_forge"}
# deviations that only a Merkle check reads when the tree height equals the cap height (EMPTY path: the
# whole check is hash(leaf) == cap[index]); the replay must contain path_len = 0 instances of each
EMPTY_PATH_GUARD = {"fri": ["layer_cap", "init_cap", "coset_forge", "coset_edit", "leaf_edit", "leaf_kernel"],
                    "batch": ["layer_cap", "init_cap", "coset_forge", "coset_edit", "leaf_edit"]}
JOIN_KINDS = {"claim_edit2", "leaf_edit2", "leaf_recommit2"}
# harness deviation -> deviation of the specification it instantiates
KIND_MAP = {"salt_edit": "init_path",                 # only the Merkle check reads a salt
            "claim_wrong_consistent": "claim_edit",   # the same wrong claim, absorbed on both sides
            "claim_wrong_static": "claim_adaptive"}   # weakest prover of a wrong claim: only the >=50-bit rule applies
POW_KINDS = {"pow_bad", "pow_edge_ok", "pow_lucky"}


# ------------------------------------------------------------------------------------------
# catalogue = what TLC derived for every deviation
# ------------------------------------------------------------------------------------------
def _rel(name, base, nl, layered):
    """check name of the model -> (class, offset) independent of the model's number of layers"""
    if name in ("none", "Shape", "Pow", "NumRounds"):
        return (name, 0)
    if name.startswith("InitMerkle") or name.startswith("LayerMerkle"):
        return ("Merkle", 0)
    if name.startswith("Consistency"):
        return ("C", int(name[len("Consistency"):]) - base)
    if name == "Final":
        return ("C", nl - base) if layered else ("Final", 0)
    raise ToolError("unknown check name from the specification: %r" % name)


def build_catalogue(rows):
    cat = {}
    for r in rows:
        d = r["dev"]
        kind = d["k"]
        layered = kind in LAYER_KINDS or kind in JOIN_KINDS
        base = d["l"] if kind in LAYER_KINDS else (r["enter"] if kind in JOIN_KINDS else 0)
        e = cat.setdefault(kind, {"class": r["class"], "cls": {}, "scenarios": set(), "path_lens": set()})
        if kind in ("layer_cap", "init_cap"):
            e["path_lens"].add(d["j"])        # scenario attribute: 0 = tree height equals cap height
        if e["class"] != r["class"]:
            raise ToolError("inconsistent class for %s" % kind)
        e["scenarios"].add(json.dumps([d, r["ps"], r["bs"], r["batched"], r["nl"]], sort_keys=True))
        for c, n in r["n"].items():
            if n["t"] == 0:
                continue
            ce = e["cls"].setdefault(c, {"t": 0, "a": 0, "gt": 0, "ga": 0, "first": set(), "fails": set()})
            for k in ("t", "a", "gt", "ga"):
                ce[k] += n[k]
            for s in r["sets"][c]:
                ce["first"].add(_rel(s["first"], base, r["nl"], layered))
                ce["fails"].add(tuple(sorted(_rel(x, base, r["nl"], layered) for x in s["fails"])))
    return cat


def catalogue_json(cat):
    out = {}
    for k, e in sorted(cat.items()):
        out[k] = {"class": e["class"], "scenarios": len(e["scenarios"]), "path_lens": sorted(e.get("path_lens", [])),
                  "cls": {c: {"total": v["t"], "accepted": v["a"], "generic_total": v["gt"], "generic_accepted": v["ga"],
                              "first": sorted(map(list, v["first"])), "fails": sorted([list(map(list, f)) for f in v["fails"]])}
                          for c, v in sorted(e["cls"].items())}}
    return out


def check_catalogue(cat):
    """the aggregated counts must show the pattern the per-state invariants promise (and the
    'strictly below one' part that no single state can show)"""
    for k, e in cat.items():
        for c, v in e["cls"].items():
            if e["class"] == "accept" and v["a"] != v["t"]:
                raise ToolError("catalogue: %s/%s not always accepted in the model" % (k, c))
            if e["class"] == "reject":
                if c == "miss" and v["a"] != v["t"]:
                    raise ToolError("catalogue: %s misses rejected in the model" % k)
                if c not in ("miss", "off") and v["ga"] != 0:
                    raise ToolError("catalogue: %s/%s accepted under generic challenges" % (k, c))
            if e["class"] == "partial" and not (v["gt"] > 0 and v["ga"] < v["gt"]):
                raise ToolError("catalogue: %s is not rejected for a positive fraction" % k)
    for k in ("layer_cap", "init_cap"):
        if 0 not in cat.get(k, {}).get("path_lens", ()):
            raise ToolError("catalogue lacks the 'tree height = cap height' (empty path) scenario of %s" % k)


def expected_verdict(cat, kind, classes, binding_bits):
    """(verdict or None, catalogue class) for a harness record"""
    ck = KIND_MAP.get(kind, kind)
    if ck not in cat:
        raise ToolError("deviation %s has no entry in the specification's catalogue" % ck)
    e = cat[ck]
    for c in set(classes):
        if c not in e["cls"]:
            raise ToolError("catalogue entry %s lacks position class %s" % (ck, c))
    if e["class"] == "accept":
        return "accept", e
    if e["class"] == "reject":
        return ("reject" if any(c != "miss" for c in classes) else "accept"), e
    return ("reject" if binding_bits >= 50 else None), e


def expected_first(e, kind, dev, classes, nl):
    """set of message classes the first failing check may have (implementation-shaped tier)"""
    first_cls = next((c for c in classes if c != "miss"), None)
    if first_cls is None:
        return None
    ck = KIND_MAP.get(kind, kind)
    base = dev.get("layer", 0) if ck in LAYER_KINDS else (dev.get("join", 0) if ck in JOIN_KINDS else 0)
    out = set()
    for (name, off) in e["cls"][first_cls]["first"]:
        if name == "C":
            out.add("Final" if base + off >= nl else "Consistency")
        else:
            out.add(name)
    return out


# ------------------------------------------------------------------------------------------
def _tlc_fv(cfgname, workers, timeout):
    return cfgname, common.tlc("MCFriVerifier", cfg=cfgname, workers=workers, timeout=timeout, heap="3g")


def _canary(k):
    r = common.tlc("MCFriVerifier", cfg="MCFriVerifier_canary_" + k, workers=1, timeout=600, heap="1g")
    return k, r


def validate_events(chk, path, name, key, workers=4):
    """TLC-validate recorded events; every rejected event is a violation (removed, repeat)."""
    rows = common.read_ndjson(path)
    for _ in range(8):
        r = common.tlc("FriParamsTrace", cfg="FriParamsTrace", workers=workers, timeout=900, env={"TRACE": path},
                       tag="c05trace-" + name)
        chk.add_tlc("trace validation: %s (%d events)" % (name, len(rows)), r)
        if r.ok:
            chk.traces += 1
            return rows
        idx = None
        for m in re.finditer(r"/\\ l = (\d+)", r.raw):
            idx = int(m.group(1))
        if not idx or idx > len(rows):
            raise ToolError("TLC rejected %s but no event index was found:\n%s" % (name, r.raw[-1500:]))
        bad = rows[idx - 1]
        chk.violation("%s/%s" % (key, bad.get("ev")), "recorded behaviour violates the property-level predicate of spec/FriParams.tla",
                      {"event": bad, "spec": "spec/FriParamsTrace.tla", "case": bad.get("case"), "engine": bad.get("engine")})
        rows = rows[:idx - 1] + rows[idx:]
        common.write_ndjson(path, rows)
    return rows


def compare_cases(chk, cat, rows, engine, stats, events, violate=True):
    """compare the harness's observations with the catalogue; returns number of discrepancies"""
    disc = 0
    for r in rows:
        if "harness_panic" in r:
            raise ToolError("harness panicked outside the code under test: %s" % r["harness_panic"][:300])
        cfg = r["cfg"]
        stats["cases"] += 1
        if engine == "fri":
            ev = {"ev": "proof", "engine": engine, "case": r["case"], "db": cfg["db"], "rb": cfg["rb"], "cap": cfg["cap"],
                  "bits": r.get("bits", []), "adm": bool(r.get("adm")), "accepted": r.get("honest", {}).get("v") == "accept",
                  "final_len": r.get("final_len", -1), "final_len_params": r.get("final_len_params", -1)}
            if "params_panic" in r:
                stats["params_panics"].append({"case": r["case"], "cfg": cfg, "panic": r["params_panic"]})
                continue
            events.append(ev)
            if not r.get("adm"):
                stats["inadmissible"] += 1
                if len(stats["inadmissible_samples"]) < 4:
                    stats["inadmissible_samples"].append({"cfg": cfg, "bits": r.get("bits"), "outcome": r.get("inadmissible_outcome")})
                continue
        else:
            events.append({"ev": "proof", "engine": engine, "case": r["case"], "db": cfg["degs"][0], "rb": cfg["rb"], "cap": cfg["cap"],
                           "bits": cfg["bits"], "adm": True, "accepted": r["honest"]["v"] == "accept",
                           "final_len": r.get("final_len", -1), "final_len_params": r.get("final_len_params", -1)})
        stats["evaluations"] += 1
        if r["honest"]["v"] != "accept":
            continue            # decided by TLC on the "proof" event
        if engine == "fri" and not r.get("spec_prover_reproduces_proof"):
            chk.note_drift({"what": "the spec prover (prove_openings/fri_committed_trees re-assembled) does not reproduce the real proof",
                            "case": r["case"], "cfg": cfg})
        nl = r.get("num_layers", len(cfg.get("bits", [])))
        ok_case = True
        for d in r.get("devs", []):
            stats["evaluations"] += 1
            kind, classes, v = d["kind"], d["classes"], d["verdict"]
            stats["keys"].add(json.dumps([engine, kind, d["mode"], cfg.get("strategy", "Fixed").split("(")[0], nl, d.get("last"),
                                          sorted(set(classes)), v["v"], d.get("path_len") == 0]))
            if kind in ("degree_scaled", "final_extend", "final_truncate"):
                sg = stats.setdefault("shape_cases", {})
                kk = engine + "/" + kind + ("/e=%d" % d["e"] if "e" in d else "")
                sg[kk] = sg.get(kk, 0) + 1
            if d.get("path_len") == 0 and any(c != "miss" for c in classes):
                ep = stats.setdefault("empty_path", {})
                ep[engine + "/" + kind] = ep.get(engine + "/" + kind, 0) + 1
            if v["v"] == "panic":
                stats["panics"].append({"engine": engine, "case": r["case"], "kind": kind, "err": v["err"][:200]})
            observed = "accept" if v["v"] == "accept" else "reject"
            if kind in POW_KINDS:
                stats["by_kind"].setdefault(kind + "/" + d["mode"], {"accept": 0, "reject": 0, "panic": 0, "unasserted": 0})[v["v"]] += 1
                events.append({"ev": "pow", "engine": engine, "case": r["case"], "kind": kind, "mode": d["mode"],
                               "zeros": d["zeros"], "bits": cfg["pow"], "accepted": observed == "accept"})
                continue
            exp, entry = expected_verdict(cat, kind, classes, cfg["binding_bits"])
            stats["by_kind"].setdefault(kind + "/" + d["mode"], {"accept": 0, "reject": 0, "panic": 0, "unasserted": 0})
            stats["by_kind"][kind + "/" + d["mode"]][v["v"]] += 1
            if exp is None:
                stats["by_kind"][kind + "/" + d["mode"]]["unasserted"] += 1
                continue
            if exp != observed:
                disc += 1
                ok_case = False
                payload = {"engine": engine, "case": r["case"], "cfg": cfg, "dev": d, "expected": exp,
                           "catalogue": catalogue_json({KIND_MAP.get(kind, kind): entry}),
                           "how": "vh c05-%s --only %d" % (engine, r["case"])}
                if not violate:
                    continue
                if exp == "reject":
                    chk.violation("C05/accepted/%s/%s" % (engine, kind),
                                  "a deviating opening proof (%s) is accepted by the real verifier" % kind, payload)
                else:
                    chk.note_drift({"what": "specification expects acceptance, real verifier rejects", "kind": kind,
                                    "case": r["case"], "engine": engine, "err": v.get("err")})
                continue
            if observed == "reject" and v["v"] == "reject":
                ef = expected_first(entry, kind, d, classes, nl)
                if ef is not None and v.get("check") not in ef and d["mode"] == "fixed":
                    stats["first_mismatch"] += 1
                    if violate:
                        chk.note_drift({"what": "first failing check differs from the specification's verifier order",
                                        "kind": kind, "expected": sorted(ef), "observed": v.get("check"), "case": r["case"], "engine": engine})
        if ok_case:
            stats["matched_cases"] += 1
    return disc


def run(chk, tier):
    thorough = tier == "thorough"
    chk.rule = ("model: every scenario (instance x deviation) of FriVerifier x every challenge tuple x every query position "
                "(exhaustive over F_17; F_97 with all alphas and 13 betas in thorough), every schedule tuple of FriParams; "
                "implementation: one evaluation = one call of the real verify_fri_proof / verify_batch_fri_proof / "
                "reduction_arity_bits; a case is non-trivial and distinct if its (engine, deviation kind, mode, strategy, "
                "number of layers, last-layer flag, set of position classes, verdict) tuple or its schedule tuple is new")
    chk.assumptions = ["TLC and the Json community module are correct",
                       "Merkle binding is abstract in the model (collision resistance of Poseidon is assumed)",
                       "soundness-type expectations for probabilistic deviations only under >= 50 bits of binding",
                       "extension-field challenges are generic (alpha != 0, beta outside the base-field domains)"]
    os.makedirs(common.OUT, exist_ok=True)
    # ------------------------------------------------------------------ A: all TLC runs of the models, concurrently
    if thorough:
        cfgs = ["MCFriVerifier_F17", "MCFriVerifier_F17_batch", "MCFriVerifier_F97_a4", "MCFriVerifier_F97_n32",
                "MCFriVerifier_F97_batch"]
    else:
        cfgs = ["MCFriVerifier_F17_small", "MCFriVerifier_F17_batch_small"]
    pool = ThreadPoolExecutor(max_workers=6)
    f_params = pool.submit(common.tlc, "MCFriParams", cfg="MCFriParams", workers=4, timeout=1800)
    f_fv = [pool.submit(_tlc_fv, c, 5, 3000) for c in cfgs]
    f_pcan = [(can, inv, pool.submit(common.tlc, "MCFriParams", cfg="MCFriParams_canary_" + can, workers=2, timeout=900))
              for can, inv in (("cap", "ConstOk"), ("strict", "MinOk"))]
    f_can = [pool.submit(_canary, k) for k in CHECKS + ["none"]]

    # ------------------------------------------------------------------ A1/B/C: schedules
    r = f_params.result()
    chk.add_tlc("FriParams: all schedules degree_bits<=12 rate<=4 cap<=5 q<=4", r)
    if not r.ok:
        raise ToolError("FriParams transcription violates %s (spec-level inconsistency)" % r.violated)
    lines = common.tagged(r.prints, "REPLAY")
    linep = os.path.join(common.OUT, "c05_params_lines.jsonl")
    common.write_ndjson(linep, lines)
    chk.sample({"schedule_line_from_TLC": next(l for l in lines if l["s"]["kind"] == "MinSize" and l["db"] == 12)})
    realp = os.path.join(common.OUT, "c05_params_real.ndjson")
    res = common.vh(["c05-params", "--in", linep, "--out", realp], binname="c05")[-1]
    chk.evaluations += res["tuples"]
    chk.nontrivial += res["distinct"]
    chk.extra["schedules"] = {"tuples": res["tuples"], "identical_to_spec": res["same"], "real_panics_predicted_by_spec": res["panics"],
                              "panic_samples": res["panic_samples"]}
    evs = common.read_ndjson(realp)
    differing = set()
    for m in res["mismatches"]:
        chk.note_drift({"what": "reduction_arity_bits differs from the transcription (decided by the trace validation)", "case": m})
        differing.add(json.dumps([m["line"]["s"]["kind"], m["line"]["db"], m["line"]["rb"], m["line"]["cap"], m["line"]["q"]]))
        if "real_panic" in m:
            chk.note_drift({"what": "reduction_arity_bits panics where the transcription returns a schedule", "case": m})
    # outputs identical to the specification's satisfy its invariants by A; TLC re-validates the recorded real
    # outputs: all of them in thorough, every differing one plus a sixth in quick
    if not thorough:
        evs = [e for i, e in enumerate(evs) if i % 6 == 0 or json.dumps([e["kind"], e["db"], e["rb"], e["cap"], e["q"]]) in differing]
        common.write_ndjson(realp, evs)
    validate_events(chk, realp, "schedules of the real reduction_arity_bits", "C05/schedule", workers=6)
    chk.traces += res["same"]
    # binding canary (C): one corrupted event must be rejected
    evs = common.read_ndjson(realp)
    k = next(i for i, e in enumerate(evs) if e["sched_ok"] and e["bits"])
    bad = dict(evs[k], final_len=evs[k]["final_len"] * 2)
    canp = os.path.join(common.OUT, "c05_params_canary.ndjson")
    common.write_ndjson(canp, evs[max(0, k - 5):k] + [bad] + evs[k + 1:k + 20])
    rc = common.tlc("FriParamsTrace", cfg="FriParamsTrace", workers=2, timeout=300, env={"TRACE": canp}, tag="c05trace-canary")
    chk.canary("a schedule event with a wrong final polynomial length is rejected by TLC", rc.violated is not None)
    for can, inv, f in f_pcan:
        chk.canary("FriParams mutant %s violates %s" % (can, inv), f.result().violated == inv)

    # ------------------------------------------------------------------ A2: the protocol model
    rows = []
    for f in f_fv:
        name, r = f.result()
        chk.add_tlc("FriVerifier %s: all challenges x all positions" % name.replace("MCFriVerifier_", ""), r)
        if not r.ok:
            raise ToolError("FriVerifier (%s) violates %s: the model itself is inconsistent" % (name, r.violated))
        rows += common.tagged(r.prints, "REPLAY")
    cat = build_catalogue(rows)
    check_catalogue(cat)
    cj = catalogue_json(cat)
    chk.extra["catalogue"] = cj
    with open(os.path.join(common.OUT, "c05_catalogue.json"), "w") as f:
        json.dump(cj, f, indent=1)
    chk.sample({"catalogue_entry_from_TLC": {"coset_recommit": cj["coset_recommit"]}})
    honest = cat["honest"]["cls"]["hit"]
    log("[c05] catalogue: %d deviation kinds from %d (scenario, challenge-prefix) states; honest %d/%d accepted" % (
        len(cat), len(rows), honest["a"], honest["t"]))
    # spec canaries: each verifier check switched off must let some deviation through
    for f in f_can:
        k, r = f.result()
        if k == "none":
            if not r.ok:
                raise ToolError("canary configuration with nothing disabled is violated: " + str(r.violated))
            continue
        chk.canary("Disabled={%s}: TLC finds an accepted deviation (Soundness violated)" % k, r.violated == "Soundness")
    pool.shutdown()

    # ------------------------------------------------------------------ B: the real code
    n_fri = 6000 if thorough else 500
    n_batch = 2000 if thorough else 150
    frip = os.path.join(common.OUT, "c05_fri.ndjson")
    batp = os.path.join(common.OUT, "c05_batch.ndjson")
    common.vh(["c05-fri", "--n", n_fri, "--out", frip], binname="c05", timeout=3000)
    common.vh(["c05-batch", "--n", n_batch, "--out", batp], binname="c05", timeout=3000)
    stats = {"cases": 0, "evaluations": 0, "matched_cases": 0, "inadmissible": 0, "inadmissible_samples": [], "params_panics": [],
             "panics": [], "keys": set(), "by_kind": {}, "first_mismatch": 0}
    events = []
    fri_rows = common.read_ndjson(frip)
    bat_rows = common.read_ndjson(batp)
    compare_cases(chk, cat, fri_rows, "fri", stats, events)
    compare_cases(chk, cat, bat_rows, "batch", stats, events)
    first = next(r for r in fri_rows if r.get("devs"))
    chk.sample({"real_case": {"cfg": first["cfg"], "bits": first["bits"], "honest": first["honest"], "deviation": first["devs"][min(5, len(first["devs"]) - 1)]}})
    chk.sample({"real_batch_case": {"cfg": bat_rows[0]["cfg"], "deviation": bat_rows[0].get("devs", [None])[0]}})
    evp = os.path.join(common.OUT, "c05_events.ndjson")
    common.write_ndjson(evp, events)
    validate_events(chk, evp, "honest proofs, final lengths and pow verdicts of the real code", "C05/real", workers=8)
    # coverage guard: the Merkle-only deviations must have been replayed where the path is empty
    ep = stats.get("empty_path", {})
    for eng, kinds in EMPTY_PATH_GUARD.items():
        for kd in kinds:
            if ep.get(eng + "/" + kd, 0) == 0:
                raise ToolError("coverage guard: no '%s' deviation on a tree whose height equals the cap height (%s engine)" % (kd, eng))
    chk.extra["empty_path_cases"] = ep
    # coverage guard: the deviations only the final-polynomial length check (Shape) stands against
    sg = stats.get("shape_cases", {})
    for eng in ("fri", "batch"):
        for kk in ("degree_scaled/e=1", "degree_scaled/e=2", "final_extend", "final_truncate"):
            if sg.get(eng + "/" + kk, 0) == 0:
                raise ToolError("coverage guard: no '%s' case in the %s engine" % (kk, eng))
    chk.extra["shape_cases"] = sg
    chk.evaluations += stats["evaluations"]
    chk.nontrivial += len(stats["keys"])
    chk.traces += stats["matched_cases"]
    chk.extra["replay"] = {"cases": stats["cases"], "matched_cases": stats["matched_cases"], "inadmissible_configs": stats["inadmissible"],
                           "inadmissible_samples": stats["inadmissible_samples"], "params_panics": stats["params_panics"][:5],
                           "verifier_panics": len(stats["panics"]), "verifier_panic_samples": stats["panics"][:5],
                           "first_check_mismatches": stats["first_mismatch"], "by_kind": stats["by_kind"]}
    log("[c05] replay: %d cases, %d verifier calls, %d distinct non-trivial, %d verifier panics" % (
        stats["cases"], stats["evaluations"], len(stats["keys"]), len(stats["panics"])))
    # the one-degree slack of the opening argument: recorded, decided by the specification (accept)
    dn = stats["by_kind"].get("degree_n/fs", {})
    chk.extra["degree_slack"] = {"what": "a committed polynomial of degree exactly n = 2^degree_bits (n+1 coefficients) with its true "
                                 "evaluations is accepted: the quotient has n coefficients, the padding coefficient is not checked",
                                 "model": cj.get("degree_n"), "real": dn}
    # ------------------------------------------------------------------ binding canary (B)
    flipped = {k: dict(v) for k, v in cat.items()}
    flipped["final_edit"] = dict(cat["final_edit"], **{"class": "accept"})
    s2 = {"cases": 0, "evaluations": 0, "matched_cases": 0, "inadmissible": 0, "inadmissible_samples": [], "params_panics": [],
          "panics": [], "keys": set(), "by_kind": {}, "first_mismatch": 0}
    d = compare_cases(chk, flipped, fri_rows[:60], "fri", s2, [], violate=False)
    chk.canary("one flipped expectation of the catalogue surfaces as a discrepancy", d > 0)
    # feed the tamper loop an untampered proof: an honest proof reported as 'final_edit' must be flagged
    fake = json.loads(json.dumps(first))
    fake["devs"] = [dict(first["devs"][0], kind="final_edit", classes=["hit"], verdict={"v": "accept"})]
    d = compare_cases(chk, cat, [fake], "fri", dict(s2, keys=set(), by_kind={}), [], violate=False)
    chk.canary("an accepted 'tampered' proof is reported", d == 1)


def replay(path):
    p = json.load(open(path))
    print(json.dumps({k: p[k] for k in p if k != "catalogue"}, indent=1)[:3000])
    case = p.get("case")
    engine = p.get("engine", "fri")
    if case is None:
        return 1
    os.environ["VERIF_SEED"] = str(p.get("seed", common.seed()))
    outp = os.path.join(common.OUT, "c05_replay.ndjson")
    common.vh(["c05-" + engine, "--n", case + 1, "--only", case, "--out", outp], binname="c05")
    rows = common.read_ndjson(outp)
    if not rows:
        print("case not reproduced")
        return 2
    r = rows[0]
    if "event" in p:
        print("re-run:", json.dumps({k: r.get(k) for k in ("cfg", "bits", "adm", "honest", "final_len", "final_len_params")}))
        ev = p["event"]
        same = (r.get("honest", {}).get("v") == "accept") == ev.get("accepted", True) and r.get("final_len", -1) == ev.get("final_len", -1)
        print("recorded event reproduced" if same else "behaviour differs from the recorded event")
        return 1 if same else 0
    want = p.get("dev", {})
    for d in r.get("devs", []):
        if d["kind"] == want.get("kind") and d["mode"] == want.get("mode") and d.get("layer") == want.get("layer"):
            print("re-run:", json.dumps(d))
            obs = "accept" if d["verdict"]["v"] == "accept" else "reject"
            if obs != p.get("expected"):
                print("still differs from the specification's verdict", p.get("expected"))
                return 1
    return 0
