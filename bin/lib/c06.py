"""C06 — the in-circuit verifier accepts exactly what the native verifier accepts.
A: TLC checks spec/RecVerifier.tla (instance "plonk", 0..3 commit-phase layers): the circuit's check
   list refines the native one check by check (Refines), both derive their challenges from the same
   transcript (FS3), for every adversary class the circuit's constraint set is satisfiable exactly
   when the native list passes (Agree), every check is the only detector of some class (Adequate);
   value-level lemmas (grinding range check, index bits) as assumptions.  One run per disabled
   circuit-side check (grinding, final polynomial, constants/sigmas cap, one vanishing index, a
   layer's Merkle check) must violate Agree; the class TLC names must be in the replay.
   TLC prints the class catalogue with expected verdicts (REPLAY lines).
B: inner circuits = programs of spec/Programs.tla under configurations of spec/Configs.tla; per inner
   shape one outer circuit; every class is made concrete (seeded positions), judged by the native
   verifier and presented to the outer circuit through the library's assignment routines, witness
   generation and the satisfaction oracle; on a sample the outer proof is produced and verified."""
import json
import os
import random
import re
from concurrent.futures import ThreadPoolExecutor

import common
import c01
from common import ToolError, log

LEVEL = "model_checking"
BIN = "c06"

PLONK_CFGS = {0: "RecVerifier_plonk_l0", 1: "RecVerifier_plonk_l1", 2: "RecVerifier_plonk", 3: "RecVerifier_plonk_l3"}
CANARIES = {  # disabled circuit-side check -> cfg
    "grinding range check": "RecVerifier_canary_pow",
    "last bit of the grinding range check (one leading zero too few enforced)": "RecVerifier_canary_pow1",
    "Merkle check of the Z/partial-products oracle": "RecVerifier_canary_oracle2",
    "length check of the assignment routine (surplus elements silently dropped)": "RecVerifier_canary_assign",
    "final polynomial equality": "RecVerifier_canary_final",
    "constants/sigmas Merkle cap": "RecVerifier_canary_cap",
    "vanishing identity of challenge index 1": "RecVerifier_canary_vanishing1",
    "Merkle check of commit-phase layer 1": "RecVerifier_canary_layermerkle",
}


def kind_of_id(cid):
    for k in ("Vanishing", "Pow", "Consistency", "Final"):
        if cid.startswith(k):
            return k
    if cid.startswith("InitMerkle") or cid.startswith("LayerMerkle"):
        return "Merkle"
    return cid


def kind_of_detail(d):
    if "proof of work" in d:
        return "Pow"
    if "Final polynomial" in d:
        return "Final"
    if "Merkle" in d:
        return "Merkle"
    if "vanishing_polys_zeta" in d or "quotient polynomial" in d:
        return "Vanishing"
    if "evals[x_index_within_coset]" in d:
        return "Consistency"
    return "other:" + d[:30]


LAST_PRINTS = {}


def model_runs(chk, cfgs, canaries, module="RecVerifier", extra_ok=(), mutants=()):
    """runs the catalogue configurations and the canaries (3 TLC at a time); returns ({key: lines}, {canary: class})"""
    jobs = [("cat", k, c) for k, c in cfgs.items()] + [("can", k, c) for k, c in canaries.items()] + [("ok", c, c) for c in extra_ok]

    def one(j):
        return j, common.tlc(module, cfg=j[2], workers=2, timeout=600, tag=j[2])

    cats, named = {}, {}
    with ThreadPoolExecutor(max_workers=3) as ex:
        for (what, key, cfg), r in ex.map(one, jobs):
            if what == "can":
                if r.violated is None:
                    chk.canary("spec canary: %s switched off must break the agreement (%s)" % (key, cfg), False)
                m = re.findall(r'name \|-> "([^"]+)"', r.raw)
                named[key] = m[-1] if m else None
                if key in mutants:
                    chk.canaries["spec mutant: %s -> TLC counterexample (%s)" % (key, r.violated)] = True
                    continue
                chk.canaries["spec canary: with the %s switched off TLC finds a class on which circuit and native verdict differ (%s)" % (key, named[key])] = True
                continue
            if not r.ok:
                raise ToolError("spec %s violates %s under %s" % (module, r.violated, cfg))
            chk.add_tlc("%s %s" % (module, cfg), r)
            if what == "cat":
                cats[key] = common.tagged(r.prints, "REPLAY")
                LAST_PRINTS[key] = r.prints
    return cats, named


def shapes(chk, tier, rnd):
    """(program, configuration, padding, outer configuration) candidates per slot"""
    thorough = tier == "thorough"
    with ThreadPoolExecutor(max_workers=3) as ex:
        f1 = ex.submit(c01.tlc_programs, chk, "Programs_len1", "Programs: all one-instruction programs")
        f2 = ex.submit(c01.tlc_programs, chk, "Programs_sim", "Programs: simulated programs", 300 if thorough else 40, 13, False)
        f3 = ex.submit(common.tlc, "Configs", "Configs", 1, 300)
        p1, psim, rc = f1.result(), f2.result(), f3.result()
    if not rc.ok:
        raise ToolError("spec Configs: " + str(rc.violated))
    psim = [p for p in psim if len(p["prog"]["instrs"]) >= 3]
    key = lambda p: json.dumps(p["prog"], sort_keys=True)
    p1.sort(key=key)
    psim.sort(key=key)
    rnd.shuffle(p1)
    rnd.shuffle(psim)
    # the lattice and the input-class vectors of spec/Configs.tla (its FriAdmissible table is confronted with the harness by C01)
    cfgs = sorted(common.tagged(rc.prints, "CFGS")[0], key=lambda c: json.dumps(c, sort_keys=True))
    classes = sorted(common.tagged(rc.prints, "CLASSES")[0], key=lambda c: json.dumps(c, sort_keys=True))
    alg = [c for c in cfgs if not c["keccak"] and c["width"] != "narrow"]
    strong = [c for c in alg if c["q"] * c["rate"] + c["pow"] >= 50 and not c["zk"]]
    strong_zk = [c for c in alg if c["q"] * c["rate"] + c["pow"] >= 50 and c["zk"] and c["q"] <= 14]
    weak = [c for c in alg if c["q"] * c["rate"] + c["pow"] < 50 and not c["zk"]]
    layered = [c for c in strong if (c["strat"] == "const" and c["arities"][0] <= 2) or (c["strat"] == "fixed" and len(c["arities"]) >= 1)]
    std = {"zk": False, "strat": "const", "arities": [4, 5], "rate": 3, "cap": 4, "nch": 2, "width": "std", "q": 28, "pow": 16, "keccak": False}
    uses = lambda p, ops: any(i["op"] in ops for i in p["prog"]["instrs"])
    lookups = [p for p in p1 + psim if uses(p, ("lookup",))]
    hashes = [p for p in p1 + psim if uses(p, ("hash", "hash_or_noop", "merkle"))]
    plain = [p for p in p1 + psim if not uses(p, ("lookup", "hash", "hash_or_noop", "merkle"))]
    pick = lambda xs: xs[rnd.randrange(len(xs))]
    # slot = (program pool, configuration pool, padding choices, outer configuration)
    # slot 0: the standard configuration with 8 grinding bits, so that the boundary classes of the grinding condition
    # (exactly 7 / exactly 8 leading zeros, found by hashing ~2^8 candidates) are cheap
    pow8 = dict(std, pow=8)
    slots = [
        (plain, [pow8], [0], {}),
        (psim, layered, [40, 100, 200], {}),
        (lookups, [std] + strong, [0, 30], {}),
        (plain + hashes, strong_zk, [0], {}),
        (hashes, [c for c in strong if c["nch"] == 3], [0, 60], {"keccak": True}),
        (plain, weak, [0, 100], {"nch": 3, "cap": 1}),
    ]
    if thorough:
        more = []
        for i in range(24):
            pool = [plain, psim, lookups, hashes][i % 4]
            cpool = [strong, layered, strong, strong_zk, layered, weak][i % 6]
            outer = [{}, {"nch": 3}, {"cap": 0}, {"keccak": True}, {"zk": True}, {"width": "wide"}, {"cap": 2, "strat": "const", "arities": [3, 4]}][i % 7]
            more.append((pool, cpool, [0, 50, 150, 300], outer))
        slots += more
    rows = []
    for si, (pool, cpool, pads, outer) in enumerate(slots):
        for k in range(6):                       # candidates: the harness takes the first usable one
            p = pick(pool)
            rows.append({"id": "s%d_%d" % (si, k), "slot": si, "prog": p["prog"], "cfg": pick(cpool), "inputs": pick(classes),
                         "pad": pick(pads), "outer": outer})
    return rows, len(slots)


def run_parallel(rows, name, nproc, extra=None, nslots=None):
    # all candidates of a slot go to the same process; zero-knowledge shapes (2^12 rows of blinding) are spread first
    slots = sorted({r["slot"] for r in rows}, key=lambda k: (not any(r["cfg"]["zk"] for r in rows if r["slot"] == k), k))
    where = {k: i % nproc for i, k in enumerate(slots)}
    parts = [[r for r in rows if where[r["slot"]] == i] for i in range(nproc)]
    files = []
    for i, part in enumerate(parts):
        fp = os.path.join(common.OUT, "%s.part%d.ndjson" % (name, i))
        common.write_ndjson(fp, part)
        files.append(fp)
    common.build_harness("release", BIN)

    def one(fp):
        return common.vh(["run", "--in", fp] + (extra or []), binname=BIN, timeout=3400, env={"RAYON_NUM_THREADS": "3"})

    with ThreadPoolExecutor(max_workers=nproc) as ex:
        outs = list(ex.map(one, files))
    return [r for o in outs for r in o]


def judge(rows_by_id, res, cats, report, selftest=False):
    """report(kind, key, detail, payload); returns statistics.  Rows of the in-run binding self-test
    (flag "selftest") are judged only when `selftest` is set, and only then."""
    st = {"cases": 0, "agree_accept": 0, "agree_reject": 0, "unassignable": 0, "outer_checked": 0, "classes": {}, "shapes": 0,
          "stages": {}, "distinct": set(), "first_mismatch": {}, "skipped": {}}
    shape = {}
    for x in res:
        if "skipped" in x:
            k = x["skipped"][:40]
            st["skipped"][k] = st["skipped"].get(k, 0) + 1
            continue
        if "shape" in x:
            shape[x["id"]] = x["shape"]
            st["shapes"] += 1
            continue
        if "class" not in x or x.get("empty") or bool(x.get("selftest")) != selftest:
            continue
        s = rows_by_id[x["id"]]
        sh = shape[x["id"]]
        nl = min(len(sh["layers"]), 3)
        exp = cats[nl].get(x["class"])
        if exp is None:
            raise ToolError("class %s is not in the catalogue of spec/RecVerifier.tla (NL=%d)" % (x["class"], nl))
        st["cases"] += 1
        payload = {"scenario": s, "class": x["class"], "shape": sh, "expected": {"spec": exp, "rule": "circuit acceptance = native verdict"},
                   "observed": x}
        if x["class"].startswith("shape:"):
            # shape classes: the assignment routine refusing (Err / clean panic) IS the circuit-side rejection
            lst, direction = x["class"][6:].rsplit(":", 1)
            accepted = bool(x["assignable"] and x["circuit"])
            sc_ = st.setdefault("shape", {}).setdefault(lst, {"surplus": 0, "short": 0, "native_shape_reject_surplus": 0})
            sc_[direction] += 1
            cl = st["classes"].setdefault(x["class"], {"n": 0, "native_reject": 0})
            cl["n"] += 1
            cl["native_reject"] += 0 if x["native"] else 1
            if direction == "surplus" and not x["native"] and kind_of_detail(x["native_detail"]).startswith("other:"):
                sc_["native_shape_reject_surplus"] += 1
            st["stages"][x["stage"]] = st["stages"].get(x["stage"], 0) + 1
            if accepted != x["native"]:
                report("violation", "C06/shape/%s/%s" % (lst, direction),
                       "the native verifier %s the inner proof (%s) but the outer circuit %s the assignment derived from it (%s)" % (
                           "accepts" if x["native"] else "rejects", x["native_detail"][:80], "accepts" if accepted else "rejects", x["stage"]), payload)
            else:
                st["agree_accept" if x["native"] else "agree_reject"] += 1
                st["distinct"].add((x["id"], x["class"], json.dumps(x["desc"], sort_keys=True)))
            o = x.get("outer")
            if o and accepted and not x["native"]:
                payload["observed_outer"] = o
            continue
        if not x["assignable"]:
            st["unassignable"] += 1
            continue
        st["stages"][x["stage"]] = st["stages"].get(x["stage"], 0) + 1
        cl = st["classes"].setdefault(x["class"], {"n": 0, "native_reject": 0})
        cl["n"] += 1
        cl["native_reject"] += 0 if x["native"] else 1
        base = x["class"].split(":")[0]
        if base in ("init_path", "step_path") and not x["native"] and not x["circuit"] and "Merkle" in x["native_detail"]:
            sib = st.setdefault("siblings", {}).setdefault(x["id"], {"init": set(), "step": set(), "nrounds": None})
            if base == "init_path":
                sib["init"].add((x["desc"]["oracle"], "last" if x["class"].endswith("@last") else "first", x["desc"]["round"]))
            else:
                sib["step"].add((x["desc"]["layer"], "last" if x["class"].endswith("@last") else "first"))
        if x["class"] in ("pow_short1", "pow_exact"):
            st.setdefault("pow_boundary", []).append({"class": x["class"], "desc": x["desc"], "native": x["native"], "native_detail": x["native_detail"],
                                                      "circuit": x["circuit"]})
        if x["circuit"] != x["native"]:
            report("violation", "C06/disagree/%s/native-%s" % (x["class"], "accepts" if x["native"] else "rejects"),
                   "in-circuit acceptance (%s, %s) differs from the native verdict (%s %s)" % (x["circuit"], x["stage"], x["native"], x["native_detail"]), payload)
        else:
            st["agree_accept" if x["native"] else "agree_reject"] += 1
            if x["changed"] or x["class"] == "none":
                st["distinct"].add((x["id"], x["class"], json.dumps(x["desc"], sort_keys=True)))
        strong = sh["binding_bits"] >= 50
        if exp["expect"] == "reject" and x["native"] and strong and x["changed"]:
            report("drift", "native-accepts/%s" % x["class"], "the model expects the native verifier to reject class %s (C02/C03's statement)" % x["class"], payload)
        if exp["expect"] == "accept" and not x["native"]:
            report("drift", "native-rejects-honest", "honest inner proof rejected natively: %s" % x["native_detail"], payload)
        if not x["native"] and exp["first"] and x["changed"] and strong and s["cfg"]["pow"] >= 16:
            k = kind_of_detail(x["native_detail"])
            if k not in {kind_of_id(i) for i in exp["first"]}:
                st["first_mismatch"].setdefault(x["class"], k)
        o = x.get("outer")
        if o:
            st["outer_checked"] += 1
            if x["circuit"] and not (o["proved"] and o["verified"] and o["pis_match"]):
                report("violation", "C06/outer-proof/%s" % x["class"], "a natively valid inner proof did not yield a verifying outer proof carrying its public inputs: %s" % json.dumps(o), payload)
            if not x["circuit"] and o["verified"]:
                report("violation", "C06/outer-accepted/%s" % x["class"], "an outer proof was obtained and accepted for a natively rejected inner proof", payload)
    return st


def scenario_classes(cats):
    return {str(nl): sorted(l["class"] for l in lines) for nl, lines in cats.items()}


def run(chk, tier):
    thorough = tier == "thorough"
    rnd = random.Random(common.seed() + 6)
    chk.rule = ("per inner shape (TLC-enumerated program x configuration of the lattice, Poseidon inner config) one outer circuit; "
                "every class of the catalogue printed by spec/RecVerifier.tla is made concrete at seeded positions "
                "(one element of each proof component, foreign verifier data, proofs of violating assignments, hook-H8 prover "
                "strategies incl. bad grinding) and judged by native verifier and outer circuit; a case is non-trivial if the "
                "presented (proof, verifier data) differs from the honest one (or is the honest one) and distinct by (shape, class, position)")
    chk.assumptions = ["acceptance of the outer circuit = witness generation succeeds and the satisfaction oracle finds every gate and copy "
                       "constraint satisfied (oracle trusts the gates' eval_unfiltered, see C07)",
                       "the inner configuration uses Poseidon (the recursive verifier requires an AlgebraicHasher; a Keccak inner config cannot be embedded); Keccak outer configurations are exercised",
                       "'must be rejected natively' is only noted (as drift) for inner configurations with >= 50 bits of binding; the asserted statement is the equality of the two verdicts",
                       "slot 0 uses the standard configuration with 8 grinding bits (not a member of the spec/Configs.tla lattice) for the grinding boundary classes",
                       "model: ideal hash (a re-randomised challenge fails every check reading it); 2 query rounds, 2 challenges, 0..3 layers"]
    # ---- A: the model (in the background: harness build; model runs; meanwhile programs and configurations)
    import threading
    bg = {}

    def build():
        try:
            common.build_harness("release", BIN)
        except Exception as e:
            bg["build_error"] = e

    def model():
        try:
            bg["model"] = model_runs(chk, PLONK_CFGS, dict(CANARIES, **{"final polynomial absorption (FS3)": "RecVerifier_canary_sched"}))
        except Exception as e:
            bg["model_error"] = e

    ths = [threading.Thread(target=build), threading.Thread(target=model)]
    for t in ths:
        t.start()
    rows, nslots = shapes(chk, tier, rnd)
    for t in ths:
        t.join()
    for k in ("build_error", "model_error"):
        if k in bg:
            raise bg[k]
    cats_lines, named = bg["model"]
    named.pop("final polynomial absorption (FS3)")
    cats = {nl: {l["class"]: l for l in lines} for nl, lines in cats_lines.items()}
    chk.sample({"catalogue_line": cats_lines[2][0]})
    # ---- B: replay
    sc = scenario_classes(cats_lines)
    for r in rows:
        r["classes"] = sc
        r["per_class"] = (2 if r["cfg"]["zk"] else 3) if thorough else (1 if r["cfg"]["zk"] else 2)
        r["sample"] = 3 if thorough else 2
        r["selftest"] = r["slot"] == 0
    res = run_parallel(rows, "c06_run", 4 if thorough else 3)
    common.write_ndjson(os.path.join(common.OUT, "c06_results.ndjson"), res)
    byid = {r["id"]: r for r in rows}
    drift_seen = set()

    def report(kind, key, detail, payload):
        if kind == "violation":
            chk.violation(key, detail, payload)
        elif key not in drift_seen:
            drift_seen.add(key)
            chk.note_drift({"what": key, "detail": detail, "scenario_id": payload["scenario"]["id"]})

    st = judge(byid, res, cats, report)
    for cls, k in sorted(st["first_mismatch"].items()):
        chk.note_drift({"what": "first failing native check differs from the model's order", "class": cls, "observed": k})
    chk.evaluations += st["cases"]
    chk.nontrivial += len(st["distinct"])
    chk.traces += st["agree_accept"] + st["agree_reject"]
    first = next((x for x in res if x.get("class") == "final_poly" and not x.get("empty")), None)
    chk.sample({"scenario": {k: v for k, v in byid[first["id"]].items() if k != "classes"}, "result": first} if first else "no case")
    chk.extra["outcomes"] = {k: st[k] for k in ("cases", "agree_accept", "agree_reject", "unassignable", "outer_checked", "shapes", "stages", "skipped")}
    chk.extra["classes"] = st["classes"]
    chk.extra["shapes"] = [x["shape"] for x in res if "shape" in x]
    # vacuity: every class of the full model must have been exercised, and rejected natively at least once
    need = {c for c in set(cats[2]) - {"none", "op_lzs", "op_lzs_next", "one_z", "vd_cap_one", "pow_exact"} if not c.startswith("shape:")}
    # shape classes: per list at least one surplus case that the native verifier rejected for a shape reason
    shp = st.get("shape", {})
    chk.extra["shape_classes"] = shp
    lists = {c[6:].rsplit(":", 1)[0] for x in res if "shape" in x for c in cats[min(len(x["shape"]["layers"]), 3)] if c.startswith("shape:")}
    # a list that is empty in every shape (no lookups, a layer whose tree is as small as its cap) has no short case
    empty_short = {x["class"][6:].rsplit(":", 1)[0] for x in res if x.get("empty") and x.get("class", "").startswith("shape:") and x["class"].endswith(":short")}
    tried_surplus = {x["class"][6:].rsplit(":", 1)[0] for x in res if not x.get("empty") and x.get("class", "").startswith("shape:") and x["class"].endswith(":surplus")}
    noshape = sorted(l for l in lists & tried_surplus if shp.get(l, {}).get("native_shape_reject_surplus", 0) == 0
                     or (shp[l]["short"] == 0 and l not in empty_short))
    # permanent cases: the lists whose surplus element the assignment routines used to drop silently (repaired in /repo:
    # set_cap_target / set_extension_targets / lookup opening lengths) are resized in every run
    permanent = ("wires_cap", "zs_cap", "quot_cap", "commit_cap:0", "op_zs_next", "op_quot", "op_lzs", "op_lzs_next", "final_poly")
    if not set(permanent) <= tried_surplus:
        raise ToolError("vacuity: permanent shape cases not exercised: %s" % sorted(set(permanent) - tried_surplus))
    if len(tried_surplus) < 12:
        raise ToolError("vacuity: only %d list classes were resized" % len(tried_surplus))
    if noshape:
        raise ToolError("vacuity: shape classes without a natively shape-rejected surplus case (or without a short case): %s" % noshape)
    missing = sorted(c for c in need if st["classes"].get(c, {}).get("native_reject", 0) == 0)
    if thorough:
        missing += [c for c in ("op_lzs", "op_lzs_next") if st["classes"].get(c, {}).get("n", 0) == 0]
    if missing:
        raise ToolError("vacuity: classes never exercised with a natively rejected proof: %s" % missing)
    # boundary classes of the grinding condition: one bit short is rejected for that reason, exactly enough is accepted
    pb = st.get("pow_boundary", [])
    chk.extra["pow_boundary"] = pb
    if not any(b["class"] == "pow_short1" and not b["native"] and "proof of work" in b["native_detail"] and not b["circuit"] for b in pb) \
            or not any(b["class"] == "pow_exact" and b["native"] and b["circuit"] for b in pb):
        raise ToolError("vacuity: grinding boundary classes not exercised: %s" % pb)
    # one sibling per oracle (first and last query round) in every shape, and per commit-phase layer incl. the last one
    sib = st.get("siblings", {})
    shapes_by_id = {x["id"]: x["shape"] for x in res if "shape" in x}
    gaps, last_layers = [], 0
    for sid, sh in shapes_by_id.items():
        got = sib.get(sid, {"init": set(), "step": set()})
        for o in range(4):
            for rc in ("first", "last"):
                if not any(a == o and b == rc for a, b, _ in got["init"]):
                    gaps.append("%s: oracle %d %s round" % (sid, o, rc))
        if sh["init_siblings"] == 0:
            gaps = [g for g in gaps if not g.startswith(sid + ": oracle")]      # trees as small as their cap: no sibling at all
        nl = len(sh["layers"])
        for l in range(nl):
            # a layer whose tree is as small as its cap has no sibling
            if sh["step_siblings"][l] > 0 and not any(a == l for a, _ in got["step"]):
                gaps.append("%s: layer %d" % (sid, l))
        if nl and any(a == nl - 1 for a, _ in got["step"]):
            last_layers += 1
    chk.extra["sibling_coverage"] = {sid: {"init": sorted("%d/%s" % (a, b) for a, b, _ in v["init"]), "step": sorted("%d/%s" % (a, b) for a, b in v["step"])}
                                     for sid, v in sib.items()}
    if gaps or last_layers == 0:
        raise ToolError("vacuity: Merkle sibling tampers missing: %s (shapes whose last layer was hit: %d)" % (gaps[:6], last_layers))
    if st["agree_accept"] < st["shapes"] or st["shapes"] < (nslots * 2) // 3:
        raise ToolError("vacuity: %d shapes of %d slots, %d accepted cases" % (st["shapes"], nslots, st["agree_accept"]))
    if st["outer_checked"] < st["shapes"]:
        raise ToolError("vacuity: outer prove/verify sampled on %d cases only" % st["outer_checked"])
    # the classes named by the spec canaries were replayed
    for what, cls in named.items():
        chk.canary("the class named by the spec canary (%s: %s) is part of the replay" % (what, cls),
                   cls is not None and st["classes"].get(cls, {}).get("native_reject", 0) > 0)
    # ---- binding canary (rows flagged "selftest"): the circuit was shown the untampered proof while the native
    # verdict is the tampered one's
    flagged = []
    judge(byid, res, cats, lambda kind, key, d, p: flagged.append(key) if kind == "violation" else None, selftest=True)
    chk.canary("binding: a flipped circuit verdict (untampered proof assigned, tampered proof judged natively) is reported",
               any(k.startswith("C06/disagree/final_poly") for k in flagged))


def replay(path):
    p = json.load(open(path))
    s = dict(p["scenario"])
    cls = p["class"]
    s["classes"] = {str(k): ["none", cls] for k in range(4)}
    s["per_class"] = 4
    s.pop("slot", None)
    s["slot"] = 0
    fp = os.path.join(common.OUT, "c06_replay.ndjson")
    common.write_ndjson(fp, [s])
    out = common.vh(["run", "--in", fp], binname=BIN)
    print("scenario :", json.dumps({k: v for k, v in s.items() if k != "classes"})[:1500])
    print("expected :", json.dumps(p.get("expected"))[:600])
    bad = 0
    for x in out:
        if "class" in x and not x.get("empty"):
            print("observed :", json.dumps({k: x[k] for k in ("class", "inst", "desc", "native", "native_detail", "circuit", "stage", "detail")})[:500])
            if x["assignable"] and x["circuit"] != x["native"]:
                bad += 1
    print("re-run: %d disagreements" % bad)
    return 1 if bad else 0
