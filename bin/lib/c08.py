"""C08 — table lookups are provable exactly for pairs contained in the designated table.
A: TLC checks spec/LookupArg.tla (the logarithmic-derivative argument as implemented, over F_13 / F_17 on a scaled
   grid: every table, every honest filling, every single-cell corruption, every challenge: complete, and sound up to the
   Schwartz-Zippel bounds) in the variant that the code implements: `c08 probe` evaluates the crate's own
   check_lookup_constraints on unit vectors and reports which lookup polynomials the InitSre / LastLdc terms constrain
   and which polynomial of the next row the first transition reads; that selects InitOn.  One canary per dropped term
   (Disabled), and the variant `InitSre constrains the FIRST partial polynomial while the chain reads the LAST one`
   (the code before fix) must be refuted by TLC.  spec/LookupLayout.tla enumerates the scenario lattice with the
   predicted layout and prints the adversary catalogue and the verdict rule.
B: every scenario is built with add_lookup_table_from_pairs / add_lookup_from_index, proved and verified honestly
   (outputs == table values), its lookup_rows / padding / multiplicities are compared with the prediction (DRIFT), and
   the honest assignment is corrupted per kind, classified by the satisfaction oracle and proved under every strategy:
   the H8 knobs and an external prover built from public API (`ext_plain` honest algorithm, `ext_shift` forged start of
   the Sum/LDC chain).  VIOLATION iff an all-in-table circuit fails / outputs a wrong value, or a proof is accepted for
   an assignment the oracle finds violating (configurations with >= 50 bits of binding)."""
import json
import os
import random
import threading
from concurrent.futures import ThreadPoolExecutor

import common
from common import ToolError, log

LEVEL = "model_checking"
BIN = "c08"

CANARIES = ["final_re", "last_ldc", "init_re", "init_sum", "trans_re", "trans_ldc", "merge_ends", "ns1_last_ldc"]


def run_parallel(rows, name, nproc, extra=None, timeout=3000):
    # longest-processing-time-first over an estimated cost (blinded circuits are ~30x larger)
    def cost(r):
        c = 1.0 + sum(len(t["pairs"]) + len(t["lookups"]) for t in r["tables"]) / 60.0
        c *= 2.0 if r["cfg"]["width"] == "wide" else 1.0
        c *= 0.15 if len(r["kinds"]) <= 2 else 1.0
        return min(c, 8.0) * (8.0 if r["cfg"]["zk"] else 1.0)

    parts = [[] for _ in range(nproc)]
    load = [0.0] * nproc
    for r in sorted(rows, key=lambda r: (-cost(r), r["id"])):
        i = load.index(min(load))
        parts[i].append(r)
        load[i] += cost(r)
    files = []
    for i, part in enumerate(parts):
        fp = os.path.join(common.OUT, "%s.part%d.ndjson" % (name, i))
        common.write_ndjson(fp, part)
        files.append(fp)
    common.build_harness("release", BIN)

    def one(fp):
        return common.vh(["run", "--in", fp] + (extra or []), binname=BIN, timeout=timeout, env={"RAYON_NUM_THREADS": "3"})

    with ThreadPoolExecutor(max_workers=nproc) as ex:
        outs = list(ex.map(one, files))
    return [r for o in outs for r in o]


def probe_variant(chk):
    """Which variant of spec/LookupArg.tla does the code implement?"""
    facts = {}
    variant = None
    for w in ("std", "wide", "narrow"):
        p = common.vh(["probe", "--width", w], binname=BIN)[-1]
        facts[w] = p
        ns = p["num_sldc"]
        init = set(p["init_constrains"])
        # structural facts the model assumes (lookup polynomial 0 is RE, 1..ns the partial SLDC polynomials)
        if p["last_constrains"] != [ns] or p["ldc_reads_next"] != [ns] or p["sum_reads_next"] != [0, ns] or 0 not in init:
            chk.note_drift({"what": "lookup terms read / constrain other polynomials than spec/LookupArg.tla assumes", "probe": p})
        sld = init - {0}
        v = "all" if sld == set(range(1, ns + 1)) else "last" if sld == {ns} else "first" if sld == {1} and ns > 1 else "other"
        if variant is None:
            variant = v
        elif variant != v:
            chk.note_drift({"what": "InitSre constrains different polynomials at different widths", "probe": facts})
    chk.extra["probe"] = facts
    chk.extra["model_variant"] = variant
    return variant


def scenario_id(s, i):
    return "%s/%d/%s" % (s["width"], i, "+".join("%dx%d%s%s" % (c["n"], c["m"], c["pat"][0], c["fl"][0]) for c in s["classes"]))


def run(chk, tier):
    thorough = tier == "thorough"
    rnd = random.Random(common.seed() + 8)
    chk.rule = ("for each TLC-enumerated scenario (1-3 tables x size class x lookups class x repetition pattern x contents) x "
                "configuration: one honest build/prove/verify with outputs and layout compared, then every corruption kind of "
                "spec/LookupLayout.tla (a looked-up output / input / pair of another table through forged witness generation, a "
                "lookup slot, a table cell, padding slots, a multiplicity, a no-op cell) under every strategy (H8 knobs, external "
                "prover honest / forged chain start); a case is non-trivial if the oracle finds the assignment violating, "
                "distinct by (scenario, edited cells, strategy)")
    chk.assumptions = ["the satisfaction oracle does not model multiplicities nor the padding slots of table rows: the completeness direction is "
                       "asserted for the uncorrupted control and for no-op rows only",
                       "soundness statements are asserted only for configurations with >= 50 bits of binding",
                       "LookupArg is checked over F_13 / F_17 on a grid of 2 looking and 2 looked slots per row with 1 or 2 partial SLDC polynomials; "
                       "the real protocol (6 / 9 / 3 partial polynomials) is exercised by the replay and bound to the model by the probe",
                       "tables have distinct inputs and are pairwise different (identical tables are shared by the builder)"]
    common.build_harness("release", BIN)
    variant = probe_variant(chk)
    log("[c08] the code implements LookupArg variant InitOn = %s" % variant)
    main_cfg = {"last": "ns2", "all": "impl_all", "first": "impl_first"}.get(variant)
    if main_cfg is None:
        raise ToolError("the probe matches no variant of spec/LookupArg.tla: %s" % json.dumps(chk.extra["probe"]))
    suffix = "_t" if thorough else ""
    # ---- A: the argument model, in the background
    model = {}

    def models():
        try:
            to = 7000 if thorough else 900
            if variant == "last" and thorough:
                model["main"] = ("ns2_t", common.tlc("LookupArg", cfg="LookupArg_ns2_t", workers=6, timeout=to, tag="c08main"))
            else:
                model["main"] = (main_cfg, common.tlc("LookupArg", cfg="LookupArg_" + main_cfg, workers=6, timeout=to, tag="c08main"))
            model["ns1"] = ("ns1" + suffix, common.tlc("LookupArg", cfg="LookupArg_ns1" + suffix, workers=6, timeout=to, tag="c08ns1"))
            model["two"] = ("two" + suffix, common.tlc("LookupArg", cfg="LookupArg_two" + suffix, workers=4, timeout=to, tag="c08two"))
            if thorough:
                model["two_ns1"] = ("two_ns1", common.tlc("LookupArg", cfg="LookupArg_two_ns1", workers=4, timeout=to, tag="c08two1"))
            model["tables_canary"] = common.tlc("LookupTables", cfg="LookupTables_canary_dedup", workers=1, timeout=600, tag="c08tabcan", heap="1g")
            if variant != "first":
                model["prefix"] = ("impl_first", common.tlc("LookupArg", cfg="LookupArg_impl_first", workers=1, timeout=600, tag="c08first", heap="1g"))

            def can(d):
                return d, common.tlc("LookupArg", cfg="LookupArg_canary_" + d, workers=1, timeout=600, tag="c08can" + d, heap="1g")

            with ThreadPoolExecutor(max_workers=3) as ex:
                for d, r in ex.map(can, CANARIES):
                    model["canary_" + d] = r
        except Exception as e:  # surfaced below
            model["error"] = e

    th = threading.Thread(target=models)
    th.start()
    # ---- scenario lattice, catalogue and rule
    r = common.tlc("LookupLayout", cfg="LookupLayout_t" if thorough else "LookupLayout", workers=4, timeout=900)
    if not r.ok:
        raise ToolError("spec LookupLayout violates %s" % r.violated)
    chk.add_tlc("LookupLayout: scenario lattice with layout obligations (3 widths)", r)
    scen = common.tagged(r.prints, "REPLAY")
    kinds = sorted(common.tagged(r.prints, "KINDS")[0])
    strategies = sorted(common.tagged(r.prints, "STRATEGIES")[0])
    rule = {(x["sat"], x["kind"], x["strategy"]): x["expect"] for x in common.tagged(r.prints, "RULE")[0]}
    scen.sort(key=lambda s: json.dumps(s, sort_keys=True))
    if len(scen) < 600:
        raise ToolError("LookupLayout printed only %d scenarios" % len(scen))
    rc = common.tlc("Configs", cfg="Configs", workers=1, timeout=300)
    if not rc.ok:
        raise ToolError("spec Configs: " + str(rc.violated))
    cfgs = sorted(common.tagged(rc.prints, "CFGS")[0], key=lambda c: json.dumps(c, sort_keys=True))
    bind = lambda c: c["q"] * c["rate"] + c["pow"]
    std = {"zk": False, "strat": "const", "arities": [4, 5], "rate": 3, "cap": 4, "nch": 2, "width": "std", "q": 28, "pow": 16, "keccak": False}
    by_width = {}
    for w in ("std", "wide", "narrow"):
        cw = [c for c in cfgs if c["width"] == w]
        by_width[w] = {"strong": [c for c in cw if bind(c) >= 50 and not c["zk"]],
                       "zk": [c for c in cw if bind(c) >= 50 and c["zk"] and c["q"] <= 14 and w != "wide"],
                       "weak": [c for c in cw if bind(c) < 50 and not c["zk"]]}
    # ---- selection
    for i, s in enumerate(scen):
        s["id"] = scenario_id(s, i)
    # table-relationship classes (spec/LookupTables.tla): always replayed
    rt = common.tlc("LookupTables", cfg="LookupTables_t" if thorough else "LookupTables", workers=2, timeout=600)
    if not rt.ok:
        raise ToolError("spec LookupTables violates %s" % rt.violated)
    chk.add_tlc("LookupTables: table identity, related-table scenarios with layout per stored table", rt)
    related = sorted(common.tagged(rt.prints, "REPLAY"), key=lambda s: json.dumps(s, sort_keys=True))
    for i, s in enumerate(related):
        s["id"] = "rel/%s/%s/%s" % (s["rel"], s["width"], "+".join(str(c["n"]) for c in s["classes"]))
    if len(related) < 20:
        raise ToolError("LookupTables printed only %d scenarios" % len(related))
    # heavy repetition (one entry looked up 2^16 - 1, 2^16, 2^16 + 5[, 2^17] times): always replayed, honest run only
    heavy = [s for s in scen if any(c["m"] > 1000 for c in s["classes"])]
    scen = [s for s in scen if s not in heavy]
    if len(heavy) < 3:
        raise ToolError("LookupLayout printed only %d heavy-repetition scenarios" % len(heavy))
    if thorough:
        chosen = list(scen)
    else:
        quota = {"std": 36, "wide": 12, "narrow": 12}
        chosen = []
        for w, k in quota.items():
            pool = [s for s in scen if s["width"] == w]
            multi = [s for s in pool if len(s["tables"]) > 1]
            single = [s for s in pool if len(s["tables"]) == 1]
            rnd.shuffle(multi)
            rnd.shuffle(single)
            chosen += multi[: k // 2] + single[: k - k // 2]
    rows = []
    for n, s in enumerate(chosen):
        w = s["width"]
        u = rnd.random()
        row = {"id": s["id"], "tables": s["tables"], "expect": s["expect"], "interleave": n % 2 == 1, "kinds": kinds, "strategies": strategies,
               "classes": s["classes"]}
        if u < (0.03 if thorough else 0.06) and by_width[w]["zk"]:
            # blinding makes the circuit large: one forged proof per scenario
            row["cfg"] = rnd.choice(by_width[w]["zk"])
            row["ext_every"] = 1000
            row["max_cor"] = 12
        elif u < 0.14:
            # weak configurations: completeness only (soundness statements need >= 50 bits)
            row["cfg"] = rnd.choice(by_width[w]["weak"])
            row["kinds"] = ["none", "noop_cell"]
            row["strategies"] = ["plain", "ext_plain"]
        elif u < 0.5 and w == "std":
            row["cfg"] = std
        else:
            row["cfg"] = rnd.choice(by_width[w]["strong"])
        rows.append(row)
    for n, s in enumerate(related):
        w = s["width"]
        rows.append({"id": s["id"], "tables": s["tables"], "expect": s["expect"], "interleave": n % 2 == 1, "classes": s["classes"], "rel": s["rel"],
                     "kinds": ["none", "api_other_input", "pair_other_table", "out_notin", "table_cell"], "strategies": strategies,
                     "cfg": std if w == "std" else rnd.choice(by_width[w]["strong"]), "max_cor": 16})
    for s in heavy:
        rows.append({"id": s["id"], "tables": s["tables"], "expect": s["expect"], "interleave": False, "kinds": ["none"], "strategies": ["plain"],
                     "classes": s["classes"], "cfg": std, "pis": False})
    chk.extra["heavy_repetition"] = {s["id"]: max(c["m"] for c in s["classes"]) for s in heavy}
    import time
    t0 = time.time()
    res = run_parallel(rows, "c08_run", 8, extra=["--max-cor", "30" if thorough else "24"], timeout=14000 if thorough else 1500)
    log("[c08] replay of %d scenarios: %d result lines in %.0fs" % (len(rows), len(res), time.time() - t0))
    byid = {s["id"]: s for s in rows}
    judge(chk, byid, res, rule, variant)
    # ---- binding canary: an (artificially) accepted violating assignment must surface
    st = run_parallel([r0 for r0 in rows if r0["cfg"] == std][:4], "c08_selftest", 2, extra=["--selftest"])
    chk.canary("self-test: an (artificially) accepted violating assignment is reported",
               any(x.get("stage") == "selftest" and x["accepted"] and x["violated"] for x in st))
    # ---- collect the model runs
    th.join()
    if "error" in model:
        raise model["error"]
    forge_accepted = chk.extra.get("ext_shift_accepted_violating", 0)
    for key in ("main", "ns1", "two", "two_ns1"):
        if key not in model:
            continue
        name, rr = model[key]
        if key == "main" and variant == "first":
            # the code constrains the first partial polynomial only: TLC refutes Sound; the forged chain start of the
            # counterexample is the ext_shift strategy of the replay
            chk.extra["model_unsound_as_implemented"] = rr.violated
            if rr.violated is None:
                raise ToolError("LookupArg with InitOn = first was expected to violate Sound")
            chk.add_tlc("LookupArg %s (as implemented): Sound refuted by TLC" % name, rr, exhaustive=False)
            if forge_accepted == 0:
                chk.note_drift("the model of the code as probed admits forged Sum/LDC chains but no forged proof was accepted in the replay")
            continue
        if not rr.ok:
            raise ToolError("spec LookupArg violates %s under %s" % (rr.violated, name))
        chk.add_tlc("LookupArg %s: all tables x fillings x single corruptions x challenges" % name, rr)
    if "prefix" in model:
        chk.canary("LookupArg with InitSre on the FIRST partial polynomial while the chain reads the LAST one is refuted (TLC counterexample)",
                   model["prefix"][1].violated == "Sound")
    chk.canary("LookupTables with tables de-duplicated by their common prefix is refuted: a lookup into table A of a pair only table B has is accepted "
               "(TLC counterexample)", model["tables_canary"].violated == "LookupExact")
    for d in CANARIES:
        chk.canary("LookupArg with the %s term disabled accepts a bad assignment (TLC counterexample)" % d, model["canary_" + d].violated is not None)
    chk.exhaustive = False


def judge(chk, byid, res, rule, variant):
    stats = {}
    distinct = set()
    complete = 0
    forged = 0
    for x in res:
        s = byid.get(x.get("id"))
        if "skipped" in x:
            k = "skipped:" + x["skipped"][:40]
            stats[k] = stats.get(k, 0) + 1
            continue
        scen = {k: s[k] for k in ("id", "cfg", "tables", "interleave", "expect")}
        if "complete" in x:
            chk.evaluations += 1
            if not x["complete"]:
                chk.violation("C08/incomplete/%s/%s" % (x["stage"], "+".join("%s%s" % (c["pat"], c["fl"]) for c in s["classes"])),
                              "an all-in-table circuit fails to prove/verify: %s" % x["detail"], {"scenario": scen, "observed": x, "expected": "accept"})
                continue
            if x["wrong_outputs"]:
                chk.violation("C08/wrong-output/%s" % s["id"], "a lookup outputs a value other than the table's: %s" % json.dumps(x["wrong_outputs"][:3]),
                              {"scenario": scen, "observed": x, "expected": "outputs == table values"})
                continue
            complete += 1
            chk.traces += 1
            for d in x.get("layout", [])[:3]:
                chk.note_drift({"scenario": s["id"], "layout": d})
            if x.get("layout"):
                stats["layout_drift"] = stats.get("layout_drift", 0) + 1
            for an in x.get("index_anomalies", [])[:2]:
                # implementation shape; its property-level consequences (an unprovable honest lookup, an accepted pair of the
                # other table) are VIOLATIONs of their own
                chk.note_drift({"scenario": s["id"], "table_indices": an,
                                "what": "different tables share a lookup-table index" if not an["identical"] else "identical tables are stored twice"})
            if not x.get("oracle_honest_ok", True):
                # the library's own witness (lookup rows, table rows, padding) violates the lookup relation / gates per
                # the oracle although the honest proof verified: an accepted proof for a violating assignment
                chk.violation("C08/honest-assignment-violates-circuit/%s" % s["id"],
                              "the assignment produced by witness generation + set_lookup_wires violates the circuit per the satisfaction oracle",
                              {"scenario": s, "observed": x, "expected": "every lookup slot holds a pair of its table, table rows hold the table"})
            if len(chk.samples) < 3:
                chk.sample({"scenario": {"id": s["id"], "classes": s["classes"], "cfg": s["cfg"], "expect_rows": s["expect"]["rows"]}, "honest": x})
            continue
        chk.evaluations += 1
        strong = x["binding_bits"] >= 50
        exp = rule[(not x["violated"], x["kind"], x["strategy"])]
        k = "%s/%s/%s/%s" % (x["kind"], x["strategy"], "violating" if x["violated"] else "satisfying", "accepted" if x["accepted"] else "rejected")
        stats[k] = stats.get(k, 0) + 1
        if x["violated"]:
            distinct.add((x["id"], json.dumps(x["edits"]), x["strategy"]))
        payload = {"scenario": scen, "corruption": {k2: x[k2] for k2 in ("kind", "strategy", "desc", "edits", "oracle", "bad_pairs")},
                   "expected": exp, "observed": {"accepted": x["accepted"], "stage": x["stage"], "detail": x["detail"]}}
        if exp == "reject" and x["accepted"] and strong:
            if x["strategy"] == "ext_shift":
                forged += 1
            chk.violation("C08/accepted-violating/%s/%s/%s" % (x["strategy"], x["kind"], s["cfg"]["width"]),
                          "the verifier accepted a proof although %s (%s)" % (
                              "a looked-up pair is not an entry of its table" if x["bad_pairs"] else "the lookup rows violate the circuit", json.dumps(x["oracle"])),
                          payload)
        elif exp == "accept" and not x["accepted"]:
            chk.violation("C08/rejected-satisfying/%s/%s" % (x["kind"], x["strategy"]),
                          "the assignment satisfies the circuit but the %s prover/verifier rejects it: %s" % (x["strategy"], x["detail"]), payload)
        else:
            chk.traces += 1
            if x["violated"] and x["strategy"] == "ext_shift" and len(chk.samples) < 5:
                chk.sample({"scenario": s["id"], "corruption": payload["corruption"], "observed": payload["observed"]})
    chk.nontrivial = len(distinct)
    chk.extra["outcomes"] = stats
    # ---- guards requested for seeded-change sensitivity
    for hid, m in chk.extra.get("heavy_repetition", {}).items():
        ok = [x for x in res if x.get("id") == hid and x.get("complete") is True and not x["wrong_outputs"] and not x.get("layout")]
        ctl = [x for x in res if x.get("id") == hid and x.get("kind") == "none" and x.get("accepted")]
        if not ok or not ctl:
            if any(x.get("id") == hid and x.get("complete") is False for x in res):
                continue            # already reported as a violation above
            raise ToolError("vacuity: the heavy-repetition scenario %s (%d lookups of one entry) did not complete" % (hid, m))
    # prefix pairs, both declaration orders: honest lookups into the tail of the longer table completed, and a forged pair of the
    # other table (only the longer table has it) met plain and the external prover and was judged
    rel_of = {r["id"]: r["rel"] for r in byid.values() if "rel" in r}
    relstat = {}
    for x in res:
        rel = rel_of.get(x.get("id"))
        if rel is None:
            continue
        d = relstat.setdefault(rel, {"complete": 0, "forged": {}})
        if x.get("complete") is True and not x["wrong_outputs"]:
            d["complete"] += 1
        if x.get("kind") in ("pair_other_table", "api_other_input") and x.get("violated") and x.get("bad_pairs"):
            d["forged"][x["strategy"]] = d["forged"].get(x["strategy"], 0) + 1
    chk.extra["related_tables"] = relstat
    if rel_of:
        for rel in ("prefix_long_first", "prefix_short_first", "long_prefix_identical", "short_long_shorter", "diff_first", "diff_last",
                    "diff_outputs_from", "permuted"):
            d = relstat.get(rel, {"complete": 0, "forged": {}})
            incomplete = any(rel_of.get(x.get("id")) == rel and x.get("complete") is False for x in res)
            if d["complete"] == 0 and not incomplete:
                raise ToolError("vacuity: no related-table scenario of class %s completed" % rel)
            for st in ("plain", "ext_plain", "ext_shift", "api"):
                if st == "api" and rel not in ("prefix_long_first", "prefix_short_first", "long_prefix_identical", "short_long_shorter"):
                    continue            # the other classes share all inputs
                if rel == "permuted":
                    continue            # the same pairs in another order: no pair belongs to the other table only
                if d["forged"].get(st, 0) == 0 and not incomplete:
                    raise ToolError("vacuity: class %s: no forged pair of the other table under %s" % (rel, st))
        if relstat.get("identical", {"complete": 0})["complete"] == 0:
            raise ToolError("vacuity: no scenario with identical (shared) tables completed")
    g = {}
    for x in res:
        if "kind" not in x or not x.get("violated") or "table" not in x.get("desc", {}):
            continue
        t, nt = x["desc"]["table"], x.get("nt", 1)
        if x["kind"] in ("out_notin", "out_other_entry", "pair_other_table") and nt >= 2 and t == nt - 1:
            g[("last-table", x["kind"], x["strategy"])] = g.get(("last-table", x["kind"], x["strategy"]), 0) + 1
            if nt == 2:
                g[("second-of-two", x["kind"], x["strategy"])] = g.get(("second-of-two", x["kind"], x["strategy"]), 0) + 1
        if x["kind"] in ("table_cell", "table_cell_unused", "table_and_lookup") and t == 0:
            k = ("first-table/%s" % ("single" if nt == 1 else "multi"), x["kind"], x["strategy"])
            g[k] = g.get(k, 0) + 1
    chk.extra["targeted_cases"] = {"/".join(k): v for k, v in sorted(g.items())}
    need = [(w, k, st) for w in ("last-table", "second-of-two") for k in ("out_notin", "out_other_entry", "pair_other_table")
            for st in ("plain", "ext_plain", "ext_shift")]
    need += [(w, k, st) for w in ("first-table/single", "first-table/multi") for k in ("table_cell", "table_cell_unused", "table_and_lookup")
             for st in ("plain", "ext_plain")]
    for k in need:
        if g.get(k, 0) == 0:
            raise ToolError("vacuity: no violating case %s/%s under %s" % k)
    chk.extra["honest_circuits_complete"] = complete
    chk.extra["ext_shift_accepted_violating"] = forged
    viol = sum(v for k, v in stats.items() if "/violating/" in k)
    ctrl = stats.get("none/ext_plain/satisfying/accepted", 0)
    if complete < 20 or viol < 200:
        raise ToolError("vacuity: %d complete circuits, %d violating assignments" % (complete, viol))
    if ctrl < 10:
        raise ToolError("the external prover is not validated: only %d accepted controls" % ctrl)
    for kind in ("out_notin", "out_other_entry", "inp_notin", "pair_other_table", "table_cell", "lu_pad", "lu_slot_only"):
        for st in ("plain", "ext_plain", "ext_shift"):
            if not any(k.startswith("%s/%s/violating/" % (kind, st)) for k in stats):
                raise ToolError("vacuity: no violating assignment of kind %s met strategy %s" % (kind, st))
    for kind in ("table_pad", "mult", "noop_cell"):
        if not any(k.startswith(kind + "/") for k in stats):
            raise ToolError("vacuity: corruption kind %s was never produced" % kind)


def replay(path):
    p = json.load(open(path))
    print(json.dumps(p, indent=1)[:3000])
    s = dict(p["scenario"])
    if "corruption" in p:
        s["kinds"] = ["none", p["corruption"]["kind"]]
        s["strategies"] = sorted({"plain", "ext_plain", p["corruption"]["strategy"]})
    else:
        s["kinds"] = ["none"]
        s["strategies"] = ["plain"]
    s["ext_every"] = 1
    s["max_cor"] = 200
    fp = os.path.join(common.OUT, "c08_replay.ndjson")
    common.write_ndjson(fp, [s])
    out = common.vh(["run", "--in", fp], binname=BIN)
    bad = [x for x in out if (x.get("violated") and x.get("accepted")) or x.get("complete") is False or x.get("wrong_outputs")]
    print("re-run: %d result lines, %d discrepancies" % (len(out), len(bad)))
    for x in bad[:5]:
        print(json.dumps(x)[:600])
    return 1 if bad else 0
