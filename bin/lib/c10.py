"""C10 — STARK lookups (logUp) and cross-table lookups.
A: TLC on spec/MCStarkLookup (StarkLookup) and spec/MCCtl (Ctl) over F_17 / F_13: for ALL traces over small value
   sets of several declarations (1-2 looking columns, batches of DEG-1, filters, linear combinations, next-row
   looking / table columns; CTLs with pairs / single values, a repeated table, three tables, extra looking tuples):
   the multiset condition holds  <=>  helper / Z columns satisfying exactly the constraints of
   eval_packed_lookups_generic / eval_cross_table_lookup_checks + verify_cross_table_lookups exist for all but a
   bounded number of challenges; the witness is unique (any single helper / Z corruption breaks a constraint);
   ten constraint mutants as canaries (incl. the pre-repair reading of the table column on the current row only).
B: every TLC case is re-evaluated by the harness's reference multiset predicates (modulus 17); lookup declarations
   instantiated in the data-driven STARK family (1-4 looking columns, degree 2/3, filters, linear combinations,
   next-row columns) and multi-table systems run through a driver composed of public functions only
   (get_ctl_data, prove_with_commitment, CtlCheckVars::from_proof, get_challenges,
   verify_stark_proof_with_challenges, verify_cross_table_lookups) with honest and corrupted traces; expected
   verdict = the specification's multiset predicate evaluated on the concrete traces."""
import json
import os
from concurrent.futures import ThreadPoolExecutor

import common
from common import ToolError, log

LEVEL = "model_checking"
BIN = "c10"
ENV = {"RAYON_NUM_THREADS": "3"}

LK_MUT = [("z_transition_only", "Z recurrence not enforced on the wrap-around row", True),
          ("no_freq", "frequencies dropped from the Z recurrence", True),
          ("ignore_filter", "filters ignored in the helper constraints", True),
          ("table_local_only", "table / frequency column read on the current row only (pre-repair code)", True),
          ("second_dropped", "second column of a helper batch dropped", False),
          ("table_no_challenge", "table value used without the challenge", False)]
CTL_MUT = [("no_last_row", "Z not constrained on the last row", True),
           ("extra_ignored", "extra looking values ignored by the verifier", True),
           ("first_group_only", "only the first looking table summed by the verifier", True),
           ("looked_filter_ignored", "filter of the looked table ignored", False)]

STD = {"rate": 1, "cap": 4, "pow": 16, "queries": 84, "nc": 2, "strategy": ["const", 4, 5]}
CTLCFG = {"rate": 1, "cap": 3, "pow": 16, "queries": 84, "nc": 2, "strategy": ["const", 2, 2]}
R3 = {"rate": 3, "cap": 2, "pow": 16, "queries": 12, "nc": 2, "strategy": ["const", 1, 2]}


def col(i):
    return {"lin": [[i, 1]], "next": [], "k": 0}


def side(t, cols, filt=2):
    return {"table": t, "cols": cols, "filter": col(filt)}


AB = [col(0), col(1)]
BA = [col(1), col(0)]
LIN = [{"lin": [[0, 1], [1, 2]], "next": [], "k": 0}, col(1)]
NXT = [{"lin": [], "next": [[0, 1]], "k": 0}, col(1)]
SHAPES = {
    "A2": ([3, 3], [{"looking": [side(0, AB)], "looked": side(1, AB), "extra": []}]),
    "A2x": ([3, 4], [{"looking": [side(0, AB)], "looked": side(1, AB), "extra": [[5, 6], [5, 6], [9, 1]]}]),
    "A2swap": ([4, 3], [{"looking": [side(0, BA)], "looked": side(1, BA), "extra": []}]),
    "A2lin": ([3, 3], [{"looking": [side(0, LIN)], "looked": side(1, AB), "extra": []}]),
    "A2next": ([3, 3], [{"looking": [side(0, NXT)], "looked": side(1, AB), "extra": []}]),
    "A2small": ([1, 1], [{"looking": [side(0, AB)], "looked": side(1, AB), "extra": []}]),
    "A3": ([3, 2, 4], [{"looking": [side(0, AB), side(1, AB)], "looked": side(2, AB), "extra": []}]),
    "R2": ([3, 4], [{"looking": [side(0, AB), side(0, BA)], "looked": side(1, AB), "extra": []}]),
    "R3": ([3, 2, 5], [{"looking": [side(0, AB), side(0, BA), side(1, AB)], "looked": side(2, AB), "extra": []}]),
    "M2": ([3, 3], [{"looking": [side(0, AB)], "looked": side(1, AB), "extra": []},
                    {"looking": [side(0, BA)], "looked": side(1, BA), "extra": []}]),
    # genuine completeness defects of the pinned tree (known findings): see the final report
    "R3nc": ([3, 2, 5], [{"looking": [side(0, AB), side(1, AB), side(0, BA)], "looked": side(2, AB), "extra": []}]),
    "S1": ([3], [{"looking": [side(0, [col(0)], 2)], "looked": side(0, [col(0)], 1), "extra": []}]),
}


def ctl_cases(shapes, acts, degs=(3,), ncs=(2,), binary=(False,), cfg=CTLCFG):
    out = []
    for sh in shapes:
        nb, ctls = SHAPES[sh]
        for deg in degs:
            for nc in ncs:
                for b in binary:
                    for a in acts:
                        c = dict(cfg)
                        c["nc"] = nc
                        if min(nb) + c["rate"] < c["cap"]:
                            c["cap"] = min(nb) + c["rate"]
                            c["strategy"] = ["const", 1, 1]
                        out.append({"id": "ctl-%s-d%d-c%d-b%d-%s" % (sh, deg, nc, int(b), a), "shape": sh, "n_bits": nb, "deg": deg,
                                    "binary": b, "config": c, "ctls": ctls, "action": {"kind": a}})
    return out


def lookup_cases(thorough):
    rows = []
    acts_all = ["none", "looking_out", "looking_swap", "freq", "table_used", "table_unused", "filter_flip", "freq_move"]
    if thorough:
        combos = [(3, 1, ["plain", "nextrow", "table_next", "freq_next"]), (5, 1, ["filter"]), (5, 2, ["plain", "filter", "lincomb", "mixed"]),
                  (8, 3, ["filter", "lincomb"]), (8, 4, ["plain", "mixed", "filter"])]
        for cols, k, variants in combos:
            for deg in (2, 3):
                for v in variants:
                    for nb, cfg in ((4, STD), (2, R3), (6, R3)):
                        for a in acts_all:
                            rows.append({"cols": cols, "k": k, "deg": deg, "variant": v, "n_bits": nb, "config": cfg, "action": {"kind": a}})
    else:
        quick = [(3, 1, 2, "plain"), (5, 2, 3, "filter"), (5, 2, 3, "mixed"), (8, 4, 3, "plain"), (8, 3, 2, "lincomb"), (3, 1, 3, "nextrow"),
                 (3, 1, 2, "table_next"), (3, 1, 3, "freq_next")]
        for cols, k, deg, v in quick:
            for a in ["none", "looking_out", "looking_swap", "freq", "table_used"] + (["filter_flip"] if v in ("filter", "mixed") else []):
                rows.append({"cols": cols, "k": k, "deg": deg, "variant": v, "n_bits": 4, "config": R3, "action": {"kind": a}})
    for i, r in enumerate(rows):
        r["id"] = "lk-%d-%s-%s" % (i, r["variant"], r["action"]["kind"])
    return rows + multi_cases(thorough)


def multi_cases(thorough):
    """#lookups x num_challenges x constraint degree; per cell: honest, and per lookup k one looking value outside its
    table and one frequency off by one."""
    rows = []
    for L in (1, 2, 3):
        for C in (1, 2, 3):
            for deg in (2, 3):
                for nb in ((3, 6) if thorough else (3,)):
                    cfg = dict(R3)
                    cfg["nc"] = C
                    acts = [{"kind": "none"}]
                    for k in range(L):
                        acts += [{"kind": "looking_out", "lookup": k}, {"kind": "freq", "lookup": k}]
                    for a in acts:
                        rows.append({"id": "ml-L%dC%dd%dn%d-%s%s" % (L, C, deg, nb, a["kind"], a.get("lookup", "")), "cols": 8, "multi": L,
                                     "deg": deg, "n_bits": nb, "config": cfg, "action": a})
    return rows


def _tlc(job):
    name, module, cfg, workers, timeout = job
    return name, common.tlc(module, cfg=cfg, workers=workers, timeout=timeout, tag="c10-" + cfg)


def _vh(args, timeout=1700):
    return common.vh(args, binname=BIN, env=ENV, timeout=timeout)[-1]


def _absorb(chk, out, how):
    chk.evaluations += out["evaluated"]
    chk.nontrivial += out["nontrivial"]
    chk.traces += out["evaluated"] - len(out["violations"])
    for s in out.get("samples", [])[:2]:
        chk.sample(s)
    if out.get("conflicts"):
        raise ToolError("harness trace generator / reference predicate inconsistency: %s" % json.dumps(out["conflicts"][:3]))
    for v in out["violations"]:
        chk.violation(v["key"], v.get("detail", ""), {"violation": v, "how": how})
    return out


def run(chk, tier):
    thorough = tier == "thorough"
    chk.rule = ("model: one state per (declaration, trace(s)) case of MCStarkLookup / MCCtl; implementation: one evaluation per "
                "(lookup declaration or multi-table system, trace action, config) proved and verified on the real code, per small-field "
                "case re-evaluated by the reference predicates; non-trivial = distinct (shape, action, config)")
    chk.assumptions = ["TLC and the community modules are correct",
                       "the reference multiset predicates (u128 arithmetic mod p) are bound to the TLA+ MultisetOk / CtlOk by exhaustive "
                       "comparison on TLC's F_17 cases and then used modulo the Goldilocks prime",
                       "the models cover N=2 rows (thorough: N=4 for one declaration), 1-2 looking columns, 2-3 tables; more columns, rows, "
                       "tables and challenges are covered on the real code with the verdict rule TLC proved",
                       "the model's CTL grouping assumes the sides of one table to be consecutive (the code's group_by); non-consecutive "
                       "repetition and a table looking into itself are exercised on the real code only (known findings)",
                       "tables of a multi-table system declare constraint degree 3: the CTL last-row constraint L_last*combine*Z has degree 3, "
                       "so a STARK declaring degree 2 cannot carry a CTL (usage requirement of the library, not checked here)",
                       "soundness-type expectations only under configurations with >= 50 bits; polynomial / FRI / transcript layers belong to "
                       "C09 / C05 / C04"]
    o = lambda n: os.path.join(common.OUT, n)

    # ---- A: model checking
    jobs = [("StarkLookup N=2", "MCStarkLookup", "MCStarkLookup_thorough" if thorough else "MCStarkLookup_quick", 4, 1700),
            ("Ctl N=2", "MCCtl", "MCCtl_thorough" if thorough else "MCCtl_quick", 4, 1700)]
    jobs.append(("LookupLayout L<=3 C<=3 (prover index = evaluator index)", "MCLookupLayout", "MCLookupLayout", 1, 300))
    if thorough:
        jobs.append(("StarkLookup F13 N=4 (0/1 frequencies)", "MCStarkLookup", "MCStarkLookup_n4", 6, 1700))
    cjobs = [("canary lk " + m, "MCStarkLookup", "MCStarkLookup_canary_" + m, 1, 300) for m, _, q in LK_MUT if q or thorough]
    cjobs.append(("canary layout", "MCLookupLayout", "MCLookupLayout_canary_prover_challenge_major", 1, 300))
    cjobs += [("canary ctl " + m, "MCCtl", "MCCtl_canary_" + m, 1, 300) for m, _, q in CTL_MUT if q or thorough]
    with ThreadPoolExecutor(max_workers=3) as ex:
        results = dict(ex.map(_tlc, jobs + cjobs))
    for name, _, _, _, _ in jobs:
        r = results[name]
        chk.add_tlc(name, r)
        if not r.ok:
            raise ToolError("specification %s violates %s (spec-level inconsistency)" % (name, r.violated))
    for m, what, q in LK_MUT:
        if q or thorough:
            chk.canary("spec-mutant rejected by TLC: lookup, %s (%s)" % (what, m), results["canary lk " + m].violated is not None)
    for m, what, q in CTL_MUT:
        if q or thorough:
            chk.canary("spec-mutant rejected by TLC: ctl, %s (%s)" % (what, m), results["canary ctl " + m].violated is not None)
    rl = results["canary layout"]
    chk.canary("spec-mutant rejected by TLC: prover lays the helper / Z columns out challenge-major (prover_challenge_major), "
               "smallest counterexample L = 2, C = 2",
               rl.violated is not None and "nh |-> <<2, 2>>, C |-> 2]" in rl.raw.replace("\n", " ")
               or (rl.violated is not None and "C |-> 2, nh |-> <<2, 2>>]" in rl.raw.replace("\n", " ")))
    chk.exhaustive = True

    # ---- B1: reference predicates on every TLC case
    cases = []
    for name, _, _, _, _ in jobs:
        cases += common.tagged(results[name].prints, "LOOKUP17") + common.tagged(results[name].prints, "CTL17")
    if len(cases) < 1000:
        raise ToolError("the specifications printed only %d cases" % len(cases))
    common.write_ndjson(o("c10_cases17.ndjson"), cases)
    out = _vh(["eval17", "--cases", o("c10_cases17.ndjson")])
    if out["mismatches"] or out["compared"] != len(cases):
        raise ToolError("reference predicate differs from the specification: %s" % json.dumps(out["mismatches"][:2]))
    chk.evaluations += out["compared"]
    chk.traces += out["compared"]
    chk.sample({"tlc_case": cases[0]})
    chk.extra["eval17"] = {"cases": out["compared"], "satisfying": sum(1 for c in cases if c["ok"])}
    k = next(i for i, c in enumerate(cases) if c["ok"] and c["what"] == "lookup")
    can = _vh(["eval17", "--cases", o("c10_cases17.ndjson"), "--corrupt", k])
    chk.canary("a case whose trace differs from the one TLC evaluated is reported by the predicate comparison", len(can["mismatches"]) == 1)

    # ---- B2: single-table lookups on the real prover / verifier
    lk = lookup_cases(thorough)
    common.write_ndjson(o("c10_lookup.ndjson"), lk)
    out = _absorb(chk, _vh(["lookup", "--scen", o("c10_lookup.ndjson")]), "vh c10 lookup --scen <case>")
    chk.extra["lookup"] = {"cases": len(lk), "accepted": out["accepted"], "rejected": out["rejected"], "panics": out["panics"], "by_class": out["classes"]}
    # vacuity guard: every (#lookups, #challenges, degree) cell ran honest-accepted and, for EACH lookup of the cell, one
    # looking value outside its table and one wrong frequency rejected; in particular cells with L >= 2 and C >= 2
    cells = out.get("cells", {})
    full = 0
    for L in (1, 2, 3):
        for C in (1, 2, 3):
            for deg in (2, 3):
                cell = "L%dC%dd%d" % (L, C, deg)
                ran = cells.get(cell + "/none:acc", 0) + cells.get(cell + "/none:rej", 0) >= 1 and all(
                    cells.get("%s/%s@%d:acc" % (cell, a, k), 0) + cells.get("%s/%s@%d:rej" % (cell, a, k), 0) >= 1
                    for k in range(L) for a in ("looking_out", "freq"))
                if not ran:
                    raise ToolError("multi-lookup cell %s did not run completely: %s" % (cell, {k: v for k, v in cells.items() if k.startswith(cell)}))
                good = cells.get(cell + "/none:acc", 0) >= 1 and all(cells.get("%s/%s@%d:rej" % (cell, a, k), 0) >= 1
                                                                      for k in range(L) for a in ("looking_out", "freq"))
                if good and L >= 2 and C >= 2:
                    full += 1
    if full < 1 and not out["violations"]:
        raise ToolError("no multi-lookup cell with L >= 2 and C >= 2 ran honest-accepted and per-lookup-corruption-rejected")
    chk.extra["lookup"]["multi_lookup_cells"] = {"cells": 18, "L>=2,C>=2 cells fully confirmed": full}
    k = next(i for i, c in enumerate(lk) if c["action"]["kind"] == "freq")
    can = _vh(["lookup", "--scen", o("c10_lookup.ndjson"), "--flip-expect", k])
    chk.canary("a flipped expectation (wrong frequency expected to be accepted) is reported by the lookup replay",
               any(v["key"].startswith("C10/lookup/complete/") for v in can["violations"]))

    # ---- B3: multi-table systems
    if thorough:
        acts = ["none", "looking_value", "looked_value", "extra_looked_row", "missing_looking_row", "missing_looked_row", "extra_looking_row",
                "inactive_value", "filter_two"]
        ct = ctl_cases(["A2", "A2x", "A2swap", "A2lin", "A2next", "A3", "R2", "R3", "M2"], acts, degs=(3,), ncs=(1, 2, 3), binary=(False, True))
        ct += ctl_cases(["A2small"], ["none", "looking_value", "missing_looked_row"])
        ct += ctl_cases(["A2", "R2", "A3"], acts, cfg=R3)
    else:
        ct = ctl_cases(["A2", "A2x", "A3", "R2", "M2", "A2next"], ["none", "looking_value", "extra_looked_row", "missing_looking_row"])
        ct += ctl_cases(["A2lin"], ["none", "filter_two"], ncs=(3,), binary=(True,))
    ct += ctl_cases(["A2x"], ["extra_dropped", "extra_altered"])
    ct += ctl_cases(["R3nc", "S1"], ["none"])
    common.write_ndjson(o("c10_ctl.ndjson"), ct)
    out = _absorb(chk, _vh(["ctl", "--scen", o("c10_ctl.ndjson")]), "vh c10 ctl --scen <case>")
    chk.extra["ctl"] = {"cases": len(ct), "accepted": out["accepted"], "rejected": out["rejected"], "panics": out["panics"], "by_class": out["classes"]}
    k = next(i for i, c in enumerate(ct) if c["action"]["kind"] == "missing_looking_row")
    can = _vh(["ctl", "--scen", o("c10_ctl.ndjson"), "--flip-expect", k])
    chk.canary("a flipped expectation (missing looking row expected to be accepted) is reported by the multi-table replay",
               any(v["key"].startswith("C10/ctl/complete/") and v["label"] == "missing_looking_row" for v in can["violations"]))


def replay(path):
    p = json.load(open(path))
    print(json.dumps(p, indent=1)[:3000])
    v = p.get("violation", {})
    one = os.path.join(common.OUT, "c10_replay_one.ndjson")
    common.write_ndjson(one, [v["case"]])
    out = _vh(["ctl" if "/ctl/" in p.get("key", "") else "lookup", "--scen", one])
    print(json.dumps(out["violations"][:5], indent=1)[:3000])
    return 1 if out["violations"] else 0
