"""C02 — no accepted proof exists for an assignment that violates the circuit.
A: TLC checks spec/PermArg.tla exhaustively (all partitions x assignments x challenges: the
   permutation argument is complete and sound, the degenerate accumulators are rejected only by the
   L_0 term / the wrap-around; one canary per disabled term) and prints the adversary catalogue
   and verdict rule (spec/Corruptions.tla).  Programs and configurations come from
   spec/Programs.tla / spec/Configs.tla as in C01.
B: for every program the honest assignment is corrupted by every kind of the catalogue, classified
   by the satisfaction oracle, proved under every strategy (hook H8) and verified; the verdict rule
   decides.  Unsatisfiable programs (failed assertion / range check / division by zero) are proved
   through the ordinary API as well."""
import json
import os
import random
import threading
from concurrent.futures import ThreadPoolExecutor

import common
import c01
from common import ToolError, log

LEVEL = "model_checking"
BIN = "c02"


def run_parallel(rows, name, nproc, cells, extra=None):
    parts = [rows[i::nproc] for i in range(nproc)]
    files = []
    for i, part in enumerate(parts):
        fp = os.path.join(common.OUT, "%s.part%d.ndjson" % (name, i))
        common.write_ndjson(fp, part)
        files.append(fp)
    common.build_harness("release", BIN)

    def one(fp):
        return common.vh(["run", "--in", fp, "--cells", cells] + (extra or []), binname=BIN, timeout=7000,
                         env={"RAYON_NUM_THREADS": "3"})

    with ThreadPoolExecutor(max_workers=nproc) as ex:
        outs = list(ex.map(one, files))
    return [r for o in outs for r in o]


def run(chk, tier):
    thorough = tier == "thorough"
    rnd = random.Random(common.seed() + 2)
    chk.rule = ("for each TLC-enumerated program x configuration (>= 50 bits of binding) x input vector: the honest assignment is "
                "expanded over the identity partition and corrupted per kind of spec/Corruptions.tla (a cell of every gate type, random "
                "cells, one member / all members of a copy class, a public input), classified by the satisfaction oracle and proved "
                "under each prover strategy; a case is non-trivial if the oracle finds the corrupted assignment violating, and "
                "distinct by (program, cell, value, strategy)")
    chk.assumptions = ["the satisfaction oracle trusts the gates' eval_unfiltered (confronted with generators by C07, with direct evaluation by C01)",
                       "soundness statements are asserted only for configurations with >= 50 bits of binding",
                       "PermArg is checked over F_17 on a 2x3 grid; the real protocol is exercised by the replay"]
    # ---- A: PermArg model (in the background while the replay runs) and its canaries
    perm = {}

    def model():
        try:
            cfgs = ["PermArg_c2"] + (["PermArg_c3", "PermArg_v3"] if thorough else [])
            for c in cfgs:
                perm[c] = common.tlc("PermArg", cfg=c, workers=6, timeout=3000 if thorough else 900, tag=c)
            for d in ("l0", "wrap", "chunk2"):
                perm["canary_" + d] = common.tlc("PermArg", cfg="PermArg_canary_" + d, workers=2, timeout=600, tag="pacan" + d)
        except Exception as e:  # surfaced below
            perm["error"] = e

    th = threading.Thread(target=model)
    th.start()
    r = common.tlc("Corruptions", cfg="Corruptions", workers=1, timeout=120)
    if not r.ok:
        raise ToolError("spec Corruptions: %s" % r.violated)
    kinds = sorted(common.tagged(r.prints, "KINDS")[0])
    strategies = sorted(common.tagged(r.prints, "STRATEGIES")[0])
    rule = {(x["sat"], x["strategy"]): x["expect"] for x in common.tagged(r.prints, "RULE")[0]}
    # ---- copy forest -> sigma: model (all connect sequences) and replay on the real builder
    for cfgname, name in ([("CopyForest_2", "CopyForest: all ordered connect sequences of length 2")]
                          + ([("CopyForest_3", "CopyForest: all connect sequences of length 3")] if thorough else [])):
        rf = common.tlc("CopyForest", cfg=cfgname, workers=4, timeout=1500, tag=cfgname)
        if not rf.ok:
            raise ToolError("spec CopyForest violates %s" % rf.violated)
        chk.add_tlc(name, rf)
        fp = os.path.join(common.OUT, "c02_%s.ndjson" % cfgname)
        fsc = common.tagged(rf.prints, "FOREST")
        common.write_ndjson(fp, fsc)
        fo = common.vh(["forest", "--in", fp], binname=BIN, env={"RAYON_NUM_THREADS": "3"})[-1]
        chk.evaluations += fo["scenarios"]
        chk.traces += fo["scenarios"] - len(fo["mismatches"])
        chk.extra.setdefault("forest_scenarios_replayed", 0)
        chk.extra["forest_scenarios_replayed"] += fo["scenarios"]
        for m in fo["mismatches"]:
            chk.violation("C02/copy-forest/%s" % json.dumps(m["scenario"]["connects"]),
                          "copy classes / sigma cycles of the built circuit differ from the connect closure: %s" % (m.get("detail") or m.get("panic")),
                          {"forest_scenario": m["scenario"], "observed": m, "expected": "representative map = equivalence closure; sigma = one cycle per class"})
    rsel = common.tlc("MCSelectors", cfg="MCSelectors", workers=4, timeout=900, tag="mcsel")
    if not rsel.ok:
        raise ToolError("spec Selectors violates %s" % rsel.violated)
    chk.add_tlc("Selectors: all sorted degree sequences of <= 5 gates x max degree 4..9", rsel)
    rc = common.tlc("MCSelectors", cfg="MCSelectors_canary", workers=2, timeout=600, tag="mcselcan")
    chk.canary("Selectors mutant (group size ignored) violates the degree bound (TLC counterexample)", rc.violated is not None)
    for can in ("merge", "sigma"):
        rc = common.tlc("CopyForest", cfg="CopyForest_canary_" + can, workers=2, timeout=600, tag="cfcan" + can)
        chk.canary("CopyForest mutant %s violates an invariant (TLC counterexample)" % can, rc.violated is not None)
    # ---- programs and configurations from the C01 models
    p1 = c01.tlc_programs(chk, "Programs_len1", "Programs: all one-instruction programs")
    psim = c01.tlc_programs(chk, "Programs_sim", "Programs: simulated programs", simulate=300, depth=13, exhaustive=False)
    psim = [p for p in psim if 3 <= len(p["prog"]["instrs"])]
    rnd.shuffle(p1)
    rnd.shuffle(psim)
    n1, ns = (120, 120) if thorough else (35, 35)
    progs = sorted(p1[:n1] + psim[:ns], key=lambda p: json.dumps(p["prog"], sort_keys=True))
    cfgs, classes = c01.configs(chk)
    strong = [c for c in cfgs + c01.EXTRA_CFGS if c["q"] * c["rate"] + c["pow"] >= 50 and not c["zk"]]
    strong_zk = [c for c in cfgs if c["q"] * c["rate"] + c["pow"] >= 50 and c["zk"] and c["q"] <= 14]
    std = {"zk": False, "strat": "const", "arities": [4, 5], "rate": 3, "cap": 4, "nch": 2, "width": "std", "q": 28, "pow": 16,
           "keccak": False}
    rows = []
    for i, p in enumerate(progs):
        u = rnd.random()
        cfg = std if u < 0.4 else (strong_zk[rnd.randrange(len(strong_zk))] if u > 0.95 else strong[rnd.randrange(len(strong))])
        rows.append({"id": "m%d" % i, "prog": p["prog"], "cfg": cfg, "inputs": classes[rnd.randrange(len(classes))],
                     "kinds": kinds, "strategies": strategies})
    res = run_parallel(rows, "c02_run", 6, 20 if thorough else 14)
    byid = {s["id"]: s for s in rows}
    stats = {}
    distinct = set()
    # ---- selector grouping of every built circuit, validated by TLC (trace validation)
    sel = {}
    for x in res:
        if "selectors" in x:
            sel[json.dumps(x["selectors"], sort_keys=True)] = x["selectors"]
    res = [x for x in res if "selectors" not in x]
    if sel:
        sp = os.path.join(common.OUT, "c02_selectors.ndjson")
        common.write_ndjson(sp, [sel[k] for k in sorted(sel)])
        rs = common.tlc("SelectorsTrace", cfg="SelectorsTrace", workers=1, timeout=600, env={"TRACE": sp}, tag="c02seltrace")
        m = [l for l in rs.raw.splitlines() if l.startswith('<<"SELTRACE"')]
        if not rs.ok or not m:
            raise ToolError("SelectorsTrace failed: " + rs.raw[-800:])
        import re as _re
        parts = _re.match(r'<<"SELTRACE", (\d+), \{(.*?)\}, \{(.*?)\}>>', m[0])
        bad = [int(v) for v in parts.group(2).split(",") if v.strip()]
        notgreedy = [int(v) for v in parts.group(3).split(",") if v.strip()]
        chk.traces += int(parts.group(1)) - len(bad)
        chk.extra["selector_groupings_validated"] = int(parts.group(1))
        keys = sorted(sel)
        for b in bad:
            chk.violation("C02/selectors/%s" % json.dumps(sel[keys[b - 1]]["degrees"]),
                          "selector groups of a built circuit violate the degree bound / filters do not separate the gates",
                          {"selectors": sel[keys[b - 1]], "expected": "GroupsOk and FiltersOk of spec/Selectors.tla"})
        for b in notgreedy:
            chk.note_drift({"selectors_not_greedy": sel[keys[b - 1]]})
    for x in res:
        if "skipped" in x:
            stats["skipped:" + x["skipped"][:30]] = stats.get("skipped:" + x["skipped"][:30], 0) + 1
            continue
        if "anomaly" in x:
            # the honest assignment (generators' own output) violates the circuit's own constraint evaluators /
            # copy classes / lookup tables: either the honest proof is accepted (a proof for a violating
            # assignment) or rejected (honest run rejected) - the property fails both ways
            s0 = byid.get(x["id"], {})
            chk.violation("C02/honest-assignment-violates-circuit/%s" % c01.opsig(s0) if s0 else "C02/honest-assignment-violates-circuit",
                          "the assignment produced by the library's own witness generation violates the circuit per the satisfaction oracle: %s" % json.dumps({k: x[k] for k in ("gate", "copy", "lookup", "first_gate") if k in x}),
                          {"scenario": dict(s0, concrete=x.get("concrete")), "observed": x, "expected": "honest assignment satisfies every gate, copy and lookup constraint"})
            continue
        chk.evaluations += 1
        exp = rule[(not x["violated"], x["strategy"])]
        k = "%s/%s/%s" % (x["kind"], x["strategy"], "violating" if x["violated"] else "satisfying")
        stats[k] = stats.get(k, 0) + 1
        s = byid[x["id"]]
        if x["violated"]:
            distinct.add((x["id"], json.dumps(x["edits"]), x["strategy"]))
        payload = {"scenario": dict(s, concrete=x["concrete"]), "corruption": {k2: x[k2] for k2 in ("kind", "strategy", "desc", "edits", "oracle")},
                   "expected": exp, "observed": {"accepted": x["accepted"], "stage": x["stage"], "detail": x["detail"]}}
        if exp == "reject" and x["accepted"]:
            chk.violation("C02/accepted-violating/%s/%s/%s" % (x["kind"], x["strategy"], c01.opsig(s)),
                          "the verifier accepted a proof for an assignment that violates the circuit (%s)" % json.dumps(x["oracle"]), payload)
        elif exp == "accept" and not x["accepted"] and not x["uses_lookup"]:
            chk.violation("C02/rejected-satisfying/%s/%s" % (x["kind"], c01.opsig(s)),
                          "the oracle finds the assignment satisfying but the plain prover/verifier rejects it: %s" % x["detail"], payload)
        else:
            chk.traces += 1
    chk.nontrivial += len(distinct)
    chk.extra["outcomes"] = stats
    chk.sample({"scenario": rows[0], "first_result": next((x for x in res if x.get("id") == rows[0]["id"] and "kind" in x), None)})
    viol_cases = sum(v for k, v in stats.items() if k.endswith("/violating"))
    if viol_cases < 200:
        raise ToolError("vacuity: only %d violating assignments were produced" % viol_cases)
    # ---- unsatisfiable programs through the ordinary API (C01's scenario runner)
    unsat_progs = [p for p in (p1[:1200] if thorough else p1[:400]) if any(e["unsat"] for e in p["expect"])]
    urows = []
    for i, p in enumerate(unsat_progs):
        cfg = std if rnd.random() < 0.5 else strong[rnd.randrange(len(strong))]
        urows.append({"id": "u%d" % i, "prog": p["prog"], "cfg": cfg, "inputs": ["zero", "pm1", "rand"] if i % 2 else ["pm1", "zero", "zero"]})
    # boundary block (independent of the seed): every range check / bounded exponent at the FIRST value that
    # violates it (x = 2^n for a bound of n bits), one bit above, and at 2^62 - the inputs that a missing
    # high-limb constraint would let through; plus every assertion opcode on unequal / non-zero inputs
    range_bits = [1, 2, 8, 16, 32, 63, 64]
    exp_bits = [1, 4, 16, 64]
    seen_b = set()
    for p in sorted(p1, key=lambda q: json.dumps(q["prog"], sort_keys=True)):
        ins = p["prog"]["instrs"][0]
        op, a = ins["op"], ins["args"]
        if op == "range":
            n = range_bits[a[1] % 7]
        elif op == "exp":
            n = exp_bits[a[2] % 4]
        elif op in ("assert_eq", "assert_zero", "inverse", "div"):
            n = None
        else:
            continue
        if n is not None and n >= 64:
            continue
        key = (op, n, a[0] % 3 if op == "range" else tuple(x % 3 for x in a[:2]))
        if key in seen_b:
            continue
        seen_b.add(key)
        if n is None:
            vecs = [["zero", "one", "two"], ["pm1", "zero", "pm2"]] if op in ("assert_eq", "assert_zero") else [["zero", "zero", "zero"]]
        else:
            hi = "pow2:62" if n < 62 else "pow2:63"
            vecs = [["pow2:%d" % n] * 3, ["pow2:%d" % min(n + 1, 63)] * 3, [hi] * 3]
        for j, v in enumerate(vecs):
            urows.append({"id": "ub%d_%d" % (len(seen_b), j), "prog": p["prog"], "cfg": std, "inputs": v})
    ures = c01.run_parallel(urows, "c02_unsat", nproc=4)
    nun = 0
    for s in urows:
        x = ures[s["id"]]
        if x["sat"] or x["outcome"] in ("inadmissible", "skipped"):
            continue
        nun += 1
        chk.evaluations += 1
        if x["outcome"] == "accepted":
            chk.violation("C02/accepted-unsat-program/%s" % c01.opsig(s), "an unsatisfiable program (%s) was proved and verified" % x["unsat_reason"],
                          {"scenario": dict(s, concrete=x["concrete"]), "observed": x, "expected": "reject"})
        else:
            chk.traces += 1
            distinct.add(("unsat", s["id"]))
    chk.extra["unsat_programs_run"] = nun
    chk.nontrivial = len(distinct)
    # ---- the meaning of connect at the boundary of the routed columns: refused, or enforced
    cp = common.vh(["connectprobe"], binname=BIN, env={"RAYON_NUM_THREADS": "3"}, timeout=1200)[-1]["connectprobe"]
    seen = {"enforced_routed": 0, "refused_advice": 0}
    for x in cp:
        chk.evaluations += 1
        tag = "%d-%d/col%d" % (x["nw"], x["nr"], x["col"])
        if x["outcome"] == "forgery_accepted":
            chk.violation("C02/connect/unenforced/%s" % tag,
                          "connect() accepted a wire, the circuit was built, and a proof in which the two connected targets hold different values was accepted by verify",
                          {"connectprobe": x, "expected": "connect refuses a wire the permutation argument does not cover, or the equality is enforced"})
        elif x["outcome"] == "enforced":
            if x["routed"]:
                seen["enforced_routed"] += 1
                chk.traces += 1
            else:
                chk.note_drift({"connect_accepts_advice_column_but_enforces_it": x})
        elif x["outcome"] == "refused":
            if x["routed"]:
                chk.violation("C02/connect/routed-wire-refused/%s" % tag, "connect() refused a routed wire: %s" % str(x.get("detail"))[:200],
                              {"connectprobe": x, "expected": "routed wires can be connected"})
            else:
                seen["refused_advice"] += 1
                chk.traces += 1
        else:
            chk.note_drift({"connectprobe_unexpected": x})
    chk.extra["connect_boundary_probe"] = dict(seen, cases=len(cp))
    if not chk.violations and not chk.drift and (seen["enforced_routed"] < 3 or seen["refused_advice"] < 6):
        raise ToolError("vacuity: connect boundary probe covered too little: %s" % seen)
    # ---- binding canary: an accepted violating assignment must surface
    st = run_parallel(rows[:6], "c02_selftest", 2, 6, extra=["--selftest"])
    chk.canary("self-test: an (artificially) accepted violating assignment is reported",
               any(x.get("stage") == "selftest" and x["accepted"] and x["violated"] for x in st))
    # ---- collect the model runs
    th.join()
    if "error" in perm:
        raise perm["error"]
    for c, rr in perm.items():
        if c.startswith("canary_"):
            chk.canary("PermArg with the %s term disabled accepts a violating assignment (TLC counterexample)" % c[7:], rr.violated is not None)
        else:
            if not rr.ok:
                raise ToolError("spec PermArg violates %s under %s" % (rr.violated, c))
            chk.add_tlc("PermArg %s: all partitions x assignments x challenges" % c, rr)


def replay(path):
    p = json.load(open(path))
    s = dict(p["scenario"])
    print(json.dumps(p, indent=1)[:2500])
    if "forest_scenario" in p:
        fp = os.path.join(common.OUT, "c02_replay_forest.ndjson")
        common.write_ndjson(fp, [p["forest_scenario"]])
        fo = common.vh(["forest", "--in", fp], binname=BIN)[-1]
        print("re-run:", json.dumps(fo)[:800])
        return 1 if fo["mismatches"] else 0
    if "corruption" not in p:
        return c01.replay(path)
    s["kinds"] = [p["corruption"]["kind"], "none"]
    s["strategies"] = [p["corruption"]["strategy"], "plain"]
    fp = os.path.join(common.OUT, "c02_replay.ndjson")
    common.write_ndjson(fp, [s])
    out = common.vh(["run", "--in", fp, "--cells", 40], binname=BIN)
    bad = [x for x in out if x.get("violated") and x.get("accepted")]
    print("re-run: %d cases, %d violating assignments accepted" % (len(out), len(bad)))
    return 1 if bad else 0
