"""C01 — honest proofs of satisfiable circuits verify and carry the right outputs.
A: TLC explores spec/Programs.tla (every program of one instruction over the whole vocabulary,
   selected two-instruction programs, simulated longer ones) and spec/Configs.tla (configuration
   lattice, admissibility, input classes).
B: (1) every value TLC computed over F_17 is reproduced by the harness interpreter (binding the
   oracle to the spec); (2) every program x input-class vector x configuration drawn from the
   TLC-enumerated lattice is built through the CircuitBuilder API, proved and verified, and the
   proof's public inputs are compared with the interpreter over the real field."""
import json
import os
import random
from concurrent.futures import ThreadPoolExecutor

import common
from common import ToolError, log

LEVEL = "model_checking"
BIN = "c01"
EXTRA_CFGS = []


def progs_from(r):
    out = []
    for s in common.tagged(r.prints, "PROG"):
        out.append(s)
    return out


def tlc_programs(chk, cfg, name, simulate=None, depth=None, exhaustive=True, timeout=600):
    r = common.tlc("Programs", cfg=cfg, workers=8, timeout=timeout, simulate=simulate, depth=depth, tag=cfg)
    if not r.ok:
        raise ToolError("spec Programs violates %s under %s" % (r.violated, cfg))
    chk.add_tlc(name, r, exhaustive=exhaustive)
    # TLC's workers print in a schedule-dependent order: sort, so that a seed selects the same programs
    ps = sorted(progs_from(r), key=lambda p: json.dumps(p["prog"], sort_keys=True))
    # de-duplicate (simulation revisits prefixes)
    seen, out = set(), []
    for p in ps:
        k = json.dumps(p["prog"], sort_keys=True)
        if k not in seen:
            seen.add(k)
            out.append(p)
    return out


def configs(chk):
    r = common.tlc("Configs", cfg="Configs", workers=1, timeout=300)
    if not r.ok:
        raise ToolError("spec Configs: " + str(r.violated))
    cfgs = common.tagged(r.prints, "CFGS")[0]
    global EXTRA_CFGS
    EXTRA_CFGS = sorted(common.tagged(r.prints, "CFGSX")[0], key=lambda c: json.dumps(c, sort_keys=True))
    classes = common.tagged(r.prints, "CLASSES")[0]
    fritable = common.tagged(r.prints, "FRITABLE")[0]
    chk.extra["config_lattice"] = len(cfgs)
    key = lambda c: json.dumps(c, sort_keys=True)
    cfgs.sort(key=key)
    classes.sort(key=key)
    path = os.path.join(common.OUT, "c01_fritable.json")
    json.dump(fritable, open(path, "w"))
    res = common.vh(["friadm", "--in", path], binname=BIN)[-1]
    if res["mismatches"]:
        raise ToolError("harness FriAdmissible differs from spec/Configs.tla: %s" % res["mismatches"][:2])
    chk.extra["fri_admissible_rows_compared"] = res["rows"]
    return cfgs, classes


def run_parallel(path_rows, name, nproc=4, extra=None):
    """split scenario rows over nproc harness processes; returns result rows by id"""
    parts = [path_rows[i::nproc] for i in range(nproc)]
    files = []
    for i, part in enumerate(parts):
        fp = os.path.join(common.OUT, "%s.part%d.ndjson" % (name, i))
        common.write_ndjson(fp, part)
        files.append(fp)
    common.build_harness("release", BIN)

    def one(fp):
        return common.vh(["run", "--in", fp] + (extra or []), binname=BIN, timeout=7000, env={"RAYON_NUM_THREADS": "3"})

    with ThreadPoolExecutor(max_workers=nproc) as ex:
        outs = list(ex.map(one, files))
    res = {}
    for o in outs:
        for r in o:
            res[r["id"]] = r
    return res


def opsig(s):
    return "+".join(i["op"] for i in s["prog"]["instrs"])[:80]


def cfgsig(c):
    return "%s%s-r%d-c%d-n%d-%s-q%d%s%s" % (c["strat"], "".join(map(str, c["arities"])), c["rate"], c["cap"], c["nch"],
                                            c["width"], c["q"], "-zk" if c["zk"] else "", "-keccak" if c["keccak"] else "")


def make_scenarios(progs, cfgs, classes, rnd, tag, std_share=0.34):
    std = {"zk": False, "strat": "const", "arities": [4, 5], "rate": 3, "cap": 4, "nch": 2, "width": "std", "q": 28,
           "pow": 16, "keccak": False}
    rows = []
    nozk = [c for c in cfgs if not c["zk"]] + EXTRA_CFGS
    zk = [c for c in cfgs if c["zk"]]
    for i, p in enumerate(progs):
        u = rnd.random()
        # zero-knowledge circuits carry thousands of blinding rows (seconds each): one in ten
        cfg = std if u < std_share else (zk[rnd.randrange(len(zk))] if u > 0.9 else nozk[rnd.randrange(len(nozk))])
        rows.append({"id": "%s%d" % (tag, i), "prog": p["prog"], "cfg": cfg, "inputs": classes[rnd.randrange(len(classes))]})
    return rows


def judge(chk, rows, res, stats):
    gates = stats.setdefault("gates", set())
    for s in rows:
        r = res.get(s["id"])
        if r is None:
            raise ToolError("no result for scenario " + s["id"])
        oc = r["outcome"]
        stats[oc] = stats.get(oc, 0) + 1
        chk.evaluations += 1
        for g in r.get("gates", []):
            gates.add(g.split("{")[0].split("<")[0].strip())
        if oc in ("inadmissible", "skipped"):
            continue
        if r["sat"]:
            stats["sat_run"] = stats.get("sat_run", 0) + 1
            if oc == "accepted":
                chk.traces += 1
                stats.setdefault("distinct", set()).add((json.dumps(s["prog"], sort_keys=True), cfgsig(s["cfg"])))
            else:
                chk.violation("C01/%s/%s/%s" % (oc, opsig(s), cfgsig(s["cfg"])),
                              "satisfiable program under an admissible configuration: %s %s" % (oc, json.dumps(r["detail"])[:300]),
                              {"scenario": dict(s, concrete=r.get("concrete")), "observed": r,
                               "expected": "build/prove/verify succeed and public inputs = direct evaluation"})
        else:
            stats["unsat_run"] = stats.get("unsat_run", 0) + 1
            if oc == "accepted":
                # C02's statement; recorded here, claimed by bin/vcheck C02
                stats["unsat_accepted"] = stats.get("unsat_accepted", 0) + 1
                chk.note_drift({"c02_violation_seen": s["id"], "prog": s["prog"], "cfg": s["cfg"], "concrete": r.get("concrete")})


BUILDER_SHAPES = [(135, 80, 2, "std"), (20, 12, 2, "narrow"), (60, 25, 5, "mid"), (135, 80, 2, "nobase")]


def builder_block(chk, thorough):
    """spec/Builder.tla: the builder front end (constants, arithmetic shortcuts and cache, slot allocation,
    constant generators at build) model-checked for every short call sequence, and the real CircuitBuilder
    validated against it call by call (spec/BuilderTrace.tla, Goldilocks on byte limbs)."""
    cfg = "MCBuilder_4" if thorough else "MCBuilder"
    rb = common.tlc("MCBuilder", cfg=cfg, workers=6, timeout=3000, heap="8g", tag="mcbuilder")
    if not rb.ok:
        raise ToolError("spec Builder violates %s" % rb.violated)
    chk.add_tlc("Builder: every sequence of <= %d builder calls followed by build, F_3" % (4 if thorough else 3), rb)
    ecfg = "MCBuilder_ext" if thorough else "MCBuilder_extq"
    re_ = common.tlc("MCBuilder", cfg=ecfg, workers=6, timeout=3000, heap="8g", tag="mcbuilderext")
    if not re_.ok:
        raise ToolError("spec Builder (extension arithmetic) violates %s" % re_.violated)
    chk.add_tlc("Builder: every sequence of <= 3 calls of constant_extension / arithmetic_extension, then build, F_25", re_)
    for can in ("slot_full_late", "identity_wrong_operand", "cache_ignores_consts", "one_const_cell_short",
                "ext_identity_wrong_operand", "mul_gate_for_any_const_addend", "routable_le"):
        rc = common.tlc("MCBuilder", cfg="MCBuilder_canary_" + can, workers=2, timeout=600, tag="mcbcan" + can)
        chk.canary("Builder mutant %s violates Inv (TLC counterexample)" % can, rc.violated == "Inv")
    runs, ln = (120, 120) if thorough else (24, 70)
    totals = {}
    first_trace = None
    for nw, nr, nc, tag in BUILDER_SHAPES:
        tp = os.path.join(common.OUT, "c01_builder_%s.ndjson" % tag)
        out = common.vh(["builder", "--out", tp, "--nw", str(nw), "--nr", str(nr), "--nc", str(nc), "--runs", str(runs),
                         "--len", str(ln), "--nobase", "1" if tag == "nobase" else "0"], binname=BIN,
                        env={"RAYON_NUM_THREADS": "3"}, timeout=3000)
        summ = out[-1]
        chk.evaluations += summ["sem_checked"]
        for x in out:
            if "builder_build_panic" in x:
                chk.violation("C01/builder/build-panic/%s" % tag,
                              "build() panicked on a circuit assembled from add_virtual_target / constant / arithmetic / random_access / add_gate: %s" % x["builder_build_panic"][:300],
                              {"builder_shape": [nw, nr, nc], "builder_nobase": tag == "nobase", "builder_budget": [runs, ln], "run": x["run"], "trace": tp,
                           "expected": "build succeeds"})
        for b in summ["sem_bad"][:20]:
            kind = "arithext" if "arithext" in b else "arith" if "arith" in b else "ra" if "ra" in b else "witness" if ("witness_error" in b or "witness_panic" in b) else "unsatisfied"
            chk.violation("C01/builder/meaning/%s/%s" % (tag, kind),
                          "a builder call's result does not have the value the call denotes under the library's own witness generation, or the generated assignment violates the circuit: %s" % json.dumps(b)[:400],
                          {"builder_shape": [nw, nr, nc], "builder_nobase": tag == "nobase", "builder_budget": [runs, ln], "observed": b, "trace": tp,
                           "expected": "value(result) = c0*x*y + c1*z (arithmetic) / list[index] (random_access); all gates and copies satisfied"})
        rt = common.tlc("BuilderTrace", cfg="BuilderTrace", workers=1, timeout=2400, env={"TRACE": tp}, tag="btrace" + tag)
        info = common.tagged(rt.prints, "BTRACE")
        if not info:
            raise ToolError("BuilderTrace printed no result: " + rt.raw[-600:])
        info = info[0]
        for k, v in info.items():
            totals[k] = totals.get(k, 0) + v
        if info["distinct"] == info["n"]:
            chk.traces += summ["runs"]
        else:
            with open(tp) as f:
                lines = f.read().splitlines()
            bad = json.loads(lines[info["distinct"]])          # 0-based index of the first unmatched line
            # shape drift: the call returned / the build placed something else than the front-end model computes;
            # the property-level judgement is the meaning check above
            chk.note_drift({"builder_trace_rejected": tag, "line": info["distinct"] + 1,
                            "event": {k: bad[k] for k in bad if k != "rows"}, "trace": tp})
        if first_trace is None:
            first_trace = tp
    chk.extra["builder"] = {"shapes": [list(x) for x in BUILDER_SHAPES],
                            "paths_of_arithmetic_extension": {k[1:]: totals.get(k, 0) for k in ("efold", "eaddend", "em0", "em1", "ecache", "eslot", "emulslot")}, "runs_per_shape": runs, "events": totals.get("n", 0),
                            "paths_of_arithmetic": {k: totals.get(k, 0) for k in ("fold", "addend", "m0", "m1", "cache", "slot")},
                            "random_access_slots": totals.get("ra", 0), "builds": totals.get("builds", 0),
                            "builds_using_random_access_constant_cells": totals.get("ra_cells_used", 0)}
    for k in ("fold", "addend", "m0", "m1", "cache", "slot", "ra", "builds", "ra_cells_used",
              "efold", "eaddend", "em0", "em1", "ecache", "eslot", "emulslot"):
        if totals.get(k, 0) == 0 and not chk.drift:
            raise ToolError("vacuity: builder traces never met %s" % k)
    # binding canaries: one corrupted recorded field must be rejected
    with open(first_trace) as f:
        lines = [json.loads(l) for l in f.read().splitlines()]
    def rejected(mod, name):
        cp = os.path.join(common.OUT, "c01_builder_canary_%s.ndjson" % name)
        common.write_ndjson(cp, mod)
        r = common.tlc("BuilderTrace", cfg="BuilderTrace", workers=1, timeout=2400, env={"TRACE": cp}, tag="btcan" + name)
        i = common.tagged(r.prints, "BTRACE")
        return bool(i) and i[0]["distinct"] < i[0]["n"]
    k = next(i for i, e in enumerate(lines) if e["ev"] == "arith" and e["res"][0] == "w" and i > len(lines) // 3)
    m1 = [dict(e) for e in lines]
    m1[k] = dict(m1[k], res=["w", m1[k]["res"][1], m1[k]["res"][2] + 4])
    chk.canary("builder trace with one result wire moved to the next slot is rejected", rejected(m1, "res"))
    kb = None
    for i, e in enumerate(lines):
        if e["ev"] == "build":
            for ri, row in enumerate(e["rows"]):
                if row["kind"] != "arith" and len(row["consts"]) >= 2 and row["consts"][0] != row["consts"][1]:
                    kb = (i, ri)
                    break
        if kb:
            break
    if kb is None:
        raise ToolError("vacuity: no build row with two distinct generator constants in the first builder trace")
    m2 = [json.loads(json.dumps(e)) for e in lines]
    c = m2[kb[0]]["rows"][kb[1]]["consts"]
    c[0], c[1] = c[1], c[0]
    chk.canary("builder trace with two constants swapped between generator cells is rejected", rejected(m2, "cells"))


def run(chk, tier):
    thorough = tier == "thorough"
    rnd = random.Random(common.seed())
    chk.rule = ("programs = TLC-enumerated instruction lists of spec/Programs.tla (all one-instruction programs over 42 opcodes "
                "x argument tuples, selected two-instruction programs, simulated programs up to 12 instructions); each is "
                "paired with a configuration of the TLC-enumerated lattice (spec/Configs.tla) and an input-class vector; "
                "a case is non-trivial if the program is satisfiable for its input, the configuration admissible and the "
                "(program, configuration) pair distinct")
    chk.assumptions = ["completeness failures of probability < 2^-50 do not occur",
                       "hash / Merkle opcodes use the native Poseidon as reference (validated by C13)"]
    # ---- A: the models
    p1 = tlc_programs(chk, "Programs_len1", "Programs: all one-instruction programs")
    nsim = 3000 if thorough else 300
    psim = tlc_programs(chk, "Programs_sim", "Programs: simulated programs (<= 12 instructions)", simulate=nsim, depth=13,
                        exhaustive=False)
    psim = [p for p in psim if len(p["prog"]["instrs"]) >= 3]
    rnd.shuffle(psim)
    psim = psim[:nsim]            # TLC's workers each contribute traces; keep the budgeted number
    p2 = []
    if thorough:
        p2 = tlc_programs(chk, "Programs_len2", "Programs: all two-instruction programs over 10 opcodes", timeout=1800)
        p2 = [p for p in p2 if len(p["prog"]["instrs"]) == 2]
    cfgs, classes = configs(chk)
    # canaries: mutated semantics must be exposed by the interpreter comparison
    for can in ("select", "sub"):
        rc = common.tlc("Programs", cfg="Programs_canary_" + can, workers=4, timeout=300, tag="c01can" + can)
        cp = os.path.join(common.OUT, "c01_canary_%s.ndjson" % can)
        common.write_ndjson(cp, [dict(p, id="c%d" % i) for i, p in enumerate(progs_from(rc))])
        out = common.vh(["interp17", "--in", cp], binname=BIN)[-1]
        chk.canary("spec mutant %s exposed by the interpreter comparison" % can, len(out["mismatches"]) > 0)
    # ---- witness-generation work list: model (all graphs x provided sets x pre-sets x schedules) and replay
    for cfgname, name in ([("WitnessGen_2", "WitnessGen: all graphs of <= 2 generators, all round orders")]
                          + ([("WitnessGen_3", "WitnessGen: all graphs of <= 3 generators, all round orders")] if thorough else [])):
        rw = common.tlc("WitnessGen", cfg=cfgname, workers=6, timeout=2400, tag=cfgname)
        if not rw.ok:
            raise ToolError("spec WitnessGen violates %s" % rw.violated)
        chk.add_tlc(name, rw)
        wsc = sorted({json.dumps(x, sort_keys=True) for x in common.tagged(rw.prints, "WGEN")})
        wp = os.path.join(common.OUT, "c01_%s.ndjson" % cfgname)
        with open(wp, "w") as f:
            f.write("\n".join(wsc) + "\n")
        wo = common.vh(["wgen", "--in", wp], binname=BIN, env={"RAYON_NUM_THREADS": "3"}, timeout=3000)[-1]
        chk.evaluations += wo["scenarios"]
        chk.traces += wo["scenarios"] - len(wo["mismatches"])
        chk.extra["witness_generation_scenarios"] = chk.extra.get("witness_generation_scenarios", 0) + wo["scenarios"]
        chk.extra["witness_generation_outcomes"] = wo["outcomes"]
        for m in wo["mismatches"]:
            sc = m["scenario"]
            chk.violation("C01/witness-generation/%s/%s" % (sc["expected"], json.dumps(sc["gens"])),
                          "generate_partial_witness returned %s, the work-list specification expects %s" % (m["observed"], sc["expected"]),
                          {"wgen_scenario": sc, "observed": m["observed"], "expected": sc["expected"]})
    for can in ("requeue", "conflict"):
        rc = common.tlc("WitnessGen", cfg="WitnessGen_canary_" + can, workers=2, timeout=600, tag="wgcan" + can)
        chk.canary("WitnessGen mutant %s violates OutcomeAsExpected (TLC counterexample)" % can, rc.violated is not None)
    # ---- builder front end: model and trace validation of the real CircuitBuilder
    builder_block(chk, thorough)
    # ---- B1: interpreter == spec on F_17
    allp = p1 + p2 + psim
    ip = os.path.join(common.OUT, "c01_interp.ndjson")
    common.write_ndjson(ip, [dict(p, id="i%d" % i) for i, p in enumerate(allp)])
    out = common.vh(["interp17", "--in", ip], binname=BIN)[-1]
    chk.extra["interp17"] = {"programs": out["programs"], "cases": out["cases"]}
    chk.traces += out["programs"]
    chk.evaluations += out["cases"]
    if out["mismatches"]:
        raise ToolError("harness interpreter disagrees with spec/Programs.tla: %s" % json.dumps(out["mismatches"][:2]))
    chk.sample({"program": allp[0]["prog"], "f17_inputs": allp[0]["inputs"][:2], "f17_expected": allp[0]["expect"][:2]})
    # ---- B2: real circuits
    p1_full = list(p1)
    if not thorough:
        rnd.shuffle(p1)
        p1 = sorted(p1[:350], key=lambda p: json.dumps(p["prog"], sort_keys=True))
        psim = psim[:100]
    # coverage block: every opcode under every row shape (standard FRI parameters), independent of the seed
    p1_all = sorted(p1_full, key=lambda p: json.dumps(p["prog"], sort_keys=True))
    first_by_op = {}
    for p in p1_all:
        first_by_op.setdefault(p["prog"]["instrs"][0]["op"], p)
    cover = []
    stdc = {"zk": False, "strat": "const", "arities": [4, 5], "rate": 3, "cap": 4, "nch": 2, "width": "std", "q": 28,
            "pow": 16, "keccak": False}
    for op in sorted(first_by_op):
        for w in ("std", "wide", "narrow", "r60", "r37"):
            cover.append({"id": "v-%s-%s" % (op, w), "prog": first_by_op[op]["prog"], "cfg": dict(stdc, width=w),
                          "inputs": ["small:16", "rand", "small:4"]})
    # lookup sweep: many lookups with pseudo-random indices into the 16- and 32-entry tables, so that every slot of a
    # table row and of a lookup row is used (a single lookup leaves all but one slot at multiplicity zero, which hides
    # how slots are grouped into the partial sums)
    sweep = [{"op": "mul" if j % 2 == 0 else "add", "args": [j, j + 1]} for j in range(10)]
    sweep += [{"op": "lookup", "args": [i, 1]} for i in range(13)] + [{"op": "lookup", "args": [i, 2]} for i in range(13)]
    for w in ("std", "wide", "r60", "r37"):
        for k in range(2):
            cover.append({"id": "v-lookup_sweep%d-%s" % (k, w), "prog": {"nin": 3, "instrs": sweep}, "cfg": dict(stdc, width=w),
                          "inputs": ["rand", "rand", "rand"]})
    rows = make_scenarios(p1, cfgs, classes, rnd, "a") + cover
    if thorough:
        # budget: about 4 500 scenarios (40 - 60 min of build / prove / verify on six processes)
        psim = psim[:900]
        rnd.shuffle(p2)
        p2 = sorted(p2[:900], key=lambda p: json.dumps(p["prog"], sort_keys=True))
    rows += make_scenarios(psim, cfgs, classes, rnd, "s")
    rows += make_scenarios(p2, cfgs, classes, rnd, "b")
    if thorough:
        pc = list(p1)
        rnd.shuffle(pc)
        rows += make_scenarios(sorted(pc[:500], key=lambda p: json.dumps(p["prog"], sort_keys=True)), cfgs, classes, rnd, "c", std_share=0.0)
    res = run_parallel(rows, "c01_run", nproc=6)
    stats = {}
    judge(chk, rows, res, stats)
    chk.sample({"scenario": rows[len(rows) // 3], "result": {k: v for k, v in res[rows[len(rows) // 3]["id"]].items() if k != "gates"}})
    chk.nontrivial += len(stats.pop("distinct", set()))
    gates = sorted(stats.pop("gates", set()))
    chk.extra["outcomes"] = stats
    chk.extra["gate_types_exercised"] = gates
    if stats.get("sat_run", 0) < 0.5 * len(rows):
        raise ToolError("vacuity: fewer than half of the scenarios were satisfiable and admissible: %s" % stats)
    # binding canary: a corrupted expectation must surface
    can_rows = [dict(r, id="k" + r["id"]) for r in rows[:40]]
    cres = run_parallel(can_rows, "c01_canary", nproc=2, extra=["--corrupt"])
    chk.canary("corrupted expected output is reported as wrong_outputs",
               any(r["outcome"] == "wrong_outputs" for r in cres.values()))


def replay(path):
    p = json.load(open(path))
    if "wgen_scenario" in p:
        fp = os.path.join(common.OUT, "c01_replay_wgen.ndjson")
        common.write_ndjson(fp, [p["wgen_scenario"]])
        wo = common.vh(["wgen", "--in", fp], binname=BIN)[-1]
        print("expected:", p["expected"], "| re-run:", json.dumps(wo)[:600])
        return 1 if wo["mismatches"] else 0
    if "builder_shape" in p:
        # the builder driver is deterministic for (seed, shape, budget): re-run it and look for the recorded run
        nw, nr, nc = p["builder_shape"]
        runs, ln = p.get("builder_budget", [24, 70])
        os.environ["VERIF_SEED"] = str(p.get("seed", 1))
        tp = os.path.join(common.OUT, "c01_replay_builder.ndjson")
        out = common.vh(["builder", "--out", tp, "--nw", str(nw), "--nr", str(nr), "--nc", str(nc), "--runs", str(runs),
                         "--len", str(ln), "--nobase", "1" if p.get("builder_nobase") else "0"], binname=BIN,
                        env={"RAYON_NUM_THREADS": "3"}, timeout=3000)
        bad = [x for x in out if "builder_build_panic" in x] + out[-1]["sem_bad"]
        print("expected :", p.get("expected"))
        print("recorded :", json.dumps(p.get("observed", p.get("run")))[:600])
        print("re-run   :", json.dumps(bad[:3])[:1200], "(%d deviations)" % len(bad))
        return 1 if bad else 0
    s = p["scenario"]
    fp = os.path.join(common.OUT, "c01_replay.ndjson")
    common.write_ndjson(fp, [s])
    out = common.vh(["run", "--in", fp], binname=BIN)[-1]
    print("scenario :", json.dumps(s)[:1500])
    print("expected :", p.get("expected"))
    print("observed :", json.dumps({k: v for k, v in out.items() if k != "gates"})[:1500])
    ok = out["outcome"] in ("accepted", "inadmissible") if out["sat"] else out["outcome"] != "accepted"
    return 0 if ok else 1
