"""C15 — transforms and polynomial algebra agree with their definitions.
A: TLC on the implementation-shaped models FftAlg (fft_classic / ifft / coset variants over F_17, F_97,
   scalar and packed butterflies, every n, every zero-tail factor, right and wrong root-table size)
   and BitRev (reverse_index_bits, in-place small / chunked variants with the real thresholds up to
   2^14, square and rectangular transposes), each with spec-mutant canaries.
C: an operation log of the real transforms / polynomial algebra / permutations, with step witnesses,
   validated by TLC event by event against the property-level definitions in PolyOps
   (PolyLogTrace); bulk comparison of the real code with a naive u128 reference (whose own sampled
   operations are validated by TLC through OpLogTrace) across option settings and SIMD builds."""
import json
import os
import re
from concurrent.futures import ThreadPoolExecutor

import common
from common import ToolError, log

LEVEL = "model_checking"
P = 2 ** 64 - 2 ** 32 + 1

FFT_CFGS_QUICK = ["p17", "p17_packed", "p97_packed"]
FFT_CFGS_THOROUGH = ["p97", "p97_packed8"]
FFT_CANARIES = ["no_bitrev", "twiddle_stride", "copy_mask", "skip_round0", "ifft_half", "ifft_no_reverse",
                "coset_pow", "packed_omega"]
BITREV_CFGS_QUICK = ["faithful", "faithful_bigel", "scaled", "scaled3", "faithful13"]
BITREV_CFGS_THOROUGH = ["faithful14", "scaled12"]
BITREV_CANARIES = ["swap_always", "no_second_transpose", "chunks_args", "swap_quadrant", "large_shift"]
PARTS = 6
JVM = {"JAVA_TOOL_OPTIONS": "-XX:ParallelGCThreads=3"}


# ------------------------------------------------------------------------------------------
# helpers
# ------------------------------------------------------------------------------------------
def _val(limbs):
    return sum(b << (8 * i) for i, b in enumerate(limbs))


def _vec(v):
    return [_val(x) % P for x in v]


def _deg1(c):
    d = len(c)
    while d > 0 and c[d - 1] % P == 0:
        d -= 1
    return d


def _inv_series(h, n):
    """inverse power series of h modulo X^n (classification of inputs only, never a verdict)"""
    a0i = pow(h[0], P - 2, P)
    b = [0] * n
    b[0] = a0i
    for k in range(1, n):
        s = 0
        for i in range(1, min(k, len(h) - 1) + 1):
            s += h[i] * b[k - i]
        b[k] = (-s * a0i) % P
    return b


def _has_gap(h, n):
    if not h or h[0] % P == 0 or n <= 0:
        return False
    inv = _inv_series(h, n)
    j = 1
    while (1 << j) - 1 < n:
        if inv[(1 << j) - 1] == 0:
            return True
        j += 1
    return False


def _divrem(a, b):
    db, da = _deg1(b), _deg1(a)
    r = [x % P for x in a[:da]]
    if da < db:
        return [], r
    q = [0] * (da - db + 1)
    linv = pow(b[db - 1], P - 2, P)
    for i in range(da - db, -1, -1):
        coef = r[i + db - 1] * linv % P
        q[i] = coef
        for j in range(db):
            r[i + j] = (r[i + j] - coef * b[j]) % P
    return q, r[:db - 1]


def classify_div(a, b):
    """which documented div_rem defect family (if any) the operands belong to"""
    da, db = _deg1(a), _deg1(b)
    if db == 0 or da < db:
        return None
    q, _ = _divrem(a, b)
    if q and q[0] == 0:
        return "q_low_zero"
    revb = list(reversed([x % P for x in b[:db]]))
    if _has_gap(revb, da - db + 1):
        return "inv_gap"
    return None


def event_key(e):
    """stable key of a rejected / panicking event"""
    op = e.get("op")
    if op in ("divrem", "divrempt"):
        fn = e.get("fn", "div_rem")
        fam = classify_div(_vec(e["a"]), _vec(e["b"])) if fn == "div_rem" else None
        return "C15/%s/%s/%s" % (fn, fam or "other", e.get("fam", "?"))
    if op == "invmod":
        fam = "inv_gap" if _has_gap(_vec(e["a"]), e["n"]) else "other"
        return "C15/inv_mod_xn/%s/%s" % (fam, e.get("fam", "?"))
    if op == "panic":
        where = e.get("in", "?")
        note = e.get("note", {})
        if where == "div_rem" and "a" in note:
            fam = classify_div([x % P for x in note["a"]], [x % P for x in note["b"]])
            return "C15/div_rem/%s/%s" % (fam or "other", note.get("fam", "?"))
        if where == "inv_mod_xn" and "a" in note:
            fam = "inv_gap" if _has_gap([x % P for x in note["a"]], note["n"]) else "other"
            return "C15/inv_mod_xn/%s/%s" % (fam, note.get("fam", "?"))
        return "C15/panic/%s" % where
    if op == "same":
        return "C15/options-differ/%s" % e.get("what", "?")
    if op == "evalpt":
        return "C15/transform/%s/lg%s" % (e.get("what", "?"), e.get("lg"))
    return "C15/%s/%s" % (op, e.get("what", e.get("fam", "")))


def bulk_key(m, flavour):
    what = m.get("what", "?")
    if what in ("div_rem", "inv_mod_xn"):
        fam = "q_low_zero" if m.get("q_low_zero") else ("inv_gap" if m.get("inv_gap") else "other")
        return "C15/%s/%s/bulk" % (what, fam)
    if "differ" in what:
        return "C15/options-differ/bulk/%s/%s" % (flavour, what)
    return "C15/bulk/%s/%s" % (flavour, what.replace(" ", "_"))


def _tlc_model(args):
    module, cfg, workers, timeout = args
    return cfg, common.tlc(module, cfg=cfg, workers=workers, timeout=timeout, tag="c15-" + cfg, env=JVM,
                           heap="1g" if "canary" in cfg else "3g")


def validate_part(args):
    path, tag, workers, timeout = args
    r = common.tlc("PolyLogTrace", cfg="PolyLogTrace", workers=workers, timeout=timeout, env=dict(JVM, TRACE=path),
                   tag=tag, heap="4g", extra=["-continue"])
    bad = sorted({int(m.group(1)) for m in re.finditer(r"/\\ l = (\d+)", r.raw) if int(m.group(1)) > 0})
    return r, bad


def split_log(rows, parts, prefix):
    """rows[0] is the roots event; distribute the rest over `parts` files of similar size"""
    sized = sorted(((len(json.dumps(e, separators=(",", ":"))), i) for i, e in enumerate(rows) if i > 0), reverse=True)
    load = [0] * parts
    members = [[] for _ in range(parts)]
    for sz, i in sized:
        j = load.index(min(load))
        load[j] += sz
        members[j].append(i)
    out = []
    for j in range(parts):
        members[j].sort()
        path = os.path.join(common.OUT, "%s-part%d.ndjson" % (prefix, j))
        common.write_ndjson(path, [rows[0]] + [rows[i] for i in members[j]])
        out.append((path, members[j]))
    return out


def validate_log(chk, rows, prefix, name, workers=3, timeout=1500, parts=PARTS):
    """TLC-validate an operation log (rows[0] = roots event).  Returns the list of rejected events."""
    pieces = split_log(rows, parts, prefix)
    jobs = [(p, "%s-%d" % (prefix, j), workers, timeout) for j, (p, _) in enumerate(pieces)]
    with ThreadPoolExecutor(max_workers=parts) as ex:
        results = list(ex.map(validate_part, jobs))
    rejected = []
    for j, (r, bad) in enumerate(results):
        chk.add_tlc("%s part %d (%d events)" % (name, j, len(pieces[j][1]) + 1), r, exhaustive=True)
        if r.violated is not None and not bad:
            raise ToolError("TLC rejected %s part %d (%s) but no event index was found:\n%s" % (name, j, r.violated, r.raw[-1500:]))
        for l in bad:
            if l == 1:
                raise ToolError("the roots-of-unity event itself is rejected by TLC")
            rejected.append(rows[pieces[j][1][l - 2]])
        # every accepted event is one recorded execution of the real code accepted by the trace specification
        chk.traces += len(pieces[j][1]) - len([l for l in bad if l > 1])
    return rejected


# ------------------------------------------------------------------------------------------
def run(chk, tier):
    thorough = tier == "thorough"
    chk.rule = ("model: every reachable state of the FftAlg state machine (all n = 2^lg, lg <= 4 over F_17 / lg <= 5 over F_97, "
                "every admissible zero-tail factor, fft / ifft / coset variants, all basis vectors + 3 dense vectors, right and "
                "wrong table size, scalar and packed rounds) and of BitRev (every lb_n <= 13 (quick) / 14 (thorough) with the real thresholds, scaled "
                "thresholds, transposes); implementation: one event per recorded call or sampled output index of the real code; "
                "an event is non-trivial if its JSON (operands and witnesses) is distinct; each is validated by TLC against "
                "spec/PolyOps.tla; bulk cases are compared with a naive u128 reference whose sampled operations TLC validates")
    chk.assumptions = ["TLC and the Json community module are correct",
                       "outputs of large transforms (n > 16 quick / 32 thorough) are validated at sampled indices; all indices are "
                       "compared with the TLC-validated naive reference in the bulk run",
                       "polynomial identities of degree > ~50 are validated at a random point (error <= 2^-50) plus sampled coefficients",
                       "SIMD butterflies are observed through the avx2 (and avx512 in thorough) builds of the harness"]
    # ---- A: model checking, all runs concurrently
    fft_cfgs = FFT_CFGS_QUICK + (FFT_CFGS_THOROUGH if thorough else [])
    br_cfgs = BITREV_CFGS_QUICK + (BITREV_CFGS_THOROUGH if thorough else [])
    jobs = [("MCFftAlg", "MCFftAlg_" + c, 4, 900) for c in fft_cfgs]
    jobs += [("BitRev", "BitRev_" + c, 4, 900) for c in br_cfgs]
    jobs += [("MCFftAlg", "MCFftAlg_canary_" + c, 2, 600) for c in FFT_CANARIES]
    jobs += [("BitRev", "BitRev_canary_" + c, 2, 600) for c in BITREV_CANARIES]
    # heaviest first; they run in the background while the harness records and TLC validates the logs
    jobs.sort(key=lambda j: (0 if 'faithful1' in j[1] or 'p97' in j[1] else 1))
    pool = ThreadPoolExecutor(max_workers=5)
    model_futures = [pool.submit(_tlc_model, j) for j in jobs]

    # ---- C1: record the real code, validate with TLC
    logp = os.path.join(common.OUT, "c15.ndjson")
    res = common.vh(["c15-record", "--out", logp, "--thorough", 1 if thorough else 0], binname="c15")[-1]
    rows = common.read_ndjson(logp)
    if not rows or rows[0].get("op") != "roots":
        raise ToolError("c15-record did not start with the roots event")
    chk.extra["record"] = {k: res[k] for k in ("events", "model_mults", "panics", "packed_width")}
    panics = [e for e in rows if e.get("op") == "panic"]
    expected_panics = [e for e in panics if e.get("expected")]
    chk.extra["contract_panics_observed"] = len(expected_panics)
    for e in panics:
        if not e.get("expected"):
            chk.violation(event_key(e), "the real code panicked on an admissible input: %s" % e.get("msg"),
                          {"event": e, "how": "c15-record"})
    notes = [e for e in rows if e.get("op") == "note"]
    for e in notes:
        chk.note_drift(e)
    events = [e for e in rows if e.get("op") not in ("panic", "note")]
    for e in (events[1], events[len(events) // 3], events[-1]):
        chk.sample({"oplog_event": {k: (v if len(json.dumps(v)) < 300 else "<%d bytes>" % len(json.dumps(v))) for k, v in e.items()}})
    rejected = validate_log(chk, events, "c15", "oplog real code", parts=8 if thorough else PARTS, workers=2 if thorough else 3)
    for e in rejected:
        chk.violation(event_key(e), "recorded result does not satisfy the defining identity (%s)" % e.get("op"),
                      {"event": e, "roots": events[0], "spec": "spec/PolyOps.tla via spec/PolyLogTrace.tla",
                       "how": "c15-record; TLC EventOk"})
    chk.evaluations += len(events) + len(panics)
    chk.nontrivial += len({json.dumps(e, sort_keys=True) for e in events})
    ops = {}
    for e in events:
        k = e["op"] + ("/" + e["what"] if e["op"] == "evalpt" else "")
        ops[k] = ops.get(k, 0) + 1
    chk.extra["events_by_kind"] = ops
    chk.extra["rejected_events"] = len(rejected)

    # ---- C2: bulk comparison with the naive reference, all option settings, SIMD builds
    flavours = ["release", "avx2"] + (["avx512"] if thorough else [])
    refp = os.path.join(common.OUT, "c15ref.ndjson")
    digests = {}
    for fl in flavours:
        args = ["c15-bulk", "--lgmax", 14 if thorough else 13, "--reps", 4 if thorough else 2,
                "--poly", 30000 if thorough else 3000, "--permlg", 20 if thorough else 18]
        if fl == "release":
            args += ["--reflog", refp]
        out = common.vh(args, flavour=fl, binname="c15")[-1]
        chk.evaluations += out["cases"]
        chk.nontrivial += out["nontrivial"]
        digests[fl] = out["transform_digest"]
        if fl == "release":
            # which (element size, lb_n) pairs exercised which variant of reverse_index_bits_in_place
            chk.extra["inplace_strategies"] = {"rule": "swap loop iff bytes << lb_n <= 2^16 (SMALL_ARR_SIZE) or bytes >= 2^14 (BIG_T_SIZE), "
                                                       "else rows reversal + 1 (even lb_n) / 2 (odd lb_n) square transposes + rows reversal",
                                               "by_type": out["inplace_strategies"]}
            chunked = [t for t in out["inplace_strategies"] if t["chunked_even"] and t["chunked_odd"]]
            if not any(t["bytes"] >= 2048 for t in chunked) or not any(t["bytes"] <= 16 for t in chunked):
                raise ToolError("the bulk run no longer reaches the chunked in-place bit reversal with both small and KiB-sized elements")
        chk.extra.setdefault("bulk", {})[fl] = {k: out[k] for k in ("cases", "packed_width", "transform_digest", "reference_ops",
                                                                     "mismatches_defect_families", "mismatches_other")}
        for m in out["mismatches"]:
            chk.violation(bulk_key(m, fl), "real code differs from the naive reference / between option settings: %s" % m.get("what"),
                          {"case": m, "flavour": fl, "how": "c15-bulk"})
    for fl in flavours[1:]:
        if digests[fl] != digests["release"]:
            chk.violation("C15/packed-differs/" + fl, "transform outputs of the %s build differ from the scalar build" % fl,
                          {"digests": digests})
    if chk.extra["bulk"]["avx2"]["packed_width"] < 2:
        raise ToolError("the avx2 flavour does not use packed butterflies (packed width %s)" % chk.extra["bulk"]["avx2"]["packed_width"])
    r = common.tlc("OpLogTrace", cfg="OpLogTrace", workers=4, timeout=600, env={"TRACE": refp}, tag="c15ref")
    chk.add_tlc("oplog of the harness reference", r)
    if not r.ok:
        raise ToolError("the harness's own reference arithmetic is rejected by TLC (%s)" % r.violated)
    chk.traces += 1
    # the fast congruence operator MacEq of PolyOps against the Limbs oracle on the same events: every reference
    # event accepted, every near miss (one flipped bit, +-1, +p where it fits) classified correctly
    refrows = common.read_ndjson(refp)
    st = []
    for i, e in enumerate(refrows):
        st.append(e)
        rv = _val(e["r"])
        alts = [rv ^ (1 << (i * 7 % 64)), (rv + 1) % 2 ** 64, (rv - 1) % 2 ** 64]
        for a in alts:
            neg = a % P != rv % P
            st.append(dict(e, op="macneg" if neg else "mac", r=[(a >> (8 * k)) & 255 for k in range(8)]))
        if rv + P < 2 ** 64:
            st.append(dict(e, r=[((rv + P) >> (8 * k)) & 255 for k in range(8)]))
    stp = os.path.join(common.OUT, "c15selftest.ndjson")
    common.write_ndjson(stp, [events[0]] + st)
    rr, badl = validate_part((stp, "c15selftest", 4, 900))
    chk.add_tlc("MacEq self-test against Limbs (%d events)" % len(st), rr)
    chk.canary("fast congruence check MacEq agrees with the Limbs oracle on accepted events and near misses", rr.ok and not badl)

    # ---- A (collect): results of the model-checking runs started at the beginning
    results = dict(f.result() for f in model_futures)
    pool.shutdown()
    for c in fft_cfgs:
        r = results["MCFftAlg_" + c]
        chk.add_tlc("FftAlg " + c + " exhaustive", r)
        if not r.ok:
            raise ToolError("specification FftAlg violates %s under %s (spec-level inconsistency)" % (r.violated, c))
    for c in br_cfgs:
        r = results["BitRev_" + c]
        chk.add_tlc("BitRev " + c + " exhaustive", r)
        if not r.ok:
            raise ToolError("specification BitRev violates %s under %s (spec-level inconsistency)" % (r.violated, c))
    for c in FFT_CANARIES:
        chk.canary("FftAlg spec-mutant " + c + " rejected by TLC", results["MCFftAlg_canary_" + c].violated == "Correct")
    for c in BITREV_CANARIES:
        chk.canary("BitRev spec-mutant " + c + " rejected by TLC", results["BitRev_canary_" + c].violated == "Correct")
    chk.exhaustive = True


    # ---- canaries: corrupted recorded values must be rejected
    def corrupt(pred, mutate, name):
        k = next(i for i, e in enumerate(events) if i > 0 and pred(e))
        bad = json.loads(json.dumps(events[k]))
        mutate(bad)
        near = [e for e in events[max(1, k - 3):k + 4] if e is not events[k] and len(json.dumps(e)) < 200000]
        canp = os.path.join(common.OUT, "c15canary.ndjson")
        common.write_ndjson(canp, [events[0]] + near[:3] + [bad] + near[3:])
        rr, badl = validate_part((canp, "c15canary", 2, 600))
        chk.canary(name, rr.violated is not None and len(badl) == 1)

    def flip_y(e):
        e["ys"][0][2] ^= 1
    corrupt(lambda e: e["op"] == "evalpt" and e["what"] == "fft" and e["lg"] == 5, flip_y,
            "one flipped bit in a recorded fft output value is rejected by TLC")

    def flip_coeff(e):
        e["c"][3][0] ^= 4
    corrupt(lambda e: e["op"] == "evalpt" and e["what"] == "ifft" and e["lg"] == 4, flip_coeff,
            "one flipped bit in a recorded ifft output coefficient is rejected by TLC")

    def bump_r(e):
        e["r"][0][0] ^= 1
    corrupt(lambda e: e["op"] == "divrem" and e.get("fn") == "div_rem_long_division" and len(e["r"]) > 0, bump_r,
            "one flipped bit in a recorded remainder is rejected by TLC")

    def swap_perm(e):
        e["out"][5], e["out"][6] = e["out"][6], e["out"][5]
    corrupt(lambda e: e["op"] == "bitrev" and e["lg"] == 4, swap_perm,
            "two swapped elements of a recorded bit-reversal permutation are rejected by TLC")


def replay(path):
    p = json.load(open(path))
    print(json.dumps({k: v for k, v in p.items() if k not in ("roots",)}, indent=1)[:3000])
    ev = p.get("event")
    if ev and ev.get("op") not in ("panic", "note") and "roots" in p:
        one = os.path.join(common.OUT, "c15replay.ndjson")
        common.write_ndjson(one, [p["roots"], ev])
        r, bad = validate_part((one, "c15replay", 1, 600))
        print("specification (spec/PolyOps.tla) verdict on the recorded event:", "accepted" if r.ok else "REJECTED (%s)" % r.violated)
        return 0 if r.ok else 1
    if ev and ev.get("op") == "panic":
        print("the real code panicked on this input (re-run: harness c15-record, same VERIF_SEED); message:", ev.get("msg"))
        return 1
    if "case" in p:
        fl = p.get("flavour", "release")
        out = common.vh(["c15-bulk"], flavour=fl, binname="c15")[-1]
        hit = [m for m in out["mismatches"] if m.get("what") == p["case"].get("what")]
        print("re-run of c15-bulk (%s): %d mismatches of kind %r" % (fl, len(hit), p["case"].get("what")))
        for m in hit[:3]:
            print("  expected (naive reference) vs observed:", json.dumps(m)[:600])
        return 1 if hit else 0
    return 1
