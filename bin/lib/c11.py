"""C11 — the in-circuit STARK verifier agrees with the native one, incl. the variable-degree mode.
A: TLC checks spec/RecVerifier.tla: instance "stark" (0..3 layers) and "starkvar" (one circuit for
   degree bits 4..8: conditional layers, the proof's own Merkle path lengths, padded transcript) with
   Agree / FS3 / Refines / Adequate; instance "vararith": over a lattice of ConstantArityBits
   configurations and every proof degree that can be assigned, the step_active bits select exactly
   the proof's own reduction steps, the digest shift register yields the proof's own path length
   for every tree, and prover, native verifier and circuit absorb the same padded transcript
   (VarOK).  Canaries: grinding / final polynomial / trace-cap Merkle check switched off; mutants
   of the step index, the path-length selection and the padding on either side.
B: STARK definitions (a chain with first-row, last-row, transition and all-row constraints of
   degree 2 and 3) x configurations; fixed-degree circuits and variable-degree circuits (the
   configurations and the lengths that cannot be assigned come from the model); proofs of every
   supported length x every class of the catalogue are judged by verify_stark_proof and
   presented to the circuit via set_stark_proof_with_pis_target + witness generation + oracle."""
import json
import os
import random
from concurrent.futures import ThreadPoolExecutor

import common
import c06
from common import ToolError, log

LEVEL = "model_checking"
BIN = "c11"

STARK_CFGS = {"lk": "RecVerifier_starklk", 0: "RecVerifier_stark_l0", 1: "RecVerifier_stark_l1", 2: "RecVerifier_stark", 3: "RecVerifier_stark_l3",
              "var": "RecVerifier_starkvar", "arith": "RecVerifier_vararith"}
CANARIES = {
    "grinding range check": "RecVerifier_canary_stark_pow",
    "final polynomial equality": "RecVerifier_canary_stark_final",
    "trace-cap Merkle check": "RecVerifier_canary_stark_tracecap",
    "quotient-oracle Merkle check": "RecVerifier_canary_stark_oracle1",
    "last bit of the grinding range check (one leading zero too few enforced)": "RecVerifier_canary_stark_pow1",
    "length check of the assignment routine (surplus elements silently dropped)": "RecVerifier_canary_stark_assign",
    "next-row part of the in-circuit lookup column evaluator (reads the local row)": "RecVerifier_canary_lk_next_reads_local",
}
MUTANTS = {
    "step_active reads the degree bits from index 0": "RecVerifier_canary_step_index_zero",
    "Merkle path length not tied to the degree bits": "RecVerifier_canary_path_len_not_tied",
    "prover does not pad the transcript": "RecVerifier_canary_nopad_prover",
    "native verifier does not pad the transcript": "RecVerifier_canary_nopad_native",
}
VC = {"rate": 1, "cap": 4, "a": 2, "f": 3, "maxdb": 8, "mindb": 4}


def lookup_members(tier, lkclasses):
    """STARKs with a logUp lookup: every circuit-side column / filter evaluator that has a native twin
    (variant: 0 single, 1 single_next_row, 2 linear combination + filter, 3 linear combination with next row + product
    filter, 4 two columns, one read on the next row with a next-row filter, 5 table declared on the next row)"""
    quick = [(1, 2, 2), (3, 3, 1), (4, 2, 1), (0, 3, 2)]
    more = [(2, 2, 2), (5, 3, 1), (1, 3, 1), (3, 2, 2), (4, 3, 2), (5, 2, 2), (2, 3, 1), (0, 2, 1)]
    rows = []
    for v, d, nc in quick + (more if tier == "thorough" else []):
        rows.append({"id": "l%d_d%d_c%d" % (v, d, nc), "family": "lk", "variant": v, "mode": "fixed", "d": d,
                     "cfg": dict(rate=1, cap=4, a=2, f=3, nc=nc, q=42, pow=8), "maxdb": 7, "dbs": [7], "per_class": 1, "sample": 1,
                     "classes": {str(k): lkclasses for k in range(4)}})
    return rows


def scenarios(tier, rnd, varcfgs, classes):
    thorough = tier == "thorough"
    grind = lambda rate: {"q": 40, "pow": 10} if rate == 1 else {"q": 20, "pow": 10}
    rows = [
        {"id": "f0", "mode": "fixed", "d": 2, "cfg": dict(rate=1, cap=4, a=2, f=3, nc=2, q=42, pow=8), "maxdb": 6, "dbs": [6], "per_class": 2,
         "unsupported": [5]},      # recorded only: a shorter proof in a circuit sized for one length
        {"id": "f1", "mode": "fixed", "d": 3, "cfg": dict(rate=2, cap=3, a=3, f=2, nc=2, q=20, pow=10), "maxdb": 7, "dbs": [7], "per_class": 2},
        {"id": "v0", "mode": "var", "d": 2, "cfg": dict(VC, nc=2, **grind(1)), "maxdb": 8, "mindb": 4, "dbs": [4, 5, 6, 7, 8], "per_class": 1},
    ]
    # a configuration with lengths that cannot be assigned, and further ones drawn from the model's list
    partial = sorted([v for v in varcfgs if v["unsupported"] and len(v["unsupported"]) < v["cfg"]["maxdb"] - v["cfg"]["mindb"]],
                     key=lambda v: json.dumps(v, sort_keys=True))
    full = sorted([v for v in varcfgs if not v["unsupported"] and v["cfg"] != VC], key=lambda v: json.dumps(v, sort_keys=True))
    rnd.shuffle(partial)
    rnd.shuffle(full)
    # arity 8: lengths NOT aligned with the circuit's maximum whose last active folding step still has a Merkle sibling
    a3 = {"rate": 2, "cap": 2, "a": 3, "f": 1, "maxdb": 8, "mindb": 3}
    va3 = [v for v in varcfgs if v["cfg"] == a3]
    if not va3 or va3[0]["unsupported"]:
        raise ToolError("the model does not list the arity-8 variable-degree configuration %s as fully supported" % a3)
    pick = [(partial[0], 3), (va3[0], 2)] + ([(v, 2 + i % 2) for i, v in enumerate(full[:12] + partial[1:6])] if thorough else [])
    for i, (v, d) in enumerate(pick):
        c = v["cfg"]
        sup = [db for db in range(c["mindb"], c["maxdb"] + 1) if db not in v["unsupported"]]
        rows.append({"id": "v%d" % (i + 1), "mode": "var", "d": d, "cfg": dict(c, nc=2 + (i % 2 if thorough else 0), **grind(c["rate"])),
                     "maxdb": c["maxdb"], "mindb": c["mindb"], "dbs": sup, "unsupported": v["unsupported"], "per_class": 1,
                     "model_steps": v["steps"]})
    if thorough:
        rows.append({"id": "f2", "mode": "fixed", "d": 2, "cfg": dict(rate=1, cap=4, a=4, f=5, nc=2, q=84, pow=16), "maxdb": 10, "dbs": [10], "per_class": 2})
        rows.append({"id": "f3", "mode": "fixed", "d": 3, "cfg": dict(rate=1, cap=0, a=1, f=2, nc=3, q=42, pow=10), "maxdb": 5, "dbs": [5], "per_class": 3})
        rows.append({"id": "f4", "mode": "fixed", "d": 2, "cfg": dict(rate=1, cap=2, a=2, f=0, nc=1, q=3, pow=1), "maxdb": 6, "dbs": [6], "per_class": 3})
        for r in rows:
            r["per_class"] += 1
    # shape classes (one list with a surplus / missing element) go to the fixed-degree circuits: in the variable-degree
    # mode a shorter list is a legitimate shape of another trace length
    noshape = {k: [c for c in v if not c.startswith("shape:")] for k, v in classes.items()}
    for r in rows:
        r["classes"] = classes if r["mode"] == "fixed" else noshape
        r["sample"] = 2
        r["selftest"] = r["id"] == "v0"
    return rows


def run_parallel(rows, name, nproc, extra=None):
    parts = [rows[i::nproc] for i in range(nproc)]
    files = []
    for i, part in enumerate(parts):
        fp = os.path.join(common.OUT, "%s.part%d.ndjson" % (name, i))
        common.write_ndjson(fp, part)
        files.append(fp)
    common.build_harness("release", BIN)

    def one(fp):
        return common.vh(["run", "--in", fp] + (extra or []), binname=BIN, timeout=3400, env={"RAYON_NUM_THREADS": "3"})

    with ThreadPoolExecutor(max_workers=nproc) as ex:
        outs = list(ex.map(one, files))
    return [r for o in outs for r in o]


def judge(byid, res, cats, varcat, report, selftest=False):
    st = {"cases": 0, "agree_accept": 0, "agree_reject": 0, "unassignable": 0, "outer_checked": 0, "classes": {}, "circuits": 0,
          "distinct": set(), "first_mismatch": {}, "lengths": {}, "unsupported_lengths": [], "skipped": []}
    shape = {}
    for x in res:
        if "skipped" in x:
            st["skipped"].append({k: x[k] for k in x if k != "classes"})
            continue
        if "shape" in x:
            shape[x["id"]] = x["shape"]
            st["circuits"] += 1
            continue
        if "length" in x:
            if not selftest:
                st.setdefault("length_info", {})["%s:%s" % (x["id"], x["db"])] = x["length"]
            continue
        s = byid.get(x.get("id"))
        if x.get("unsupported_length") and selftest:
            continue
        if x.get("unsupported_length"):
            # the model lists this length as not assignable: the native verifier accepts, the assignment routine refuses
            st["unsupported_lengths"].append({"id": x["id"], "db": x["db"], "mode": x.get("mode"), "native": x["native"], "assignable": x["assignable"],
                                              "circuit": x["circuit"], "detail": x["detail"]})
            # a fixed-degree circuit is sized for ONE length: another length is a different proof shape (recorded only)
            if x["assignable"] and x.get("mode") == "var" and x["db"] >= s.get("mindb", 0):
                report("drift", "unsupported-length-assignable", "a length the model lists as not assignable was assigned", {"scenario": s, "observed": x})
                if x["circuit"] != x["native"]:
                    report("violation", "C11/disagree/unsupported-length", "in-circuit acceptance differs from the native verdict", {"scenario": s, "observed": x})
            continue
        if "class" not in x or x.get("empty") or bool(x.get("selftest")) != selftest:
            continue
        sh = shape[x["id"]]
        nl = min(x["layers"], 3)
        is_vc = sh["mode"] == "var" and all(s["cfg"][k] == v for k, v in VC.items() if k in s["cfg"]) and s["maxdb"] == 8 and s["mindb"] == 4
        is_lk = s.get("family") == "lk"
        if is_lk and x["class"] == "none" or x["class"].startswith("honest_lk_"):
            m = st.setdefault("lookup_members", {}).setdefault(x["id"], dict(sh.get("member") or {}, honest_both_accept=False))
            m["honest_both_accept"] = m["honest_both_accept"] or bool(x["native"] and x["circuit"])
        exp = cats["lk"].get(x["class"]) if is_lk else ((varcat.get((x["class"], x["db"])) if is_vc else None) or cats[nl].get(x["class"]))
        if exp is None and x["class"] == "unpadded":
            exp = {"expect": "any", "first": []}
        if exp is None:
            raise ToolError("class %s is not in the catalogue of spec/RecVerifier.tla (stark, NL=%d)" % (x["class"], nl))
        ms = s.get("model_steps")
        if ms and str(x["db"]) in ms and ms[str(x["db"])] != x["layers"]:
            report("drift", "steps/%s/%d" % (x["id"], x["db"]), "number of reduction steps differs from the model's Steps()", {"scenario": s, "observed": x})
        st["cases"] += 1
        st["lengths"].setdefault("%s:%s" % (x["id"], x["db"]), 0)
        payload = {"scenario": {k: v for k, v in s.items() if k != "classes"}, "class": x["class"], "db": x["db"], "shape": sh,
                   "expected": {"spec": exp, "rule": "circuit acceptance = verify_stark_proof"}, "observed": x}
        if x["class"].startswith("shape:"):
            lst, direction = x["class"][6:].rsplit(":", 1)
            accepted = bool(x["assignable"] and x["circuit"])
            sc_ = st.setdefault("shape", {}).setdefault(lst, {"surplus": 0, "short": 0, "native_shape_reject_surplus": 0})
            sc_[direction] += 1
            cl = st["classes"].setdefault(x["class"], {"n": 0, "native_reject": 0})
            cl["n"] += 1
            cl["native_reject"] += 0 if x["native"] else 1
            if direction == "surplus" and not x["native"] and c06.kind_of_detail(x["native_detail"]).startswith("other:"):
                sc_["native_shape_reject_surplus"] += 1
            if accepted != x["native"]:
                report("violation", "C11/shape/%s/%s" % (lst, direction),
                       "verify_stark_proof %s the proof (%s) but the circuit %s the assignment derived from it (%s)" % (
                           "accepts" if x["native"] else "rejects", x["native_detail"][:80], "accepts" if accepted else "rejects", x["stage"]), payload)
            else:
                st["agree_accept" if x["native"] else "agree_reject"] += 1
                st["lengths"]["%s:%s" % (x["id"], x["db"])] += 1
                st["distinct"].add((x["id"], x["db"], x["class"], json.dumps(x["desc"], sort_keys=True)))
            continue
        if not x["assignable"]:
            st["unassignable"] += 1
            continue
        cl = st["classes"].setdefault(x["class"], {"n": 0, "native_reject": 0})
        cl["n"] += 1
        cl["native_reject"] += 0 if x["native"] else 1
        base = x["class"].split(":")[0]
        if base in ("init_path", "step_path") and not x["native"] and not x["circuit"] and "Merkle" in x["native_detail"]:
            sib = st.setdefault("siblings", {}).setdefault("%s:%s" % (x["id"], x["db"]), {"init": set(), "step": set()})
            rc = "last" if x["class"].endswith("@last") else "first"
            if base == "init_path":
                sib["init"].add((x["desc"]["oracle"], rc))
            else:
                sib["step"].add((x["desc"]["layer"], rc))
        if x["class"] in ("pow_short1", "pow_exact"):
            st.setdefault("pow_boundary", []).append({"id": x["id"], "db": x["db"], "class": x["class"], "desc": x["desc"], "native": x["native"],
                                                      "native_detail": x["native_detail"], "circuit": x["circuit"]})
        if x["circuit"] != x["native"]:
            report("violation", "C11/disagree/%s/%s/native-%s" % (sh["mode"], x["class"], "accepts" if x["native"] else "rejects"),
                   "in-circuit acceptance (%s, %s) differs from verify_stark_proof (%s %s) for a proof of 2^%d rows" % (
                       x["circuit"], x["stage"], x["native"], x["native_detail"], x["db"]), payload)
        else:
            st["agree_accept" if x["native"] else "agree_reject"] += 1
            st["lengths"]["%s:%s" % (x["id"], x["db"])] += 1
            if x["changed"] or x["class"] == "none":
                st["distinct"].add((x["id"], x["db"], x["class"], json.dumps(x["desc"], sort_keys=True)))
        strong = sh["binding_bits"] >= 50
        if exp["expect"] == "reject" and x["native"] and strong and x["changed"]:
            report("drift", "native-accepts/%s" % x["class"], "the model expects the native verifier to reject class %s (C09's statement)" % x["class"], payload)
        if exp["expect"] == "accept" and not x["native"]:
            report("drift", "native-rejects/%s" % x["class"], "the model expects acceptance: %s" % x["native_detail"], payload)
        pow_dependent = "Pow" in {c06.kind_of_id(i) for i in exp["first"]} and s["cfg"]["pow"] < 16   # a 2^-10 event is not drift
        if not x["native"] and exp["first"] and x["changed"] and strong and not pow_dependent:
            k = c06.kind_of_detail(x["native_detail"])
            if k not in {c06.kind_of_id(i) for i in exp["first"]}:
                st["first_mismatch"].setdefault(x["class"], k)
        o = x.get("outer")
        if o:
            st["outer_checked"] += 1
            if not (o["proved"] and o["verified"] and o["pis_match"]):
                report("violation", "C11/outer-proof/%s" % x["class"], "an accepted assignment did not yield a verifying outer proof: %s" % json.dumps(o), payload)
    return st


def run(chk, tier):
    thorough = tier == "thorough"
    rnd = random.Random(common.seed() + 11)
    chk.rule = ("per (STARK definition, configuration, circuit mode) one verifier circuit; proofs of every supported power-of-two length "
                "x every class of the catalogue printed by spec/RecVerifier.tla (one element of each proof component, wrong public inputs, "
                "corrupted trace, bad grinding, final-polynomial / layer deviation before absorption, unpadded transcript) are judged by "
                "verify_stark_proof and by the circuit; non-trivial = the presented proof differs from the honest one (or is the honest one), "
                "distinct by (circuit, length, class, position)")
    chk.assumptions = ["acceptance of the circuit = witness generation succeeds and the satisfaction oracle finds every gate and copy constraint satisfied",
                       "the degree-bits target is assigned from the proof (recover_degree_bits), as the library's own callers do",
                       "variable-degree mode: ConstantArityBits only and final_poly_len = 2^(1+final_poly_bits) (asserted by the prover); lengths whose final "
                       "polynomial is longer than the circuit's cannot be assigned (set_fri_proof_target refuses) and are outside the statement - they are listed by the model and recorded",
                       "STARKs without lookups / cross-table lookups (the auxiliary commitment is an Option shape)",
                       "'must be rejected' is only noted for configurations with >= 50 bits of binding; asserted is the equality of the verdicts"]
    import threading
    bg = {}

    def build():
        try:
            common.build_harness("release", BIN)
        except Exception as e:
            bg["build_error"] = e

    th = threading.Thread(target=build)
    th.start()
    cats_lines, named = c06.model_runs(chk, STARK_CFGS, dict(CANARIES, **MUTANTS), mutants=set(MUTANTS))
    th.join()
    if "build_error" in bg:
        raise bg["build_error"]
    for k in MUTANTS:
        named.pop(k, None)
    cats = {nl: {l["class"]: l for l in cats_lines[nl]} for nl in (0, 1, 2, 3, "lk")}
    varcat = {(l["class"], l["db"]): l for l in cats_lines["var"]}
    # the var-degree configurations of the model (printed once by the arithmetic instance)
    varcfgs = common.tagged(c06.LAST_PRINTS["arith"], "VARCFGS")[0]
    chk.extra["model_var_configurations"] = len(varcfgs)
    chk.sample({"catalogue_line": cats_lines["var"][0]})
    classes = {str(nl): sorted(set(cats[nl]) | {"unpadded"}) for nl in cats if nl != "lk"}
    lkclasses = sorted(c for c in cats["lk"] if not c.startswith("shape:") and not c.startswith("pow_"))
    rows = scenarios(tier, rnd, varcfgs, classes) + lookup_members(tier, lkclasses)
    res = run_parallel(rows, "c11_run", 3)
    common.write_ndjson(os.path.join(common.OUT, "c11_results.ndjson"), res)
    byid = {r["id"]: r for r in rows}
    drift_seen = set()

    def report(kind, key, detail, payload):
        if kind == "violation":
            chk.violation(key, detail, payload)
        elif key not in drift_seen:
            drift_seen.add(key)
            chk.note_drift({"what": key, "detail": detail})

    st = judge(byid, res, cats, varcat, report)
    for cls, k in sorted(st["first_mismatch"].items()):
        chk.note_drift({"what": "first failing native check differs from the model's order", "class": cls, "observed": k})
    chk.evaluations += st["cases"]
    chk.nontrivial += len(st["distinct"])
    chk.traces += st["agree_accept"] + st["agree_reject"]
    first = next((x for x in res if x.get("class") == "final_poly" and not x.get("empty")), None)
    chk.sample({"scenario": {k: v for k, v in byid[first["id"]].items() if k != "classes"}, "result": first} if first else "no case")
    chk.extra["outcomes"] = {k: st[k] for k in ("cases", "agree_accept", "agree_reject", "unassignable", "outer_checked", "circuits", "skipped")}
    chk.extra["classes"] = st["classes"]
    chk.extra["lengths_agreeing_cases"] = st["lengths"]
    chk.extra["unsupported_lengths"] = st["unsupported_lengths"]
    chk.extra["circuits"] = [x["shape"] for x in res if "shape" in x]
    need = {c for c in set(cats[2]) - {"none", "pow_exact"} if not c.startswith("shape:")} | {"corrupt_lookup", "op_aux", "op_aux_next", "aux_cap"}
    # lookup members: at least one with a next-row lookup column and constraint degree > 0 accepted on both sides when honest,
    # and one without (the control)
    lm = st.get("lookup_members", {})
    chk.extra["lookup_members"] = lm
    if not any(m.get("next_row_column") and m.get("degree", 0) > 0 and m["honest_both_accept"] for m in lm.values()) \
            or not any(not m.get("next_row_column") and m["honest_both_accept"] for m in lm.values()) \
            or not any(m.get("product_filter") and m["honest_both_accept"] for m in lm.values()):
        raise ToolError("vacuity: lookup members: %s" % lm)
    shp = st.get("shape", {})
    chk.extra["shape_classes"] = shp
    fixed_layers = {min(len(x["shape"]["circuit_layers"]), 3) for x in res if "shape" in x and x["shape"]["mode"] == "fixed"}
    lists = {c[6:].rsplit(":", 1)[0] for nl in fixed_layers for c in cats[nl] if c.startswith("shape:")}
    empty_short = {x["class"][6:].rsplit(":", 1)[0] for x in res if x.get("empty") and x.get("class", "").startswith("shape:") and x["class"].endswith(":short")}
    tried_surplus = {x["class"][6:].rsplit(":", 1)[0] for x in res if not x.get("empty") and x.get("class", "").startswith("shape:") and x["class"].endswith(":surplus")}
    noshape = sorted(l for l in lists & tried_surplus if shp.get(l, {}).get("native_shape_reject_surplus", 0) == 0
                     or (shp[l]["short"] == 0 and l not in empty_short))
    # permanent cases: the lists whose surplus element the assignment routines used to drop silently (repaired in /repo:
    # set_cap_target / set_extension_targets / lookup opening lengths) are resized in every run
    permanent = ("trace_cap", "quot_cap", "commit_cap:0", "op_next", "op_quot", "final_poly")
    if not set(permanent) <= tried_surplus:
        raise ToolError("vacuity: permanent shape cases not exercised: %s" % sorted(set(permanent) - tried_surplus))
    if len(tried_surplus) < 12:
        raise ToolError("vacuity: only %d list classes were resized" % len(tried_surplus))
    if noshape:
        raise ToolError("vacuity: shape classes without a natively shape-rejected surplus case (or without a short case): %s" % noshape)
    missing = sorted(c for c in need if st["classes"].get(c, {}).get("native_reject", 0) == 0)
    if missing:
        raise ToolError("vacuity: classes never exercised with a natively rejected proof: %s" % missing)
    if st["circuits"] < len(rows) or st["agree_accept"] < sum(len(r["dbs"]) for r in rows):
        raise ToolError("vacuity: %d circuits of %d, %d accepted cases, skipped %s" % (st["circuits"], len(rows), st["agree_accept"], st["skipped"][:3]))
    pb = st.get("pow_boundary", [])
    chk.extra["pow_boundary"] = pb[:12]
    if not any(b["class"] == "pow_short1" and not b["native"] and "proof of work" in b["native_detail"] and not b["circuit"] for b in pb) \
            or not any(b["class"] == "pow_exact" and b["native"] and b["circuit"] for b in pb):
        raise ToolError("vacuity: grinding boundary classes not exercised: %s" % pb[:4])
    # Merkle siblings: for EVERY proof length of every circuit both oracles (first and last query round) and every
    # folding step that has a sibling; and some length that is not aligned with the circuit's maximum must have had
    # the sibling of its LAST ACTIVE step tampered
    sib, gaps, unaligned = st.get("siblings", {}), [], []
    for key, info in st.get("length_info", {}).items():
        got = sib.get(key, {"init": set(), "step": set()})
        if info["init_siblings"] > 0:
            gaps += ["%s: oracle %d %s round" % (key, o, rc) for o in (0, 1) for rc in ("first", "last") if (o, rc) not in got["init"]]
        for l, n in enumerate(info["step_siblings"]):
            if n > 0 and not any(a == l for a, _ in got["step"]):
                gaps.append("%s: folding step %d" % (key, l))
        sid, db = key.split(":")
        sc_ = byid[sid]
        if sc_["mode"] == "var" and (sc_["maxdb"] - int(db)) % sc_["cfg"]["a"] != 0 and info["layers"] >= 1:
            last = info["layers"] - 1
            if info["step_siblings"][last] > 0 and any(a == last for a, _ in got["step"]):
                unaligned.append(key)
    chk.extra["sibling_coverage"] = {k: {"init": sorted("%d/%s" % t for t in v["init"]), "step": sorted("%d/%s" % t for t in v["step"])} for k, v in sib.items()}
    chk.extra["shorter_lengths_with_last_active_step_sibling_tampered"] = unaligned
    if gaps or not unaligned:
        raise ToolError("vacuity: Merkle sibling tampers missing: %s; shorter lengths whose last active step was hit: %s" % (gaps[:6], unaligned))
    var_lengths = [k for k in st["lengths"] if k.startswith("v")]
    if len(var_lengths) < 7 or any(v == 0 for v in st["lengths"].values()):
        raise ToolError("vacuity: variable-degree lengths exercised: %s" % st["lengths"])
    if not any(u["native"] and not u["assignable"] and u["mode"] == "var" for u in st["unsupported_lengths"]):
        raise ToolError("vacuity: no length outside the circuit's reach was recorded")
    for what, cls in named.items():
        chk.canary("the class named by the spec canary (%s: %s) is part of the replay" % (what, cls),
                   cls is not None and (st["classes"].get(cls, {}).get("native_reject", 0) > 0
                                        or (cls.startswith("honest_") and st["classes"].get(cls, {}).get("n", 0) > 0)))
    flagged = []
    judge(byid, res, cats, varcat, lambda kind, key, d, p: flagged.append(key) if kind == "violation" else None, selftest=True)
    chk.canary("binding: a flipped circuit verdict (untampered proof assigned, tampered proof judged natively) is reported",
               any(k.startswith("C11/disagree/var/final_poly") for k in flagged))


def replay(path):
    p = json.load(open(path))
    s = dict(p["scenario"])
    cls = p.get("class", "none")
    s["classes"] = {str(k): ["none", cls] for k in range(4)}
    s["per_class"] = 3
    if "db" in p:
        s["dbs"] = [p["db"]]
    fp = os.path.join(common.OUT, "c11_replay.ndjson")
    common.write_ndjson(fp, [s])
    out = common.vh(["run", "--in", fp], binname=BIN)
    print("scenario :", json.dumps({k: v for k, v in s.items() if k != "classes"})[:1500])
    print("expected :", json.dumps(p.get("expected"))[:600])
    bad = 0
    for x in out:
        if "class" in x and not x.get("empty"):
            print("observed :", json.dumps({k: x[k] for k in ("db", "class", "inst", "desc", "native", "native_detail", "circuit", "stage", "detail")})[:500])
            if x["assignable"] and x["circuit"] != x["native"]:
                bad += 1
    print("re-run: %d disagreements" % bad)
    return 1 if bad else 0
