"""C09 — STARK proofs are accepted exactly for satisfying traces.
A: TLC on spec/MCStarkAlgebra (StarkAlgebra): over F_17 (N=4; thorough also F_97, N=8 and ALL traces over a
   small value set) for the systems of the harness's template family: RowSem (row-level semantics)
   <=> the alpha-combined, filtered constraint polynomial of the ConstraintConsumer vanishes on H;
   RowSem => the verifier identity holds at every zeta for the prover's interpolated quotient
   (constraint_degree / quotient_degree_factor); not RowSem => it holds at a bounded number of zetas;
   closed forms of eval_l_0_and_l_last = Lagrange selectors; six filter mutants as canaries.
B: every case TLC enumerated (trace, public inputs, failing (constraint,row) set) is re-evaluated by the
   harness's reference evaluator with modulus 17 (binding of the oracle to RowSem); the position-class
   catalogue derived from TLC's verdicts (first / interior / last / wrap-around-exempt / public input)
   is replayed on the real prove / verify_stark_proof over Goldilocks; random instances of the data-driven
   family (columns 1..8, degree 0..5, public inputs 0/2, 2^1..2^10 rows, random StarkConfigs) x corruptions;
   every element of accepted proofs tampered through serde_json; FRI prover deviations (knobs);
   the adversarial prover `omit_quotient_cap` (forged quotient after zeta, no quotient commitment)."""
import json
import os
from concurrent.futures import ThreadPoolExecutor

import common
from common import ToolError, log

LEVEL = "model_checking"
BIN = "c09"
ENV = {"RAYON_NUM_THREADS": "3"}

MUTANTS = [("first_unfiltered", "constraint_first_row without the L_0 factor"),
           ("drop_first", "first-row constraints dropped"),
           ("no_zlast", "constraint_transition without z_last (wrap-around treated as a transition)"),
           ("zlast_first", "z_last vanishing on the first instead of the last row"),
           ("llast_ginv", "L_last computed with g^-1"),
           ("last_is_first", "constraint_last_row filtered by L_0")]

STD = {"rate": 1, "cap": 4, "pow": 16, "queries": 84, "nc": 2, "strategy": ["const", 4, 5]}
SMALLCAP = {"rate": 1, "cap": 1, "pow": 16, "queries": 84, "nc": 2, "strategy": ["const", 1, 1]}
R3 = {"rate": 3, "cap": 2, "pow": 16, "queries": 12, "nc": 2, "strategy": ["const", 1, 2]}
R2 = {"rate": 2, "cap": 0, "pow": 10, "queries": 20, "nc": 1, "strategy": ["fixed", [1, 1]]}


def _tlc(job):
    name, cfg, workers, timeout = job
    return name, common.tlc("MCStarkAlgebra", cfg=cfg, workers=workers, timeout=timeout, tag="c09-" + cfg)


def _vh(args, timeout=1700):
    return common.vh(args, binname=BIN, env=ENV, timeout=timeout)[-1]


def _absorb(chk, out, how, count_traces=True):
    chk.evaluations += out["evaluated"]
    chk.nontrivial += out["nontrivial"]
    if count_traces:
        chk.traces += out["evaluated"] - len(out["violations"])
    for s in out.get("samples", [])[:2]:
        chk.sample(s)
    if out.get("conflicts"):
        raise ToolError("the reference evaluator contradicts the class verdict derived by TLC: %s" % json.dumps(out["conflicts"][:3]))
    for v in out["violations"]:
        chk.violation(v["key"], v.get("detail", ""), {"violation": v, "how": how})
    return out


def _class_table(classes):
    """(sid, kind, rowclass, col) -> 'accept' | 'reject' | 'rowsem' from TLC's verdicts."""
    tab = {}
    for c in classes:
        sid, kind, rc, col = c["class"].split("|")
        v = "accept" if c["failing"] == 0 else ("reject" if c["ok"] == 0 else "rowsem")
        tab[(int(sid), kind, rc, int(col))] = v
    return tab


def _scenarios(systems, tab, thorough):
    scen = []
    sizes = [2, 5] + ([1, 3, 8, 10] if thorough else [])
    for s in systems:
        sid, sys = s["sid"], s["sys"]
        for nb in sizes:
            cfgs = [STD if nb >= 3 else SMALLCAP] + ([R3] if (thorough and nb >= 2) else [])
            for ci, cfg in enumerate(cfgs):
                base = {"cols": sys["cols"], "npi": sys["npi"], "deg": sys["deg"], "n_bits": nb, "config": cfg}
                def mk(tag, action, expect):
                    d = dict(base)
                    d.update({"id": "cat-s%d-n%d-c%d-%s" % (sid, nb, ci, tag), "action": action, "expect": expect})
                    return d
                scen.append(mk("honest", {"kind": "none"}, tab.get((sid, "none", "-", 0), "accept")))
                for rc in ("first", "interior", "last"):
                    if rc == "interior" and nb < 2:
                        continue
                    for col in range(sys["cols"]):
                        # the model has N = 4: its classes carry over to every N >= 4 (and to N = 2 for first/last)
                        scen.append(mk("%s-c%d" % (rc, col), {"kind": "cell", "row": rc, "col": col}, tab[(sid, "cell", rc, col)]))
                for i in range(sys["npi"]):
                    scen.append(mk("pi%d" % i, {"kind": "pi", "col": i}, tab[(sid, "pi", "-", i)]))
    # deviating FRI provers on an honest trace
    for k, (knob, arg) in enumerate([("fri_layer_delta", 0), ("fri_final_poly_delta", 0), ("pow_witness", 0)]):
        scen.append({"id": "knob-%d" % k, "cols": 2, "npi": 2, "deg": 2, "n_bits": 6,
                     "config": {"rate": 1, "cap": 2, "pow": 16, "queries": 84, "nc": 2, "strategy": ["const", 2, 2]},
                     "action": {"kind": "knob", "knob": knob, "arg": arg}, "expect": "reject"})
    return scen


def run(chk, tier):
    thorough = tier == "thorough"
    chk.rule = ("model: one state per (system, trace, public inputs) case of MCStarkAlgebra; implementation: one evaluation per "
                "(STARK instance, trace/public-input/prover action, config) proved and verified on the real code, per mutated "
                "proof element verified, per F_17 case re-evaluated by the reference evaluator; non-trivial = distinct "
                "(shape, action class incl. column, config) resp. (shape, generic element path, mutation kind)")
    chk.assumptions = ["TLC and the community modules are correct",
                       "the row-level reference evaluator (u128 arithmetic mod p) is bound to the TLA+ RowSem by exhaustive comparison on "
                       "TLC's F_17 cases; its use modulo the Goldilocks prime relies on the same code path with another modulus",
                       "the model covers 2- and 3-column systems of the template family with N=4 (thorough: N=8, F_97); wider "
                       "systems, constraint degree 4..5 and longer traces are covered on the real code only, with the verdict rule TLC proved",
                       "soundness-type expectations only under configurations with >= 50 bits (num_query_rounds*rate_bits + pow_bits)",
                       "FRI / Merkle / transcript soundness themselves are the subject of C05 / C12 / C04"]
    o = lambda n: os.path.join(common.OUT, n)

    # ---- A: model checking
    jobs = [("StarkAlgebra F17 N=4 corruptions", "MCStarkAlgebra_quick", 4, 900)]
    if thorough:
        jobs += [("StarkAlgebra F17 N=4 all traces over {0,1,2}", "MCStarkAlgebra_all", 6, 1700),
                 ("StarkAlgebra F97 N=8 corruptions", "MCStarkAlgebra_n8", 6, 1700)]
    cjobs = [("canary " + m, "MCStarkAlgebra_canary_" + m, 1, 300) for m, _ in MUTANTS]
    with ThreadPoolExecutor(max_workers=3 if thorough else 2) as ex:
        results = dict(ex.map(_tlc, jobs + cjobs))
    for name, _, _, _ in jobs:
        r = results[name]
        chk.add_tlc(name, r)
        if not r.ok:
            raise ToolError("specification %s violates %s (spec-level inconsistency)" % (name, r.violated))
    for m, what in MUTANTS:
        chk.canary("spec-mutant rejected by TLC: %s (%s)" % (what, m), results["canary " + m].violated is not None)
    chk.exhaustive = True

    # ---- B1: the reference evaluator on every case TLC enumerated
    r = results[jobs[0][0]]
    systems = common.tagged(r.prints, "SYS")
    cases = common.tagged(r.prints, "REPLAY17")
    if len(systems) < 5 or len(cases) < 3000:
        raise ToolError("MCStarkAlgebra printed %d systems / %d cases" % (len(systems), len(cases)))
    common.write_ndjson(o("c09_sys.ndjson"), systems)
    common.write_ndjson(o("c09_cases17.ndjson"), cases)
    out = _vh(["rowsem17", "--sys", o("c09_sys.ndjson"), "--cases", o("c09_cases17.ndjson")])
    if out["sys_drift"]:
        raise ToolError("template family of the harness differs from the specification's: %s" % json.dumps(out["sys_drift"][:1]))
    if out["mismatches"] or out["compared"] != len(cases):
        raise ToolError("reference evaluator differs from RowSem of the specification: %s" % json.dumps(out["mismatches"][:2]))
    chk.evaluations += out["compared"]
    chk.traces += out["compared"]
    chk.sample({"tlc_case": cases[0]})
    chk.extra["rowsem17"] = {"cases": out["compared"], "classes": len(out["classes"])}
    k = next(i for i, c in enumerate(cases) if c["sid"] == 1 and c["kind"] == "none")
    can = _vh(["rowsem17", "--sys", o("c09_sys.ndjson"), "--cases", o("c09_cases17.ndjson"), "--corrupt", k])
    chk.canary("a case whose trace differs from the one TLC evaluated is reported by the evaluator comparison", len(can["mismatches"]) == 1)
    if thorough:
        for name in ("StarkAlgebra F17 N=4 all traces over {0,1,2}", "StarkAlgebra F97 N=8 corruptions"):
            rr = results[name]
            cs = common.tagged(rr.prints, "REPLAY17")
            tag = "all" if "all traces" in name else "n8"
            common.write_ndjson(o("c09_sys_%s.ndjson" % tag), common.tagged(rr.prints, "SYS"))
            common.write_ndjson(o("c09_cases_%s.ndjson" % tag), cs)
            oo = _vh(["rowsem17", "--sys", o("c09_sys_%s.ndjson" % tag), "--cases", o("c09_cases_%s.ndjson" % tag)])
            if oo["mismatches"] or oo["sys_drift"] or oo["compared"] != len(cs):
                raise ToolError("reference evaluator differs from RowSem (%s): %s" % (name, json.dumps(oo["mismatches"][:2])))
            chk.evaluations += oo["compared"]
            chk.traces += oo["compared"]
            chk.extra["rowsem_" + tag] = {"cases": oo["compared"]}

    # ---- B2: position-class catalogue on the real prover / verifier
    tab = _class_table(out["classes"])
    exempt = sorted("%d:%s:c%d" % (k[0], k[2], k[3]) for k, v in tab.items() if k[1] == "cell" and v == "accept")
    chk.extra["classes"] = {"accept(exempt or unread)": exempt,
                            "reject": sum(1 for v in tab.values() if v == "reject"),
                            "value-dependent": sum(1 for v in tab.values() if v == "rowsem")}
    if "1:last:c1" not in exempt:
        raise ToolError("the wrap-around exempt cell (last row, input column) of system 1 is not classified as accepted by the model")
    scen = _scenarios(systems, tab, thorough)
    common.write_ndjson(o("c09_scen.ndjson"), scen)
    out = _absorb(chk, _vh(["replay", "--scen", o("c09_scen.ndjson")]), "vh c09 replay --scen <case>")
    chk.extra["catalogue"] = {"scenarios": len(scen), "accepted": out["accepted"], "rejected": out["rejected"],
                              "panics": out["panics"], "by_class": out["classes"]}
    # vacuity guard: corrupted traces of a constraint_degree = 1 (linear) system were run for every row class and rejected,
    # and a corrupted unreferenced public input at proving time was run
    dc = out.get("deg_classes", {})
    for rc in ("first", "interior", "last"):
        if dc.get("d1/cell:%s:expect_rej:rej" % rc, 0) + dc.get("d1/cell:%s:expect_rej:acc" % rc, 0) < 1:
            raise ToolError("catalogue has no violating %s-row corruption of a constraint_degree = 1 system: %s" % (rc, sorted(dc)))
    chk.extra["catalogue"]["degree1_corruptions"] = {k: v for k, v in dc.items() if k.startswith("d1/")}
    k = next(i for i, s in enumerate(scen) if s["action"].get("row") == "last" and s["action"].get("col") == 1 and s["expect"] == "accept")
    can = _vh(["replay", "--scen", o("c09_scen.ndjson"), "--flip-expect", k])
    chk.canary("a flipped expectation (wrap-around exempt cell expected to be rejected) is reported by the replay",
               len(can["violations"]) == 1 and can["violations"][0]["key"].startswith("C09/sound/"))

    # ---- B3: random instances x corruptions
    out = _absorb(chk, _vh(["bulk", "--instances", 400 if thorough else 40, "--corruptions", 12 if thorough else 6,
                            "--max-bits", 10 if thorough else 8]), "vh c09 bulk (VERIF_SEED)")
    chk.extra["bulk"] = {"cases": out["evaluated"], "accepted": out["accepted"], "rejected": out["rejected"], "panics": out["panics"],
                         "accepted_under_weak_configs": out["weak_accepts"], "by_class": out["classes"]}

    # ---- B4: every element of accepted proofs
    tcases = [{"cols": 2, "npi": 2, "deg": 2, "n_bits": 4, "config": R3},
              {"cols": 3, "npi": 0, "deg": 3, "n_bits": 5, "config": STD},
              {"cols": 2, "npi": 0, "deg": 0, "n_bits": 3, "config": R2},
              # public inputs that no constraint references (context tags): bound by the transcript only
              {"cols": 2, "npi": 3, "deg": 2, "n_bits": 3, "config": R3},
              {"cols": 2, "npi": 2, "deg": 1, "n_bits": 3, "config": R2}]
    if thorough:
        tcases += [{"cols": 5, "npi": 2, "deg": 4, "n_bits": 6, "config": {"rate": 2, "cap": 3, "pow": 16, "queries": 28, "nc": 3, "strategy": ["min", None]}},
                   {"cols": 8, "npi": 2, "deg": 1, "n_bits": 7, "config": STD},
                   {"cols": 1, "npi": 2, "deg": 2, "n_bits": 2, "config": SMALLCAP}]
    common.write_ndjson(o("c09_tamper.ndjson"), tcases)
    out = _absorb(chk, _vh(["tamper", "--cases", o("c09_tamper.ndjson"), "--sample-rounds", 0 if thorough else 4]),
                  "vh c09 tamper --cases <case>", count_traces=False)
    chk.extra["tamper"] = {"proofs": out["extra"]["proofs"], "mutations": out["evaluated"], "rejected": out["rejected"], "panics": out["panics"]}
    # vacuity guard: every public-input position of a proof with unreferenced public inputs was altered (v+1 / 0 / random)
    tagged = [p for p in out["extra"]["proofs"] if p.get("unreferenced_pis")]
    for p in out["extra"]["proofs"]:
        done = dict((i, n) for i, n in p.get("pi_value_mutations", []))
        if p.get("npi", 0) and any(done.get(i, 0) < 2 for i in range(p["npi"])):
            raise ToolError("public-input tamper did not cover every position of %s: %s" % (p["shape"], done))
    if len(tagged) < 2:
        raise ToolError("no accepted proof with a public input that no constraint references was tampered")
    chk.extra["tamper"]["unreferenced_public_inputs"] = [[p["shape"], p["unreferenced_pis"], p["pi_value_mutations"]] for p in tagged]
    common.write_ndjson(o("c09_tamper_one.ndjson"), tcases[:1])
    can = _vh(["tamper", "--cases", o("c09_tamper_one.ndjson"), "--sample-rounds", 2, "--canary"])
    chk.canary("an accepted 'mutation' (the unmodified proof) is reported by the tamper loop",
               any(v["key"].endswith("canary-identity") for v in can["violations"]))

    # ---- B5: adversarial prover omit_quotient_cap
    fcases = [{"cols": 2, "npi": 2, "deg": 2, "n_bits": 5, "viol": "all", "config": STD},
              {"cols": 2, "npi": 2, "deg": 2, "n_bits": 5, "viol": "pi", "config": STD},
              {"cols": 3, "npi": 0, "deg": 3, "n_bits": 6, "viol": "interior", "config": STD}]
    if thorough:
        fcases += [{"cols": 5, "npi": 2, "deg": 3, "n_bits": 8, "viol": "last", "config": R3},
                   {"cols": 2, "npi": 0, "deg": 2, "n_bits": 2, "viol": "first", "config": SMALLCAP},
                   {"cols": 8, "npi": 2, "deg": 2, "n_bits": 4, "viol": "all", "config": R2}]
    common.write_ndjson(o("c09_forge.ndjson"), fcases)
    res = common.vh(["forge", "--cases", o("c09_forge.ndjson")], binname=BIN, env=ENV)
    in_sync = True
    rejected_forgeries = 0
    for f in res:
        chk.evaluations += 1
        obs = f["observed"]
        if "skipped" in obs:
            continue
        in_sync = in_sync and obs.get("in_sync", False)
        if f["failing_constraints"] > 0 and obs["accepted"]:
            key = "C09/forge/omit-quotient-cap" if f["strategy"] == "omit_quotient_cap" else "C09/forge/fake-quotient-with-cap"
            chk.violation(key, "verify_stark_proof accepted a proof forged for a trace violating %d (constraint,row) pairs "
                          "(quotient chosen after zeta; recipe: out/c09_forger_report.md)" % f["failing_constraints"],
                          {"violation": f, "how": "vh c09 forge --cases <case>"})
        else:
            rejected_forgeries += 1
    if in_sync:
        chk.traces += rejected_forgeries
    chk.nontrivial += len(res)
    chk.extra["forge"] = {"cases": len(res), "accepted": sum(1 for f in res if f["observed"].get("accepted")), "forger_skipped": not in_sync}
    if in_sync:
        chk.canary("forger transcript replica yields the verifier's own alphas and zeta", True)
    else:
        # a changed Fiat-Shamir schedule is implementation drift: the strategy cannot be evaluated in this run
        chk.note_drift("forger: the re-implemented prover transcript no longer equals the verifier's challenges (schedule changed); "
                       "strategy omit_quotient_cap skipped")
        if not chk.violations and not chk.known_seen:
            # nothing else distinguishes this tree from the pinned one: the replica itself must be broken
            chk.canary("forger transcript replica yields the verifier's own alphas and zeta", False)


def replay(path):
    p = json.load(open(path))
    print(json.dumps(p, indent=1)[:3000])
    v = p.get("violation", {})
    one = os.path.join(common.OUT, "c09_replay_one.ndjson")
    if p.get("key", "").startswith("C09/forge/"):
        common.write_ndjson(one, [v["case"]])
        res = common.vh(["forge", "--cases", one], binname=BIN, env=ENV)
        bad = [f for f in res if f["failing_constraints"] > 0 and f["observed"].get("accepted")]
        print(json.dumps(bad, indent=1)[:3000])
        return 1 if bad else 0
    if "/tamper/" in p.get("key", ""):
        common.write_ndjson(one, [v["case"]])
        out = _vh(["tamper", "--cases", one, "--sample-rounds", 0])
    else:
        common.write_ndjson(one, [v["case"]])
        out = _vh(["replay", "--scen", one])
    print(json.dumps(out["violations"][:5], indent=1)[:3000])
    return 1 if out["violations"] else 0
