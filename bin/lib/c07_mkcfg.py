"""Regenerates spec/MCGates_*.cfg (the TLC configurations of C07).  Run: python3 bin/lib/c07_mkcfg.py"""
import os
def mk(name, P, A, G, cases, dk="none", di=0, invs=("Satisfied","PinnedInv","CountInv","LayoutInv"), init="InitRows", nxt="NextRows", degshift=0):
    lines = ["CONSTANT P = %d" % P, "CONSTANT ALPHA = %d" % A, "CONSTANT GEN = %d" % G, 'CONSTANT DropKind = "%s"' % dk,
             "CONSTANT DropIdx = %d" % di, "CONSTANT Cases <- %s" % cases, "CONSTANT Sel = {}", "CONSTANT DegShift = %d" % degshift, "INIT " + init, "NEXT " + nxt]
    lines += ["INVARIANT " + i for i in invs] + ["CHECK_DEADLOCK FALSE"]
    open(name + ".cfg", "w").write("\n".join(lines) + "\n")

if __name__ == "__main__":
    os.chdir(os.path.join(os.path.dirname(os.path.dirname(os.path.dirname(os.path.abspath(__file__)))), "spec"))
    mk("MCGates_p17", 17, 3, 3, "Cases17")
    mk("MCGates_p5", 5, 3, 2, "Cases5")
    mk("MCGates_p5h", 5, 3, 2, "Cases5H")
    mk("MCGates_uniq", 5, 3, 2, "CasesUniq", invs=("Satisfied","UniqueInv"))
    mk("MCGates_p5t", 5, 3, 2, "Cases5T")
    mk("MCGates_p7t", 7, 5, 3, "Cases7T")
    mk("MCGates_p13t", 13, 5, 2, "Cases13T")
    mk("MCGates_p17t", 17, 3, 3, "Cases17T")
    mk("MCGates_degcat", 17, 3, 3, "CasesDeg", invs=("DegreeInv","DegreeExactInv","CatLayoutInv","Emit"), init="InitDegCat", nxt="NextDeg")
    mk("MCGates_canary_DegreeLowered", 17, 3, 3, "CasesDegCanary", invs=("DegreeInv",), init="InitDeg", nxt="NextDeg", degshift=1)
    # spec mutants: (name, P, A, G, cases, kind, idx)
    for nm, P, A, G, cases, dk, di in [
        ("ExpoLastIntermediate", 5, 3, 2, "CasesExpo", "expo", 3),
        ("ExpoOutput", 17, 3, 3, "CasesExpo", "expo", 4),
        ("RaBool", 17, 3, 3, "CasesRa", "ra", 1),
        ("RaIndex", 17, 3, 3, "CasesRa", "ra", 3),
        ("RaClaimed", 17, 3, 3, "CasesRa", "ra", 4),
        ("BaseSumRange", 17, 3, 3, "CasesBaseSum", "basesum", 3),
        ("BaseSumSum", 17, 3, 3, "CasesBaseSum", "basesum", 1),
        ("PoseidonOut", 5, 3, 2, "CasesPoseidon", "poseidon", 9),
        ("CosetValue", 5, 3, 2, "CasesCoset", "coset", 12),
        ("ReducingAcc", 5, 3, 2, "CasesReducing", "reducing", 2),
        ("ArithOut", 17, 3, 3, "CasesArith", "arith", 1),
    ]:
        mk("MCGates_canary_" + nm, P, A, G, cases, dk, di, invs=("Satisfied","PinnedInv","UniqueInv") if nm in ("ExpoLastIntermediate", "BaseSumRange", "RaBool") else ("Satisfied","PinnedInv"))
