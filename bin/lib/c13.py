"""C13 — optimised hashing and the sponge equal their specification.

A  TLC exhaustive on MCChallenger (ideal duplex object vs implementation-shaped challenger over a
   free permutation, RATE 2 / WIDTH 3, all op sequences) + spec mutants; static obligations on
   hash_n_to_m / two_to_one / hash_or_noop / pad10*1.
C  layer-by-layer chains of the harness's textbook permutation and the outputs of the REAL routines,
   validated by TLC against PoseidonRef (constants: the snapshot PoseidonConstants) -> the textbook
   implementation becomes the bulk oracle for 10^5..10^6 inputs.
B  TLC-generated scenarios (RATE 8 / WIDTH 12: op sequences with the expected challenges as interned
   terms; hash vectors) replayed on the real Challenger<Poseidon|Keccak>, hash_no_pad, two_to_one,
   hash_or_noop, hash_pad under several chunkings of the same element sequence."""
import json
import os
import re
from concurrent.futures import ThreadPoolExecutor

import common
from common import ToolError, log

LEVEL = "model_checking"

PL_MUTANTS = ["stale", "resetcap", "compactnoflush"]


def _tlc_cfg(cfg, workers=2, timeout=300):
    return cfg, common.tlc("MCChallenger", cfg=cfg, workers=workers, timeout=timeout, tag="c13-" + cfg)


def _validate(chk, path, name, workers=8, timeout=1500):
    r = common.tlc("PoseidonTrace", cfg="PoseidonTrace", workers=workers, timeout=timeout,
                   env={"TRACE": path}, tag=name.replace(" ", "_"), heap="6g")
    idx = None
    if not r.ok:
        for m in re.finditer(r"/\\ l = (\d+)", r.raw):
            idx = int(m.group(1))
    return r, idx


def _brief(e):
    """an event without the 90 recorded states (for samples / replay files)"""
    return {k: v for k, v in e.items() if k not in ("c", "b", "m")}


def _words(state):
    return [sum(b << (8 * i) for i, b in enumerate(l)) for l in state]


def run(chk, tier):
    thorough = tier == "thorough"
    chk.rule = ("permutation: one evaluation per (routine, input state) of the real code compared with the textbook "
                "permutation; distinct input states are the non-trivial cases (boundary lane patterns + random); "
                "TLC validates every layer transition of the recorded chains against the definition with the snapshotted "
                "constants.  sponge: one evaluation per (scenario, hasher, value assignment, chunking) run on the real "
                "challenger / hash functions; distinct (hasher, flat op sequence) / (function, length) are non-trivial")
    chk.assumptions = ["TLC and the Json/IOUtils community modules are correct",
                       "spec/PoseidonConstants.tla is a faithful snapshot of the published constants (cross-checked by the "
                       "four published known-answer vectors)",
                       "the x86-64 SIMD Poseidon module is commented out in the pinned tree; SIMD paths are observed through "
                       "the +avx2 build of the same routines",
                       "KeccakHash::hash_no_pad is Keccak-256 of the serialised input, not a sponge over KeccakPermutation; "
                       "for Keccak only the challenger, hash_n_to_m/compress over KeccakPermutation and the structure of "
                       "hash_pad / hash_or_noop are decided"]
    # ------------------------------------------------------------------ A: model level
    main_cfg = "MCChallenger_thorough" if thorough else "MCChallenger"
    jobs = [(main_cfg, 8, 900)]
    if thorough:
        jobs.append(("MCChallenger_r3", 4, 600))
    jobs += [("MCChallenger_canary_" + m, 2, 300) for m in PL_MUTANTS + ["noclear"]]
    jobs += [("MCChallenger_drift_popfront", 2, 300), ("MCChallenger_drift_popfront_is", 2, 300),
             ("MCChallenger_equiv_noclear", 2, 300), ("MCChallenger_equiv_noflush", 2, 300)]
    with ThreadPoolExecutor(max_workers=3) as ex:
        results = dict(ex.map(lambda j: _tlc_cfg(*j), jobs))
    for cfg, r in results.items():
        if cfg in (main_cfg, "MCChallenger_r3"):
            chk.add_tlc(cfg + " exhaustive (ideal duplex vs challenger, hash obligations)", r)
            if not r.ok:
                raise ToolError("specification MCChallenger violates %s under %s (spec-level inconsistency)" % (r.violated, cfg))
    for m in PL_MUTANTS:
        r = results["MCChallenger_canary_" + m]
        chk.canary("spec-mutant %s violates a property-level invariant (%s)" % (m, r.violated), r.violated is not None)
    r = results["MCChallenger_canary_noclear"]
    chk.canary("spec-mutant noclear violates the buffer invariant", r.violated == "BufInv")
    chk.canary("pop-from-front satisfies every property-level invariant (DRIFT only)", results["MCChallenger_drift_popfront"].ok)
    chk.canary("pop-from-front violates the implementation-shaped order invariant",
               results["MCChallenger_drift_popfront_is"].violated == "ISAgree")
    chk.extra["equivalent_mutants"] = {
        "noclear (no output-buffer clear on observe)": results["MCChallenger_equiv_noclear"].ok,
        "noflush (no re-duplex on pending input)": results["MCChallenger_equiv_noflush"].ok,
        "note": "each alone is behaviourally equivalent (the two mechanisms are redundant); removing both ('stale') is caught"}
    # ------------------------------------------------------------------ C: permutation
    res = common.vh(["perm-bulk", "--n", 10], binname="c13")  # builds; smoke
    permlog = os.path.join(common.OUT, "c13perm.ndjson")
    nperm = 320 if thorough else 40
    rec = common.vh(["perm-record", "--out", permlog, "--n", nperm, "--layers", 600 if thorough else 50,
                     "--carry-layers", 400 if thorough else 48, "--carry-chains", 40 if thorough else 8], binname="c13")[-1]
    rows = common.read_ndjson(permlog)
    chk.sample({"perm_event": _brief(next(e for e in rows if e["op"] == "real")),
                "input_words": _words(rows[0]["in"])})
    for e in rows:
        if e["op"] == "panic":
            chk.violation("C13/perm/panic/" + e.get("what", "?"), "a real routine panicked: %s" % e.get("msg"), {"event": _brief(e)})
    rejected_kinds = set()
    for attempt in range(8):
        live = [e for e in rows if e["op"] != "panic" and (e["op"], e.get("what")) not in rejected_kinds]
        # "real"/"kat" events refer to chains by line number: keep numbering by replacing dropped events
        out_rows = [e if (e["op"] != "panic" and (e["op"], e.get("what")) not in rejected_kinds)
                    else {"op": "const", "r": 0, "in": rows[0]["in"], "out": rows[0]["c"][0]} for e in rows]
        common.write_ndjson(permlog, out_rows)
        r, idx = _validate(chk, permlog, "poseidon chains + real routines (%d events, %d permutations)" % (len(out_rows), rec["perms"]))
        chk.add_tlc("PoseidonTrace: %d events (%d chains layer by layer, %d real single layers)" % (len(out_rows), rec["perms"], rec["layers"]), r)
        if r.ok:
            chk.traces += 1
            break
        if idx is None or not (1 <= idx <= len(out_rows)):
            raise ToolError("TLC rejected the permutation log but no event index was found:\n" + r.raw[-1500:])
        bad = out_rows[idx - 1]
        if bad["op"] in ("ref", "kat"):
            raise ToolError("the harness's textbook permutation (or the constants snapshot) is rejected by TLC at event %d (%s): "
                            "the oracle itself is inconsistent" % (idx, bad["op"]))
        what = bad.get("what", bad["op"])
        if bad["op"] == "fastmds":
            what = "mds_partial_layer_fast"
        payload = {"event": _brief(bad), "spec": "spec/PoseidonRef.tla via spec/PoseidonTrace.tla"}
        if bad["op"] == "real":
            ch = out_rows[bad["ref"] - 1]
            payload["chain_input_words"] = _words(ch["in"])
            payload["expected_words"] = _words(ch[bad["layer"]][bad["at"] - 1])
            payload["got_words"] = _words(bad["out"])
            payload["chain"] = ch
        chk.violation("C13/perm/" + what, "real routine %s differs from the textbook permutation" % what, payload)
        rejected_kinds.add((bad["op"], bad.get("what")))
    else:
        raise ToolError("permutation log still rejected after removing 8 routines")
    chk.evaluations += sum(1 for e in rows if e["op"] in ("real", "mds", "sbox", "const", "fastmds"))
    chk.nontrivial += len({json.dumps(e["in"]) for e in rows if e["op"] in ("ref", "mds", "sbox", "const", "fastmds")})
    # carry-boundary states of the 160-bit accumulator of mds_partial_layer_fast: every (round, term position)
    # just carrying / just not carrying, directly and inside partial_rounds / poseidon (earlier rounds inverted)
    for fl in ["release", "avx2"]:
        cb = common.vh(["carry-boundary"], flavour=fl, binname="c13", timeout=900)[-1]
        if cb["uncovered"]:
            raise ToolError("carry-boundary generator is vacuous at %d accumulation site(s): %s" % (
                len(cb["uncovered"]), json.dumps(cb["uncovered"][:4])))
        if cb["in_permutation_exact_hits"] != cb["in_permutation_states"]:
            raise ToolError("inversion of the earlier rounds does not reproduce the boundary states (%d of %d)" % (
                cb["in_permutation_exact_hits"], cb["in_permutation_states"]))
        chk.evaluations += cb["direct_states"] + 4 * cb["in_permutation_states"]
        chk.nontrivial += cb["cases"]
        chk.extra.setdefault("carry_boundary", {})[fl] = {k: v for k, v in cb.items() if k not in ("mismatches", "uncovered", "kind")}
        for m in cb["mismatches"]:
            rt = m["routine"] if isinstance(m["routine"], str) else m["routine"][0]
            if rt.startswith("harness inversion"):
                raise ToolError("carry-boundary: " + json.dumps(m)[:600])
            chk.violation("C13/perm-carry/%s/%s" % (fl, rt),
                          "real routine differs from the textbook permutation on a carry-boundary state of the delayed-reduction "
                          "accumulator (round %s, term %s, %s)" % (m.get("round"), m.get("term"), m.get("kind")), {"case": m, "flavour": fl})
    chk.canary("the carry-boundary generator reaches every reachable accumulation site (vacuity guard)",
               chk.extra["carry_boundary"]["release"]["sites_fully_covered_required"] >= 150)
    # bulk: the validated textbook implementation as oracle
    flavours = ["release", "avx2"] + (["avx512"] if thorough else [])
    for fl in flavours:
        n = 1000000 if (thorough and fl == "release") else (250000 if thorough else 120000)
        out = common.vh(["perm-bulk", "--n", n, "--threads", 8], flavour=fl, binname="c13", timeout=1500)[-1]
        chk.evaluations += out["cases"] * 2 + out["noncanonical_pairs"]
        chk.nontrivial += out["cases"]
        chk.extra.setdefault("perm_bulk", {})[fl] = {k: out[k] for k in ("cases", "fixed_patterns", "noncanonical_pairs")}
        for m in out["mismatches"]:
            chk.violation("C13/perm-bulk/%s/%s" % (fl, m["routine"][0]),
                          "real permutation differs from the TLC-validated textbook permutation", {"case": m, "flavour": fl})
    # canaries: one flipped bit in a real output / in a chain layer must be rejected
    first_ref = next(i for i, e in enumerate(rows) if e["op"] == "ref")
    chain = rows[first_ref]
    real = json.loads(json.dumps(next(e for e in rows if e["op"] == "real" and e["ref"] == first_ref + 1 and e["what"] == "poseidon")))
    real["ref"] = 1
    real["out"][7][0] ^= 1
    canp = os.path.join(common.OUT, "c13canary1.ndjson")
    common.write_ndjson(canp, [chain, real])
    r1 = common.tlc("PoseidonTrace", cfg="PoseidonTrace", workers=1, timeout=300, env={"TRACE": canp}, tag="c13canary1")
    chk.canary("one flipped bit in a recorded poseidon() output is rejected by TLC", r1.violated is not None)
    chain2 = json.loads(json.dumps(chain))
    chain2["b"][13][0][1] ^= 4          # the partial-round S-box lane
    chain2["m"][20][11][7] ^= 128
    common.write_ndjson(canp, [chain2])
    r2 = common.tlc("PoseidonTrace", cfg="PoseidonTrace", workers=1, timeout=300, env={"TRACE": canp}, tag="c13canary2")
    chk.canary("a corrupted layer of the textbook chain is rejected by TLC", r2.violated is not None)
    fm = json.loads(json.dumps(next(e for e in rows if e["op"] == "fastmds")))
    p_ = 0xFFFFFFFF00000001
    v0 = (sum(b << (8 * i) for i, b in enumerate(fm["out"][0])) + (1 << 32)) % p_      # 2^128 = -2^32 (mod p)
    fm["out"][0] = [(v0 >> (8 * i)) & 255 for i in range(8)]
    common.write_ndjson(canp, [fm])
    r3 = common.tlc("PoseidonTrace", cfg="PoseidonTrace", workers=1, timeout=300, env={"TRACE": canp}, tag="c13canary2b")
    chk.canary("a mds_partial_layer_fast output with one carry of the 160-bit accumulator dropped is rejected by TLC",
               r3.violated is not None)
    # ------------------------------------------------------------------ B: sponge scenarios
    rv = common.tlc("MCSpongeVec", cfg="MCSpongeVec", workers=2, timeout=300)
    chk.add_tlc("MCSpongeVec (hash vectors at RATE 8 / WIDTH 12)", rv)
    if not rv.ok:
        raise ToolError("MCSpongeVec violates " + str(rv.violated))
    hash_scen = common.tagged(rv.prints, "REPLAY")
    rs = common.tlc("MCChallenger", cfg="MCChallenger_sim", workers=8, timeout=900,
                    simulate=350 if thorough else 45, depth=60, tag="c13-sim")
    chk.add_tlc("MCChallenger -simulate at RATE 8 / WIDTH 12, depth 48", rs, exhaustive=False)
    if not rs.ok:
        raise ToolError("MCChallenger (simulation, RATE 8) violates " + str(rs.violated))
    seen = set()
    chal_scen = []
    for s in common.tagged(rs.prints, "REPLAY"):
        k = json.dumps(s["ops"])
        if k not in seen:
            seen.add(k)
            chal_scen.append(s)
    chal_scen.sort(key=lambda s: json.dumps(s["ops"]))
    cap = 9000 if thorough else 1400
    step = max(1, len(chal_scen) // cap)
    chal_scen = chal_scen[::step][:cap]
    scen = hash_scen + chal_scen
    if len(chal_scen) < 200 or len(hash_scen) < 100:
        raise ToolError("too few scenarios emitted by TLC: %d challenger, %d hash" % (len(chal_scen), len(hash_scen)))
    scenp = os.path.join(common.OUT, "c13scen.ndjson")
    common.write_ndjson(scenp, scen)
    chk.sample({"scenario": chal_scen[0]})
    chk.sample({"scenario": hash_scen[len(hash_scen) // 2]})
    out = common.vh(["sponge-replay", "--scen", scenp], binname="c13", timeout=1500)[-1]
    _sponge_verdicts(chk, out, "replay")
    if not out["violations"]:
        chk.traces += out["scenarios"]
    bulk = common.vh(["sponge-bulk", "--n", 20000 if thorough else 2500], binname="c13", timeout=1500)[-1]
    _sponge_verdicts(chk, bulk, "bulk")
    chk.extra["sponge"] = {"tlc_challenger_scenarios": len(chal_scen), "tlc_hash_scenarios": len(hash_scen),
                           "replay_runs": out["runs"], "replay_challenges": out["challenges"],
                           "bulk_sequences": bulk["scenarios"], "bulk_runs": bulk["runs"], "bulk_challenges": bulk["challenges"]}
    # binding canary: a scenario whose expectation was altered must be reported
    bad = json.loads(json.dumps(next(s for s in chal_scen if len(s["outs"]) >= 2 and len(s["tbl"]) >= 2
                                     and any(1 <= t <= 98 for t in s["tbl"][0]))))
    row = bad["tbl"][0]
    j = next(i for i, t in enumerate(row) if 1 <= t <= 98)
    row[j] = 0
    canp = os.path.join(common.OUT, "c13canary3.ndjson")
    common.write_ndjson(canp, [bad])
    oc = common.vh(["sponge-replay", "--scen", canp], binname="c13")[-1]
    chk.canary("a scenario with one absorbed atom removed from the expected term table is reported", len(oc["violations"]) > 0)
    bad2 = json.loads(json.dumps(next(s for s in hash_scen if s["kind"] == "hash_n_to_m" and s["n"] == 9 and s["m"] == 4)))
    bad2["tbl"][1][0] = 2                # the ninth element replaced by the second
    common.write_ndjson(canp, [bad2])
    oc = common.vh(["sponge-replay", "--scen", canp], binname="c13")[-1]
    chk.canary("a hash vector with a wrong element in the second block is reported", len(oc["violations"]) > 0)


def _sponge_verdicts(chk, out, where):
    chk.evaluations += out["runs"]
    chk.nontrivial += out["nontrivial"]
    if out["refsponge_mismatch"]:
        raise ToolError("the harness's independent sponge disagrees with the TLA+ terms: %s" % json.dumps(out["refsponge_mismatch"][0])[:600])
    for d in out["drift"]:
        chk.note_drift(d)
    for v in out["violations"]:
        chk.violation("C13/" + v["key"], "real sponge / hash output differs from the overwrite-mode sponge (%s)" % where, v)


def replay(path):
    p = json.load(open(path))
    brief = {k: v for k, v in p.items() if k != "chain"}
    print(json.dumps(brief, indent=1)[:4000])
    if "event" in p and "chain" in p:
        ev = dict(p["event"])
        ev["ref"] = 1
        one = os.path.join(common.OUT, "c13replay.ndjson")
        common.write_ndjson(one, [p["chain"], ev])
        r = common.tlc("PoseidonTrace", cfg="PoseidonTrace", workers=1, timeout=300, env={"TRACE": one}, tag="c13replay")
        print("TLC verdict on the recorded output against PoseidonRef:", "accepted" if r.ok else "REJECTED (%s)" % r.violated)
        return 0 if r.ok else 1
    if "event" in p:
        one = os.path.join(common.OUT, "c13replay.ndjson")
        common.write_ndjson(one, [p["event"]])
        r = common.tlc("PoseidonTrace", cfg="PoseidonTrace", workers=1, timeout=300, env={"TRACE": one}, tag="c13replay")
        print("TLC verdict on the recorded layer:", "accepted" if r.ok else "REJECTED (%s)" % r.violated)
        return 0 if r.ok else 1
    if "scenario" in p:
        one = os.path.join(common.OUT, "c13replay.ndjson")
        common.write_ndjson(one, [p["scenario"]])
        out = common.vh(["sponge-replay", "--scen", one], binname="c13")[-1]
        print("re-executed scenario: %d violation(s)" % len(out["violations"]))
        for v in out["violations"][:3]:
            print(json.dumps({k: v[k] for k in v if k != "scenario"})[:1000])
        return 1 if out["violations"] else 0
    if "case" in p:
        print("bulk mismatch: re-run `harness/target/release/c13 perm-bulk` (deterministic for VERIF_SEED=%s)" % p.get("seed"))
        return 1
    return 1
