"""C03 — accepted proofs are bound to every element and to their circuit.

A  spec/PlonkIOP.tla (TLC): the proof as components, the verifier as ordered checks with read sets,
   Fiat–Shamir as ordered absorptions; adversary = replace one component / drop-last, empty,
   duplicate-last a list / swap verifier data; obligation `Bound`: Accept => only `indices` touched.
   Canary dimension `disabled`: with every detector of a component disabled TLC exhibits an accepted
   tamper of it; single checks whose removal alone is fatal are listed.
B  harness c03: for accepted proofs of N families (>= 50 bits of binding) EVERY numeric position of the
   plain and compressed proof (serde_json reflection) is replaced, every JSON array / map gets the list
   mutations, every proof is paired with every other circuit's verifier data; each mutated proof is
   verified by the real `verify` / `verify_compressed`.
VIOLATION iff a mutated proof (other than a change confined to `indices`) is accepted.  A panic counts
as "not accepted" here (C18 decides whether it should have been an Err)."""
import json
import os
from concurrent.futures import ThreadPoolExecutor

import common
from common import ToolError, log

LEVEL = "model_checking"

# observed error class -> model checks it may stand for
CLASS_TO_CHECKS = {
    "pow": {"Pow"}, "merkle": {"InitMerkle", "LayerMerkle"}, "vanishing": {"Vanishing"},
    "consistency": {"Consistency"}, "final": {"Final"}, "rounds": {"NumRounds"},
    "shape": {"Shape", "FriShape"}, "pis": {"Shape"},
    # a panic is "not accepted": in the compressed form it is the failed lookup / decompression,
    # in the plain form the cap-height computation inside shape validation (C18 defect 1)
    "panic": {"Decompress", "Shape", "FriShape", "Vanishing", "Consistency"},
}
# harness component names -> model component names
COMP_ALIAS = {"initial_map": "rounds", "step_map": "steps"}
SURPLUS_KEY = {"path": "init_path", "lpath": "step_path", "steps": "steps", "initial_map": "init_key", "step_map": "step_key"}


def tlc_form(form):
    return common.tlc("MCPlonkIOP", cfg="MCPlonkIOP_" + form, workers=6, timeout=600, tag="c03-" + form)


def run(chk, tier):
    thorough = tier == "thorough"
    chk.rule = ("model: every action (replace / drop-last / empty / duplicate-last / swap verifier data) on every component of "
                "spec/PlonkIOP.tla, plain and compressed, x every canary set of disabled checks; implementation: every numeric "
                "position of the serialised plain and compressed proof of every family x the replacement values, every JSON "
                "array and map x the three list mutations, every ordered pair of circuits; a case is non-trivial if the "
                "mutated value deserialises to a proof different from the valid one; distinct = distinct (family, form, "
                "position, value / mutation)")
    chk.assumptions = ["TLC and the community modules are correct",
                       "every family has >= 50 bits of binding (asserted by the harness), so an accepted tamper is not luck",
                       "Fiat-Shamir re-randomisation is modelled as certain failure of a check that reads a later challenge"]
    # ---- A
    with ThreadPoolExecutor(max_workers=2) as ex:
        rs = list(ex.map(tlc_form, ["plain", "compressed"]))
    scen, canaries = [], {}
    for form, r in zip(["plain", "compressed"], rs):
        chk.add_tlc("PlonkIOP " + form, r)
        if not r.ok:
            raise ToolError("PlonkIOP (%s) violates %s: the model itself accepts a tamper" % (form, r.violated))
        scen += common.tagged(r.prints, "REPLAY")
        canaries[form] = common.tagged(r.prints, "CANARY")
    chk.sample({"scenario": scen[0]})
    chk.sample({"spec_canary": canaries["plain"][0]})
    # spec canaries: for every (action, component) with a rejecting verdict there is a canary set under which it is accepted
    for form in ("plain", "compressed"):
        fired = {(c["action"], c["comp"]) for c in canaries[form]}
        need = {(s["action"], s["comp"]) for s in scen if s["form"] == form and s["expect"] == "reject"}
        chk.canary("PlonkIOP %s: every tamper is accepted once all its detectors are disabled (%d actions)" % (form, len(need)),
                   need <= fired)
        single = {}
        for c in canaries[form]:
            if "," not in c["disabled"]:
                single.setdefault(c["disabled"], set()).add(c["comp"])
        chk.extra.setdefault("single_item_canaries", {})[form] = {k: sorted(v) for k, v in sorted(single.items())}
        for item, comp in (("InitMerkle", "path"), ("LayerMerkle", "lpath"), ("A.pow_witness", "pow_witness")):
            chk.canary("PlonkIOP %s: disabling only %s lets a tampered %s through" % (form, item, comp), comp in single.get(item, set()))
    chk.canary("PlonkIOP plain: disabling only NumRounds lets a dropped query round through",
               "rounds" in chk.extra["single_item_canaries"]["plain"].get("NumRounds", []))
    expect = {}
    for s in scen:
        expect[(s["form"], s["action"], s["comp"])] = s

    # ---- B
    if thorough:
        args = ["run", "--fams", 12, "--values", 3, "--threads", 12]
    else:
        args = ["run", "--fams", 6, "--values", 2, "--threads", 8, "--bulk-budget", 4000]
    res = common.vh(args, binname="c03", timeout=3000)
    fams = [r for r in res if r.get("kind") == "family"]
    swap = [r for r in res if r.get("kind") == "vd_swap"]
    if not fams or not swap:
        raise ToolError("harness produced no family / vd_swap report")
    covered = {}
    drift = {}
    viol = {}
    accepted_stats = {}
    for f in fams:
        chk.evaluations += f["evaluations"]
        chk.nontrivial += f["nontrivial"]
        for key, st in f["stats"].items():
            form, action, comp = key.split("|")
            if comp == "fixed" or st["nontrivial"] == 0:
                continue
            mcomp = COMP_ALIAS.get(comp, comp)
            covered.setdefault((form, action, mcomp), 0)
            covered[(form, action, mcomp)] += st["nontrivial"]
            sc = expect.get((form, action, mcomp))
            for cls, n in st["classes"].items():
                if cls == "ACCEPTED":
                    if comp != "indices":
                        accepted_stats.setdefault((form, action, comp), [0, f["fam"]])[0] += n
                    continue        # reported below, with a reproducing path when the harness listed one
                if sc is None:
                    continue
                if sc["expect"] == "accept" and cls != "ACCEPTED":
                    drift.setdefault("%s %s %s: model says unread, the code rejects (%s)" % (form, action, comp, cls), []).append(f["fam"])
                elif sc["expect"] == "reject":
                    det = set(sc["detectors"].split(","))
                    if cls in CLASS_TO_CHECKS and not (CLASS_TO_CHECKS[cls] & det):
                        drift.setdefault("%s %s %s: rejected by '%s', model detectors %s" % (form, action, comp, cls, sorted(det)), []).append(f["fam"])
        for a in f["accepted"]:
            if a["comp"] == "indices":
                continue
            if a["form"] == "compressed" and a["action"] == "duplast" and a["comp"] in SURPLUS_KEY:
                key = "C03/verify_compressed/surplus-ignored/" + SURPLUS_KEY[a["comp"]]
                detail = "verify_compressed accepts a valid compressed proof with a surplus %s element (duplicated last)" % a["comp"]
            else:
                key = "C03/%s/accepted/%s/%s" % ("verify_compressed" if a["form"] == "compressed" else "verify", a["action"], a["comp"])
                detail = "mutated proof accepted"
            if key not in viol:
                viol[key] = (detail, {"case": a, "spec": expect.get((a["form"], a["action"], COMP_ALIAS.get(a["comp"], a["comp"])))}, 0)
            d, p, n = viol[key]
            viol[key] = (d, p, n + 1)
    def vkey(form, action, comp):
        if form == "compressed" and action == "duplast" and comp in SURPLUS_KEY:
            return "C03/verify_compressed/surplus-ignored/" + SURPLUS_KEY[comp]
        return "C03/%s/accepted/%s/%s" % ("verify_compressed" if form == "compressed" else "verify", action, comp)
    for (form, action, comp), (n, fam) in sorted(accepted_stats.items()):
        if vkey(form, action, comp) not in viol:     # accepted cases beyond the harness's listing cap
            viol[vkey(form, action, comp)] = ("mutated proof accepted", {"case": {"fam": fam, "form": form, "action": action, "comp": comp}}, n)
    chk.sample({"family_report": {k: v for k, v in fams[0].items() if k not in ("stats", "accepted")}})
    k0 = sorted(fams[-1]["stats"])[0]
    chk.sample({"position_class_stat": {k0: fams[-1]["stats"][k0]}})
    sw = swap[0]
    chk.evaluations += sw["pairs"]
    chk.nontrivial += sw["pairs"]
    for a in sw["accepted"]:
        viol["C03/verifier-data-swap/%s" % a["what"]] = ("a proof is accepted with another circuit's verifier data", {"case": a}, 1)
    chk.extra["vd_swap"] = {"pairs": sw["pairs"], "classes": sw["classes"]}
    chk.extra["families"] = [{k: v for k, v in f.items() if k not in ("stats", "accepted")} for f in fams]
    # coverage of the model's catalogue: every (form, action, component) of the specification is instantiated
    want = {(s["form"], s["action"], s["comp"]) for s in scen if s["comp"] not in ("vd",)}
    have = set(covered)
    missing = sorted(want - have)
    # lists the small families do not have (no lookups / no reduction layers) may be missing there, never overall
    chk.extra["catalogue"] = {"model_actions": len(want), "instantiated": len(want & have), "missing": [list(m) for m in missing]}
    if missing:
        chk.note_drift("model actions not instantiated on any family: %s" % missing[:12])
    chk.traces += len(want & have) + (1 if not sw["accepted"] else 0)
    for d, fs in sorted(drift.items())[:30]:
        chk.note_drift("%s (%s)" % (d, ",".join(sorted(set(fs))[:4])))

    # ---- binding canaries
    st = common.vh(["run", "--fams", 1, "--values", 1, "--untampered"], binname="c03", timeout=600)
    acc = [a for r in st if r.get("kind") == "family" for a in r["accepted"]]
    chk.canary("binding: an untampered proof fed through the tamper loop surfaces as an accepted mutated proof", len(acc) > 0)
    flipped = dict(next(s for s in scen if s["expect"] == "reject" and s["comp"] == "pow_witness"), expect="accept")
    cls = [c for f in fams for k, v in f["stats"].items() if k == "plain|replace|pow_witness" for c in v["classes"]]
    chk.canary("binding: a flipped expectation (pow_witness tamper expected to be accepted) disagrees with the observed rejections",
               flipped["expect"] == "accept" and cls and all(c != "ACCEPTED" for c in cls))

    for key, (detail, payload, n) in sorted(viol.items()):
        chk.violation(key, "%s (%d cases)" % (detail, n), dict(payload, occurrences=n))
    chk.extra["violation_keys"] = sorted(viol)
    import c18
    c18.write_report("C03", {k: (d, dict(p, recipe="valid compressed proof of family %s: %s of JSON path %s, then verify_compressed"
                                          % (p["case"].get("fam"), p["case"].get("action"), p["case"].get("path"))), n)
                             for k, (d, p, n) in viol.items()},
                     os.path.join(common.OUT, "c03_findings_report.md"), "accepted mutated proofs")
    chk.exhaustive = False


def replay(path):
    p = json.load(open(path))
    print(json.dumps(p, indent=1)[:3000])
    case = p.get("case", {})
    if "path" in case:
        res = common.vh(["run", "--fams", 6, "--values", 1, "--bulk-budget", 2000], binname="c03", timeout=1200)
        hit = [a for r in res if r.get("kind") == "family" for a in r["accepted"]
               if a["comp"] == case["comp"] and a["action"] == case["action"] and a["form"] == case["form"]]
        print("specification: mutated proofs other than a change of `indices` must be rejected; observed accepted now: %d" % len(hit))
        for a in hit[:3]:
            print("  ", json.dumps(a)[:300])
        return 1 if hit else 0
    return 1
