"""C04 — Fiat-Shamir challenges depend on the whole statement and prior transcript.

A  TLC on spec/Transcript.tla (PLONK) and spec/StarkTranscript.tla over the configuration lattice:
   the exact observe/squeeze program of the code, run on the dependency abstraction of the challenger
   (bound to the term-level challenger by MCChallenger!TaintInv, C13), satisfies FS1 / FS2 / FS0 and
   Complete; spec mutants (one observe dropped) violate FS1.
B  dependency-matrix replay: the harness builds real PLONK / STARK proofs, perturbs every transcript
   atom, recomputes the library's get_challenges and reports which challenges changed; TLC evaluates
   the specification at exactly the configurations of those proofs and prints the expected matrix
   DependsOn(challenge, component); a challenge the specification places after a component that
   does not change is a VIOLATION, a challenge before it that changes is DRIFT.  TLC's program is
   also re-executed on the real data with a fresh Challenger (DRIFT level, PLONK)."""
import json
import os
from concurrent.futures import ThreadPoolExecutor

import common
from common import ToolError, log

LEVEL = "model_checking"

CANARIES = [("Transcript", "Transcript_canary_wires_cap"), ("Transcript", "Transcript_canary_pow_witness"),
            ("StarkTranscript", "StarkTranscript_canary_constraint_evals"), ("StarkTranscript", "StarkTranscript_canary_trace_cap")]
MOD = {"plonk": "Transcript", "stark": "StarkTranscript"}


def _key(cfg):
    return json.dumps(cfg, sort_keys=True)


def compare(case, spec):
    """Observed matrix of one proof against the specification's matrix for its configuration.
    Returns (violations [(key, detail, payload)], drift [str], gaps [str])."""
    viol, drift, gaps = [], [], []
    sysname = case["system"]
    m = case["matrix"]
    depends = {ch: set(v) for ch, v in spec["depends"].items()}
    spec_comps = set(spec["components"])
    for ch in m["challenges"]:
        if ch not in depends:
            drift.append("%s %s: the library exposes challenge %s unknown to the specification" % (sysname, case["config"], ch))
    for cl, c in sorted(m["components"].items()):
        if c["atoms"] == 0:
            continue
        if cl not in spec_comps:
            drift.append("%s %s: component %s is not a component of the specification" % (sysname, case["config"], cl))
            continue
        if c["perturbed"] == 0:
            gaps.append("%s %s: %s not comparable (%s)" % (sysname, case["config"], cl, c.get("first_error")))
            continue
        if cl == "fri.reduction_strategy":
            # semantic perturbations (independent of the crate's serialisation): every DIFFERENT strategy value is a
            # different statement parameter; every challenge drawn after the configuration must change
            for prm in c.get("params", []):
                if not prm.get("comparable"):
                    continue
                stuck = [ch for ch in prm["unchanged"] if ch in depends and cl in depends[ch]]
                if stuck:
                    viol.append(("C04/%s/fri.reduction_strategy/%s" % (sysname, prm["param"].replace("+1", "").replace("-1", "")),
                                 "altering the reduction strategy (%s) leaves %d challenge(s) unchanged in %s: %s" % (
                                     prm["param"], len(stuck), case["config"], stuck),
                                 {"config": case["config"], "cfg": case["cfg"], "component": cl, "param": prm["param"],
                                  "challenge": stuck[0], "unchanged": stuck, "observed": c}))
            continue
        for ch in m["challenges"]:
            if ch not in depends:
                continue
            if cl in depends[ch]:
                if c["unchanged"].get(ch, 0) > 0:
                    viol.append(("C04/%s/%s->%s" % (sysname, cl, ch),
                                 "challenge %s did not change for %d of %d perturbed atoms of %s (first: atom %s) in %s" % (
                                     ch, c["unchanged"][ch], c["perturbed"], cl, c["unchanged_example_atom"].get(ch), case["config"]),
                                 {"config": case["config"], "cfg": case["cfg"], "component": cl, "challenge": ch,
                                  "observed": c, "expected_depends": sorted(depends[ch])}))
            elif c["changed"].get(ch, 0) > 0:
                drift.append("%s %s: challenge %s, which precedes %s, changed when %s was altered" % (sysname, case["config"], ch, cl, cl))
    for cl in sorted(spec_comps):
        if cl not in m["components"] or m["components"][cl]["atoms"] == 0:
            drift.append("%s %s: specification component %s was not found in the proof" % (sysname, case["config"], cl))
    for d in case.get("program_diffs") or []:
        cm = d.get("count_mismatch") if isinstance(d, dict) else None
        if cm and cm["code"] < cm["specification"]:
            # an absorbed component shorter than the specification's: some parameter of it is not bound
            viol.append(("C04/%s/%s/absorbs-%d-of-%d" % (sysname, cm["class"], cm["code"], cm["specification"]),
                         "the code absorbs %d element(s) of %s, the specification %d (one per parameter) in %s" % (
                             cm["code"], cm["class"], cm["specification"], case["config"]),
                         {"config": case["config"], "cfg": case["cfg"], "component": cm["class"], "count_mismatch": cm}))
            continue
        drift.append("%s %s: TLC's observe/squeeze program re-executed on the real data differs from get_challenges: %s" % (
            sysname, case["config"], json.dumps(d)[:300]))
    return viol, drift, gaps


def _run_tlc(job):
    mod, cfg, workers, env = job
    return (mod, cfg), common.tlc(mod, cfg=cfg, workers=workers, timeout=900, env=env, tag="c04-" + cfg)


def run(chk, tier):
    thorough = tier == "thorough"
    chk.rule = ("one evaluation per perturbed transcript atom (one field element of a statement parameter, digest, public "
                "input, cap entry, opening, commit-phase cap, final-polynomial coefficient, the pow witness) of a real proof: "
                "get_challenges is recomputed and every named challenge compared with the unperturbed one (query indices as "
                "a whole vector); an evaluation is non-trivial if the perturbed value differs and the recomputation succeeded")
    chk.assumptions = ["TLC and the Json/IOUtils community modules are correct",
                       "a challenge that is recomputed from a changed sponge input differs except with probability < 2^-50 "
                       "(num_queries * lde_bits >= 64 for the index vector compared as a whole, 64-bit field elements otherwise)",
                       "num_challenges, the wire/gate layout and CircuitConfig outside FriParams are not transcript components "
                       "(they reach the PLONK transcript only through the circuit digest); STARK: FriParams (hiding, degree, "
                       "arity list) are not absorbed and the trace length is an implicit prover message bound through "
                       "constraint_evals (named deviations of the model, reported, not judged)"]
    tier_args = ["--tier", tier]
    common.build_harness("release", "c04")
    # ---------------------------------------------------------------- A: TLC (lattice, mutants) while the harness
    # builds the circuits / proofs whose configurations the specification is then evaluated at
    lat = "" if thorough else "_quick"       # quick: the sub-lattice layers in {0,2}, two strategies
    jobs = [("Transcript", "Transcript" + lat, 6, None), ("StarkTranscript", "StarkTranscript" + lat, 6, None),
            ("Transcript", "Transcript_mutants", 2, None), ("StarkTranscript", "StarkTranscript_mutants", 2, None)]
    jobs += [(m, c, 1, None) for m, c in CANARIES]
    jobs += [("Transcript", "Transcript_canary_encode_drops_final_bits", 1, None),
             ("StarkTranscript", "StarkTranscript_canary_encode_drops_final_bits", 1, None)]
    with ThreadPoolExecutor(max_workers=5) as ex:
        fut_cfgs = ex.submit(common.vh, ["cfgs"] + tier_args, binname="c04", timeout=900)
        futs = [ex.submit(_run_tlc, j) for j in jobs]
        cases0 = fut_cfgs.result()
        cfgs = {"plonk": {}, "stark": {}}
        for c in cases0:
            cfgs[c["system"]][_key(c["cfg"])] = c["cfg"]
            if c["lde_bits"] * c["cfg"]["q"] < 64:      # whole-vector coincidence of the query indices < 2^-64
                raise ToolError("configuration %s too small for whole-vector comparison of query indices" % c["config"])
        envp = {}
        for sname in cfgs:
            envp[sname] = os.path.join(common.OUT, "c04_cfgs_%s.ndjson" % sname)
            common.write_ndjson(envp[sname], list(cfgs[sname].values()))
        futs += [ex.submit(_run_tlc, ("Transcript", "Transcript_env", 4, {"CFGS": envp["plonk"]})),
                 ex.submit(_run_tlc, ("StarkTranscript", "StarkTranscript_env", 4, {"CFGS": envp["stark"]}))]
        res = dict(f.result() for f in futs)
    spec = {"plonk": {}, "stark": {}}
    for (mod, cfg), r in res.items():
        if "canary_encode" in cfg:
            chk.canary("spec-mutant %s: a strategy encoding without final_poly_bits is refuted (injective / complete encoding)" % cfg,
                       str(r.violated).startswith("ASSUME"))
            continue
        if "canary" in cfg:
            chk.canary("spec-mutant %s: dropping the observe violates FS1" % cfg.replace("_canary_", " without "), r.violated == "FS1")
            continue
        if cfg.endswith("_mutants"):
            chk.add_tlc(cfg + " (every single dropped observe is caught by FS1)", r)
            chk.canary("all spec mutants of %s (one per observe class) violate FS1" % mod, r.ok and r.distinct > 1000)
            continue
        chk.add_tlc(cfg + (" (configurations of the real proofs)" if cfg.endswith("_env") else " (lattice: FS1 FS2 FS0 Complete)"), r)
        if not r.ok:
            raise ToolError("specification %s/%s violates %s (spec-level inconsistency; an Appendix-D style schedule error)" % (mod, cfg, r.violated))
        for mrec in common.tagged(r.prints, "MATRIX"):
            if cfg.endswith("_env"):
                spec[mrec["system"]][_key(mrec["cfg"])] = mrec
    for s in cfgs:
        missing = set(cfgs[s]) - set(spec[s])
        if missing:
            raise ToolError("TLC printed no matrix for %d %s configuration(s)" % (len(missing), s))
    progp = os.path.join(common.OUT, "c04_programs.ndjson")
    common.write_ndjson(progp, [{"system": s, "cfg": m["cfg"], "program": m["program"]} for s in spec for m in spec[s].values()])
    one = next(iter(spec["plonk"].values()))
    chk.sample({"spec_matrix_row": {"system": "plonk", "cfg": one["cfg"], "challenge": "plonk_zeta", "depends_on": one["depends"]["plonk_zeta"]}})
    # ---------------------------------------------------------------- B: the real proofs
    reps = 7 if thorough else 1
    cases = common.vh(["matrix", "--programs", progp, "--reps", reps] + tier_args, binname="c04", timeout=1700)
    if len(cases) < 10:
        raise ToolError("harness produced only %d cases" % len(cases))
    all_gaps = []
    replayed = 0
    for case in cases:
        sp = spec[case["system"]].get(_key(case["cfg"]))
        if sp is None:
            raise ToolError("no specification matrix for %s" % case["config"])
        viol, drift, gaps = compare(case, sp)
        chk.evaluations += case["evaluations"]
        chk.nontrivial += case["nontrivial"]
        for k, d, p in viol:
            chk.violation(k, d, p)
        for d in drift:
            chk.note_drift(d)
        all_gaps += gaps
        if not viol:
            chk.traces += 1
        replayed += 1 if case.get("program_replayed") else 0
    # ---------------------------------------------------------------- vacuity guard
    # every component class of the specification matrices (statement: public inputs, config / FRI parameters incl.
    # num_query_rounds, digest, ...; messages: caps, openings, ...) must have been perturbed, with the challenges
    # recomputed, in at least one PLONK and one STARK case; every public-input position of every case with public
    # inputs must have been perturbed; the first challenges after the statement must be among the compared ones.
    for sysname, first_ch in (("plonk", ["plonk_betas", "plonk_gammas", "plonk_alphas", "plonk_zeta"]),
                              ("stark", ["lookup_challenges", "stark_alphas", "stark_zeta"])):
        mine = [c for c in cases if c["system"] == sysname]
        classes = set()
        for m in spec[sysname].values():
            classes |= {cl.split(".")[0] + ".*" if cl.startswith("commit_cap.") else cl for cl in m["components"]}
        done = set()
        for c in mine:
            for cl, v in c["matrix"]["components"].items():
                if v["perturbed"] > 0:
                    done.add("commit_cap.*" if cl.startswith("commit_cap.") else cl)
        missing = sorted(classes - done)
        if missing:
            raise ToolError("vacuous: %s component classes never perturbed in any %s case: %s" % (len(missing), sysname, missing))
        for ch in first_ch:
            if not any(ch in c["matrix"]["challenges"] for c in mine):
                raise ToolError("vacuous: challenge %s is not compared in any %s case" % (ch, sysname))
        with_pi = [c for c in mine if c["cfg"]["npi"] > 0]
        if not with_pi:
            raise ToolError("vacuous: no %s case has public inputs" % sysname)
        for c in with_pi:
            pi = c["matrix"]["components"]["public_input"]
            if pi["perturbed"] != c["cfg"]["npi"]:
                raise ToolError("vacuous: %s: %d of %d public-input positions perturbed" % (c["config"], pi["perturbed"], c["cfg"]["npi"]))
        # every parameter of the reduction strategy, for each strategy variant
        for variant in ("fixed", "cab", "minsize"):
            okv = False
            for c in mine:
                if c["cfg"]["strat"] != variant:
                    continue
                prm = c["matrix"]["components"]["fri.reduction_strategy"].get("params", [])
                names = {x["param"] for x in prm}
                need = {"cab": {"cab.arity_bits+1", "cab.final_poly_bits+1", "variant->fixed", "variant->minsize"},
                        "fixed": {"fixed.append", "variant->cab", "variant->minsize"},
                        "minsize": {"minsize.none<->some", "variant->cab", "variant->fixed"}}[variant]
                if prm and all(x["comparable"] for x in prm) and need <= names:
                    okv = True
            if not okv:
                raise ToolError("vacuous: no %s case with strategy %s had every strategy parameter perturbed" % (sysname, variant))
        if not any("fixed.arity[0]+1" in {x["param"] for x in c["matrix"]["components"]["fri.reduction_strategy"].get("params", [])}
                   for c in mine):
            raise ToolError("vacuous: no %s case perturbs an element of a Fixed arity list" % sysname)
        if sysname == "stark" and not any(c["cfg"].get("npifree", 0) > 0 for c in mine):
            raise ToolError("vacuous: no STARK case has a public input outside every constraint (the only kind whose "
                            "binding rests on the observe step alone)")
    chk.canary("vacuity guard: every specification component class perturbed in a PLONK and a STARK case, every public-input "
               "position, incl. public inputs that occur in no constraint; first challenges after the statement compared", True)
    first = cases[0]
    comp = first["matrix"]["components"]["plonk_zs_partial_products_cap"]
    chk.sample({"observed": {"config": first["config"], "component": "plonk_zs_partial_products_cap", "atoms": comp["atoms"],
                             "changed": comp["changed"], "unchanged": comp["unchanged"]}})
    st = next(c for c in cases if c["system"] == "stark")
    chk.sample({"observed": {"config": st["config"], "component": "degree_bits", "changed": st["matrix"]["components"]["degree_bits"]["changed"]}})
    chk.extra["proofs"] = {"plonk": sum(1 for c in cases if c["system"] == "plonk"), "stark": sum(1 for c in cases if c["system"] == "stark"),
                           "configurations": sorted({c["config"] for c in cases}),
                           "programs_reexecuted_on_real_data": replayed}
    chk.extra["not_comparable"] = sorted(set(all_gaps))[:20]
    chk.extra["strategy_encoding_probe"] = next((c["strategy_encoding_probe"] for c in cases if "strategy_encoding_probe" in c), None)
    nc = {}
    for c in cases:
        for k, v in (c.get("not_components") or {}).items():
            nc.setdefault(k, set()).update(v.get("changed", ["(not comparable)"]))
    chk.extra["fields_outside_the_transcript"] = {k: sorted(v) for k, v in nc.items()}
    # ---------------------------------------------------------------- binding canary
    bad = json.loads(json.dumps(first))
    c = bad["matrix"]["components"]["wires_cap"]
    c["unchanged"]["plonk_alphas"] = 1
    c["changed"]["plonk_alphas"] -= 1
    c["unchanged_example_atom"]["plonk_alphas"] = 17
    v, _, _ = compare(bad, spec["plonk"][_key(bad["cfg"])])
    chk.canary("an observed matrix with one dependency removed (wires_cap -> plonk_alphas) is reported",
               any(k == "C04/plonk/wires_cap->plonk_alphas" for k, _, _ in v))
    bad = json.loads(json.dumps(st))
    c = bad["matrix"]["components"]["pow_witness"]
    c["unchanged"]["fri_query_indices"] = 1
    v, _, _ = compare(bad, spec["stark"][_key(bad["cfg"])])
    chk.canary("an observed STARK matrix where the pow witness does not reach the query indices is reported",
               any(k == "C04/stark/pow_witness->fri_query_indices" for k, _, _ in v))
    v, _, _ = compare(dict(first, program_diffs=[{"count_mismatch": {"class": "fri.reduction_strategy", "specification": 3, "code": 2}}]),
                      spec["plonk"][_key(first["cfg"])])
    chk.canary("a transcript component absorbed with fewer elements than the specification's is reported as VIOLATION",
               any(k.startswith("C04/plonk/fri.reduction_strategy/absorbs-2-of-3") for k, _, _ in v))
    bad = json.loads(json.dumps(st))
    prm = bad["matrix"]["components"]["fri.reduction_strategy"]["params"]
    prm[0]["unchanged"] = list(bad["matrix"]["challenges"])
    v, _, _ = compare(bad, spec["stark"][_key(bad["cfg"])])
    chk.canary("a strategy parameter whose alteration changes no challenge is reported",
               any(k.startswith("C04/stark/fri.reduction_strategy/") for k, _, _ in v))
    _, d, _ = compare(dict(first, program_diffs=[{"challenge": "plonk_zeta"}]), spec["plonk"][_key(first["cfg"])])
    chk.canary("a difference between TLC's program and get_challenges is reported as DRIFT", len(d) > 0)


def replay(path):
    p = json.load(open(path))
    print(json.dumps({k: v for k, v in p.items() if k != "observed"}, indent=1)[:3000])
    print("observed:", json.dumps(p.get("observed"))[:1500])
    print("re-run: harness/target/release/c04 matrix --only %s   (deterministic for VERIF_SEED=%s)" % (
        str(p.get("config", "")).split("/")[0], p.get("seed")))
    cases = common.vh(["matrix", "--only", str(p.get("config", "")).split("/")[0]], binname="c04")
    for c in cases:
        if c["config"] == p.get("config"):
            comp = c["matrix"]["components"].get(p.get("component"), {})
            n = comp.get("unchanged", {}).get(p.get("challenge"), 0)
            print("re-executed: %s unchanged for %d atom(s) of %s" % (p.get("challenge"), n, p.get("component")))
            return 1 if n else 0
    return 1
