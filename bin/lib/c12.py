"""C12 — Merkle commitments open only to the committed leaf at the committed position.
A: TLC on spec/MCMerkle (property level: honest opening verifies, every single change does not;
   all h<=4, capH<=h, positions, width classes), spec/MerkleFill (implementation shape: ALL
   interleavings of the fill_subtree task tree; no double write, no UNINIT slot at set_len, cap =
   pairwise hashing, merkle_tree_prove's index formula = Path(i)), spec/BatchMerkle,
   spec/PathCompression (all index sequences with repetitions), each with spec-mutant canaries.
B: every TLC-generated scenario (with the verdict the specification derives) is replayed on the
   real MerkleTree / BatchMerkleTree / verify_(batch_)merkle_proof_to_cap /
   compress+decompress_merkle_proofs with PoseidonHash and KeccakHash<25>; leaf widths 0..9 around
   each hasher's no-op boundary with every element/byte altered (MCLeafDigest); MerkleFill's layout
   tables against the real `digests` (DRIFT level); the same trees under rayon pools of
   1, 2, 3, 8, 16 threads."""
import json
import os
from concurrent.futures import ThreadPoolExecutor

import common
from common import ToolError, log

LEVEL = "model_checking"
BIN = "c12"


def _tlc(job):
    name, module, cfg, workers, timeout = job
    return name, common.tlc(module, cfg=cfg, workers=workers, timeout=timeout, tag="c12-" + cfg)


def _absorb(chk, out, how):
    """Fold one harness result line into the check."""
    chk.evaluations += out["replayed"]
    chk.nontrivial += out["nontrivial"]
    chk.traces += out["replayed"]
    for s in out.get("samples", []):
        chk.sample(s)
    for d in out["drift"]:
        chk.note_drift(d)
    for v in out["violations"]:
        chk.violation(v["key"], v.get("detail", v), {"violation": v, "how": how})
    return out


def _scenarios(r, tag, path):
    rows = common.tagged(r.prints, tag)
    common.write_ndjson(path, rows)
    return rows


def run(chk, tier):
    thorough = tier == "thorough"
    chk.rule = ("model: one state per scenario (tree height, cap height, leaf-width class, position, tamper) of "
                "MCMerkle/BatchMerkle, one state per schedule prefix (down-set of the fill_subtree task tree) of "
                "MerkleFill, one state per step of compress/decompress per index sequence of PathCompression; "
                "implementation: one evaluation per scenario x hasher replayed on the real code (verdict compared "
                "with the specification's `expect`), per digest slot / proof compared with the layout table, per "
                "(tree, thread pool) construction; a case is non-trivial if its (scenario, hasher) or (tree, pool) "
                "is distinct - all are, by construction of the enumeration")
    chk.assumptions = ["TLC and the community modules (Json, SequencesExt) are correct",
                       "symbolic hashing: term equality = no collisions among the digests that occur (random leaves)",
                       "larger trees (h>4) and longer index multisets are covered by replay/bulk only, with the verdict "
                       "rule TLC proved for h<=4",
                       "thread schedules of the real code are observed through pools of 1,2,3,8,16 threads; all "
                       "schedules are covered in the model (MerkleFill) only"]
    o = lambda n: os.path.join(common.OUT, n)

    # ---- A: model checking (jobs run three at a time)
    jobs = [("Merkle h<=4 all scenarios", "MCMerkle", "MCMerkle", 8, 600),
            ("LeafDigest bytes: both digest sizes, widths 0..9", "MCLeafDigest", "MCLeafDigest", 2, 300),
            ("MerkleFill all interleavings h<=3", "MerkleFill", "MerkleFill_h0123", 4, 600),
            ("BatchMerkle", "BatchMerkle", "BatchMerkle_h4" if thorough else "BatchMerkle", 4, 900),
            ("PathCompression", "PathCompression", "PathCompression_thorough" if thorough else "PathCompression", 8, 1700)]
    if thorough:   # 1.8e6 down-sets of the h=4 task trees (about 50 s on an idle machine)
        jobs.append(("MerkleFill all interleavings h=4", "MerkleFill", "MerkleFill_h4", 8, 1700))
    canaries = [("MCMerkle", "MCMerkle_canary_noswap", "verifier ignores the index bit"),
                ("MCMerkle", "MCMerkle_canary_capany", "verifier accepts any cap entry"),
                ("MCLeafDigest", "MCLeafDigest_canary_noop_by_element_count",
                 "hash_or_noop decides by element count: a 4-element leaf is truncated under a 25-byte digest"),
                ("MerkleFill", "MerkleFill_canary_sib_off", "off-by-one in merkle_tree_prove's sibling index"),
                ("MerkleFill", "MerkleFill_canary_rmem", "right digest written to the left slot"),
                ("MerkleFill", "MerkleFill_canary_swap", "wrong subtree split of the leaves"),
                ("BatchMerkle", "BatchMerkle_canary_nomix", "verifier forgets the shorter matrices"),
                ("PathCompression", "PathCompression_canary_noinitknown", "compress without the initial known marking"),
                ("PathCompression", "PathCompression_canary_noxor", "compress looks at the node instead of its sibling")]
    cjobs = [("canary " + cfg, mod, cfg, 2, 300) for mod, cfg, _ in canaries]
    with ThreadPoolExecutor(max_workers=3) as ex:
        results = dict(ex.map(_tlc, jobs + cjobs))
    for name, _, _, _, _ in jobs:
        r = results[name]
        chk.add_tlc(name, r)
        if not r.ok:
            raise ToolError("specification %s violates %s (spec-level inconsistency)" % (name, r.violated))
    for mod, cfg, what in canaries:
        r = results["canary " + cfg]
        chk.canary("spec-mutant rejected by TLC: %s (%s)" % (what, cfg), r.violated is not None)
    chk.exhaustive = True

    # ---- B1: plain trees
    scen = _scenarios(results["Merkle h<=4 all scenarios"], "REPLAY", o("c12-merkle-scen.ndjson"))
    if len(scen) < 10000:
        raise ToolError("MCMerkle printed only %d scenarios" % len(scen))
    out = _absorb(chk, common.vh(["replay-merkle", "--scen", o("c12-merkle-scen.ndjson")], binname=BIN)[-1],
                  "vh c12 replay-merkle --scen <scenario>")
    chk.extra["merkle_replay"] = {"scenarios": len(scen), "replayed": out["replayed"], "panics": out["panics"]}
    # binding canary: one flipped expectation must be reported
    k = next(i for i, s in enumerate(scen) if s["kind"] == "sibling" and s["h"] == 4)
    can = common.vh(["replay-merkle", "--scen", o("c12-merkle-scen.ndjson"), "--flip-expect", k], binname=BIN)[-1]
    chk.canary("a flipped expectation in one Merkle scenario is reported by the replay",
               len(can["violations"]) == 2 and all(v["key"].startswith("C12/honest-rejected") for v in can["violations"]))

    # ---- B1b: leaf widths 0..9 around each hasher's no-op boundary (scenarios of MCLeafDigest: every element,
    #      every byte), batch variant, caps of trees differing in a high byte, digest = model's hash_or_noop
    scen = _scenarios(results["LeafDigest bytes: both digest sizes, widths 0..9"], "REPLAY", o("c12-widths-scen.ndjson"))
    if len(scen) != 2 * (10 + 8 * 45):
        raise ToolError("MCLeafDigest printed %d scenarios" % len(scen))
    out = _absorb(chk, common.vh(["widths", "--scen", o("c12-widths-scen.ndjson")], binname=BIN)[-1],
                  "vh c12 widths --scen out/c12-widths-scen.ndjson")
    per = out["extra"]["per_width"]
    chk.extra["widths"] = per
    for hn, hs in (("poseidon", 32), ("keccak25", 25)):
        fit = hs // 8                       # widest leaf that is embedded verbatim
        st = per[hn]
        chk.canary("%s: widths 0..9 all replayed, honest openings exercised" % hn,
                   sorted(map(int, st)) == list(range(10)) and all(v["honest"] > 0 for v in st.values()))
        chk.canary("%s: no-op boundary as in the model (width %d embedded, width %d hashed)" % (hn, fit, fit + 1),
                   st[str(fit)]["noop"] and not st[str(fit + 1)]["noop"])
        for w, side in ((fit, "at the boundary (no-op side)"), (fit + 1, "exactly above the boundary"), (fit + 3, "well above")):
            chk.canary("%s width %d (%s): altered leaves incl. top bytes of the last element were rejected" % (hn, w, side),
                       st[str(w)]["rejected"] > 0 and st[str(w)]["top_byte_rejected"] > 0 and st[str(w)]["cap_pairs"] > 0)
    can = common.vh(["widths", "--scen", o("c12-widths-scen.ndjson"), "--canary", "--canary-seeded"], binname=BIN)[-1]
    chk.canary("an accepted 'altered' leaf is reported by the widths replay",
               len(can["violations"]) == 1 and can["violations"][0]["key"] == "C12/accepted/leaf-element")
    sd = can["extra"]["seeded"]
    chk.canary("a Keccak-25 hasher whose hash_or_noop truncates 4-element leaves is reported (accepted leaf, colliding caps)",
               sd["violations"] > 0 and "C12/accepted/leaf-element" in sd["keys"] and "C12/cap/collision" in sd["keys"]
               and sd["widths"] == [4] and sd["drift"] > 0)

    # ---- B2: layout tables of MerkleFill (DRIFT level) + siblings of prove(i) (property level)
    tabs = common.tagged(results["MerkleFill all interleavings h<=3"].prints, "LAYOUT")
    if thorough:
        tabs += common.tagged(results["MerkleFill all interleavings h=4"].prints, "LAYOUT")
    if len(tabs) != (15 if thorough else 10):
        raise ToolError("MerkleFill printed %d layout tables" % len(tabs))
    common.write_ndjson(o("c12-layout.ndjson"), tabs)
    out = _absorb(chk, common.vh(["layout", "--tables", o("c12-layout.ndjson")], binname=BIN)[-1], "vh c12 layout")
    chk.extra["layout"] = {"tables": len(tabs), "slots_and_proofs_compared": out["nontrivial"]}

    # ---- B3: batch trees
    scen = _scenarios(results["BatchMerkle"], "REPLAY", o("c12-batch-scen.ndjson"))
    if len(scen) < 3000:
        raise ToolError("BatchMerkle printed only %d scenarios" % len(scen))
    out = _absorb(chk, common.vh(["replay-batch", "--scen", o("c12-batch-scen.ndjson")], binname=BIN)[-1],
                  "vh c12 replay-batch --scen <scenario>")
    chk.extra["batch_replay"] = {"scenarios": len(scen), "replayed": out["replayed"], "panics": out["panics"]}

    # ---- B4: path compression on the real compress/decompress_merkle_proofs
    scen = _scenarios(results["PathCompression"], "REPLAY", o("c12-pathcomp-scen.ndjson"))
    if len(scen) < 20000:
        raise ToolError("PathCompression printed only %d scenarios" % len(scen))
    out = _absorb(chk, common.vh(["replay-pathcomp", "--scen", o("c12-pathcomp-scen.ndjson"),
                                  "--bulk", 20000 if thorough else 3000, "--hmax", 12 if thorough else 9],
                                 binname=BIN)[-1], "vh c12 replay-pathcomp --scen <scenario>")
    chk.extra["pathcomp_replay"] = {"scenarios": len(scen), "replayed": out["replayed"]}
    k = next(i for i, s in enumerate(scen) if s["h"] == 4 and s["capH"] == 1 and len(s["idx"]) == 3)
    can = common.vh(["replay-pathcomp", "--scen", o("c12-pathcomp-scen.ndjson"), "--corrupt", k], binname=BIN)[-1]
    chk.canary("one altered sibling of a decompressed proof is reported",
               len(can["violations"]) >= 2 and all(v["key"] == "C12/pathcomp/roundtrip" for v in can["violations"]))

    # ---- B5: thread pools, and the verdict rule on larger trees
    out = _absorb(chk, common.vh(["threads", "--pools", "1,2,3,8,16", "--hmax", 15 if thorough else 12], binname=BIN)[-1],
                  "vh c12 threads")
    chk.extra["threads"] = out["extra"]
    can = common.vh(["threads", "--pools", "1,16", "--hmax", 6, "--canary"], binname=BIN)[-1]
    chk.canary("a tree that differs under one thread pool is reported",
               any(v["key"] == "C12/threads/cap-differs" for v in can["violations"]))
    out = _absorb(chk, common.vh(["bulk", "--trees", 600 if thorough else 80, "--hmax", 13 if thorough else 10],
                                 binname=BIN)[-1], "vh c12 bulk")
    chk.extra["bulk"] = out["extra"]


def replay(path):
    p = json.load(open(path))
    print(json.dumps(p, indent=1)[:4000])
    v = p.get("violation", {})
    key = p.get("key", "")
    one = os.path.join(common.OUT, "c12-replay-one.ndjson")
    if "/pathcomp/" in key and "idx" in v:
        # kept = what the model retains is not part of the violation record: only the round trip is re-checked
        common.write_ndjson(one, [{"h": v["h"], "capH": v["capH"], "idx": v["idx"], "kept": [[] for _ in v["idx"]]}])
        out = common.vh(["replay-pathcomp", "--scen", one], binname=BIN)[-1]
    else:
        sc = v.get("detail", {}).get("scenario") if isinstance(v.get("detail"), dict) else None
        if sc is None:
            print("no single scenario recorded (thread-pool / cap comparison): re-run bin/vcheck C12 with VERIF_SEED=%s" % p.get("seed"))
            return 1
        common.write_ndjson(one, [sc])
        out = common.vh(["replay-batch" if "/batch/" in key else "replay-merkle", "--scen", one], binname=BIN)[-1]
    print(json.dumps(out["violations"], indent=1)[:4000])
    return 1 if out["violations"] else 0
