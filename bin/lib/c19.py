"""C19 — circuit keys, deterministic intermediates and verdicts do not depend on the process, the number
of worker threads, the compile-time hash seed or the vector instruction set of the build.
A: spec/Determinism.tla: the builder's hash-container iterations as arbitrary permutations followed by
   what the code does with them (sort by (degree,id) / by value, disjoint-key inserts, probe only),
   par_map into indexed slots under every completion order, grinding as find_any; TLC explores every
   iteration order x schedule x witness choice: keys and intermediates equal the canonical run, the
   proof differs at most from the grinding witness on, the verdict never changes; seven mutants.
   The spec prints the scenario catalogue: conditions (flavour x threads) x artefacts with their class.
B: the same TLC-enumerated programs (spec/Programs.tla x spec/Configs.tla) are built in SEPARATE
   PROCESSES under every condition of the catalogue (harness c19 digest); digests of verifier data,
   common data, circuit digest, gate order, prover data and of fixed-input intermediates (Merkle
   caps, FFT/LDE, polynomial batches, hashing, batched field arithmetic, STARK transcripts) are
   compared across all conditions; every proof written under one condition is verified under every
   other (harness c19 verify)."""
import fcntl
import json
import os
import random
import shutil
import subprocess
import time
from concurrent.futures import ThreadPoolExecutor

import c01
import common
from common import ToolError, log

LEVEL = "model_checking"
BIN = "c19"
STD = {"zk": False, "strat": "const", "arities": [4, 5], "rate": 3, "cap": 4, "nch": 2, "width": "std", "q": 28,
       "pow": 16, "keccak": False}
MUTANTS = ["gates_unsorted", "gates_by_degree_only", "constants_unsorted", "sigma_uses_class_position",
           "collect_in_completion_order", "key_uses_pow_witness", "verifier_wants_smallest_witness"]
QUICK_MUTANTS = ["gates_by_degree_only", "constants_unsorted", "collect_in_completion_order", "key_uses_pow_witness"]
EXPECT = {"gates_unsorted": "KeyIndependent", "gates_by_degree_only": "KeyIndependent", "constants_unsorted": "KeyIndependent",
          "sigma_uses_class_position": "KeyIndependent", "collect_in_completion_order": "IntermediatesIndependent",
          "key_uses_pow_witness": "KeyIndependent", "verifier_wants_smallest_witness": "VerdictIndependent"}
# circuit record field -> artefact of the catalogue
CIRCUIT_FIELDS = {"verifier_only": "verifier_only", "common": "common", "circuit_digest": "circuit_digest",
                  "gate_order": "gate_order", "prover_only": "prover_only"}
DEBUG_ROWS = 24


def ops_of(p):
    return [i["op"] for i in p["instrs"]]


def cname(c):
    return "%s-t%d" % (c["flavour"], c["threads"])


def build_debug():
    """debug-profile build (debug assertions, overflow checks, no optimisation) in its own target dir"""
    os.makedirs(common.OUT, exist_ok=True)
    lock = open(os.path.join(common.OUT, ".build.lock"), "w")
    fcntl.flock(lock, fcntl.LOCK_EX)
    try:
        env = dict(os.environ)
        env["CARGO_NET_OFFLINE"] = "true"
        t0 = time.time()
        p = subprocess.run(["cargo", "build", "--offline", "--target-dir", "target-debug", "--bin", BIN], cwd=common.HARNESS,
                           env=env, stdout=subprocess.PIPE, stderr=subprocess.STDOUT, text=True, errors="replace")
        if p.returncode != 0:
            raise ToolError("debug build failed:\n" + "\n".join(p.stdout.splitlines()[-40:]))
        log("[build] harness %s/debug built in %.1fs" % (BIN, time.time() - t0))
        return os.path.join(common.HARNESS, "target-debug", "debug", BIN)
    finally:
        fcntl.flock(lock, fcntl.LOCK_UN)
        lock.close()


def binary(flavour):
    return build_debug() if flavour == "debug" else common.build_harness(flavour, BIN)


def run_bin(binp, args, threads, timeout=3000):
    e = dict(os.environ)
    e["VERIF_SEED"] = str(common.seed())
    e["RAYON_NUM_THREADS"] = str(threads)

    def _limit():
        import resource
        cap = int(os.environ.get("VERIF_MEM_GB", "12")) << 30
        resource.setrlimit(resource.RLIMIT_AS, (cap, cap))

    try:
        p = subprocess.run([binp] + [str(a) for a in args], cwd=common.ROOT, env=e, stdout=subprocess.PIPE,
                           stderr=subprocess.PIPE, timeout=timeout, text=True, errors="replace", preexec_fn=_limit)
    except subprocess.TimeoutExpired as ex:
        raise ToolError("harness timeout: %s %s" % (binp, args)) from ex
    if p.returncode != 0:
        raise ToolError("harness failed rc=%d: %s %s\n%s" % (p.returncode, binp, " ".join(map(str, args)),
                                                             "\n".join(p.stderr.splitlines()[-20:])))
    outs = [json.loads(l) for l in p.stdout.splitlines() if l.startswith("{")]
    return outs[-1] if outs else {}


def models(chk, thorough, ex):
    jobs = [("base", "Determinism_thorough" if thorough else "Determinism_quick")]
    muts = MUTANTS if thorough else QUICK_MUTANTS
    jobs += [("mut_" + m, "Determinism_mut_" + m) for m in muts]

    def one(j):
        return j[0], common.tlc("Determinism", cfg=j[1], workers=3, timeout=1200, tag="c19" + j[0])

    futs = [ex.submit(one, j) for j in jobs]
    return lambda: _models_done(chk, dict(f.result() for f in futs), muts)


def _models_done(chk, res, muts):
    r = res["base"]
    if not r.ok:
        raise ToolError("Determinism violates " + str(r.violated))
    chk.add_tlc("Determinism: every container iteration order x completion order x grinding witness", r)
    cat = common.tagged(r.prints, "CATALOGUE")
    if not cat:
        raise ToolError("Determinism printed no catalogue")
    for m in muts:
        chk.canary("spec mutant %s -> %s violated" % (m, EXPECT[m]), res["mut_" + m].violated == EXPECT[m])
    return cat[0]


def choose_rows(rnd, p1, psim, cfgs, classes, n, thorough):
    by_op = {}
    for p in p1:
        by_op.setdefault(p["prog"]["instrs"][0]["op"], []).append(p["prog"])
    sims = [p["prog"] for p in psim if 3 <= len(p["prog"]["instrs"]) <= 12]
    rnd.shuffle(sims)
    progs = sims[: (2 * n) // 3]
    covered = set(o for p in progs for o in ops_of(p))
    for op in sorted(by_op):
        if op not in covered:
            progs.append(by_op[op][rnd.randrange(len(by_op[op]))])
    # lookups, hashing and constants (the sorted containers) must be present whatever the draw
    for op in ("lookup", "hash", "const", "merkle", "random_access"):
        if len(progs) < n + 5 and op in by_op:
            progs.append(by_op[op][rnd.randrange(len(by_op[op]))])
    while len(progs) < n and sims[len(progs):]:
        progs.append(sims[len(progs)])
    nozk = [c for c in cfgs if not c["zk"] and not c["keccak"]]
    kec = [c for c in cfgs if not c["zk"] and c["keccak"]]
    zk = [c for c in cfgs if c["zk"] and (c["q"] <= 3)]
    rows = []
    for i, p in enumerate(progs):
        u = rnd.random()
        # zero-knowledge circuits carry thousands of blinding rows (seconds each, under every condition): a few
        if i % 67 == 5:
            cfg = zk[rnd.randrange(len(zk))]
        else:
            cfg = STD if u < 0.4 else kec[rnd.randrange(len(kec))] if u < 0.52 else nozk[rnd.randrange(len(nozk))]
        rows.append({"id": "c%d" % i, "prog": p, "cfg": cfg, "inputs": classes[rnd.randrange(len(classes))],
                     "fallback": dict(STD, keccak=cfg["keccak"], zk=cfg["zk"], q=3 if cfg["zk"] else 28)})
    return rows


def compare(catalogue, conds, digests):
    """digests: {condition name: list of records}.  Returns (mismatches, stats).  A mismatch is
    {"class", "artefact", "item", "values": {condition: value}}."""
    cls = {a["name"]: a["class"] for a in catalogue["artefacts"]}
    mism, stats = [], {"compared": 0, "items": 0, "schedule_dependent": {}}
    names = [cname(c) for c in conds]
    circ = {n: {r["id"]: r for r in digests[n] if r["kind"] == "circuit"} for n in names}
    fixed = {n: {r["name"]: r["digest"] for r in digests[n] if r["kind"] == "fixed"} for n in names}
    ids = sorted(set(i for n in names for i in circ[n]))
    for i in ids:
        have = [n for n in names if i in circ[n]]
        if len(have) < 2:
            continue
        stats["items"] += 1
        st = {n: circ[n][i]["status"].split(":")[0] for n in have}
        if len(set(st.values())) > 1:
            mism.append({"class": "key", "artefact": "build_outcome", "item": i, "values": {n: circ[n][i]["status"] for n in have}})
            continue
        if st[have[0]] != "ok":
            continue
        for f, art in list(CIRCUIT_FIELDS.items()) + [("degree_bits", "common"), ("public_inputs", "prover_only")]:
            vals = {n: circ[n][i].get(f) for n in have}
            stats["compared"] += len(have) - 1
            if len(set(json.dumps(v) for v in vals.values())) > 1:
                mism.append({"class": cls.get(art, "key"), "artefact": art, "field": f, "item": i, "values": vals})
        pe = {n: ("prove_error" in circ[n][i]) or not circ[n][i].get("self_verify", False) for n in have}
        if len(set(pe.values())) > 1:
            mism.append({"class": "cross_verify", "artefact": "proof", "item": i,
                         "values": {n: circ[n][i].get("prove_error", "self_verify=%s" % circ[n][i].get("self_verify")) for n in have}})
    for name in sorted(set(k for n in names for k in fixed[n])):
        art = name.split("/")[0]
        vals = {n: fixed[n][name] for n in names if name in fixed[n]}
        if len(vals) < 2:
            continue
        stats["items"] += 1
        stats["compared"] += len(vals) - 1
        if cls.get(art) == "schedule_dependent":
            stats["schedule_dependent"][name] = sorted(set(vals.values()))
            continue
        if len(set(vals.values())) > 1:
            mism.append({"class": cls.get(art, "intermediate"), "artefact": art, "item": name, "values": vals})
    return mism, stats


def run(chk, tier):
    thorough = tier == "thorough"
    rnd = random.Random(common.seed() * 104729 + 19)
    chk.rule = ("programs = TLC-enumerated (spec/Programs.tla: simulated multi-instruction programs + one per uncovered opcode) "
                "x configurations of spec/Configs.tla; conditions and artefacts = the catalogue printed by "
                "spec/Determinism.tla; every condition runs in its own process. evaluations = (artefact, item, "
                "condition) digests compared with the first condition + cross verifications; distinct_nontrivial = "
                "(circuit or fixed-input item) x (pair of distinct conditions) compared + (proof, verifying condition) pairs")
    chk.assumptions = ["task interleavings are observed through thread counts, not enumerated in the real code (the model enumerates them)",
                       "PLONK proofs are randomised (unused public-input wires, zero-knowledge blinding): proofs are "
                       "cross-verified, not compared byte-wise; STARK proofs are compared up to the grinding witness",
                       "the CPU has AVX2/AVX-512; a flavour is a separate cargo target directory"]
    # ---- A
    with ThreadPoolExecutor(max_workers=3) as ex:
        f_p1 = ex.submit(c01.tlc_programs, chk, "Programs_len1", "Programs: all one-instruction programs")
        f_ps = ex.submit(c01.tlc_programs, chk, "Programs_sim", "Programs: simulated programs (<= 12 instructions)",
                         400 if thorough else 60, 13, False)
        done = models(chk, thorough, ex)
        catalogue = done()
        p1, psim = f_p1.result(), f_ps.result()
    cfgs, classes = c01.configs(chk)
    conds = sorted(catalogue["conditions"], key=lambda c: (c["flavour"] != "release", c["flavour"], c["threads"]))
    chk.extra["catalogue"] = {"conditions": [cname(c) for c in conds], "artefacts": catalogue["artefacts"]}
    chk.sample({"catalogue_conditions": conds[:4], "artefact": catalogue["artefacts"][0]})
    rows = choose_rows(rnd, p1, psim, cfgs, classes, 200 if thorough else 40, thorough)
    pf = os.path.join(common.OUT, "c19_programs.ndjson")
    common.write_ndjson(pf, rows)
    pf_dbg = os.path.join(common.OUT, "c19_programs_debug.ndjson")
    common.write_ndjson(pf_dbg, rows[:DEBUG_ROWS])          # same ids and indices: a prefix
    chk.sample({"program": rows[0]})
    # ---- B: builds (serialised by the lock), then one process per condition
    bins = {}
    for fl in sorted(set(c["flavour"] for c in conds)):
        bins[fl] = binary(fl)
    base = os.path.join(common.OUT, "c19_cond")
    shutil.rmtree(base, ignore_errors=True)
    os.makedirs(base)

    def programs_of(c):
        return pf_dbg if c["flavour"] == "debug" else pf

    def digest(c):
        n = cname(c)
        o = os.path.join(base, n + ".ndjson")
        info = run_bin(bins[c["flavour"]], ["digest", "--programs", programs_of(c), "--out", o, "--proofs", os.path.join(base, n)], c["threads"])
        return n, info, common.read_ndjson(o)

    digests, infos = {}, {}
    with ThreadPoolExecutor(max_workers=3) as ex:
        for n, info, recs in ex.map(digest, conds):
            digests[n], infos[n] = recs, info
    for c in conds:
        i = infos[cname(c)]
        if i.get("threads") != c["threads"]:
            raise ToolError("condition %s ran with %s threads" % (cname(c), i.get("threads")))
        if c["flavour"] == "avx2" and not i.get("avx2"):
            raise ToolError("flavour avx2 was not built with +avx2: %s" % i)
        if c["flavour"] in ("release", "seed2", "debug") and i.get("avx2"):
            raise ToolError("flavour %s was built with vector target features: %s" % (c["flavour"], i))
        if c["flavour"] == "avx512" and not i.get("avx512"):
            raise ToolError("flavour avx512 was not built with +avx512f: %s" % i)
        if (c["flavour"] == "debug") != bool(i.get("debug_assertions")):
            raise ToolError("flavour %s: debug_assertions=%s" % (c["flavour"], i.get("debug_assertions")))
    chk.extra["condition_info"] = infos
    probes = {}
    for c in conds:
        probes.setdefault(c["flavour"], set()).add(json.dumps(infos[cname(c)].get("hash_iteration_probe")))
    if "seed2" in probes and probes["seed2"] == probes["release"]:
        raise ToolError("vacuity: the seed2 flavour iterates hash containers in the same order as release")
    chk.extra["hash_iteration_orders_seen"] = {k: len(v) for k, v in probes.items()}
    mism, stats = compare(catalogue, conds, digests)
    chk.evaluations += stats["compared"]
    npairs = len(conds) * (len(conds) - 1) // 2
    chk.nontrivial += stats["items"] * npairs
    chk.traces += sum(len(v) for v in digests.values())
    ref = digests[cname(conds[0])]
    okc = [r for r in ref if r["kind"] == "circuit" and r["status"] == "ok"]
    chk.extra["circuits"] = {"rows": len(rows), "built": len(okc), "fallback_cfg": sum(1 for r in okc if r.get("fallback_used")),
                             "zk": sum(1 for r in okc if r.get("zk")),
                             "skipped": sorted(set(r["status"][:60] for r in ref if r["kind"] == "circuit" and r["status"] != "ok"))[:8]}
    chk.extra["fixed_items"] = sum(1 for r in ref if r["kind"] == "fixed")
    chk.extra["schedule_dependent_values"] = stats["schedule_dependent"]
    if len(okc) < 0.6 * len(rows):
        raise ToolError("vacuity: only %d of %d circuits were built" % (len(okc), len(rows)))
    if okc:
        chk.sample({"digests_under_" + cname(conds[0]): {k: okc[0][k] for k in ("id", "verifier_only", "common", "circuit_digest", "prover_only")}})
    for m in mism:
        chk.violation("C19/%s/%s/%s" % (m["class"], m["artefact"], m["item"]),
                      "conditions disagree on %s of %s: %s" % (m["artefact"], m["item"], json.dumps(m["values"])[:400]),
                      {"mismatch": m, "row": next((r for r in rows if r["id"] == m["item"]), None),
                       "conditions": [c for c in conds if cname(c) in m["values"]],
                       "expected": "identical under every condition"})
    # ---- cross verification: every condition verifies the proofs of every other condition
    def verify(c):
        n = cname(c)
        others = [os.path.join(base, cname(d)) for d in conds if cname(d) != n]
        o = os.path.join(base, n + ".verify.ndjson")
        run_bin(bins[c["flavour"]], ["verify", "--programs", programs_of(c), "--proofs", ",".join(others), "--out", o], c["threads"])
        return n, common.read_ndjson(o)

    produced = {n: {r["id"] for r in digests[n] if r["kind"] == "circuit" and "proof_len" in r} for n in digests}
    nver = 0
    with ThreadPoolExecutor(max_workers=3) as ex:
        for n, recs in ex.map(verify, conds):
            for r in recs:
                if r["kind"] == "stark":
                    res = [dict(r, form="stark")]
                elif r.get("status") == "ok":
                    res = r["results"]
                else:
                    continue
                for x in res:
                    prod = os.path.basename(x["dir"])
                    if x["status"] == "missing":
                        if r["kind"] == "stark" or r["id"] in produced.get(prod, ()):
                            if not (prod.startswith("debug") or n.startswith("debug")) or r["kind"] == "stark":
                                raise ToolError("proof file of %s missing under %s" % (r["id"], prod))
                        continue
                    nver += 1
                    chk.evaluations += 1
                    if x["status"] != "accepted":
                        chk.violation("C19/cross_verify/proof/%s/%s->%s" % (r["id"], prod, n),
                                      "a proof produced under %s is rejected under %s: %s" % (prod, n, x.get("err")),
                                      {"row": next((q for q in rows if q["id"] == r["id"]), None), "producer": prod, "verifier": n,
                                       "form": x.get("form"), "expected": "accepted"})
    chk.extra["cross_verifications"] = nver
    chk.nontrivial += nver
    chk.traces += nver
    if nver < len(okc) * (len(conds) - 1):
        raise ToolError("vacuity: only %d cross verifications" % nver)
    # ---- binding canaries
    alt = {k: [dict(r) for r in v] for k, v in digests.items()}
    victim = cname(conds[-1])
    for r in alt[victim]:
        if r["kind"] == "circuit" and r["status"] == "ok":
            r["verifier_only"] = r["verifier_only"][:-1] + ("0" if r["verifier_only"][-1] != "0" else "1")
            break
    cm, _ = compare(catalogue, conds, alt)
    chk.canary("a verifier-data digest altered in one condition's output is reported", len(cm) == len(mism) + 1 and any(m["artefact"] == "verifier_only" for m in cm))
    alt = {k: [dict(r) for r in v] for k, v in digests.items()}
    for r in alt[victim]:
        if r["kind"] == "fixed" and r["name"].startswith("fft/"):
            r["digest"] = "0" * 32
            break
    cm, _ = compare(catalogue, conds, alt)
    chk.canary("an FFT digest altered in one condition's output is reported", any(m["artefact"] == "fft" for m in cm))
    # a corrupted proof file must be rejected by the verifying process
    src = os.path.join(base, cname(conds[0]))
    bad = os.path.join(base, "corrupt")
    shutil.copytree(src, bad)
    nflip = 0
    for f in sorted(os.listdir(bad)):
        if f.endswith(".proof") and nflip < 5:
            b = bytearray(open(os.path.join(bad, f), "rb").read())
            b[len(b) // 3] ^= 0x40
            open(os.path.join(bad, f), "wb").write(bytes(b))
            nflip += 1
    o = os.path.join(base, "corrupt.verify.ndjson")
    small = os.path.join(common.OUT, "c19_programs_canary.ndjson")
    common.write_ndjson(small, rows)
    run_bin(bins["release"], ["verify", "--programs", small, "--proofs", bad, "--out", o], 3)
    rej = sum(1 for r in common.read_ndjson(o) if r["kind"] == "circuit" and r.get("status") == "ok"
              for x in r["results"] if x["form"] == "proof" and x["status"] == "rejected")
    chk.canary("proof files corrupted on disk are rejected by the verifying process", rej >= max(1, nflip - 1))
    shutil.rmtree(bad, ignore_errors=True)


def replay(path):
    p = json.load(open(path))
    row = p.get("row")
    if not row:
        print("fixed-input artefact: rerun bin/vcheck C19; mismatch was", json.dumps(p.get("mismatch"))[:1500])
        return 1
    conds = p.get("conditions") or [{"flavour": "release", "threads": 1}, {"flavour": "release", "threads": 16}]
    if "producer" in p:
        def parse(n):
            fl, t = n.rsplit("-t", 1)
            return {"flavour": fl, "threads": int(t)}
        conds = [parse(p["producer"]), parse(p["verifier"])]
    pf = os.path.join(common.OUT, "c19_replay.ndjson")
    # keep the row at its original index: the inputs are drawn from a per-index stream
    idx = int(row["id"][1:]) if row["id"][1:].isdigit() else 0
    filler = {"id": "filler", "prog": {"nin": 3, "instrs": [{"op": "add", "args": [0, 1]}]}, "cfg": STD, "inputs": ["one", "one", "one"]}
    common.write_ndjson(pf, [filler] * idx + [row])
    base = os.path.join(common.OUT, "c19_replay")
    shutil.rmtree(base, ignore_errors=True)
    os.makedirs(base)
    recs = {}
    for c in conds:
        n = cname(c)
        o = os.path.join(base, n + ".ndjson")
        run_bin(binary(c["flavour"]), ["digest", "--programs", pf, "--out", o, "--proofs", os.path.join(base, n), "--no-fixed"], c["threads"])
        recs[n] = [r for r in common.read_ndjson(o) if r.get("id") == row["id"]][0]
        print(n, json.dumps({k: v for k, v in recs[n].items() if k != "ms"}))
    bad = 0
    keys = ("status", "verifier_only", "common", "circuit_digest", "gate_order", "prover_only", "degree_bits", "public_inputs")
    vals = [json.dumps({k: r.get(k) for k in keys}, sort_keys=True) for r in recs.values()]
    if len(set(vals)) > 1:
        print("observed : conditions DISAGREE")
        bad = 1
    for c in conds:
        n = cname(c)
        others = [os.path.join(base, cname(d)) for d in conds if cname(d) != n]
        o = os.path.join(base, n + ".verify.ndjson")
        run_bin(binary(c["flavour"]), ["verify", "--programs", pf, "--proofs", ",".join(others), "--out", o], c["threads"])
        for r in common.read_ndjson(o):
            if r.get("id") == row["id"] and r.get("status") == "ok":
                for x in r["results"]:
                    print("verify under", n, ":", x)
                    if x["status"] == "rejected":
                        bad = 1
    print("expected : identical digests under every condition, every proof accepted under every other")
    return bad
