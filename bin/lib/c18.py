"""C18 — verifiers and decoders fail cleanly on malformed input.

A  spec/ProofShape.tla (TLC): the proof as a record of component lengths, every single (and pair
   of) length deviation(s); Ideal verifier (shape first) vs Faithful verifier (every index / unwrap /
   log2_strict / HashMap lookup of the real code path as a guarded step in code order) for
   `verify`, `verify_compressed`/`decompress`, `verify_stark_proof`.  Every behaviour is printed as
   a scenario with the Faithful prediction (panic / reject / accept, at which step, which repair
   would remove it) and the Ideal verdict.
B  harness c18: every scenario is built on real proofs (public fields / serde) and handed to the
   real entry points under catch_unwind and an allocation guard; value tampers of valid compressed
   proofs; Fiat–Shamir re-targeting adversaries (re-keyed maps, pow-witness search); byte-level
   fuzzing of both `from_bytes`.
VIOLATION (property level) iff an entry point panics / attempts an allocation above 1 GiB / returns
success for a proof that is not well-shaped (the compressed proof's `indices` excepted).
A disagreement between the Faithful model (for the repair set inferred from observation) and the
code is DRIFT."""
import json
import os
import re
from concurrent.futures import ThreadPoolExecutor

import common
from common import ToolError, log

LEVEL = "model_checking"

FIXES = ["capheight", "mapget", "starkdeg", "starkdegrange", "starkopt", "cshape", "cinferred",
         "ncaps", "surplus", "squotcap"]
CFGS = [("verify", "std"), ("verify", "zk"), ("verify", "lookup"),
        ("compressed", "std"), ("compressed", "zk"), ("compressed", "lookup"),
        ("stark", "fib"), ("stark", "perm"), ("stark", "lowcap")]
PRIMARY = {"verify": "verify", "compressed": "verify_compressed", "stark": "verify_stark_proof"}
CFGDIR = os.path.join(common.OUT, "c18cfg")


def write_cfg(entry, variant, fixed, maxdevs, mutant="none", invariants=None):
    os.makedirs(CFGDIR, exist_ok=True)
    name = "ps_%s_%s_d%d_%s_%s" % (entry, variant, maxdevs, "-".join(sorted(fixed)) or "pinned", mutant)
    if invariants is not None:
        name += "_" + "-".join(invariants)
    invs = invariants if invariants is not None else ["IdealNeverPanics", "IdealRejectsMisshaped", "HonestAccepted", "Emit"]
    with open(os.path.join(CFGDIR, name + ".cfg"), "w") as f:
        f.write('CONSTANT Entry = "%s"\nCONSTANT Variant = "%s"\n' % (entry, variant))
        f.write("CONSTANT Fixed = {%s}\n" % ", ".join('"%s"' % x for x in sorted(fixed)))
        f.write('CONSTANT MaxDevs = %d\nCONSTANT IdealMutant = "%s"\nINIT Init\nNEXT Next\n' % (maxdevs, mutant))
        for i in invs:
            f.write("INVARIANT %s\n" % i)
        f.write("CHECK_DEADLOCK FALSE\n")
    return os.path.join("..", "out", "c18cfg", name), name


def run_tlc(entry, variant, fixed, maxdevs, mutant="none", invariants=None, workers=4, timeout=900):
    cfg, name = write_cfg(entry, variant, fixed, maxdevs, mutant, invariants)
    r = common.tlc("MCProofShape", cfg=cfg, workers=workers, timeout=timeout, tag="c18-" + name,
                   env={"JAVA_TOOL_OPTIONS": "-XX:TieredStopAtLevel=1 -XX:CICompilerCount=1"} if maxdevs == 1 else None)
    return name, r


def model_runs(chk, fixed, pairs, label, extra_jobs=(), cfgs=None):
    """TLC on every (entry, variant) (+ extra canary jobs) in one pool; returns (scenarios, extra results)."""
    cfgs = cfgs or CFGS
    jobs = [(e, v, fixed, 2 if (e, v) in pairs else 1, "none", None) for (e, v) in cfgs] + list(extra_jobs)
    # the pair runs first (they are the long ones)
    order = sorted(range(len(jobs)), key=lambda i: -jobs[i][3])
    with ThreadPoolExecutor(max_workers=8) as ex:
        futs = {i: ex.submit(run_tlc, jobs[i][0], jobs[i][1], jobs[i][2], jobs[i][3], jobs[i][4], jobs[i][5],
                             4 if jobs[i][3] == 2 else 1) for i in order}
        res = [futs[i].result() for i in range(len(jobs))]
    scen = []
    for (name, r), j in list(zip(res, jobs))[:len(cfgs)]:
        chk.add_tlc("ProofShape %s/%s maxdevs=%d %s" % (j[0], j[1], j[3], label), r)
        if not r.ok:
            raise ToolError("ProofShape %s violates %s (spec-level inconsistency)" % (name, r.violated))
        scen += common.tagged(r.prints, "REPLAY")
    scen.sort(key=lambda s: s["id"])
    return scen, res[len(cfgs):]


# ---------------------------------------------------------------------------------------------
# keys
# ---------------------------------------------------------------------------------------------
CAP_REAL = {"wires_cap": "wires_cap", "zs_cap": "plonk_zs_partial_products_cap", "quot_cap": "quotient_polys_cap",
            "ccap": "commit_phase_merkle_caps", "trace_cap": "trace_cap", "aux_cap": "auxiliary_polys_cap",
            "squot_cap": "quotient_polys_cap"}
CAP_CLASS = {"zero": "cap-len-0", "np2": "cap-len-3", "minus1": "cap-len-minus1", "plus1": "cap-len-plus1", "huge": "cap-len-1024"}


def comp_name(f, entry):
    g = re.sub(r"^r[01]\.", "", f)
    g = re.sub(r"[01]$", "", g) if re.match(r"^(leaf|path|evals|lpath|skeys)[01]$", g) else g
    m = {"leaf": "init_leaf", "path": "init_path", "evals": "step_evals", "lpath": "step_path",
         "noracles": "evals_proofs", "nsteps": "steps", "skeys": "steps_map",
         "nrounds": "initial_trees_proofs" if entry == "compressed" else "query_round_proofs",
         "ncaps": "commit_caps", "pis": "public_inputs", "indices": "indices", "final_poly": "final_poly"}
    if g in m:
        return m[g]
    if g.startswith("op."):
        real = {"sigmas": "plonk_sigmas", "zs": "plonk_zs", "zs_next": "plonk_zs_next", "pp": "partial_products",
                "quot": "quotient_polys", "squot": "quotient_polys", "lzs": "lookup_zs", "lzs_next": "lookup_zs_next",
                "aux": "auxiliary_polys", "aux_next": "auxiliary_polys_next", "local": "local_values", "next": "next_values",
                "ctl": "ctl_zs_first"}
        return real.get(g[3:], g[3:])
    return g


SHORT = ("zero", "minus1")
LONG = ("plus1", "huge")


def mal_name(f, v, entry):
    """(malformation class, component) of one deviation: ONE key per (entry point, class, component);
    rounds, layers and the two 'short' / 'long' classes are grouped."""
    c = comp_name(f, entry)
    if f in CAP_REAL:
        if v == "none":
            return "missing", CAP_REAL[f]
        if v == "some":
            return "unexpected", CAP_REAL[f]
        return ("cap-len-0" if v == "zero" else "cap-len-1024" if v == "huge" else "cap-len-3"), CAP_REAL[f]
    if entry == "stark" and f == "nrounds" and v == "zero":
        return "empty-query-rounds", None
    if entry == "stark" and f in ("r0.path0",):
        return "bad-degree", "first_merkle_path"
    if f == "ncaps":
        return ("few-commit-caps", None) if v in SHORT else ("surplus", "commit_caps")
    if entry == "compressed" and (f == "nrounds" or f.startswith("skeys")):
        return ("missing-key", c) if v in SHORT else ("surplus", "init_key" if f == "nrounds" else "step_key")
    if f.startswith("op."):
        if v == "none":
            return "missing", c
        if v == "some":
            return "unexpected", c
        return ("short-openings" if v in SHORT else "long-openings"), c
    if c == "init_leaf":
        return ("short-leaf" if v in SHORT else "long-leaf"), c
    if c in ("init_path", "step_path"):
        return ("short-path", c) if v in SHORT else ("surplus", c)
    if c == "step_evals":
        return "bad-len", c
    if c == "steps" and entry == "compressed" and v in LONG:
        return "surplus", c
    return ("short-list" if v in SHORT else "long-list"), c


def scen_key(ep, sc, obs=None, accepted=False):
    """stable key C18/<entry point>/<malformation class>/<component>"""
    devs = sc["devs"]
    if not devs:
        return "C18/%s/unmodified" % ep
    absorbed = [d for d in devs if ABSORBED_RE.search(d["f"])]
    if (obs and "panic" in obs and sc["entry"] == "compressed" and not sc["adaptive"] and absorbed
            and ("no entry found for key" in obs["panic"])):
        # any change of anything the transcript absorbs re-randomises the query indices: one key
        return "C18/%s/missing-key/fs-change" % ep
    parts = []
    for d in devs:
        mal, comp = mal_name(d["f"], d["v"], sc["entry"])
        if accepted and (mal in ("surplus", "long-openings", "long-list")
                         or (sc["adaptive"] and comp in ("init_path", "step_path"))):
            mal = "surplus-accepted"        # (re-keyed proofs carry full-length paths: one sibling less is still surplus)
        elif accepted:
            mal = "accepted-" + mal
        parts.append(mal if comp is None else mal + "/" + comp)
    return "C18/%s/%s" % (ep, "+".join(sorted(set(parts))))


ABSORBED_RE = re.compile(r"(_cap$|^op\.|^pis$|^ncaps$|^ccap$|^final_poly$)")


def obs_class(o):
    if "panic" in o:
        return "panic"
    if "err" in o:
        return "err"
    return "ok"


# ---------------------------------------------------------------------------------------------
def run(chk, tier):
    thorough = tier == "thorough"
    chk.rule = ("model: every single deviation (and, for the listed configurations, every independent pair) of a length / "
                "presence field of the proof record from spec/ProofShape.tla, per entry point and circuit variant; "
                "implementation: each scenario built on real accepted proofs of every family of the variant and handed to "
                "the real entry points; a case is non-trivial if the deviation could be applied and the mutated value "
                "differs from the valid proof; distinct = distinct (scenario, family, entry point). Byte level: distinct "
                "mutated encodings (truncation length / flipped bit / length byte value / random string)")
    chk.assumptions = ["TLC and the community modules are correct",
                       "Fiat-Shamir re-randomisation is modelled as certain failure of the next challenge-dependent check",
                       "adversaries that need a prover (other than pow-witness search and re-keying) are out of reach of the replay"]
    nf = 6 if thorough else 3
    pairs = set(CFGS) if thorough else {("compressed", "std")}

    # ---- A: the pinned-tree model (+ the refinement / mutant canaries in the same pool)
    cfgs = CFGS if thorough else [c for c in CFGS if c != ("verify", "zk")]
    canary_jobs = []
    for e, v in ((("verify", "std"), ("compressed", "std"), ("stark", "fib"), ("stark", "perm")) if thorough
                 else (("compressed", "std"), ("stark", "fib"))):
        canary_jobs.append((e, v, set(FIXES), 1, "none", ["FaithfulRefinesIdeal", "HonestAccepted"]))
    canary_jobs.append(("verify", "std", set(), 1, "skip_shape", ["IdealRejectsMisshaped"]))
    s0, cres = model_runs(chk, set(), pairs, "pinned", canary_jobs, cfgs)
    by_id = {s["id"]: s for s in s0}
    chk.sample({"scenario": s0[len(s0) // 3]})

    def fa(i):
        return by_id[i]["faithful"]
    chk.canary("Faithful(pinned) panics for a cap of length 3 (defect 1)",
               fa("verify/std/S/wires_cap:np2")["res"] == "panic" and fa("stark/fib/S/trace_cap:np2")["res"] == "panic")
    chk.canary("Faithful(pinned) panics for a missing map key (defect 2)",
               fa("compressed/std/S/nrounds:minus1")["res"] == "panic" and fa("compressed/std/S/op.wires:plus1")["step"] == "inferred.initial[x]")
    chk.canary("Faithful(pinned) panics for empty STARK query rounds before shape validation (defect 3)",
               fa("stark/fib/S/nrounds:zero")["step"] == "degbits.rounds[0]")
    # refinement canaries: pinned model does not refine Ideal (read off the printed behaviours), the fully repaired one does
    for e in ("verify", "compressed", "stark"):
        bad = [s for s in s0 if s["entry"] == e and s["faithful"]["res"] != s["ideal"]]
        chk.canary("Faithful(pinned) does not refine Ideal for %s (%d behaviours differ)" % (e, len(bad)), len(bad) > 0)
    res = cres
    for name, r in res:
        chk.add_tlc("ProofShape " + name, r)
        if "skip_shape" in name:
            chk.canary("spec mutant: Ideal without the shape check accepts a mis-shaped proof (TLC finds it)", r.violated is not None)
        else:
            if not r.ok:
                raise ToolError("the fully repaired Faithful model does not refine Ideal: %s (%s)" % (name, r.violated))
            chk.canary("Faithful(all repairs) refines Ideal: " + name, r.ok)

    log("[C18] models done at %.0fs" % (__import__("time").time() - chk.t0))
    # ---- B1: replay of the shape scenarios
    scen_path = os.path.join(common.OUT, "c18_scenarios.ndjson")
    replayable = [s for s in s0 if not (s["adaptive"] and s["entry"] != "compressed")]
    if not thorough:
        # quick tier: every single deviation, and a seeded third of the pairs (TLC still enumerates all of them)
        import zlib
        replayable = [s for s in replayable if len(s["devs"]) < 2 or (zlib.crc32(s["id"].encode()) + common.seed()) % 3 == 0]
    chk.extra["replayed_fraction_of_pairs"] = 1.0 if thorough else 1.0 / 3
    common.write_ndjson(scen_path, replayable)
    budget = 12000 if thorough else 1200
    hres = common.vh(["all", "--scen", scen_path, "--fams", nf, "--threads", 12 if thorough else 8, "--budget", budget,
                      "--byte-fams", 4 if thorough else 2], binname="c18", timeout=3000)
    res = hres
    summ = [r for r in res if r.get("summary") == "shapes"][0]
    chk.extra["shape_families"] = summ["families"]
    chk.evaluations += summ["evaluations"]
    obs = {}
    for r in res:
        if "id" in r:
            obs.setdefault(r["id"], []).append(r)
    chk.sample({"replayed": next(r for r in res if r.get("applied"))})

    log("[C18] shape replay done at %.0fs" % (__import__("time").time() - chk.t0))
    # ---- B2: adaptive adversaries through `verify`
    ares = [r for r in hres if str(r.get("kind", "")).startswith("adaptive")]
    for r in ares:
        if r.get("kind") != "adaptive" or r.get("observation_only"):
            continue
        sid = "verify/std/A/ncaps:" + r["what"] if r["what"] in ("zero", "minus1", "plus1", "huge") else None
        if sid and r.get("found"):
            obs.setdefault(sid, []).append({"id": sid, "fam": "padded40-q1", "applied": True, "trivial": False,
                                            "obs": [dict(r["verify"], ep="verify")], "adaptive_cmd": r})
    chk.extra["adaptive"] = [r for r in ares if r.get("kind", "").startswith("adaptive")]
    ctl = [r for r in ares if r.get("what") == "control-unchanged"]
    chk.canary("adaptive control: the pow-witness search on the unchanged proof ends in an accepted proof",
               bool(ctl) and ctl[0].get("verify", {}).get("ok") is True)
    for r in ares:
        if r.get("observation_only"):
            log("NOTE C18 verify_fri_proof called directly with one commit cap and one beta fewer: %s (not one of C18's entry points)"
                % json.dumps(r["verify"])[:200])
            chk.extra["verify_fri_proof_direct"] = r["verify"]

    # ---- infer the repair set from observation
    def primary_obs(sc):
        out = []
        for r in obs.get(sc["id"], []):
            if not r.get("applied"):
                continue
            for o in r["obs"]:
                if o["ep"] == PRIMARY[sc["entry"]]:
                    out.append((r, o))
        return out

    fixed = set()
    seen_fix = {}
    for sc in s0:
        f = sc["faithful"]
        if f["res"] == "panic" and not f["maybe"] and len(sc["devs"]) == 1:
            po = primary_obs(sc)
            if po:
                st = seen_fix.setdefault(f["fix"], [0, 0])
                st[0] += 1
                st[1] += any(obs_class(o) == "panic" for _, o in po)
        if f["res"] == "accept" and sc["ideal"] == "reject" and len(sc["devs"]) == 1:
            d = sc["devs"][0]
            fx = "ncaps" if d["f"] == "ncaps" else ("squotcap" if d["f"] == "squot_cap" else "surplus")
            po = primary_obs(sc)
            if po:
                st = seen_fix.setdefault(fx + "(accept)", [0, 0])
                st[0] += 1
                st[1] += any(obs_class(o) == "ok" for _, o in po)
    for fx, (n, bad) in sorted(seen_fix.items()):
        if bad == 0:
            fixed.add(fx.replace("(accept)", ""))
    # a repair counts only if both its panic part and its accept part (when it has one) are gone
    for fx in list(fixed):
        for k in (fx, fx + "(accept)"):
            if k in seen_fix and seen_fix[k][1] > 0:
                fixed.discard(fx)
    chk.extra["repair_evidence"] = {k: {"scenarios": v[0], "still_failing": v[1]} for k, v in seen_fix.items()}
    chk.extra["model_variant_Fixed"] = sorted(fixed)
    log("[C18] model variant matching the observed code: Fixed = {%s}" % ", ".join(sorted(fixed)))
    for fx, (n, bad) in sorted(seen_fix.items()):
        if 0 < bad < n and not fx.endswith("(accept)"):
            pass  # partially repaired families show up as DRIFT below
    model = s0
    if fixed:
        # (single deviations only: the pair scenarios keep the pinned prediction and are not compared)
        model, _ = model_runs(chk, fixed, set(), "Fixed={%s}" % ",".join(sorted(fixed)), (), cfgs)
    mby = {s["id"]: s for s in model}

    # ---- verdicts
    # Property level: every panic / allocation / acceptance of a mis-shaped proof is a violation.  They are
    # grouped by panic SITE (entry point, source location, message shape, Faithful step when the model
    # predicts it); each site is reported once, keyed by its canonical (smallest) triggering malformation,
    # with the other triggers listed in the replay payload.
    CLS = ["np2", "zero", "minus1", "none", "plus1", "huge", "some"]
    ABSORBED = ABSORBED_RE

    def recipe(sc, fam):
        how = []
        for d in sc["devs"]:
            how.append("%s -> %s" % (d["f"], {"zero": "empty", "minus1": "drop last element", "plus1": "duplicate last element",
                                              "np2": "length 3", "huge": "very long", "none": "None", "some": "Some(..)"}[d["v"]]))
        pre = {"verify": "valid ProofWithPublicInputs", "compressed": "valid CompressedProofWithPublicInputs",
               "stark": "valid StarkProofWithPublicInputs"}[sc["entry"]]
        ad = ""
        if sc["adaptive"] and sc["entry"] == "compressed":
            ad = "; then re-key initial_trees_proofs / steps with the recomputed Fiat-Shamir indices (full-length paths)"
        if sc["adaptive"] and sc["entry"] == "verify":
            ad = "; config with 1 query round and 0 pow bits, search pow_witness until the recomputed query index equals the original"
        return "%s of family %s: %s%s; scenario id %s (bin/vcheck C18 --replay)" % (pre, fam, ", ".join(how), ad, sc["id"])

    def prio(sc):
        ds = sc["devs"]
        return (len(ds), sc["adaptive"], any(ABSORBED.search(d["f"]) for d in ds),
                [CLS.index(d["v"]) for d in ds], sc["variant"], sc["id"])

    sites = {}      # site -> list of (prio, key, detail, payload)
    accepts = {}
    drift = {}
    matched = 0

    def site_add(site, sc, key, detail, payload):
        sites.setdefault(site, []).append((prio(sc), key, detail, payload))

    accepted_single = set()
    single_locs = set()
    single_panics = set()
    ordered = sorted(s0, key=prio)
    for sc in ordered:
        msc = mby.get(sc["id"])
        compare = msc is not None
        if msc is None:
            msc = sc
        recs = obs.get(sc["id"], [])
        ok_all = True
        for r in recs:
            if not r.get("applied") or r.get("trivial"):
                continue        # trivial: the deviations cancelled out (e.g. a single-layer family)
            chk.nontrivial += len(r["obs"])
            for o in r["obs"]:
                ep = o["ep"]
                cls = obs_class(o)
                if ep == "deserialize":
                    continue
                # ---- property level
                if r.get("big_alloc"):
                    site_add(("alloc", ep), sc, scen_key(ep, sc) + "/alloc", "allocation of %d bytes attempted" % r["big_alloc"],
                             {"scenario": sc, "observed": r})
                if cls == "panic" and ep not in ("verifier_data.verify", "decompress+verify"):
                    # (`verifier_data.verify` is the same function as `verify`; `decompress+verify` is `verify` on a
                    # decompressed value, whose shape classes the "verify" entry covers directly)
                    lm = (ep, o.get("loc"), re.sub(r"\d+", "#", o["panic"])[:50])
                    if len(sc["devs"]) == 1:
                        single_locs.add(lm)
                        single_panics.add((ep, sc["devs"][0]["f"]))
                    elif lm in single_locs or any((ep, d["f"]) in single_panics for d in sc["devs"]):
                        continue            # a pair that repeats a single deviation's panic
                    key = scen_key(ep, sc, o)
                    site_add(key, sc, key, "%s panics: %s at %s" % (ep, o["panic"][:120], o.get("loc")),
                             {"scenario": sc, "family": r["fam"], "entry_point": ep, "observed": o, "model": msc["faithful"],
                              "recipe": recipe(sc, r["fam"])})
                elif cls == "ok" and ep in ("verify", "verify_compressed", "verify_stark_proof") and sc["ideal"] == "reject":
                    fs = frozenset(d["f"] for d in sc["devs"])
                    if len(sc["devs"]) == 1:
                        accepted_single.add((ep, fs))
                    elif any((ep, frozenset([f])) in accepted_single for f in fs):
                        continue        # explained by an accepted single deviation
                    key = scen_key(ep, sc, o, accepted=True)
                    accepts.setdefault(key, []).append((prio(sc), key, "%s returns Ok for a mis-shaped proof" % ep,
                                                       {"scenario": sc, "family": r["fam"], "observed": o, "model": msc["faithful"],
                                                        "recipe": recipe(sc, r["fam"])}))
                # ---- implementation level: Faithful prediction (for the inferred repair set)
                conv = {"panic": "panic", "reject": "err", "accept": "ok", "ok": "ok"}
                if not compare:
                    continue
                if ep == PRIMARY[sc["entry"]]:
                    want = msc["faithful"]
                    allowed = {conv[want["res"]]}
                    if want["maybe"]:
                        allowed.add(conv[msc["alt"]["res"]])
                    if cls not in allowed:
                        ok_all = False
                        dk = (sc["entry"], sc["variant"], "A" if sc["adaptive"] else "S",
                              "+".join(sorted(d["f"] + ":" + d["v"] for d in sc["devs"])), want["res"], want["step"], cls)
                        drift.setdefault(dk, []).append(r["fam"])
                if ep == "decompress" and sc["entry"] == "compressed":
                    want = msc["decompress"]
                    if not (cls == conv[want["res"]] or want["maybe"]):
                        ok_all = False
                        dk = ("decompress", sc["variant"], "A" if sc["adaptive"] else "S",
                              "+".join(sorted(d["f"] + ":" + d["v"] for d in sc["devs"])), want["res"], want["step"], cls)
                        drift.setdefault(dk, []).append(r["fam"])
        if recs and ok_all:
            matched += 1
    # binding canary: one corrupted expected verdict must surface as a disagreement
    probe = next((sc for sc in ordered if sc["id"] in mby and mby[sc["id"]]["faithful"]["res"] == "reject"
                  and not mby[sc["id"]]["faithful"]["maybe"]
                  and any(r.get("applied") and not r.get("trivial") for r in obs.get(sc["id"], []))), None)
    if probe is not None:
        seen = {obs_class(o) for r in obs[probe["id"]] if r.get("applied") for o in r["obs"] if o["ep"] == PRIMARY[probe["entry"]]}
        chk.canary("binding: corrupting the expected verdict of %s (reject -> accept) disagrees with the observation" % probe["id"],
                   "ok" not in seen and seen <= {"err"})
    chk.traces += matched
    chk.extra["scenarios"] = {"generated": len(s0), "replayed": len(obs), "faithful_prediction_matched": matched}
    for dk, fams in sorted(drift.items())[:40]:
        chk.note_drift("Faithful model (Fixed=%s) vs code: %s/%s/%s %s: model %s at %s, observed %s (%s)"
                       % (sorted(fixed), dk[0], dk[1], dk[2], dk[3], dk[4], dk[5], dk[6], ",".join(sorted(set(fams)))))
    chk.extra["drift_total"] = len(drift)
    with open(os.path.join(common.OUT, "c18_drift.json"), "w") as f:
        json.dump([list(k) + [sorted(set(v))] for k, v in sorted(drift.items())], f, indent=0)
    viol = {}

    def add_violation(key, detail, payload):
        if key not in viol:
            viol[key] = (detail, payload, 1)
        else:
            d, p, n = viol[key]
            viol[key] = (d, p, n + 1)

    for group in (sites, accepts):
        for site, lst in sorted(group.items(), key=lambda kv: str(kv[0])):
            lst.sort(key=lambda x: x[0])
            _, key, detail, payload = lst[0]
            others = []
            for x in lst[1:]:
                if x[1] != key and x[1] not in others:
                    others.append(x[1])
            payload = dict(payload, site=[str(t) for t in site], triggers=len(lst), other_triggering_malformations=others[:60])
            add_violation(key, detail, payload)

    log("[C18] verdicts done at %.0fs" % (__import__("time").time() - chk.t0))
    # ---- B3: value tampers of valid compressed proofs (defect 2)
    ct = [r for r in hres if r.get("kind") == "ctamper"]
    vt_sites = {}
    for r in ct:
        if r.get("kind") != "ctamper":
            continue
        chk.evaluations += 2
        if not r["same"]:
            chk.nontrivial += 2
        grp = ("opening" if r["what"].startswith("op.") else "cap" if r["what"] in ("wires_cap", "zs_cap", "quot_cap")
               else r["what"])
        for ep in ("verify_compressed", "decompress"):
            o = r[ep]
            if "panic" in o:
                key = "C18/%s/value-tamper/%s" % (ep, grp)
                if key not in vt_sites:
                    vt_sites[key] = {"case": r, "whats": [], "recipe": "valid compressed proof of family %s: %s := value + 1, then %s"
                                     % (r["fam"], r["path"], ep)}
                    add_violation(key, "%s panics on a value tamper of a valid compressed proof: %s at %s"
                                  % (ep, o["panic"][:100], o.get("loc")), vt_sites[key])
                if r["what"] not in vt_sites[key]["whats"]:
                    vt_sites[key]["whats"].append(r["what"])
        if r["verify_compressed"].get("ok") and not r["same"] and r["what"] != "indices":
            add_violation("C18/verify_compressed/value-tamper-accepted/%s" % r["what"], "tampered compressed proof accepted", {"case": r})
        if r["what"] == "indices" and not r["verify_compressed"].get("ok"):
            chk.note_drift("a change confined to `indices` is no longer ignored: %s" % json.dumps(r["verify_compressed"])[:150])
    chk.sample({"compressed_value_tamper": next((r for r in ct if r.get("kind") == "ctamper"), None)})
    # binding canary: the untampered proof through the tamper loop must be accepted and flagged "same"
    c0 = [r for r in hres if r.get("kind") == "ctamper-untampered"]
    chk.canary("binding: untampered compressed proofs through the tamper loop are accepted and recognised as unchanged",
               bool(c0) and all(r["same"] and r["verify_compressed"].get("ok") for r in c0))
    bad = dict(c0[0], same=False)
    chk.canary("binding: an accepted proof reported as changed would be flagged",
               bad["verify_compressed"].get("ok") and not bad["same"] and bad["what"] != "indices")

    log("[C18] ctamper done at %.0fs" % (__import__("time").time() - chk.t0))
    # ---- B4: byte level
    br = [r for r in hres if r.get("kind") in ("bytes", "layout-drift") or r.get("summary") == "bytes"]
    bstats = []
    b_sites = {}
    for r in br:
        if r.get("summary") == "bytes":
            bstats.append(r)
            chk.evaluations += r["cases"]
            chk.nontrivial += r["cases"] - r["decoded_equal"]
        elif r.get("kind") == "bytes":
            o = r["obs"]
            region = r["detail"].get("field") or r["detail"].get("region") or "any"
            region = {"index": "indices", "path-len": "query_rounds", "pi-len": "public_inputs"}.get(region, region)
            if "+" in r["ep"] and "panic" in o and "no entry found for key" in o["panic"]:
                region = "missing-key"      # the decoded proof is well-shaped; its recomputed indices miss the maps
            if "panic" in o:
                what = "bytes-alloc" if "ALLOC-GUARD" in o["panic"] else "bytes"
                key = "C18/%s/%s/%s" % (r["ep"], what, region)
                if key not in b_sites:
                    b_sites[key] = {"case": r, "mutations": [], "recipe": "to_bytes() of the valid %s proof of family %s, %s %s, then %s"
                                    % (r["form"], r["fam"], r["what"], json.dumps(r["detail"]), r["ep"])}
                    add_violation(key, "%s panics on a mutated %s encoding: %s at %s"
                                  % (r["ep"], r["form"], o["panic"][:100], o.get("loc")), b_sites[key])
                if r["what"] not in b_sites[key]["mutations"]:
                    b_sites[key]["mutations"].append(r["what"])
            elif r["extra"].get("accepted"):
                add_violation("C18/%s/bytes-accepted/%s" % (r["ep"], region), "a different proof decoded from mutated bytes is accepted", {"case": r})
        elif r.get("kind") == "layout-drift":
            chk.note_drift("byte layout of the harness disagrees with the encoder: %s" % json.dumps(r))
    chk.extra["bytes"] = bstats
    if bstats:
        chk.sample({"byte_fuzz_summary": bstats[0]})
    ident = [r for r in hres if r.get("kind") == "bytes-identity"]
    chk.canary("binding: the unmodified encodings decode to the valid proofs",
               bool(ident) and all(r["decoded_equal"] == 1 for r in ident))
    al = [r for r in hres if r.get("kind") == "alloc-selftest"]
    chk.canary("allocation guard turns a 1 TiB request into a caught panic", bool(al) and "ALLOC-GUARD" in al[-1]["obs"].get("panic", ""))

    # ---- report
    psites = {}
    for key, (detail, payload, n) in sorted(viol.items()):
        payload = dict(payload, how="bin/vcheck C18 --replay <this file>")
        chk.violation(key, detail, payload)
        m = re.search(r"panics[^:]*: (.*) at (\S+)$", detail)
        if m:
            psites.setdefault("%s | %s" % (m.group(2), re.sub(r"\d+", "#", m.group(1))[:60]), []).append(key)
    chk.extra["panic_sites"] = psites
    chk.extra["violation_keys"] = sorted(viol)
    write_report("C18", viol, os.path.join(common.OUT, "c18_findings_report.md"),
                 "model variant matching the code: Fixed = {%s}" % ", ".join(sorted(fixed)))
    chk.exhaustive = False


def write_report(prop, viol, path, header):
    """every violation key of this run with what fails and how to reproduce, plus a ready known_findings line"""
    with open(path, "w") as f:
        f.write("# %s findings of the last run (%d keys)\n\n%s\n\n" % (prop, len(viol), header))
        for key, (detail, payload, n) in sorted(viol.items()):
            recipe = payload.get("recipe") or payload.get("case", {}).get("path") or ""
            f.write("## %s\n- what: %s\n- occurrences in this run: %d\n- reproduce: %s\n" % (key, detail, payload.get("triggers", n), recipe))
            others = payload.get("other_triggering_malformations") or payload.get("whats") or payload.get("mutations")
            if others:
                f.write("- also triggered by: %s\n" % ", ".join(map(str, others[:30])))
            f.write("- known_findings line: `%s`\n\n" % json.dumps({"property": prop, "key": key, "status": "known", "what": detail[:220]}))
    combine_reports()


MARK = "<!-- C03 section (copied from out/c03_findings_report.md) -->"


def combine_reports():
    """out/c18_findings_report.md carries the C03 keys too (the lead writes known_findings.jsonl from it)"""
    p18 = os.path.join(common.OUT, "c18_findings_report.md")
    p03 = os.path.join(common.OUT, "c03_findings_report.md")
    if not (os.path.exists(p18) and os.path.exists(p03)):
        return
    head = open(p18).read().split(MARK)[0].rstrip() + "\n\n"
    with open(p18, "w") as f:
        f.write(head + MARK + "\n\n" + open(p03).read())


def replay(path):
    p = json.load(open(path))
    print(json.dumps(p, indent=1)[:2500])
    sc = p.get("scenario")
    if sc and not (sc["adaptive"] and sc["entry"] != "compressed"):
        one = os.path.join(common.OUT, "c18_replay.ndjson")
        common.write_ndjson(one, [sc])
        res = common.vh(["shapes", "--scen", one, "--fams", 6, "--threads", 1], binname="c18")
        bad = 0
        for r in res:
            if "id" in r and r.get("applied"):
                for o in r["obs"]:
                    flag = "panic" in o or (o.get("ok") and sc["ideal"] == "reject" and not r.get("trivial") and o["ep"].startswith("verify"))
                    bad += bool(flag)
                    print("observed %-22s %-18s %s" % (r["fam"], o["ep"], json.dumps({k: v for k, v in o.items() if k != "ep"})[:160]))
        print("specification (Ideal): %s; Faithful model: %s" % (sc["ideal"], json.dumps(sc["faithful"])))
        return 1 if bad else 0
    if sc:
        for r in common.vh(["adaptive"], binname="c18"):
            print(json.dumps(r)[:400])
        return 1
    case = p.get("case", {})
    if case.get("kind") == "ctamper":
        for r in common.vh(["ctamper", "--fams", 3], binname="c18"):
            if r.get("what") == case["what"] and r.get("fam") == case["fam"]:
                print("observed:", json.dumps(r)[:600])
                return 1 if ("panic" in r["verify_compressed"] or "panic" in r["decompress"]) else 0
    print("re-run `bin/vcheck C18` to reproduce byte-level cases (deterministic for VERIF_SEED)")
    return 1
