"""C07 — every value a gate computes is pinned by its constraints.
A: TLC on spec/Gates (via MCGates): per built-in gate a small-field transcription (F_5/F_7/F_13/F_17,
   extension X^2-7, Poseidon / Poseidon-MDS as small twins) of layout, generator, constraint list and
   declared counts; EXHAUSTIVE over the input rows of each case: (G1) the generated row satisfies
   all constraints, (G2) every generator-written / builder-filled wire replaced by ANY other field
   value makes some constraint non-zero, (G2s, small cases) the constraints have no second solution
   in the pinned wires at all, (G3) as many constraints as declared, layout roles disjoint and
   covering; (G4) degree by finite differences along lines, and exactness of the declared degree.
   Spec mutants (one constraint dropped / declared degree lowered) must be found.
B: the specification prints the catalogue (all real parameterisations, with num_wires / constants /
   constraints / degree, input wires with their admissible values, written / filled wires derived
   from its formulas); for every entry the harness builds the REAL gate, runs the gate's OWN
   generators on boundary-rich inputs, checks the honest row, every single-wire perturbation, the
   extension / base-batch(packed) / in-circuit evaluators against each other, the count and the
   degree.  Formula mismatches are DRIFT.
C: constraint vectors of the cheap gates on 64-bit inputs are validated by TLC against the gate
   definition over spec/GF limbs (spec/GateLogTrace)."""
import json
import os
import re
from concurrent.futures import ThreadPoolExecutor

import common
from common import ToolError, log

LEVEL = "model_checking"
BIN = "c07"

CANARIES = [
    ("ExpoOutput", "output = last intermediate value dropped (exponentiation)"),
    ("ExpoLastIntermediate", "last intermediate-value constraint dropped (exponentiation; found by joint uniqueness)"),
    ("RaBool", "boolean constraint of a random-access bit dropped (found by joint uniqueness)"),
    ("RaIndex", "index reconstruction dropped (random access)"),
    ("RaClaimed", "claimed-element constraint dropped (random access)"),
    ("BaseSumRange", "range product of a base-sum limb dropped (found by joint uniqueness)"),
    ("BaseSumSum", "sum constraint dropped (base sum)"),
    ("PoseidonOut", "an output constraint dropped (Poseidon twin)"),
    ("CosetValue", "evaluation-value constraint dropped (coset interpolation)"),
    ("ReducingAcc", "an accumulator constraint dropped (reducing)"),
    ("ArithOut", "the output constraint dropped (arithmetic)"),
    ("DegreeLowered", "declared degree lowered by one (coset interpolation, degree 3)"),
]


def _tlc(job):
    name, cfg, workers, timeout = job
    return name, common.tlc("MCGates", cfg=cfg, workers=workers, timeout=timeout, tag="c07-" + cfg)


def _gatelog(chk, path, name, workers=4, timeout=600):
    r = common.tlc("GateLogTrace", cfg="GateLogTrace", workers=workers, timeout=timeout, env={"TRACE": path}, tag=name)
    idx = None
    if not r.ok:
        for m in re.finditer(r"/\\ l = (\d+)", r.raw):
            idx = int(m.group(1))
    return r, idx


def _absorb(chk, res, how, cat_by_idx):
    """fold the per-entry result lines of the harness into the check"""
    summary = res[-1]
    assert summary.get("summary")
    kinds = {}
    for r in res[:-1]:
        k = r["gate"]["kind"]
        kinds.setdefault(k, {"entries": 0, "skipped": 0})
        kinds[k]["entries"] += 1
        if "skipped" in r:
            kinds[k]["skipped"] += 1
            continue
        for d in r.get("drift", []):
            chk.note_drift({"gate": r["gate"], "drift": d})
        for p in r.get("panics", []):
            chk.note_drift({"gate": r["gate"], "panic_in_code_under_test": p})
        for v in r.get("violations", []):
            chk.violation(v["key"], v.get("detail", ""), {"violation": v, "gate": r["gate"], "id": r.get("id"),
                                                         "idx": r.get("idx"), "entry": cat_by_idx.get(r.get("idx")), "how": how})
    return summary, kinds


CONFIGS = ("std-135/80", "routed37-135/37", "routed25-135/25", "nobase-135/80")
MUST_ALL_CONFIGS = ("poseidon", "mds", "arith", "arithext", "mulext", "ra", "reducing", "reducingext", "coset")


def _builder_config_guard(chk, res):
    """Vacuity guard of the builder-configuration dimension: circuit evaluators (and the builder helpers
    they call) branch on the CircuitConfig, so eval_unfiltered_circuit is compared with eval_unfiltered
    in circuits built under every configuration of CONFIGS; here it is checked that each configuration
    really was exercised for every gate and that the configuration-dependent branches were taken."""
    built = {c: 0 for c in CONFIGS}
    skips = []
    uses = {}
    for r in res[:-1]:
        for c in r.get("circuits", []):
            if "gates" in c:
                built[c["cfg"]] += 1
                uses.setdefault((r["gate"]["kind"], c["cfg"]), set()).update(c["gates"])
            else:
                skips.append({"gate": r["gate"], "cfg": c["cfg"], "why": c.get("skipped") or c.get("build_panic")})
    entries = len(res) - 1
    missing = [(k, c) for k in MUST_ALL_CONFIGS for c in CONFIGS if (k, c) not in uses]
    pos = {c: "PoseidonMdsGate" in uses.get(("poseidon", c), set()) for c in CONFIGS}
    base_arith = sorted({k for (k, c), gs in uses.items() if "ArithmeticGate" in gs})
    branches = {
        "PoseidonGate::eval_unfiltered_circuit use_mds_gate=true (naive partial rounds, PoseidonMdsGate rows)":
            pos["std-135/80"] and pos["nobase-135/80"],
        "PoseidonGate::eval_unfiltered_circuit use_mds_gate=false (fast partial rounds) and "
        "Poseidon::mds_layer_circuit inline rows (num_routed_wires < 24*D)":
            ("poseidon", "routed37-135/37") in uses and not pos["routed37-135/37"]
            and ("poseidon", "routed25-135/25") in uses and not pos["routed25-135/25"],
        "operations-per-gate packing of the arithmetic / extension gates at 80, 37 and 25 routed wires":
            all(built[c] > 0 for c in CONFIGS),
        "CircuitBuilder::arithmetic use_base_arithmetic_gate=false route (configuration exercised)":
            built["nobase-135/80"] > 0,
    }
    chk.extra["builder_configs"] = {
        "configs": list(CONFIGS), "circuits_built": built, "entries": entries, "skipped_pairs": skips[:40],
        "branches_covered": branches,
        "evaluators_that_place_a_base_ArithmeticGate": base_arith or
            "none: no circuit evaluator reaches CircuitBuilder::arithmetic, the use_base_arithmetic_gate branch is "
            "exercised as a configuration but is not taken by any gate evaluator in this tree",
    }
    chk.canary("in-circuit evaluators compared under every builder configuration for every catalogue gate "
               "(no pair skipped without a listed reason)",
               all(built[c] + sum(1 for s_ in skips if s_["cfg"] == c) == entries for c in CONFIGS)
               and not missing and sum(built.values()) >= 4 * entries - len(skips))
    for what, ok in branches.items():
        chk.canary("builder-configuration branch covered: " + what, ok)


def run(chk, tier):
    thorough = tier == "thorough"
    chk.rule = ("model: one state per (gate case, choice of constants / hash / generator inputs) of MCGates, every such "
                "row checked for G1/G2/G3 (G2 = all wires x all other field values), one state per (case, line) for the "
                "degree; implementation: one evaluation per (real gate, constants, row, evaluator); rows are the honest "
                "row produced by the gate's own generators on boundary-rich inputs, every single-wire perturbation of a "
                "generator-written or builder-filled wire, and random rows; a case is non-trivial if the gate has at "
                "least one constraint and (gate id, constants, hash, row) is distinct (counted with a hash set)")
    chk.assumptions = [
        "TLC and the community modules are correct",
        "small-field twins: F_5/F_7/F_13/F_17 with X^2-7, Poseidon (width<=4, x^3/x^5, synthetic constants, naive partial "
        "rounds) and Poseidon-MDS (width<=4) stand for the 12-wide originals in the model; the real gates are covered by "
        "the replay on Goldilocks values only (boundary-rich + random, not exhaustive)",
        "LookupGate / LookupTableGate declare no constraints: their generator-written wires are bound by the lookup "
        "argument (C08), not by C07's per-row criterion",
        "generator inputs are the admissible ones (boolean bits, index < size, sum < B^limbs, shift != 0); "
        "degenerate parameterisations (0 operations / bits / limbs) are probed for information only",
        "extension degree D = 2 (the only degree with a GenericConfig in the tree)",
    ]
    o = lambda n: os.path.join(common.OUT, n)

    # ---- A: model checking -------------------------------------------------------------------
    jobs = [("rows P=17 (base-field gates)", "MCGates_p17", 4, 900),
            ("rows P=5 (extension-field gates)", "MCGates_p5", 4, 900),
            ("rows P=5 (coset interpolation, Poseidon twin)", "MCGates_p5h", 4, 900),
            ("joint uniqueness P=5", "MCGates_uniq", 4, 900),
            ("degree along lines P=17 + catalogue", "MCGates_degcat", 3, 600)]
    if thorough:
        jobs += [("rows P=5 thorough", "MCGates_p5t", 6, 1700), ("rows P=7 thorough", "MCGates_p7t", 4, 1700),
                 ("rows P=13 thorough", "MCGates_p13t", 4, 1700), ("rows P=17 thorough", "MCGates_p17t", 6, 1700)]
    # quick: the three mutants named in the design + one per twin + the degree mutant
    quick_canaries = ("ExpoLastIntermediate", "RaBool", "BaseSumRange", "PoseidonOut", "CosetValue", "DegreeLowered")
    canaries = [c for c in CANARIES if thorough or c[0] in quick_canaries]
    cjobs = [("canary " + nm, "MCGates_canary_" + nm, 2, 600) for nm, _ in canaries]
    with ThreadPoolExecutor(max_workers=4) as ex:
        results = dict(ex.map(_tlc, jobs + cjobs))
    for name, _, _, _ in jobs:
        r = results[name]
        chk.add_tlc(name, r)
        if not r.ok:
            raise ToolError("specification Gates violates %s in '%s' (spec-level inconsistency):\n%s" % (
                r.violated, name, "\n".join(r.raw.splitlines()[-30:])))
    for nm, what in canaries:
        r = results["canary " + nm]
        chk.canary("spec-mutant found by TLC: %s" % what, r.violated is not None)
    chk.exhaustive = True

    # ---- B: catalogue -> real gates ----------------------------------------------------------
    cat = common.tagged(results["degree along lines P=17 + catalogue"].prints, "REPLAY")
    if len(cat) < 400:
        raise ToolError("MCGates printed only %d catalogue entries" % len(cat))
    # deterministic order (TLC's print order depends on worker scheduling)
    cat.sort(key=lambda e: json.dumps(e["gate"], sort_keys=True))
    common.write_ndjson(o("c07-cat.ndjson"), cat)
    cat_by_idx = dict(enumerate(cat))
    kinds_seen = sorted({e["gate"]["kind"] for e in cat})
    chk.extra["catalogue"] = {"entries": len(cat), "kinds": kinds_seen}
    chk.sample({"catalogue_entry": cat[len(cat) // 3]})
    rows = 12 if thorough else 4
    args = ["gates", "--cat", o("c07-cat.ndjson"), "--rows", rows, "--circuit-rows", 24 if thorough else 8,
            "--log", o("c07-gatelog.ndjson"), "--log-budget", 480 if thorough else 160]
    res = common.vh(args, binname=BIN, env={"RAYON_NUM_THREADS": "3"}, timeout=1500)
    summary, kinds = _absorb(chk, res, "vh c07 gates --cat <entry>", cat_by_idx)
    if any(v["skipped"] for v in kinds.values()):
        raise ToolError("harness skipped catalogue entries: %s" % kinds)
    if len(kinds) != 16:
        raise ToolError("harness covered %d gate kinds, expected 16" % len(kinds))
    chk.extra["replay"] = {"release": summary, "per_kind": kinds}
    _builder_config_guard(chk, res)
    chk.evaluations += summary["evaluations"] + summary["circuit_evals"]
    chk.nontrivial += summary["distinct_nontrivial"]
    chk.traces += summary["entries"]
    measured = {json.dumps(r["gate"], sort_keys=True): (r["declared"]["degree"], r["measured_degree"]) for r in res[:-1]}
    chk.extra["degree_below_declared"] = sorted(k for k, (d, m) in measured.items() if m < d)[:20]
    chk.sample({"gate_result": {k: v for k, v in res[len(res) // 2].items() if k != "written"}})
    flavours = ["avx2"] + (["avx512"] if thorough else [])
    for fl in flavours:     # packed evaluators with a real vector width
        resf = common.vh(args[:-4] + ["--no-circuit"], binname=BIN, flavour=fl, env={"RAYON_NUM_THREADS": "3"}, timeout=1500)
        sf, _ = _absorb(chk, resf, "vh c07 gates (flavour %s)" % fl, cat_by_idx)
        chk.extra["replay"][fl] = sf
        chk.evaluations += sf["evaluations"]
    # binding canary: a perturbed row reported as honest must be flagged
    can = common.vh(["gates", "--cat", o("c07-cat.ndjson"), "--rows", 2, "--no-circuit", "--sabotage", "--only", "ra"],
                    binname=BIN, env={"RAYON_NUM_THREADS": "3"})
    flagged = [r for r in can[:-1] if any(v["key"].startswith("C07/honest-row/") for v in r.get("violations", []))]
    chk.canary("a perturbed row passed off as the generators' row is flagged on every random-access gate",
               len(flagged) == len(can) - 1 and len(flagged) >= 50)
    edge = common.vh(["edge"], binname=BIN)[-1]["edge_probes"]
    chk.extra["edge_probes_informational"] = edge

    # ---- C: gate log validated by TLC against the definition over GF -------------------------
    logp = o("c07-gatelog.ndjson")
    events = common.read_ndjson(logp)
    if len(events) < 60:
        raise ToolError("gate log has only %d events" % len(events))
    for rep in range(4):
        r, idx = _gatelog(chk, logp, "c07-gatelog")
        chk.add_tlc("gate log of the real eval_unfiltered (%d events)" % len(events), r)
        if r.ok:
            chk.traces += 1
            break
        if idx is None or idx < 1 or idx > len(events):
            raise ToolError("TLC rejected the gate log but no event index was found:\n" + r.raw[-2000:])
        bad = events[idx - 1]
        chk.violation("C07/definition/" + bad["kind"], "the real constraint vector differs from the gate definition over GF",
                      {"event": bad, "spec": "spec/GateLogTrace.tla"})
        events = [e for e in events if e["kind"] != bad["kind"]]
        common.write_ndjson(logp, events)
    chk.evaluations += len(events)
    chk.extra["gate_log"] = {"events": len(events), "kinds": sorted({e["kind"] for e in events})}
    chk.sample({"gate_log_event": events[len(events) // 2]})
    # binding canary: one flipped constraint value must be rejected
    k = next(i for i, e in enumerate(events) if e["kind"] == "ra" and len(e["out"]) > 2)
    bad = json.loads(json.dumps(events[k]))
    bad["out"][len(bad["out"]) - 1][0] ^= 1
    canp = o("c07-gatelog-canary.ndjson")
    common.write_ndjson(canp, events[max(0, k - 5):k] + [bad] + events[k + 1:k + 6])
    r, _ = _gatelog(chk, canp, "c07-gatelog-canary", workers=2)
    chk.canary("one flipped bit in a recorded constraint value is rejected by TLC", r.violated is not None)


def replay(path):
    p = json.load(open(path))
    print(json.dumps({k: v for k, v in p.items() if k != "entry"}, indent=1)[:3000])
    if "event" in p:
        one = os.path.join(common.OUT, "c07-replay.ndjson")
        common.write_ndjson(one, [p["event"]])
        r = common.tlc("GateLogTrace", cfg="GateLogTrace", workers=1, timeout=300, env={"TRACE": one}, tag="c07-replay")
        print("TLC verdict on the recorded event:", "accepted" if r.ok else "REJECTED (%s)" % r.violated)
        return 0 if r.ok else 1
    if p.get("entry") is not None:
        one = os.path.join(common.OUT, "c07-replay-cat.ndjson")
        common.write_ndjson(one, [p["entry"]])
        res = common.vh(["gates", "--cat", one, "--rows", 12, "--circuit-rows", 16, "--idx-base", p.get("idx") or 0], binname=BIN)
        vs = res[0].get("violations", [])
        print(json.dumps(vs, indent=1)[:4000])
        return 1 if vs else 0
    return 1
